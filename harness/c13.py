"""C13 — EVSEs accept exactly their allowable pilots and advertise truthful limits."""
import fractions
from harness.core import q, z, coq_list, coq_bool, coq_opt, coq_str

PID = "C13"
GEN_GROUPS = ["Evse", "EvseZ"]
TARGETS = ["coq/Props/C13.vo", "coq/Model/EVSE.vo"]
CASES = {"quick": 900, "thorough": 20000}
CORR_HEADER = ("From Coq Require Import ZArith QArith List String.\n"
               "From ACN Require Import Base.Num Model.EVSE.\nImport ListNotations.\n"
               "Open Scope string_scope.\nOpen Scope Q_scope.\n")
CHECK_FN = "check_c13"
RULE = ("EVSE class x parameters x pilot placed at every decision boundary +- {0,1e-6,5e-4,0.999e-3,1.001e-3,2e-3} "
        "or random, with/without a connected EV; the station lives in a real ChargingNetwork + Simulator + Interface "
        "(20% of cases: the id was first registered with another EVSE; 30%: a look-alike sibling station of the same class "
        "with the same min/max is registered first; finite-rate EVSEs are built from a list object that the caller mutates "
        "afterwards; 20%: the EVSE went through to_json/from_json; 30% of the EV-less cases: the whole network did, with "
        "station T registered before S; limits include 0 (max_rate=0, deadband_end=0) and negative minima; half the cases "
        "send a second pilot, 30% go through ChargingNetwork.update_pilots, 25% probe a NaN pilot; pilot containers "
        "float/np.float64/int/np.float32); a newcomer is plugged in through the network around the occupant's nominal "
        "departure - another session, a deep copy of the occupant, or a fresh EV with the occupant's session id; "
        "non-trivial = distinct (class, params, pilot, has_ev); "
        "cases whose pilot is within 1e-9 of a decision threshold are skipped as float-ambiguous")
ASSUMPTIONS = ["theorems are over R (exact arithmetic); implementation computes pilot+-atol in doubles",
               "EVSE max_rate=inf (the constructor default) is represented by a large finite rate in the model runs"]
F = fractions.Fraction
BIG = 10.0 ** 12          # stands for max_rate=inf (the constructor default) on both sides
ATOL = F(1, 1000)
OFFS = [F(0), F(1, 10**6), F(5, 10**4), F(999, 10**6), F(1001, 10**6), F(2, 1000)]


def kind_coq(kind):
    if kind[0] == "C":
        return "(Continuous %s %s)" % (q(kind[1]), q(kind[2]))
    if kind[0] == "D":
        return "(Deadband %s %s)" % (q(kind[1]), q(kind[2]))
    return "(Finite %s)" % coq_list([q(r) for r in kind[1]])


def thresholds(kind):
    """pilot values at which the decision flips (exact rationals); BIG stands for inf: no threshold there"""
    return [t for t in _thresholds(kind) if t < F(BIG) / 2]


def _thresholds(kind):
    if kind[0] == "C":
        return [F(kind[1]) - ATOL, F(kind[2]) + ATOL]
    if kind[0] == "D":
        return [-ATOL, ATOL, F(kind[1]) - ATOL, F(kind[2]) + ATOL]
    out = []
    for r in list(kind[1]) + [0]:
        out += [F(r) - ATOL, F(r) + ATOL]
    return out


def fin(x):
    """inf (EVSE default max_rate) is represented by BIG on the model side"""
    x = float(x)
    return BIG if x == float("inf") else x


def make_evse(kind, variant=0):
    """variant selects legal-but-less-common ways of building the same station"""
    import numpy as np
    from acnportal.acnsim.models import EVSE, DeadbandEVSE, FiniteRatesEVSE
    if kind[0] == "C":
        if kind[2] >= BIG:
            evse = EVSE("S", min_rate=kind[1])          # default max_rate = inf
        elif variant % 3 == 1:
            evse = EVSE("S", max_rate=np.float64(kind[2]), min_rate=np.float64(kind[1]))
        else:
            evse = EVSE("S", max_rate=kind[2], min_rate=kind[1])
    elif kind[0] == "D":
        if kind[2] >= BIG:
            evse = DeadbandEVSE("S", deadband_end=kind[1])
        else:
            evse = DeadbandEVSE("S", deadband_end=kind[1], max_rate=kind[2])
    else:
        rates = list(kind[1])
        if variant % 4 == 1:
            arg = tuple(rates)
        elif variant % 4 == 2:
            arg = np.array(rates, dtype=float) if rates else []
        elif variant % 4 == 3 and all(float(r).is_integer() for r in rates):
            arg = [int(r) for r in rates]
        else:
            if variant % 8 < 4:
                # an already normalised list (0 first, strictly increasing) describing the same set
                rates = sorted(set(float(r) for r in rates) | {0.0})
            arg = rates
        evse = FiniteRatesEVSE("S", arg)
        # the caller goes on using its own list: the EVSE must not alias it
        if arg is rates:
            rates.append(123.0)
            if len(rates) > 1:
                rates.pop(0)
    if variant % 5 == 4:
        # a station that went through a JSON round trip must behave like the original
        evse = type(evse).from_json(evse.to_json())
    return evse


class _NullAlg:
    """minimal scheduler object accepted by Simulator (never run)"""
    max_recompute = None

    def register_interface(self, interface):
        self.interface = interface

    def run(self):
        return {}


def run_impl(kind, cur, has_ev, pilot, voltage, period, newcomer_offset=0, rereg=False, sibling=False,
             variant=0, pilot2=None, via_network=False, ptype=0, nan_probe=False, reload_net=False,
             newcomer_kind=0):
    from datetime import datetime
    from acnportal.acnsim.models import EV, Battery
    from acnportal.acnsim.models.evse import InvalidRateError, StationOccupiedError
    from acnportal.acnsim.network import ChargingNetwork
    from acnportal.acnsim import Simulator, Interface, EventQueue
    import numpy as np
    evse = make_evse(kind, variant)
    net = ChargingNetwork()
    if rereg:
        # the station id was first registered with another EVSE; what schedulers are told must
        # follow the EVSE that is registered last
        from acnportal.acnsim.models import EVSE as _EVSE, FiniteRatesEVSE as _FR
        other = _EVSE("S", max_rate=80, min_rate=2) if kind[0] != "C" else _FR("S", [4, 48])
        net.register_evse(other, 240, 30)
    if sibling:
        # a look-alike station (same class, same smallest positive rate and same maximum, other
        # interior values) registered first: what is advertised for "S" must still be S's own table
        from acnportal.acnsim.models import DeadbandEVSE as _DB, FiniteRatesEVSE as _FR2, EVSE as _EV2
        if kind[0] == "F":
            pos = sorted(set(float(r) for r in kind[1] if r > 0))
            if len(pos) >= 2:
                mid = (pos[0] + pos[-1]) / 2.0 + 0.125
                sib = _FR2("T", [pos[0], mid, pos[-1]])
            else:
                sib = _FR2("T", list(kind[1]) + [0])
        elif kind[0] == "D":
            sib = _DB("T", deadband_end=kind[1] / 2.0 + 0.25, max_rate=kind[2])
        else:
            sib = _EV2("T", max_rate=kind[2], min_rate=kind[1])
        net.register_evse(sib, voltage, 0)
    net.register_evse(evse, voltage, 0)
    calls = []
    ev = None
    if has_ev:
        ev = EV(0, 10, 50, "S", "sess", Battery(100, 0, 100))
        orig = ev.charge
        ev.charge = lambda *a: (calls.append([float(x) for x in a]), orig(*a))[1]
        net.plugin(ev)
    evse._current_pilot = cur
    before = (ev.energy_delivered, ev._battery._current_charge) if ev else None
    def send(p):
        """one pilot to station S, either directly or through ChargingNetwork.update_pilots"""
        pv = [p, np.float64(p), (int(p) if float(p).is_integer() else p), np.float32(p) if float(np.float32(p)) == p else p][ptype % 4]
        e = None
        try:
            if via_network:
                col = np.zeros((len(net.station_ids), 1))
                # other stations keep the pilot they already have (0 for a fresh sibling)
                for j, sid in enumerate(net.station_ids):
                    col[j, 0] = pv if sid == "S" else net._EVSEs[sid].current_pilot
                net.update_pilots(col, 0, period)
            else:
                evse.set_pilot(pv, voltage, period)
        except InvalidRateError:
            e = "InvalidRateError"
        except Exception as ex:  # noqa
            e = type(ex).__name__
        return e

    err = send(pilot)
    after = (ev.energy_delivered, ev._battery._current_charge) if ev else None
    out = dict(accepted=err is None, error=err, current_pilot=float(evse.current_pilot), charge_calls=list(calls),
               ev_touched=(before != after))
    if pilot2 is not None:
        n0 = len(calls)
        mid = (ev.energy_delivered, ev._battery._current_charge) if ev else None
        err2 = send(pilot2)
        end = (ev.energy_delivered, ev._battery._current_charge) if ev else None
        out.update(accepted2=err2 is None, error2=err2, current_pilot2=float(evse.current_pilot),
                   charge_calls2=calls[n0:], ev_touched2=(mid != end))
    # NaN is never an allowable pilot: it must be rejected without touching anything
    if nan_probe:
        nb = (float(evse.current_pilot), list(calls), (ev.energy_delivered, ev._battery._current_charge) if ev else None)
        nerr = send(float("nan"))
        na = (float(evse.current_pilot), list(calls), (ev.energy_delivered, ev._battery._current_charge) if ev else None)
        out["nan_rejected"] = (nerr == "InvalidRateError")
        out["nan_untouched"] = (str(nb) == str(na))
    # what schedulers are told: through the network info store and the Interface; for a share of
    # the cases on a network that went through to_json/from_json (station "T" is registered
    # before "S", i.e. not in lexicographic order)
    if reload_net and ev is None:
        net = ChargingNetwork.from_json(net.to_json())
        evse = net._EVSEs["S"]
    sim = Simulator(net, _NullAlg(), EventQueue(), datetime(2020, 1, 1), period=period, verbose=False)
    iface = Interface(sim)
    info = iface.infrastructure_info()
    si = info.get_station_index("S")
    cont, allow = iface.allowable_pilot_signals("S")
    out.update(max=fin(iface.max_pilot_signal("S")), min=fin(iface.min_pilot_signal("S")),
               allow=[fin(x) for x in allow], is_cont=bool(cont))
    adv = [evse.max_rate, evse.min_rate] + list(evse.allowable_pilot_signals) + \
          [float(info.max_pilot[si]), float(info.min_pilot[si])] + [float(x) for x in info.allowable_pilots[si]]
    adv = [a for a in adv if a != float("inf")]
    out["advertised_accepted"] = [bool(evse._valid_rate(a)) for a in adv]
    out["iface_matches_evse"] = (out["max"] == fin(evse.max_rate) and out["min"] == fin(evse.min_rate)
                                 and out["allow"] == [fin(x) for x in evse.allowable_pilot_signals]
                                 and fin(info.max_pilot[si]) == out["max"] and fin(info.min_pilot[si]) == out["min"]
                                 and [fin(x) for x in info.allowable_pilots[si]] == out["allow"])
    # a newcomer arriving around the occupant's nominal departure, plugged in through the network
    # newcomer_kind 1: a deep copy of the occupant (what Simulator.get_active_evs hands out), 2: a fresh EV
    # object carrying the occupant's session id -- an occupied station refuses those as well
    if ev is not None and newcomer_kind == 1:
        import copy
        del ev.charge
        ev2 = copy.deepcopy(ev)
    elif ev is not None and newcomer_kind == 2:
        ev2 = EV(10 + newcomer_offset, 30 + newcomer_offset, 50, "S", "sess", Battery(100, 0, 100))
    else:
        ev2 = EV(10 + newcomer_offset, 30 + newcomer_offset, 50, "S", "sess2", Battery(100, 0, 100))
    occ_before = (ev.energy_delivered, ev._battery._current_charge) if ev else None
    perr = None
    pilot_before = float(evse.current_pilot)
    try:
        net.plugin(ev2)
    except StationOccupiedError:
        perr = "StationOccupiedError"
    except Exception as e:  # noqa
        perr = type(e).__name__
    out["plugin_err"] = perr
    out["ev_after_plugin"] = None if evse.ev is None else (7 if evse.ev is ev else 99)
    out["pilot_kept_on_refusal"] = (perr is None) or (float(evse.current_pilot) == pilot_before and
                                                       (ev is None or occ_before == (ev.energy_delivered, ev._battery._current_charge)))
    # the advertised maximum (inf for an unbounded EVSE) must be accepted when the NETWORK applies it
    try:
        col = np.zeros((len(net.station_ids), 1))
        for j, sid in enumerate(net.station_ids):
            col[j, 0] = iface.max_pilot_signal("S") if sid == "S" else net._EVSEs[sid].current_pilot
        net.update_pilots(col, 0, period)
        out["adv_max_via_network"] = None
    except Exception as e:  # noqa
        out["adv_max_via_network"] = type(e).__name__
    ev3 = EV(0, 10, 50, "nowhere", "sess3", Battery(100, 0, 100))
    try:
        net.plugin(ev3)
        out["unknown_station_err"] = None
    except Exception as e:  # noqa
        out["unknown_station_err"] = type(e).__name__
    return out


def rand_kind(rng):
    t = rng.random()
    grid = [0, 1, 6, 8, 16, 24, 32, 40, 64]
    if t < 0.3:
        mn = rng.choice([0, 0, 1, 6, 8, 5.5, -16, -6.5])
        mx = rng.choice([16, 32, 32, 40, 80, 6, 8, BIG, 0])
        if rng.random() < 0.9 and mn > mx:
            mn, mx = mx, mn
        return ("C", mn, mx)
    if t < 0.6:
        de = rng.choice([6, 6, 8, 1, 0.5, 12, 0])
        mx = rng.choice([16, 32, 32, 40, 80, 6, 8, BIG, 0])
        if rng.random() < 0.9 and de > mx:
            de, mx = mx, de
        return ("D", de, mx)
    n = rng.randint(0, 6)
    rates = [rng.choice(grid + [6.5, 7.25, 12.125]) for _ in range(n)]
    if rng.random() < 0.15:
        # bidirectional / discharge levels, with or without an explicit 0
        rates = [rng.choice([-16, -8, -6, -12.5]) for _ in range(rng.randint(1, 3))] + [r for r in rates if r != 0 or rng.random() < 0.3]
    if rng.random() < 0.3:
        rates = rates + rates[:2]          # duplicates
    rng.shuffle(rates)
    return ("F", tuple(rates))


def gen_cases(rng, n, tier):
    cases = []
    seen_corpus = False
    while len(cases) < n:
        kind = rand_kind(rng)
        ths = thresholds(kind)
        for _ in range(6):
            if rng.random() < 0.75 and ths:
                base = rng.choice(ths)
                pilot = float(base + rng.choice([1, -1]) * (rng.choice(OFFS[1:]) if rng.random() < 0.92 else OFFS[0]))
            else:
                pilot = rng.choice([rng.uniform(-2, 70), float(rng.randint(-1, 64)), rng.randint(0, 40)])
            has_ev = rng.random() < 0.5
            cur = float(rng.choice([0, 6, 16, 32]))
            voltage = rng.choice([120, 208, 240, 277])
            period = rng.choice([1, 5, 15])
            amb = any(abs(F(pilot) - t) < F(1, 10**9) for t in ths)
            off = rng.choice([-5, -1, 0, 0, 1, 5])
            rereg = rng.random() < 0.2
            sibling = rng.random() < 0.3
            variant = rng.randint(0, 19)
            via_network = (not sibling) and rng.random() < 0.3    # a sibling may not accept the 0 A it would be sent
            ptype = rng.randint(0, 3)
            pilot2 = None
            if rng.random() < 0.5:
                if rng.random() < 0.6 and ths:
                    pilot2 = float(rng.choice(ths) + rng.choice([1, -1]) * (rng.choice(OFFS[1:]) if rng.random() < 0.92 else OFFS[0]))
                else:
                    pilot2 = float(rng.choice([0, 6, 8, 16, 32, 33, -1, rng.uniform(-2, 70)]))
            amb = amb or (pilot2 is not None and any(abs(F(pilot2) - t) < F(1, 10**9) for t in ths))
            nan_probe = rng.random() < 0.25
            reload_net = rng.random() < 0.3
            newcomer_kind = rng.choice([0, 0, 1, 2])
            impl = run_impl(kind, cur, has_ev, pilot, voltage, period, off, rereg, sibling, variant, pilot2, via_network, ptype, nan_probe, reload_net, newcomer_kind)
            p2_coq = "None" if pilot2 is None else "(Some %s)" % q(pilot2)
            coq = ("{| c_kind := %s; c_cur := %s; c_ev := %s; c_pilot := %s; c_voltage := %s; c_period := %s;\n"
                   "   i_accepted := %s; i_error := %s; i_current_pilot := %s; i_charge_calls := %s;\n"
                   "   i_max := %s; i_min := %s; i_allow := %s; i_is_cont := %s; i_plugin_err := %s; i_ev_after_plugin := %s;\n"
                   "   c_pilot2 := %s; i_accepted2 := %s; i_error2 := %s; i_current_pilot2 := %s; i_charge_calls2 := %s |}") % (
                kind_coq(kind), q(cur), "(Some 7%Z)" if has_ev else "None", q(pilot), q(voltage), q(period),
                coq_bool(impl["accepted"]), coq_opt(impl["error"], coq_str), q(impl["current_pilot"]),
                coq_list([coq_list([q(x) for x in c]) for c in impl["charge_calls"]]),
                q(impl["max"]), q(impl["min"]), coq_list([q(x) for x in impl["allow"]]), coq_bool(impl["is_cont"]),
                coq_opt(impl["plugin_err"], coq_str), coq_opt(impl["ev_after_plugin"], lambda v: "%d%%Z" % v),
                p2_coq, coq_bool(impl.get("accepted2", True)), coq_opt(impl.get("error2"), coq_str),
                q(impl.get("current_pilot2", 0)),
                coq_list([coq_list([q(x) for x in c]) for c in impl.get("charge_calls2", [])]))
            inp = dict(kind=kind, cur=cur, has_ev=has_ev, pilot=pilot, voltage=voltage, period=period, newcomer_offset=off, rereg=rereg, sibling=sibling,
                       variant=variant, pilot2=pilot2, via_network=via_network, ptype=ptype,
                       nan_probe=nan_probe, reload_net=reload_net, newcomer_kind=newcomer_kind)
            cases.append(dict(input=inp, impl=impl, coq=coq, ambiguous=amb, kind="%s/%s" % (kind[0], "ev" if has_ev else "noev"),
                              sig=[kind, pilot, has_ev], nontrivial=True))
    return cases[:n]


def monitor(case):
    """implementation-level statement of C13 on one case (used only to find failing inputs)"""
    i, inp = case["impl"], case["input"]
    if case.get("ambiguous"):
        return None
    kind, p = inp["kind"], F(inp["pilot"])
    if kind[0] == "C":
        want = F(kind[1]) - ATOL <= p <= F(kind[2]) + ATOL
        ordered = kind[1] <= kind[2]
    elif kind[0] == "D":
        want = abs(p) <= ATOL or (F(kind[1]) - ATOL <= p <= F(kind[2]) + ATOL)
        ordered = kind[1] <= kind[2]
    else:
        want = any(abs(p - F(r)) <= ATOL for r in list(kind[1]) + [0])
        ordered = True
    if i["accepted"] != want:
        return "pilot %r %s although it is %s the allowable set" % (inp["pilot"], "accepted" if i["accepted"] else "rejected",
                                                                  "outside" if not want else "inside")
    if not i["accepted"]:
        if i["error"] != "InvalidRateError":
            return "rejected pilot raised %s" % i["error"]
        if i["current_pilot"] != inp["cur"] or i["charge_calls"] or i["ev_touched"]:
            return "rejected pilot changed state"
    if inp.get("pilot2") is not None:
        p2 = F(inp["pilot2"])
        if kind[0] == "C":
            want2 = F(kind[1]) - ATOL <= p2 <= F(kind[2]) + ATOL
        elif kind[0] == "D":
            want2 = abs(p2) <= ATOL or (F(kind[1]) - ATOL <= p2 <= F(kind[2]) + ATOL)
        else:
            want2 = any(abs(p2 - F(r)) <= ATOL for r in list(kind[1]) + [0])
        if i["accepted2"] != want2:
            return "second pilot %r %s although it is %s the allowable set" % (
                inp["pilot2"], "accepted" if i["accepted2"] else "rejected", "outside" if not want2 else "inside")
        if not i["accepted2"]:
            if i["error2"] != "InvalidRateError":
                return "rejected second pilot raised %s" % i["error2"]
            if i["current_pilot2"] != i["current_pilot"] or i["charge_calls2"] or i["ev_touched2"]:
                return "rejected second pilot changed state (station pilot %r -> %r)" % (i["current_pilot"], i["current_pilot2"])
    if "nan_rejected" in i and not (i["nan_rejected"] and i["nan_untouched"]):
        return "a NaN pilot was %s" % ("accepted" if not i["nan_rejected"] else "rejected but state changed")
    if ordered and not all(i["advertised_accepted"]):
        return "an advertised value is not accepted"
    if ordered and not inp.get("sibling") and i.get("adv_max_via_network") is not None:
        return "the advertised maximum pilot is rejected when applied through the network (%s)" % i["adv_max_via_network"]
    if not i["iface_matches_evse"]:
        return "Interface / infrastructure info advertise other limits than the EVSE has"
    if i["unknown_station_err"] != "KeyError":
        return "plugin at an unregistered station gave %s" % i["unknown_station_err"]
    if inp["has_ev"] and (i["plugin_err"] != "StationOccupiedError" or i["ev_after_plugin"] != 7
                          or not i["pilot_kept_on_refusal"]):
        return "plugin into occupied station not refused / occupant replaced"
    return None


def search(rng, budget_s, broken):
    import time
    t0 = time.time()
    while time.time() - t0 < budget_s:
        for c in gen_cases(rng, 200, "quick"):
            r = monitor(c)
            if r:
                return dict(case=c["input"], impl=c["impl"], why=r)
    return None


def replay(w):
    inp = w["case"]
    kind = tuple(tuple(x) if isinstance(x, list) else x for x in inp["kind"])
    impl = run_impl(kind, inp["cur"], inp["has_ev"], inp["pilot"], inp["voltage"], inp["period"], inp.get("newcomer_offset", 0), inp.get("rereg", False), inp.get("sibling", False),
                    inp.get("variant", 0), inp.get("pilot2"), inp.get("via_network", False), inp.get("ptype", 0),
                    inp.get("nan_probe", False), inp.get("reload_net", False), inp.get("newcomer_kind", 0))
    return monitor(dict(input=dict(inp, kind=kind), impl=impl))
