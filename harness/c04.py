"""C04 — applied pilots are exactly what the submitted schedules say.

Correspondence: the REAL acnportal Simulator (from $ACN_REPO) is driven by a scripted BaseAlgorithm;
the model (coq/Model/Pilots.v) is run by coqc on the same submissions and the recorded
`event_queue.get_last_timestamp()` of every period; observables compared: the full pilot_signals
matrix (incl. its width), _iteration, the exception class that ended run() and the pilots seen at
every EVSE after every period.  Three more streams call Simulator._update_schedules and
simulator._increase_width directly: on single prepared states (boundary widths, drained queue,
malformed mappings), in interleaved call sequences on several live simulators (stream seq), and
_increase_width alone.  The monitors restate C04 directly on the implementation's recorded behaviour
with an independent Python version of pilot_spec.

Scenario families of the cross-cutting checklist that are part of the quick budget (see RULE):
object reuse (one algorithm object driving two simulations; one simulator / one network driven through
many calls), several live simulators interleaved (nested runs; alternating direct calls), caller-owned
arguments mutated after the call / checked untouched by the call / one dict object reused, JSON round
trips mid-run and at the end, station ids whose lexicographic order differs from registration order
(S-9, S-10, mixed case, numeric-looking, "" and "0"), unusual periods / voltages / max_recompute 0,
interruption by Exception and BaseException subclasses followed by run() again (with or without a JSON
round trip, same or fresh scheduler object), dtypes (tuples, int32 / float16 / int arrays, mixed), a second
process with another PYTHONHASHSEED, and every entry point that reports pilots (pilot_signals,
pilot_signals_as_df, to_json, EVSE.current_pilot, the pilot handed to EV.charge,
Interface.last_applied_pilot_signals)."""
import copy
import fractions
import json
import os
import random
import subprocess
import sys
import time
import warnings
import zlib
from datetime import datetime

from harness.core import q, z, zlit, coq_list, coq_bool, coq_opt, coq_str

PID = "C04"
GEN_GROUPS = ["Pilots"]
TARGETS = ["coq/Props/C04.vo", "coq/Model/Pilots.vo"]
CASES = {"quick": 240, "thorough": 4500}
SHARD = 100
CORR_HEADER = ("From Coq Require Import ZArith QArith List String.\n"
               "From ACN Require Import Base.Num Model.Pilots.\nImport ListNotations.\n"
               "Open Scope string_scope.\nOpen Scope Z_scope.\nOpen Scope Q_scope.\n")
CHECK_FN = "check_c04"
RULE = ("stream run: 7 fixed corpus scenarios (incl. the witness of the defect fixed in afd41a2 and rejected schedules with store_schedule_history=True), then 0-5 EVSEs "
        "(wide range or default) registered in shuffled order under one of five naming styles (zero-padded, S-9/S-10, "
        "mixed case, numeric-looking, falsy '' and '0'), heterogeneous voltages, period in {1,5,7,0.5,2.5}, random "
        "non-overlapping sessions + Recompute events over a horizon of 1-30 periods, max_recompute in {None,0,1,2,3,5}, store_schedule_history on in half of the runs (schedule_history is an observable: periods compared with the model, contents by the monitor); "
        "at every scheduler call a scripted submission: random subset of stations in shuffled dict order, length 1-12 / "
        "up to the horizon / beyond it / long in the queue-draining period / all-zero / constant / with float('inf') entries on EVSEs with the default max_rate=inf (any station in the direct-call streams), empty dict, rows as "
        "int / float / numpy.float64 / float32 lists, tuples, numpy arrays (float64, float16, int64, int32) or mixed, "
        "occasionally an unknown station or ragged rows (incl. length-1 rows after long ones).  Variants (fractions of the "
        "budget): the scheduler mutates / reuses the objects it returned earlier; the scheduler raises an Exception or "
        "BaseException subclass at some calls and run() is called again, optionally through to_json/from_json with the "
        "same or a fresh scheduler object; one algorithm object drives two simulations one after the other; a second "
        "simulation runs to completion inside a scheduler call of the first; a few scenarios are re-executed in a second "
        "process with another PYTHONHASHSEED.  stream upd: _update_schedules called directly on a prepared simulator "
        "(width on both sides of iteration+length, drained or non-empty queue, well-formed / empty / unknown-station / "
        "ragged / both).  stream seq: 2-3 live simulators (optionally sharing one network object) driven alternately "
        "through sequences of _update_schedules at non-monotone iterations, _increase_width, queue changes, constraint "
        "additions, with the caller mutating / reusing its argument objects.  stream incw: _increase_width on random "
        "matrices with targets around the width.  distinct = distinct (stations, events, submissions) tuples; "
        "non-trivial = at least one non-empty submission")
ASSUMPTIONS = [
    "EVSEs accept the pilots that are sent (EVSE(max_rate=1e9 or inf, min_rate=0), non-negative pilots); EVSE acceptance is C13",
    "the event queue enters the pilot logic only through get_last_timestamp()/empty() of each period, which the "
    "harness records from the real EventQueue and passes to the model as an input (the theorems quantify over all "
    "such values); empty() <-> get_last_timestamp() is None",
    "values are copied, never computed: ints, floats and numpy scalars are compared as exact rationals",
    "event timestamps are >= -1 (numpy refuses a negative width in Simulator.__init__)",
    "JSON round trips are exercised on networks with at least one station (a station-less simulator reloads with a 1-D "
    "pilot matrix; reported, outside C04)",
]
TRUSTED_EXTRA = ["numpy block assignment a[:, lo:hi] = M and np.array densification as modelled by write_block/dense "
                 "(validated by the correspondence only)"]
F = fractions.Fraction
BIG = 1e9
INF = float("inf")
_core_q = q
INF_Q = "INFQ"      # Model/Pilots.v: 2^1100; stands for float('inf') in the Q instance (values are only copied, never computed)


def q(x):  # noqa: F811
    """exact rational literal; +inf (a legal pilot on an EVSE with the default max_rate=inf) is a reserved rational
    larger than every double"""
    x = float(x)
    if x == INF:
        return INF_Q
    return _core_q(x)


_INF_OK = set()      # station names that may be given an infinite pilot in the scenario being generated


def set_inf_ok(names):
    global _INF_OK
    _INF_OK = set(names)
ROOT = os.path.dirname(os.path.dirname(os.path.abspath(__file__)))


# ---------------------------------------------------------------------------------------------
# station names: a per-case bijection number <-> id string (the model works on the numbers)
# ---------------------------------------------------------------------------------------------
_NAMES = {}
_INV = {}


def set_names(pairs):
    global _NAMES, _INV
    _NAMES = {int(n): s for n, s in (pairs or [])}
    _INV = {s: n for n, s in _NAMES.items()}


def name_of(num):
    return _NAMES.get(num, "PS-%03d" % num)


def num_of(name):
    if name in _INV:
        return _INV[name]
    return enc_station(name)


def enc_station(name):
    if name in _INV:
        return _INV[name]
    if not _NAMES and name.startswith("PS-") and name[3:].isdigit():
        return int(name[3:])
    return 100000 + zlib.crc32(name.encode()) % 800000


def rand_names(rng, pool, style=None):
    if style is None:
        style = rng.choice([0, 0, 1, 1, 2, 3, 4])
    out = []
    for i, n in enumerate(pool):
        if style == 0:
            s = "PS-%03d" % n
        elif style == 1:
            s = "S-%d" % n                         # S-9 < S-10 numerically, S-10 < S-9 lexicographically
        elif style == 2:
            s = ["s-%d", "S-%d", "Ab-%d", "aB-%d"][n % 4] % n
        elif style == 3:
            s = "%d" % n                           # numeric-looking
        else:
            s = ["", "0", "None", "False"][i] if i < 4 else "st %d" % n      # falsy / odd ids
        out.append([n, s])
    return out


def rand_pool(rng, n):
    if rng.random() < 0.5:
        return rng.sample(range(7, 14), min(n, 7))      # 9, 10, 11 ... next to each other
    return rng.sample(range(1, 60), n)


# ---------------------------------------------------------------------------------------------
# building python objects from json-able descriptions
# ---------------------------------------------------------------------------------------------
def build_row(row):
    """row = dict(kind=..., vals=[float,...]) -> python object handed to the simulator"""
    import numpy as np
    kind, vals = row["kind"], row["vals"]
    if kind == "int":
        return [int(v) for v in vals]
    if kind == "float":
        return [float(v) for v in vals]
    if kind == "tuple":
        return tuple(float(v) for v in vals)
    if kind == "np64":
        return [np.float64(v) for v in vals]
    if kind == "np32":
        return [np.float32(v) for v in vals]          # vals are float32-representable (see rand_vals)
    if kind == "array":
        return np.array([float(v) for v in vals])
    if kind == "f16array":
        return np.array([float(v) for v in vals], dtype=np.float16)     # vals are multiples of 0.25 below 128
    if kind == "intarray":
        return np.array([int(v) for v in vals], dtype=int)
    if kind == "int32array":
        return np.array([int(v) for v in vals], dtype=np.int32)
    # mixed element types
    out = []
    for i, v in enumerate(vals):
        out.append([int(v) if float(v).is_integer() else float(v), float(v), np.float64(v)][i % 3])
    return out


def build_sched(sub, into=None):
    """sub = list of dict(station=<name>, kind, vals) in dict insertion order"""
    d = {} if into is None else into
    d.clear()
    for row in sub:
        d[row["station"]] = build_row(row)
    return d


def snapshot(d):
    """deep, comparable copy of a schedule mapping handed to the simulator"""
    return [(k, type(v).__name__, [float(x) for x in v]) for k, v in d.items()]


def scribble(d):
    """what a caller may do with ITS objects after the call: overwrite the rows, then the mapping"""
    import numpy as np
    for k in list(d):
        v = d[k]
        try:
            if isinstance(v, np.ndarray):
                v[...] = 99
            elif isinstance(v, list):
                v[:] = [777.0] * (len(v) + 1)
        except Exception:  # noqa
            pass
    d["ghost-after-the-call"] = [1, 2, 3]


def rand_vals(rng, kind, length):
    if kind in ("int", "intarray", "int32array"):
        return [float(rng.choice([0, 0, 6, 8, 16, 32, rng.randint(0, 80)])) for _ in range(length)]
    if kind == "f16array":
        return [rng.randint(0, 256) / 4.0 for _ in range(length)]
    vals = [rng.choice([0.0, 6.0, 16.0, 32.0, 7.5, 12.125, 0.5, round(rng.uniform(0, 64), 3), rng.uniform(0, 64)])
            for _ in range(length)]
    if kind == "np32":
        import numpy as np
        vals = [float(np.float32(v)) for v in vals]
    return vals


KINDS = ["int", "float", "np64", "np32", "array", "intarray", "mix", "tuple", "f16array", "int32array"]


def rand_submission(rng, station_nums, it, width, drained, malformed=None):
    """a json-able submission for a call at iteration `it` (current matrix width `width`)"""
    r = rng.random()
    if malformed is None and r < 0.08:
        return []                                    # empty dict
    remaining = max(width - it, 0)
    c = rng.random()
    if drained and rng.random() < 0.7:
        length = rng.choice([1, 2, 3, rng.randint(2, 12), remaining + rng.randint(1, 6)])
    elif c < 0.45:
        length = rng.randint(1, 12)
    elif c < 0.6:
        length = max(1, remaining)                  # exactly to the end of the allocated matrix
    elif c < 0.7:
        length = max(1, remaining + rng.choice([-1, 1]))
    elif c < 0.85:
        length = remaining + rng.randint(1, 8)      # beyond the horizon
    elif c < 0.88:
        length = 0                                  # rows of length zero (outside the property, still modelled)
    else:
        length = 1
    nums = list(station_nums)
    rng.shuffle(nums)
    if nums:
        k = rng.choice([len(nums), len(nums), rng.randint(1, len(nums)), 1])
        nums = nums[:k]
    flavour = rng.random()          # all-zero and constant schedules overwrite like any other
    sub = []
    for n in nums:
        kind = rng.choice(KINDS)
        vals = rand_vals(rng, kind, length)
        if flavour < 0.08:
            vals = [0.0] * length
        elif flavour < 0.16:
            vals = [rng.choice([6.0, 16.0, 32.0])] * length
        if name_of(n) in _INF_OK and kind not in ("int", "intarray", "int32array") and vals and rng.random() < 0.3:
            vals = list(vals)
            for j in range(len(vals)):
                if rng.random() < 0.5:
                    vals[j] = INF                   # unbounded EVSE: "as much as you can"
        sub.append(dict(station=name_of(n), kind=kind, vals=vals))
    if malformed in ("unknown", "both") or (not station_nums and malformed is None and rng.random() < 0.4):
        kind = rng.choice(KINDS)
        known = {name_of(n) for n in station_nums}
        cands = [c for c in ["PS-999", "ghost", name_of(max(list(station_nums) + [0]) + 1),
                             (name_of(nums[0]) + " ") if nums else "x", (name_of(nums[0]).lower() + "_") if nums else "y"]
                 if c not in known]
        bad = dict(station=rng.choice(cands), kind=kind, vals=rand_vals(rng, kind, length))
        sub.insert(rng.randint(0, len(sub)), bad)
    if malformed in ("ragged", "both"):
        if len(sub) < 2:
            if len(station_nums) >= 2 and len(sub) == 1:
                other = [n for n in station_nums if name_of(n) != sub[0]["station"]][0]
                sub.append(dict(station=name_of(other), kind="float", vals=rand_vals(rng, "float", length)))
            else:
                return rand_submission(rng, station_nums, it, width, drained, "unknown")
        j = rng.randrange(len(sub))
        row = sub[j]
        newlen = max(0, length + rng.choice([-1, 1, 2, -length]))
        if length > 1 and rng.random() < 0.35:
            newlen = 1                               # a row numpy would happily broadcast
        if newlen == length:
            newlen = length + 1
        if row["kind"] in ("array", "intarray", "f16array", "int32array", "tuple"):
            row["kind"] = "float"                   # keep np.array(list-of-rows) out of numpy's ragged path
        row["vals"] = rand_vals(rng, row["kind"], newlen)
        if rng.random() < 0.5:
            sub.append(sub.pop(j))                  # the odd row last (long rows first)
    return sub


def sub_coq(sub):
    return coq_list(["(%s, %s)" % (zlit(enc_station(r["station"])), coq_list([q(float(v)) for v in r["vals"]]))
                     for r in sub])


# ---------------------------------------------------------------------------------------------
# networks, events, the scripted algorithm
# ---------------------------------------------------------------------------------------------
def _period_record(sim, net):
    return dict(it=int(sim._iteration), last=sim.event_queue.get_last_timestamp(),
                empty=bool(sim.event_queue.empty()), width=int(sim.pilot_signals.shape[1]),
                pilots=[float(e.current_pilot) for e in net._EVSEs.values()])


def make_network(station_nums, constraints=(), voltages=None, default_evse=None, plain=False, rec=None):
    """constraints: [(limit, [station nums])] -> sum of the stations' currents <= limit (often violated by the
    scripted schedules: _update_schedules only warns about infeasible schedules, it must still apply them).
    plain=True: an unmodified ChargingNetwork whose post_charging_update is hooked per instance (JSON-clean)."""
    from acnportal.acnsim.network import ChargingNetwork, Current
    from acnportal.acnsim.models import EVSE

    class RecNet(ChargingNetwork):
        def __init__(self):
            super().__init__()
            self.rec = [] if rec is None else rec
            self.sim = None

        def post_charging_update(self):
            self.rec.append(_period_record(self.sim, self))

    net = ChargingNetwork() if plain else RecNet()
    for i, n in enumerate(station_nums):
        v = voltages[i] if voltages else 240
        if default_evse and default_evse[i]:
            evse = EVSE(name_of(n))                              # max_rate = inf
        else:
            evse = EVSE(name_of(n), max_rate=BIG, min_rate=0)
        net.register_evse(evse, v, 0)
    for j, (limit, members) in enumerate(constraints):
        net.add_constraint(Current([name_of(m) for m in members]), limit, "lim%d" % j)
    return net


def hook_plain(net, sim, rec):
    net.post_charging_update = lambda: rec.append(_period_record(sim, net))


def rand_constraints(rng, pool):
    if not pool or rng.random() < 0.5:
        return []
    out = []
    for _ in range(rng.choice([1, 1, 2])):
        members = [m for m in pool if rng.random() < 0.7] or [pool[0]]
        out.append([rng.choice([1, 10, 40.5, 1000]), members])
    return out


def make_events(inp, charges=None, sim_ref=None):
    from acnportal.acnsim.events import EventQueue, PluginEvent, RecomputeEvent
    from acnportal.acnsim.models import EV, Battery
    evs = []
    events = []
    for i, s in enumerate(inp["sessions"]):
        ev = EV(s["arrival"], s["departure"], s["energy"], name_of(s["station"]), "sess-%d" % i,
                Battery(100, 0, 100), estimated_departure=s.get("est"))
        if charges is not None:
            def wrapped(pilot, voltage, period, ev=ev, orig=ev.charge):
                charges.append([int(sim_ref[0]._iteration), ev.station_id, float(pilot)])
                return orig(pilot, voltage, period)
            ev.charge = wrapped
        evs.append(ev)
        events.append(PluginEvent(s["arrival"], ev))
    for t in inp["recomputes"]:
        events.append(RecomputeEvent(t))
    return EventQueue(events), evs


class Boom(Exception):
    pass


class BoomBase(BaseException):
    pass


EXC_KINDS = [RuntimeError, Boom, BoomBase, KeyboardInterrupt, ValueError]


def make_alg(max_recompute):
    from acnportal.algorithms import BaseAlgorithm

    class Scripted(BaseAlgorithm):
        """the scripted scheduler; one object may be bound to several simulations one after the other"""

        def __init__(self, max_recompute):
            super().__init__()
            self.max_recompute = max_recompute
            self.bind(None, None, [], 0, {}, None)
            self.shared_dict = {}
            self.prev = None

        def bind(self, sim, provider, calls, mutate_prev, crash, on_call):
            self.sim, self.provider, self.calls = sim, provider, calls
            self.mutate_prev, self.crash, self.on_call = mutate_prev, dict(crash), on_call
            self.n_inv = 0
            self.injected = False
            self.arg_problem = None

        def schedule(self, active_sessions):
            sim = self.sim
            inv = self.n_inv
            self.n_inv += 1
            if self.prev is not None:
                d, snap = self.prev
                if snapshot(d) != snap and self.arg_problem is None:
                    self.arg_problem = "the simulator modified the schedule object it was handed"
                if self.mutate_prev == 1:
                    scribble(d)                          # the caller's objects, after the call
                self.prev = None
            if inv in self.crash:
                self.injected = True
                raise EXC_KINDS[self.crash[inv]]("injected at invocation %d" % inv)
            if self.on_call is not None:
                self.on_call(len(self.calls))
            it = int(sim._iteration)
            sub = self.provider(len(self.calls), it, int(sim.pilot_signals.shape[1]), bool(sim.event_queue.empty()))
            seen = {}
            try:
                applied = self.interface.last_applied_pilot_signals
                st_of = {ev.session_id: ev.station_id for ev in sim.network.active_evs}
                seen = {st_of[sid]: float(v) for sid, v in applied.items() if sid in st_of}
            except Exception as e:  # noqa
                seen = {"error": type(e).__name__}
            self.calls.append(dict(it=it, last=sim.event_queue.get_last_timestamp(),
                                   empty=bool(sim.event_queue.empty()), sub=sub, seen_prev=seen))
            d = build_sched(sub, into=self.shared_dict if self.mutate_prev == 2 else None)
            self.prev = (d, snapshot(d))
            return d

    return Scripted(max_recompute)


def run_sim(inp, provider, alg=None, on_call=None):
    """inp: dict(stations=[nums in registration order], names, sessions, recomputes, max_recompute, constraints,
    period, voltages, default_evse, mutate_prev, resume=dict(crash={invocation: exc kind}, json=[bool..], attach=[..])).
    provider(call_index, it, width, drained) -> json-able submission.  Returns the recorded behaviour."""
    from acnportal.acnsim import Simulator
    set_names(inp.get("names"))
    set_inf_ok([name_of(n) for n, d in zip(inp["stations"], inp.get("default_evse") or []) if d])
    resume = inp.get("resume") or {}
    use_json = any(resume.get("json", []))
    calls, rec, charges, sim_ref = [], [], [], [None]
    net = make_network(inp["stations"], inp.get("constraints", ()), inp.get("voltages"), inp.get("default_evse"),
                       plain=use_json, rec=rec)
    queue, evs = make_events(inp, None if use_json else charges, sim_ref)
    last0 = queue.get_last_timestamp()
    if alg is None:
        alg = make_alg(inp["max_recompute"])
    crash = {int(k): v for k, v in (resume.get("crash") or {}).items()}
    sim = Simulator(net, alg, queue, datetime(2020, 1, 1), period=inp.get("period", 5), verbose=False,
                    store_schedule_history=bool(inp.get("store_history", False)))
    sim_ref[0] = sim
    if use_json:
        hook_plain(net, sim, rec)
    else:
        net.sim = sim
    alg.bind(sim, provider, calls, inp.get("mutate_prev", 0), crash, on_call)
    exc = None
    restarts = 0
    problems = []
    with warnings.catch_warnings():
        warnings.simplefilter("ignore")
        while True:
            try:
                alg.injected = False
                sim.run()
                break
            except BaseException as e:  # noqa
                if not alg.injected or restarts > len(crash) + 2:
                    exc = type(e).__name__
                    break
                # an interruption by the scheduler: go on, possibly through a JSON round trip
                via_json = use_json and (resume.get("json") or [False])[restarts % len(resume["json"])]
                attach = (resume.get("attach") or ["same"])[restarts % len(resume.get("attach") or ["same"])]
                restarts += 1
                if via_json:
                    try:
                        del net.post_charging_update
                        before = [[float(x) for x in r] for r in sim.pilot_signals]
                        sim = Simulator.from_json(sim.to_json())
                        net = sim.network
                        sim_ref[0] = sim
                        if [[float(x) for x in r] for r in sim.pilot_signals] != before:
                            problems.append("pilot_signals changed in a to_json/from_json round trip mid-run")
                        hook_plain(net, sim, rec)
                        if attach == "fresh":
                            old = alg
                            alg = make_alg(inp["max_recompute"])
                            alg.bind(None, provider, calls, old.mutate_prev, crash, on_call)
                            alg.n_inv = old.n_inv
                            alg.shared_dict = old.shared_dict
                        alg.sim = sim
                        sim.update_scheduler(alg)
                    except BaseException as e2:  # noqa
                        exc = "reload:" + type(e2).__name__
                        break
    if alg.arg_problem:
        problems.append(alg.arg_problem)
    if alg.prev is not None:
        d, snap = alg.prev
        if snapshot(d) != snap:
            problems.append("the simulator modified the schedule object it was handed")
        if inp.get("mutate_prev", 0) == 1:
            scribble(d)
        alg.prev = None
    rows = [[float(x) for x in r] for r in sim.pilot_signals]
    try:
        df = sim.pilot_signals_as_df()
        df_ok = list(df.columns) == list(net.station_ids) and \
            [[float(x) for x in df[c]] for c in df.columns] == rows
        if df.size:
            df.iloc[:, :] = 555.0                   # the caller's copy: must not write through
        if [[float(x) for x in r] for r in sim.pilot_signals] != rows:
            problems.append("writing to the DataFrame returned by pilot_signals_as_df() changed pilot_signals")
    except Exception:  # noqa
        df_ok = False
    json_ok = None
    if use_json and exc is None:
        try:
            del net.post_charging_update
            sim2 = Simulator.from_json(sim.to_json())
            json_ok = [[float(x) for x in r] for r in sim2.pilot_signals] == rows and \
                list(sim2.network.station_ids) == list(net.station_ids) and \
                [float(e.current_pilot) for e in sim2.network._EVSEs.values()] == \
                [float(e.current_pilot) for e in net._EVSEs.values()]
        except Exception:  # noqa
            json_ok = False
    history = None
    if sim.schedule_history is not None:
        try:
            history = [[int(k), [[name, [float(x) for x in row]] for name, row in sim.schedule_history[k].items()]]
                       for k in sorted(sim.schedule_history)]
        except Exception as e:  # noqa
            problems.append("schedule_history cannot be read: %s" % type(e).__name__)
    elif inp.get("store_history"):
        problems.append("schedule_history is None although store_schedule_history=True")
    return dict(exc=exc, last0=last0, ids=[num_of(s) for s in net.station_ids], df_ok=df_ok, json_ok=json_ok,
                history=history,
                rows=rows, wid=int(sim.pilot_signals.shape[1]), iter=int(sim._iteration),
                periods=rec, calls=calls, charges=charges, restarts=restarts, problems=problems,
                energies=[float(ev.energy_delivered) for ev in evs])


def rand_run_input(rng):
    n = rng.choice([0, 1, 1, 2, 2, 3, 3, 4, 5])
    pool = rand_pool(rng, n)
    horizon = rng.choice([1, 2, rng.randint(1, 24), rng.randint(4, 24), rng.randint(8, 30)])
    sessions = []
    busy = {s: 0 for s in pool}
    for _ in range(rng.choice([0, 1, 2, 3, 4]) if pool else 0):
        s = rng.choice(pool)
        a = rng.randint(busy[s], horizon)
        if a >= horizon:
            continue
        d = rng.randint(a + 1, horizon)
        busy[s] = d
        sessions.append(dict(station=s, arrival=a, departure=d, energy=rng.choice([1, 5, 20, 0.75]),
                             est=rng.choice([None, None, d, d + 2, max(a + 1, d - 1)])))
    k = rng.choice([0, 1, 2, 4]) if sessions else rng.choice([0, 1, 2, 4, 4])
    if rng.random() < 0.04:
        k = 0
    recomputes = sorted(rng.randint(0, horizon) for _ in range(k))
    return dict(stations=pool, names=rand_names(rng, pool), sessions=sessions, recomputes=recomputes,
                max_recompute=rng.choice([None, None, None, 0, 1, 2, 3, 5]), constraints=rand_constraints(rng, pool),
                period=rng.choice([5, 5, 1, 7, 0.5, 2.5]),
                voltages=[rng.choice([120, 208, 240, 277.5]) for _ in pool],
                default_evse=[rng.random() < 0.35 for _ in pool],
                mutate_prev=rng.choice([0, 0, 1, 1, 2]), store_history=rng.random() < 0.5)


BASE_KEYS = ("stations", "names", "sessions", "recomputes", "max_recompute", "constraints", "period", "voltages",
             "default_evse", "mutate_prev", "resume", "store_history")


def base_of(inp):
    return {k: inp[k] for k in BASE_KEYS if k in inp}


def trace_of(impl):
    """[(last, sub-or-None)] per period, chronological, incl. the period in which run() raised"""
    by_it = {c["it"]: c for c in impl["calls"]}
    tr = []
    for p in impl["periods"]:
        c = by_it.get(p["it"])
        tr.append((p["last"], c["sub"] if c else None))
    if impl["exc"] is not None and impl["calls"]:
        c = impl["calls"][-1]
        if c["it"] == len(impl["periods"]):
            tr.append((c["last"], c["sub"]))
    return tr


def run_case(inp, impl, extra_input=None):
    set_names(inp.get("names"))
    tr = trace_of(impl)
    coq = ("{| c_ids := %s; c_last0 := %s;\n   c_trace := %s;\n   i_exc := %s; i_rows := %s; i_wid := %s; i_iter := %s;\n"
           "   i_sent := %s; i_hist := %s |}") % (
        coq_list([zlit(n) for n in impl["ids"]]), coq_opt(impl["last0"], zlit),
        coq_list(["(%s, %s)" % (coq_opt(l, zlit), coq_opt(s, sub_coq)) for l, s in tr]),
        coq_opt(impl["exc"], coq_str), coq_list([coq_list([q(x) for x in r]) for r in impl["rows"]]),
        zlit(impl["wid"]), zlit(impl["iter"]),
        coq_list([coq_list([q(x) for x in p["pilots"]]) for p in impl["periods"]]),
        coq_opt(None if impl.get("history") is None else [h[0] for h in impl["history"]],
                lambda l: coq_list([zlit(k) for k in l])))
    subs = [c["sub"] for c in impl["calls"]]
    kinds = set()
    for c in impl["calls"]:
        kinds.add(classify(c["sub"], impl["ids"]))
        if c["sub"] and c["empty"]:
            kinds.add("drained")
        if c["sub"] and c["it"] + sublen(c["sub"]) > c_width_before(impl, c):
            kinds.add("grow")
    tag = "run/" + ("exc" if impl["exc"] else "ok") + ("+grow" if "grow" in kinds else "") + \
        ("+drained" if "drained" in kinds else "")
    if impl.get("restarts"):
        tag += "+resumed" + ("-json" if any((inp.get("resume") or {}).get("json", [])) else "")
    full = dict(stream="run", **inp, script=subs)
    if extra_input:
        full.update(extra_input)
        tag += "+" + extra_input["pair"]["mode"]
    return dict(input=full, impl=impl, coq=coq, ambiguous=False, kind=tag,
                sig=["run", inp["stations"], inp["sessions"], inp["recomputes"], inp["max_recompute"],
                     inp.get("constraints"), inp.get("names"), inp.get("resume"),
                     [[(r["station"], r["vals"]) for r in s] for s in subs]],
                nontrivial=any(len(s) > 0 for s in subs))


def c_width_before(impl, call):
    """matrix width when the scheduler was called at call['it'] (= width after the previous period)"""
    prev = [p for p in impl["periods"] if p["it"] == call["it"] - 1]
    if prev:
        return prev[0]["width"]
    return 1 if impl["last0"] is None else impl["last0"] + 1


def sublen(sub):
    return len(sub[0]["vals"]) if sub else 0


def classify(sub, ids):
    if not sub:
        return "empty"
    if any(r["station"] not in _INV or _INV[r["station"]] not in ids for r in sub) if _NAMES else \
            any(not r["station"].startswith("PS-") or not r["station"][3:].isdigit() or int(r["station"][3:]) not in ids
                for r in sub):
        return "unknown"
    if len({len(r["vals"]) for r in sub}) > 1:
        return "ragged"
    return "ok"


def _row(num, vals, kind="float"):
    return dict(station="PS-%03d" % num, kind=kind, vals=[float(v) for v in vals])


def _names(nums):
    return [[n, "PS-%03d" % n] for n in nums]


# deterministic scenarios that are part of every run
CORPUS = [
    # the defect fixed by /repo commit afd41a2: a schedule reaching beyond the allocated matrix, submitted in the
    # period that drains the event queue (get_last_timestamp() is None there)
    dict(stations=[7], names=_names([7]), sessions=[dict(station=7, arrival=0, departure=2, energy=5)], recomputes=[],
         max_recompute=None, constraints=[],
         script=[[_row(7, [16, 16])], [_row(7, [8, 8, 8, 8, 8], "int")]]),
    # overlay: a long schedule, then a shorter one that omits a station, then an empty one
    dict(stations=[9, 4], names=_names([9, 4]), sessions=[dict(station=4, arrival=0, departure=6, energy=5)],
         recomputes=[2, 3], max_recompute=None, constraints=[[10, [9, 4]]],
         script=[[_row(4, [1, 2, 3, 4, 5, 6]), _row(9, [7, 7, 7, 7, 7, 7], "np64")], [_row(9, [30.5, 31.5], "array")],
                 [], [_row(4, [12.125])]]),
    # max_recompute = 1: a submission in every period, each one period long, stations in reverse order
    dict(stations=[3, 2, 1], names=_names([3, 2, 1]), sessions=[dict(station=2, arrival=1, departure=4, energy=5)],
         recomputes=[], max_recompute=1, constraints=[],
         script=[[_row(1, [k]), _row(2, [k + 0.5]), _row(3, [k + 0.25], "np32")] for k in range(8)]),
    # a pending tail survives the departure of the EV and an all-zero schedule overwrites like any other
    dict(stations=[10, 9], names=[[10, "S-10"], [9, "S-9"]],
         sessions=[dict(station=9, arrival=0, departure=3, energy=5), dict(station=10, arrival=1, departure=8, energy=5)],
         recomputes=[5], max_recompute=None, constraints=[],
         script=[[dict(station="S-9", kind="int", vals=[16.0] * 6), dict(station="S-10", kind="float", vals=[8.0] * 6)],
                 [], [], [dict(station="S-10", kind="int", vals=[0.0, 0.0])], []]),
    # store_schedule_history=True: a rejected schedule (unknown station / ragged rows) must not stay in the history
    dict(stations=[1, 2], names=_names([1, 2]), sessions=[dict(station=1, arrival=0, departure=9, energy=5)],
         recomputes=[1, 2], max_recompute=None, constraints=[], store_history=True,
         script=[[_row(1, [10, 10, 10, 10])], [_row(2, [7.5, 7.5])],
                 [_row(1, [20, 20, 20]), dict(station="Z", kind="float", vals=[5.0, 5.0, 5.0])]]),
    dict(stations=[1, 2], names=_names([1, 2]), sessions=[dict(station=1, arrival=0, departure=9, energy=5)],
         recomputes=[1, 2], max_recompute=None, constraints=[], store_history=True,
         script=[[_row(1, [10, 10, 10, 10])], [], [_row(1, [20, 20, 20]), _row(2, [5, 5])]]),
    # an EVSE with the default max_rate=inf accepts the pilot inf (what UncontrolledCharging submits there)
    dict(stations=[5, 6], names=_names([5, 6]), sessions=[dict(station=5, arrival=0, departure=3, energy=5)],
         recomputes=[1], max_recompute=None, constraints=[], default_evse=[True, True], store_history=True,
         script=[[_row(5, [INF, 16, INF]), _row(6, [INF, INF, INF], "np64")], [_row(6, [0.5, INF], "array")], []]),
]


def script_provider(script):
    return lambda k, it, w, d: script[k] if k < len(script) else []


def corpus_cases():
    out = []
    for sc in CORPUS:
        base = {k: v for k, v in sc.items() if k != "script"}
        impl = run_sim(base, script_provider(sc["script"]))
        c = run_case(base, impl)
        c["kind"] = "corpus/" + c["kind"]
        out.append(c)
    return out


def rand_resume(rng, inp):
    """interruptions: {invocation index: exception kind}, and what happens before run() is called again"""
    k = rng.choice([1, 1, 2, 3])
    crash = {}
    for _ in range(k):
        crash[str(rng.randint(0, 8))] = rng.randrange(len(EXC_KINDS))
    json_ok = bool(inp["stations"])
    return dict(crash=crash, json=[json_ok and rng.random() < 0.5 for _ in range(3)],
                attach=[rng.choice(["same", "fresh"]) for _ in range(3)])


def run_pair(first, script1, second, script2, mode, at, rng=None):
    """two simulations and their relation: 'reuse' = ONE algorithm object drives the first and then the second;
    'nested' = the second runs to completion inside scheduler call `at` of the first (two live simulators).
    script None -> submissions drawn from rng.  Returns (impl1, impl2)."""
    def prov(inp, script):
        if script is not None:
            return script_provider(script)
        return lambda k, it, w, d: rand_submission(rng, inp["stations"], it, w, d)
    if mode == "reuse":
        alg = make_alg(first["max_recompute"])
        impl1 = run_sim(first, prov(first, script1), alg=alg)
        alg.max_recompute = second["max_recompute"]
        impl2 = run_sim(second, prov(second, script2), alg=alg)
        return impl1, impl2
    box = {}

    def on_call(k):
        if k == at and "impl2" not in box:
            names = (dict(_NAMES), dict(_INV))
            box["impl2"] = run_sim(second, prov(second, script2))
            set_names([[n, s] for n, s in names[0].items()])
    impl1 = run_sim(first, prov(first, script1), on_call=on_call)
    if "impl2" not in box:
        box["impl2"] = run_sim(second, prov(second, script2))
    return impl1, box["impl2"]


def pair_cases(rng):
    first, second = rand_run_input(rng), rand_run_input(rng)
    if rng.random() < 0.5:                          # same shape, different values
        for k in ("stations", "names", "voltages", "default_evse", "constraints"):
            second[k] = copy.deepcopy(first[k])
        second["sessions"] = []                     # only Recompute events drive the second one
        if not second["recomputes"]:
            second["recomputes"] = [rng.randint(0, 6)]
    mode = rng.choice(["reuse", "nested"])
    at = rng.randint(0, 3)
    impl1, impl2 = run_pair(first, None, second, None, mode, at, rng)
    out = []
    for role, (inp, impl) in enumerate([(first, impl1), (second, impl2)]):
        pair = dict(mode=mode, at=at, role=role,
                    first=dict(first, script=[c["sub"] for c in impl1["calls"]]),
                    second=dict(second, script=[c["sub"] for c in impl2["calls"]]))
        out.append(run_case(inp, impl, extra_input=dict(pair=pair)))
    return out


def gen_run_cases(rng, n, corpus=False):
    cases = corpus_cases() if corpus else []
    while len(cases) < n:
        if rng.random() < 0.07:
            cases.extend(pair_cases(rng))
            continue
        inp = rand_run_input(rng)
        if rng.random() < 0.14:
            inp["resume"] = rand_resume(rng, inp)
        bad_at = rng.choice([None] * 6 + [rng.randint(0, 6)])      # ~14% of the runs contain a malformed submission
        bad_kind = rng.choice(["unknown", "ragged", "ragged", "both"])
        if inp.get("resume"):
            bad_at = None

        def provider(k, it, width, drained, inp=inp, bad_at=bad_at, bad_kind=bad_kind):
            return rand_submission(rng, inp["stations"], it, width, drained,
                                   malformed=bad_kind if (bad_at is not None and k == bad_at) else None)
        impl = run_sim(inp, provider)
        c = run_case(inp, impl)
        # the same scenario with every mapping's entries in another order must give the same matrix
        if rng.random() < 0.3 and impl["calls"] and not inp.get("resume"):
            script = [list(s) for s in c["input"]["script"]]
            for s in script:
                rng.shuffle(s)
            impl2 = run_sim(inp, script_provider(script))
            c["impl"]["perm"] = dict(rows=impl2["rows"], wid=impl2["wid"], exc=impl2["exc"],
                                     sent=[p["pilots"] for p in impl2["periods"]])
        cases.append(c)
    return cases[:n]


# ---------------------------------------------------------------------------------------------
# a second process with another hash seed
# ---------------------------------------------------------------------------------------------
def _child_main():
    inputs = json.load(sys.stdin)
    out = []
    for inp in inputs:
        c = rerun(inp)
        i = c["impl"]
        out.append(dict(rows=i["rows"], wid=i["wid"], exc=i["exc"], iter=i["iter"],
                        sent=[p["pilots"] for p in i["periods"]]))
    json.dump(out, sys.stdout)


def other_hashseed(rng, cases, k=8):
    """re-execute the first k plain run cases in a fresh interpreter with another PYTHONHASHSEED"""
    picked = [c for c in cases if c["input"].get("stream") == "run" and "pair" not in c["input"]][:k]
    if not picked:
        return
    env = dict(os.environ, PYTHONHASHSEED=str(rng.randint(1, 4000000)))
    try:
        p = subprocess.run([sys.executable, "-c", "from harness import c04; c04._child_main()"], cwd=ROOT, env=env,
                           input=json.dumps([c["input"] for c in picked], default=float), text=True,
                           stdout=subprocess.PIPE, stderr=subprocess.PIPE, timeout=300)
        res = json.loads(p.stdout)
    except Exception as e:  # noqa
        for c in picked:
            c["impl"]["hashseed"] = "the second process failed: %s" % type(e).__name__
        return
    for c, r in zip(picked, res):
        i = c["impl"]
        mine = dict(rows=i["rows"], wid=i["wid"], exc=i["exc"], iter=i["iter"], sent=[p["pilots"] for p in i["periods"]])
        c["impl"]["hashseed"] = None if mine == r else \
            "a second process with PYTHONHASHSEED=%s produced different pilots" % env["PYTHONHASHSEED"]


# ---------------------------------------------------------------------------------------------
# stream 2: _update_schedules called directly
# ---------------------------------------------------------------------------------------------
def digest(sim, evs):
    return dict(pilots=[[float(x) for x in r] for r in sim.pilot_signals],
                rates=[[float(x) for x in r] for r in sim.charging_rates],
                iteration=int(sim._iteration), resolve=bool(sim._resolve), last_update=sim._last_schedule_update,
                peak=float(sim.peak), queue=len(sim.event_queue),
                energies=[float(ev.energy_delivered) for ev in evs],
                charges=[float(ev._battery._current_charge) for ev in evs],
                evse_pilots=[float(e.current_pilot) for e in sim.network._EVSEs.values()],
                occupants=[None if e.ev is None else e.ev.session_id for e in sim.network._EVSEs.values()],
                history=None if sim.schedule_history is None else sorted(sim.schedule_history))


def prepared_sim(inp, net=None):
    import numpy as np
    from acnportal.acnsim import Simulator
    from acnportal.acnsim.events import EventQueue, RecomputeEvent
    from acnportal.acnsim.models import EV, Battery
    from acnportal.algorithms import BaseAlgorithm
    fresh_net = net is None
    if fresh_net:
        net = make_network(inp["stations"], inp.get("constraints", ()), inp.get("voltages"))
    evs = []
    if fresh_net:
        for i, s in enumerate(inp.get("plugged", [])):
            ev = EV(0, 1000, 50, name_of(s), "sess-%d" % i, Battery(100, 10, 100))
            net.plugin(ev)
            evs.append(ev)
    events = [] if inp["last"] is None else [RecomputeEvent(inp["last"])] + \
        [RecomputeEvent(t) for t in inp.get("more_events", [])]
    sim = Simulator(net, BaseAlgorithm(), EventQueue(events), datetime(2020, 1, 1), period=inp.get("period", 5),
                    verbose=False, store_schedule_history=True)
    if fresh_net:
        net.sim = sim
    n = len(inp["stations"])
    sim.pilot_signals = np.array(inp["matrix"], dtype=float).reshape((n, inp["width"]))
    sim.charging_rates = np.zeros((n, inp["width"]))
    sim._iteration = inp["iteration"]
    return sim, net, evs


def run_upd(inp):
    """inp: dict(stations, names, iteration, matrix (station-major floats), width, last (int|None), plugged=[nums], sub)"""
    set_names(inp.get("names"))
    sim, net, evs = prepared_sim(inp)
    before = digest(sim, evs)
    exc = None
    arg = build_sched(inp["sub"])
    snap = snapshot(arg)
    try:
        with warnings.catch_warnings():
            warnings.simplefilter("ignore")
            sim._update_schedules(arg)
    except Exception as e:  # noqa
        exc = type(e).__name__
    arg_untouched = snapshot(arg) == snap
    after = digest(sim, evs)
    scribble(arg)
    after_scribble = digest(sim, evs)
    return dict(exc=exc, ids=[num_of(s) for s in net.station_ids], before=before, after=after,
                rows=after["pilots"], wid=int(sim.pilot_signals.shape[1]),
                last=sim.event_queue.get_last_timestamp(), arg_untouched=arg_untouched,
                scribble_harmless=after_scribble == after)


def rand_matrix(rng, n, width):
    return [[rng.choice([0.0, 0.0, 6.0, 16.0, round(rng.uniform(0, 64), 2)]) for _ in range(width)] for _ in range(n)]


def rand_upd_input(rng):
    n = rng.choice([0, 1, 2, 2, 3, 4, 5])
    pool = rand_pool(rng, n)
    names = rand_names(rng, pool)
    set_names(names)
    set_inf_ok([name_of(n) for n in pool])
    it = rng.choice([0, 0, 1, 2, rng.randint(0, 20)])
    width = rng.choice([it, it + 1, it + 1, it + rng.randint(1, 14), it + rng.randint(1, 14),
                        max(1, it - rng.randint(1, 3))])     # width == it: nothing allocated ahead; < it: not reachable by run()
    if width == 0:
        width = 1
    matrix = rand_matrix(rng, len(pool), width)
    last = rng.choice([None, None, it + 1, width - 1, width + rng.randint(0, 9), rng.randint(0, 30)])
    if last is not None and last < 0:
        last = None
    mal = rng.choice([None, None, None, None, None, None, "unknown", "ragged", "ragged", "both"])
    sub = rand_submission(rng, pool, it, width, last is None, malformed=mal)
    plugged = [s for s in pool if rng.random() < 0.5]
    return dict(stations=pool, names=names, iteration=it, matrix=matrix, width=width, last=last, plugged=plugged, sub=sub,
                constraints=rand_constraints(rng, pool), voltages=[rng.choice([120, 208, 240, 277.5]) for _ in pool],
                period=rng.choice([5, 1, 7, 0.5]))


def upd_case(inp, impl):
    set_names(inp.get("names"))
    coq = ("{| u_ids := %s; u_last := %s; u_iter := %s; u_rows := %s; u_wid := %s;\n   u_sched := %s;\n"
           "   iu_exc := %s; iu_rows := %s; iu_wid := %s |}") % (
        coq_list([zlit(x) for x in impl["ids"]]), coq_opt(impl["last"], zlit), zlit(inp["iteration"]),
        coq_list([coq_list([q(x) for x in r]) for r in inp["matrix"]]), zlit(inp["width"]), sub_coq(inp["sub"]),
        coq_opt(impl["exc"], coq_str), coq_list([coq_list([q(x) for x in r]) for r in impl["rows"]]), zlit(impl["wid"]))
    cl = classify(inp["sub"], impl["ids"])
    grow = cl == "ok" and inp["iteration"] + sublen(inp["sub"]) > inp["width"]
    tag = "upd/%s%s%s" % (cl, "+grow" if grow else "", "+drained" if inp["last"] is None else "")
    return dict(input=dict(stream="upd", **inp), impl=impl, coq=coq, ambiguous=False, kind=tag,
                sig=["upd", inp["stations"], inp["iteration"], inp["width"], inp["last"], inp["matrix"], inp.get("names"),
                     [(r["station"], r["vals"]) for r in inp["sub"]]], nontrivial=bool(inp["sub"]))


# ---------------------------------------------------------------------------------------------
# stream 4: several live simulators driven alternately through sequences of direct calls
# ---------------------------------------------------------------------------------------------
def rand_seq_input(rng):
    n = rng.choice([1, 2, 2, 3, 4])
    pool = rand_pool(rng, n)
    names = rand_names(rng, pool)
    set_names(names)
    m = rng.choice([2, 2, 3])
    sims = []
    for _ in range(m):
        it = rng.choice([0, 0, 1, rng.randint(0, 8)])
        width = rng.choice([1, it + 1, it + rng.randint(1, 8)])
        zero = rng.random() < 0.5
        sims.append(dict(iteration=it, width=width,
                         matrix=[[0.0] * width for _ in pool] if zero else rand_matrix(rng, len(pool), width),
                         last=rng.choice([None, it + 2, width + 3])))
    return dict(stations=pool, names=names, sims=sims, shared_network=rng.random() < 0.4,
                constraints=rand_constraints(rng, pool), n_ops=rng.randint(4, 12), op_seed=rng.randint(0, 10**9))


def run_seq(inp, ops=None):
    """drive the simulators; ops None -> draw them (deterministically from inp['op_seed']) while running, because the
    submissions depend on the live width.  Returns (ops, per-simulator records)."""
    from acnportal.acnsim.events import RecomputeEvent
    from acnportal.acnsim.network import Current
    from acnportal.acnsim.simulator import _increase_width
    set_names(inp.get("names"))
    set_inf_ok([name_of(n) for n in inp["stations"]])
    r = random.Random(inp["op_seed"])
    sims = []
    shared = None
    for sp in inp["sims"]:
        one = dict(inp, **sp, plugged=[])
        if inp["shared_network"]:
            sim, net, _ = prepared_sim(one, net=shared)
            shared = net
        else:
            sim, net, _ = prepared_sim(one)
        sims.append(sim)
    recs = [dict(calls=[], log=[], problems=[]) for _ in sims]
    held = [None] * len(sims)
    drawn = []
    reuse = {}
    n_ops = len(ops) if ops is not None else inp["n_ops"]
    with warnings.catch_warnings():
        warnings.simplefilter("ignore")
        for j in range(n_ops):
            if ops is not None:
                op = ops[j]
            else:
                i = r.randrange(len(sims))
                sim = sims[i]
                kind = r.choice(["upd", "upd", "upd", "upd", "advance", "widen", "queue", "drain", "constraint"])
                op = dict(sim=i, kind=kind)
                if kind == "upd":
                    mal = r.choice([None] * 7 + ["unknown", "ragged", "both"])
                    op["sub"] = rand_submission(r, inp["stations"], int(sim._iteration), int(sim.pilot_signals.shape[1]),
                                                sim.event_queue.empty(), malformed=mal)
                    op["after"] = r.choice(["nothing", "scribble", "scribble", "reuse"])
                elif kind == "advance":
                    op["to"] = r.choice([int(sim._iteration) + 1, int(sim._iteration) + r.randint(1, 4),
                                         r.randint(0, int(sim._iteration) + 1)])          # also backwards
                elif kind == "widen":
                    op["target"] = r.choice([int(sim.pilot_signals.shape[1]) + r.randint(-2, 5), r.randint(0, 20)])
                elif kind == "queue":
                    op["ts"] = r.randint(0, 25)
                elif kind == "constraint":
                    op["limit"] = r.choice([1, 5.5, 100])
                drawn.append(op)
            i = op["sim"]
            sim, rec = sims[i], recs[i]
            if op["kind"] == "upd":
                d = build_sched(op["sub"], into=reuse.setdefault(i, {}) if op.get("after") == "reuse" else None)
                snap = snapshot(d)
                others = [[[float(x) for x in row] for row in s.pilot_signals] for s in sims]
                exc = None
                try:
                    sim._update_schedules(d)
                except Exception as e:  # noqa
                    exc = type(e).__name__
                if snapshot(d) != snap:
                    rec["problems"].append("call %d modified the schedule object it was handed" % j)
                for k2, s in enumerate(sims):
                    if k2 != i and [[float(x) for x in row] for row in s.pilot_signals] != others[k2]:
                        rec["problems"].append("call %d on simulator %d changed the pilots of simulator %d" % (j, i, k2))
                rec["calls"].append(dict(kind="upd", last=sim.event_queue.get_last_timestamp(), it=int(sim._iteration),
                                         sub=op["sub"]))
                rec["log"].append(exc)
                if op.get("after") == "scribble":
                    scribble(d)
            elif op["kind"] == "advance":
                sim._iteration = op["to"]
            elif op["kind"] == "widen":
                t = max(0, op["target"])
                a = sim.pilot_signals
                sim.pilot_signals = _increase_width(a, t)
                rec["calls"].append(dict(kind="widen", target=t))
                rec["log"].append(None)
            elif op["kind"] == "queue":
                sim.event_queue.add_event(RecomputeEvent(op["ts"]))
            elif op["kind"] == "drain":
                sim.event_queue.get_current_events(10 ** 9)
            elif op["kind"] == "constraint" and inp["stations"]:
                try:
                    sim.network.add_constraint(Current([name_of(inp["stations"][0])]), op["limit"], "extra%d" % j)
                except Exception as e:  # noqa
                    rec["problems"].append("add_constraint raised %s" % type(e).__name__)
            # a result held from an earlier moment is re-read later: it must still be what it was
            if held[i] is not None:
                df, vals = held[i]
                if [[float(x) for x in df[c]] for c in df.columns] != vals:
                    rec["problems"].append("a DataFrame returned earlier by pilot_signals_as_df() changed afterwards")
            df = sim.pilot_signals_as_df()
            held[i] = (df, [[float(x) for x in df[c]] for c in df.columns])
    out = []
    for sim, rec in zip(sims, recs):
        rec["rows"] = [[float(x) for x in row] for row in sim.pilot_signals]
        rec["wid"] = int(sim.pilot_signals.shape[1])
        rec["ids"] = [num_of(s) for s in sim.network.station_ids]
        out.append(rec)
    return (ops if ops is not None else drawn), out


def seq_cases(inp, ops=None):
    ops, recs = run_seq(inp, ops)
    set_names(inp.get("names"))
    cases = []
    for i, rec in enumerate(recs):
        sp = inp["sims"][i]
        calls = []
        for c in rec["calls"]:
            if c["kind"] == "upd":
                calls.append("(QUpd %s %s %s)" % (coq_opt(c["last"], zlit), zlit(c["it"]), sub_coq(c["sub"])))
            else:
                calls.append("(QWiden %s)" % zlit(c["target"]))
        coq = ("{| s_ids := %s; s_rows := %s; s_wid := %s;\n   s_calls := %s;\n   is_log := %s; is_rows := %s; is_wid := %s |}") % (
            coq_list([zlit(x) for x in rec["ids"]]), coq_list([coq_list([q(x) for x in r]) for r in sp["matrix"]]),
            zlit(sp["width"]), coq_list(calls), coq_list([coq_opt(e, coq_str) for e in rec["log"]]),
            coq_list([coq_list([q(x) for x in r]) for r in rec["rows"]]), zlit(rec["wid"]))
        cases.append(dict(input=dict(stream="seq", **inp, ops=ops, which=i), impl=rec, coq=coq, ambiguous=False,
                          kind="seq/%d-sims%s" % (len(recs), "+shared-net" if inp["shared_network"] else ""),
                          sig=["seq", inp["stations"], inp["names"], inp["sims"], inp["op_seed"], i],
                          nontrivial=any(c["kind"] == "upd" and c["sub"] for c in rec["calls"])))
    return cases


def gen_seq_cases(rng, n):
    out = []
    while len(out) < n:
        out.extend(seq_cases(rand_seq_input(rng)))
    return out


# ---------------------------------------------------------------------------------------------
# stream 3: _increase_width
# ---------------------------------------------------------------------------------------------
def run_incw(inp):
    import numpy as np
    from acnportal.acnsim.simulator import _increase_width
    a = np.array(inp["matrix"], dtype=float).reshape((inp["n"], inp["width"]))
    a0 = a.copy()
    try:
        b = _increase_width(a, inp["target"])
    except Exception as e:  # noqa
        return dict(exc=type(e).__name__, rows=[], wid=-1, n=-1, input_untouched=bool((a == a0).all()))
    return dict(exc=None, rows=[[float(x) for x in r] for r in b], wid=int(b.shape[1]), n=int(b.shape[0]),
                input_untouched=bool((a == a0).all()))


def incw_case(rng):
    n = rng.choice([0, 1, 2, 3, 5])
    width = rng.choice([0, 1, 1, 2, rng.randint(1, 15)])
    matrix = [[rng.choice([0.0, 6.0, 32.0, round(rng.uniform(0, 64), 2)]) for _ in range(width)] for _ in range(n)]
    target = rng.choice([width, width + 1, width - 1, width + rng.randint(0, 12), rng.randint(0, 20), 0])
    target = max(target, 0)
    inp = dict(stream="incw", n=n, width=width, matrix=matrix, target=target)
    impl = run_incw(inp)
    coq = "{| w_rows := %s; w_wid := %s; w_target := %s; iw_exc := %s; iw_rows := %s; iw_wid := %s |}" % (
        coq_list([coq_list([q(x) for x in r]) for r in matrix]), zlit(width), zlit(target),
        coq_opt(impl["exc"], coq_str),
        coq_list([coq_list([q(x) for x in r]) for r in impl["rows"]]), zlit(impl["wid"]))
    return dict(input=inp, impl=impl, coq=coq, ambiguous=False,
                kind="incw/" + ("keep" if target <= width else "grow"), sig=["incw", n, width, target, matrix],
                nontrivial=True)


# ---------------------------------------------------------------------------------------------
# the harness interface
# ---------------------------------------------------------------------------------------------
def gen_cases(rng, n, tier):
    cases = gen_run_cases(rng, n, corpus=True)
    other_hashseed(rng, cases)
    return cases


def gen_upd_cases(rng, n):
    out = []
    for _ in range(n):
        inp = rand_upd_input(rng)
        out.append(upd_case(inp, run_upd(inp)))
    return out


def extra_streams(rng, tier):
    n_upd = 400 if tier == "quick" else 7000
    n_seq = 120 if tier == "quick" else 2000
    n_w = 150 if tier == "quick" else 2000
    hdr = CORR_HEADER
    return [("u", hdr, "check_c04u", gen_upd_cases(rng, n_upd)),
            ("s", hdr, "check_c04s", gen_seq_cases(rng, n_seq)),
            ("w", hdr, "check_c04w", [incw_case(rng) for _ in range(n_w)])]


# ---------------------------------------------------------------------------------------------
# monitors: C04 stated directly on the implementation's recorded behaviour
# ---------------------------------------------------------------------------------------------
def spec_value(subs, station, t):
    """independent re-statement of pilot_spec.  subs: chronological [(t', sub)]; last covering one wins"""
    val = 0.0
    for t0, sub in subs:
        if not sub:
            continue
        length = len(sub[0]["vals"])
        if t0 <= t < t0 + length:
            val = 0.0
            for r in sub:
                if r["station"] == station:
                    val = float(r["vals"][t - t0])
    return val


def monitor_run(case):
    impl = case["impl"]
    set_names(case["input"].get("names"))
    ids = impl["ids"]
    calls = impl["calls"]
    if impl.get("problems"):
        return impl["problems"][0]
    if impl.get("hashseed"):
        return impl["hashseed"]
    accepted = []
    for i, c in enumerate(calls):
        cl = classify(c["sub"], ids)
        last_call = i == len(calls) - 1
        if cl in ("unknown", "ragged"):
            want = "KeyError" if cl == "unknown" else "InvalidScheduleError"
            if not last_call or impl["exc"] != want:
                return "malformed submission (%s) at period %d did not end run() with %s (got %r)" % (
                    cl, c["it"], want, impl["exc"])
            if impl["iter"] != c["it"]:
                return "rejected submission changed the iteration counter"
        else:
            accepted.append((c["it"], c["sub"]))
    bad_last = calls and classify(calls[-1]["sub"], ids) in ("unknown", "ragged")
    if impl["exc"] is not None and not bad_last:
        c = calls[-1] if calls else None
        return "run() raised %s although every submission is well-formed (last submission at period %s, length %s, queue %s%s)" % (
            impl["exc"], c and c["it"], c and sublen(c["sub"]), "drained" if c and c["empty"] else "non-empty",
            ", after %d interruption(s) by the scheduler" % impl["restarts"] if impl.get("restarts") else "")
    # overlay: the recorded matrix is the overlay of the accepted submissions
    for s, num in enumerate(ids):
        row = impl["rows"][s]
        if len(row) != impl["wid"]:
            return "row %d has %d columns, width is %d" % (s, len(row), impl["wid"])
        for t in range(impl["wid"]):
            want = spec_value(accepted, name_of(num), t)
            if row[t] != want:
                return "pilot_signals[%r][%d] = %r, the submitted schedules say %r" % (name_of(num), t, row[t], want)
    for t0, sub in accepted:
        if sub and ids and t0 + sublen(sub) > impl["wid"]:
            return "submission at %d of length %d reaches beyond the recorded width %d" % (t0, sublen(sub), impl["wid"])
    # applied: what every EVSE saw in period t
    for p in impl["periods"]:
        upto = [(t0, sub) for t0, sub in accepted if t0 <= p["it"]]
        for s, num in enumerate(ids):
            want = spec_value(upto, name_of(num), p["it"])
            if p["pilots"][s] != want:
                return "station %r got pilot %r in period %d, the submitted schedules say %r" % (
                    name_of(num), p["pilots"][s], p["it"], want)
    # applied: the pilot every connected EV was charged with
    for it, station, pilot in impl.get("charges", []):
        want = spec_value([(t0, sub) for t0, sub in accepted if t0 <= it], station, it)
        if pilot != want:
            return "the EV at %r was charged with pilot %r in period %d, the submitted schedules say %r" % (
                station, pilot, it, want)
    # schedule_history (store_schedule_history=True): exactly the schedules that were applied, under their period
    hist = impl.get("history")
    if hist is not None:
        want_keys = [t0 for t0, _ in accepted]
        got_keys = [h[0] for h in hist]
        if got_keys != want_keys:
            extra = [k for k in got_keys if k not in want_keys]
            if extra and impl["exc"] is not None and extra == [impl["iter"]]:
                return "the rejected schedule of period %d (%s) was left in schedule_history although nothing of it was applied" % (
                    impl["iter"], impl["exc"])
            return "schedule_history has entries for periods %r, schedules were applied in periods %r" % (got_keys, want_keys)
        if case["input"].get("mutate_prev", 0) == 0 and impl.get("restarts", 0) == 0:
            for (k, content), (t0, sub) in zip(hist, accepted):
                if content != [[r["station"], [float(v) for v in r["vals"]]] for r in sub]:
                    return "schedule_history[%d] is not the schedule submitted in period %d" % (k, t0)
    if not impl.get("df_ok", True):
        return "pilot_signals_as_df() is not the transpose of pilot_signals with the stations as columns"
    if impl.get("json_ok") is False:
        return "to_json/from_json of the finished simulator does not preserve pilot_signals / the EVSE pilots"
    # what the next scheduler call is told (Interface.last_applied_pilot_signals) about period it-1
    for c in calls:
        seen = c.get("seen_prev") or {}
        if "error" in seen:
            return "Interface.last_applied_pilot_signals raised %s" % seen["error"]
        upto = [(t0, sub) for t0, sub in accepted if t0 <= c["it"] - 1]
        for station, v in seen.items():
            want = spec_value(upto, station, c["it"] - 1)
            if v != want:
                return "scheduler at period %d was told %r was applied at %r in period %d, the submitted schedules say %r" % (
                    c["it"], v, station, c["it"] - 1, want)
    if [p["it"] for p in impl["periods"]] != list(range(len(impl["periods"]))):
        return "periods are not consecutive"
    perm = impl.get("perm")
    if perm is not None:
        if perm["rows"] != impl["rows"] or perm["wid"] != impl["wid"] or perm["exc"] != impl["exc"] \
                or perm["sent"] != [p["pilots"] for p in impl["periods"]]:
            return "permuting the entries of the submitted mappings changed the outcome"
    return None


def monitor_upd(case):
    inp, impl = case["input"], case["impl"]
    set_names(inp.get("names"))
    ids = impl["ids"]
    cl = classify(inp["sub"], ids)
    b, a = impl["before"], impl["after"]
    if not impl.get("arg_untouched", True):
        return "_update_schedules modified the schedule object it was handed"
    if not impl.get("scribble_harmless", True):
        return "modifying the schedule object after the call changed the simulator's state"
    if cl == "empty":
        if impl["exc"] is not None or a != b:
            return "empty schedule changed state / raised %r" % impl["exc"]
        return None
    if cl in ("unknown", "ragged"):
        want = "KeyError" if cl == "unknown" else "InvalidScheduleError"
        if impl["exc"] != want:
            return "%s submission raised %r, expected %s" % (cl, impl["exc"], want)
        if a != b:
            return "rejected submission changed state: " + ", ".join(k for k in a if a[k] != b[k])
        return None
    it, length, w = inp["iteration"], sublen(inp["sub"]), inp["width"]
    if impl["exc"] is not None:
        return "well-formed submission (period %d, length %d, width %d, queue %s) raised %s" % (
            it, length, w, "drained" if inp["last"] is None else "last=%d" % inp["last"], impl["exc"])
    neww = impl["wid"]
    if neww < w or (ids and neww < it + length):
        return "width %d after a submission of length %d at %d (was %d)" % (neww, length, it, w)
    for s, num in enumerate(ids):
        for t in range(neww):
            old = inp["matrix"][s][t] if t < w else 0.0
            want = spec_value([(it, inp["sub"])], name_of(num), t) if it <= t < it + length else old
            if impl["rows"][s][t] != want:
                return "after the submission pilot_signals[%r][%d] = %r, expected %r" % (name_of(num), t, impl["rows"][s][t], want)
    rest_b = {k: v for k, v in b.items() if k != "pilots"}
    rest_a = {k: v for k, v in a.items() if k != "pilots"}
    if rest_a != rest_b:
        return "a submission changed state other than the pilot matrix: " + ", ".join(k for k in rest_a if rest_a[k] != rest_b[k])
    return None


def monitor_seq(case):
    inp, rec = case["input"], case["impl"]
    set_names(inp.get("names"))
    if rec["problems"]:
        return rec["problems"][0]
    sp = inp["sims"][inp["which"]]
    ids = rec["ids"]
    exp = [list(r) for r in sp["matrix"]]
    width = sp["width"]
    for c, exc in zip(rec["calls"], rec["log"]):
        if c["kind"] == "widen":
            if exc is not None:
                return "_increase_width raised %s" % exc
            width = max(width, c["target"])
        else:
            cl = classify(c["sub"], ids)
            want = {"unknown": "KeyError", "ragged": "InvalidScheduleError"}.get(cl)
            if exc != want:
                return "%s submission at iteration %d raised %r, expected %r" % (cl, c["it"], exc, want)
            if cl == "ok":
                n = sublen(c["sub"])
                width = max(width, c["it"] + n)
                for s, num in enumerate(ids):
                    exp[s] += [0.0] * (width - len(exp[s]))
                    for t in range(c["it"], c["it"] + n):
                        exp[s][t] = spec_value([(c["it"], c["sub"])], name_of(num), t)
    if rec["wid"] < width:
        return "width %d after the calls, at least %d expected" % (rec["wid"], width)
    for s, num in enumerate(ids):
        want = exp[s] + [0.0] * (rec["wid"] - len(exp[s]))
        if rec["rows"][s] != want:
            t = [k for k in range(rec["wid"]) if rec["rows"][s][k] != want[k]][0]
            return "after the call sequence pilot_signals[%r][%d] = %r, the accepted calls say %r" % (
                name_of(num), t, rec["rows"][s][t], want[t])
    return None


def monitor_incw(case):
    inp, impl = case["input"], case["impl"]
    w, t = inp["width"], inp["target"]
    if impl.get("exc"):
        return "_increase_width(%d -> %d) raised %s" % (w, t, impl["exc"])
    if impl["wid"] != max(w, t) or impl["n"] != inp["n"]:
        return "_increase_width(%d -> %d) returned width %d" % (w, t, impl["wid"])
    for s in range(inp["n"]):
        want = list(inp["matrix"][s]) + [0.0] * (max(w, t) - w)
        if impl["rows"][s] != want:
            return "_increase_width changed content of row %d" % s
    if not impl["input_untouched"]:
        return "_increase_width modified its argument"
    return None


def monitor(case):
    st = case["input"].get("stream")
    if st == "run":
        return monitor_run(case)
    if st == "upd":
        return monitor_upd(case)
    if st == "seq":
        return monitor_seq(case)
    if st == "incw":
        return monitor_incw(case)
    return None


def search(rng, budget_s, broken):
    t0 = time.time()
    while time.time() - t0 < budget_s:
        for c in gen_upd_cases(rng, 150) + gen_run_cases(rng, 40) + gen_seq_cases(rng, 30) + \
                [incw_case(rng) for _ in range(40)]:
            r = monitor(c)
            if r:
                return dict(case=shrink(c), impl=c["impl"], why=r)
    return None


def rerun(inp):
    """re-execute a json-able case input on the current tree -> case dict"""
    st = inp["stream"]
    if st == "run":
        if "pair" in inp:
            p = inp["pair"]
            f, s = p["first"], p["second"]
            impl1, impl2 = run_pair(base_of(f), f["script"], base_of(s), s["script"], p["mode"], p["at"])
            return run_case(base_of(f), impl1) if p["role"] == 0 else run_case(base_of(s), impl2)
        base = base_of(inp)
        impl = run_sim(base, script_provider(inp["script"]))
        return run_case(base, impl)
    if st == "upd":
        base = {k: v for k, v in inp.items() if k != "stream"}
        return upd_case(base, run_upd(base))
    if st == "seq":
        base = {k: v for k, v in inp.items() if k not in ("stream", "ops", "which")}
        return seq_cases(base, inp["ops"])[inp["which"]]
    base = dict(inp)
    impl = run_incw(base)
    return dict(input=base, impl=impl)


def shrink(case):
    """greedy shrinking of a failing direct-call case (fewer stations / shorter rows); other cases are kept as is"""
    inp = case["input"]
    if inp.get("stream") != "upd":
        return inp
    set_names(inp.get("names"))
    best = copy.deepcopy(inp)
    for _ in range(30):
        progressed = False
        cands = []
        if len(best["stations"]) > 1:
            for drop in list(best["stations"]):
                c = copy.deepcopy(best)
                j = c["stations"].index(drop)
                c["stations"].pop(j)
                c["matrix"].pop(j)
                if c.get("voltages"):
                    c["voltages"].pop(j)
                c["plugged"] = [p for p in c["plugged"] if p != drop]
                c["sub"] = [r for r in c["sub"] if r["station"] != name_of(drop)]
                c["constraints"] = [[lim, [m for m in mem if m != drop]] for lim, mem in c.get("constraints", [])]
                c["constraints"] = [x for x in c["constraints"] if x[1]]
                cands.append(c)
        if best["plugged"]:
            c = copy.deepcopy(best)
            c["plugged"] = []
            cands.append(c)
        for c in cands:
            try:
                cc = rerun(c)
            except Exception:  # noqa
                continue
            if monitor(cc):
                best, progressed = c, True
                break
        if not progressed:
            break
    return best


def replay(w):
    inp = w["case"]
    c = rerun(inp)
    return monitor(c)
