"""C04 — applied pilots are exactly what the submitted schedules say.

Correspondence: the REAL acnportal Simulator (from $ACN_REPO) is driven by a scripted BaseAlgorithm;
the model (coq/Model/Pilots.v) is run by coqc on the same submissions and the recorded
`event_queue.get_last_timestamp()` of every period; observables compared: the full pilot_signals
matrix (incl. its width), _iteration, the exception class that ended run() and the pilots seen at
every EVSE after every period.  Two more streams call Simulator._update_schedules and
simulator._increase_width directly on prepared states (boundary widths, drained queue, malformed
mappings).  The monitors restate C04 directly on the implementation's recorded behaviour with an
independent Python version of pilot_spec."""
import copy
import fractions
import random
import time
import warnings
from datetime import datetime

from harness.core import q, z, zlit, coq_list, coq_bool, coq_opt, coq_str

PID = "C04"
GEN_GROUPS = ["Pilots"]
TARGETS = ["coq/Props/C04.vo", "coq/Model/Pilots.vo"]
CASES = {"quick": 260, "thorough": 5000}
SHARD = 100
CORR_HEADER = ("From Coq Require Import ZArith QArith List String.\n"
               "From ACN Require Import Base.Num Model.Pilots.\nImport ListNotations.\n"
               "Open Scope string_scope.\nOpen Scope Z_scope.\nOpen Scope Q_scope.\n")
CHECK_FN = "check_c04"
RULE = ("stream run: 3 fixed corpus scenarios (incl. the witness of the defect fixed in afd41a2), then 0-5 wide-range EVSEs registered in shuffled order, random non-overlapping sessions + Recompute "
        "events over a horizon of 1-24 periods, max_recompute in {None,1,2,5}; at every scheduler call a scripted "
        "submission: random subset of stations in shuffled dict order, length 1-12 / up to the horizon / beyond it / "
        "long in the queue-draining period, empty dict, rows as int / float / numpy.float64 lists, numpy arrays or "
        "mixed, occasionally an unknown station or ragged rows; stream upd: _update_schedules called directly on a "
        "prepared simulator (width on both sides of iteration+length, drained or non-empty queue, well-formed / "
        "empty / unknown-station / ragged / both); stream incw: _increase_width on random matrices with targets "
        "around the width.  distinct = distinct (stations, events, submissions) tuples; non-trivial = at least one "
        "non-empty submission")
ASSUMPTIONS = [
    "EVSEs accept the pilots that are sent (EVSE(max_rate=1e9, min_rate=0), non-negative pilots); EVSE acceptance is C13",
    "the event queue enters the pilot logic only through get_last_timestamp()/empty() of each period, which the "
    "harness records from the real EventQueue and passes to the model as an input (the theorems quantify over all "
    "such values); empty() <-> get_last_timestamp() is None",
    "values are copied, never computed: ints, floats and numpy.float64 are compared as exact rationals",
    "event timestamps are >= -1 (numpy refuses a negative width in Simulator.__init__)",
]
TRUSTED_EXTRA = ["numpy block assignment a[:, lo:hi] = M and np.array densification as modelled by write_block/dense "
                 "(validated by the correspondence only)"]
F = fractions.Fraction
BIG = 1e9


# ---------------------------------------------------------------------------------------------
# building python objects from json-able descriptions
# ---------------------------------------------------------------------------------------------
def build_row(row):
    """row = dict(kind=..., vals=[float,...]) -> python object handed to the simulator"""
    import numpy as np
    kind, vals = row["kind"], row["vals"]
    if kind == "int":
        return [int(v) for v in vals]
    if kind == "float":
        return [float(v) for v in vals]
    if kind == "np64":
        return [np.float64(v) for v in vals]
    if kind == "np32":
        return [np.float32(v) for v in vals]          # vals are float32-representable (see rand_vals)
    if kind == "array":
        return np.array([float(v) for v in vals])
    if kind == "intarray":
        return np.array([int(v) for v in vals], dtype=int)
    # mixed element types
    out = []
    for i, v in enumerate(vals):
        out.append([int(v) if float(v).is_integer() else float(v), float(v), np.float64(v)][i % 3])
    return out


def build_sched(sub):
    """sub = list of dict(station=<name>, kind, vals) in dict insertion order"""
    d = {}
    for row in sub:
        d[row["station"]] = build_row(row)
    return d


def name_of(num):
    return "PS-%03d" % num


def num_of(name):
    return int(name.split("-")[1])


def rand_vals(rng, kind, length):
    if kind in ("int", "intarray"):
        return [float(rng.choice([0, 0, 6, 8, 16, 32, rng.randint(0, 80)])) for _ in range(length)]
    vals = [rng.choice([0.0, 6.0, 16.0, 32.0, 7.5, 12.125, round(rng.uniform(0, 64), 3), rng.uniform(0, 64)])
            for _ in range(length)]
    if kind == "np32":
        import numpy as np
        vals = [float(np.float32(v)) for v in vals]
    return vals


KINDS = ["int", "float", "np64", "np32", "array", "intarray", "mix"]


def rand_submission(rng, station_nums, it, width, drained, malformed=None):
    """a json-able submission for a call at iteration `it` (current matrix width `width`)"""
    r = rng.random()
    if malformed is None and r < 0.08:
        return []                                    # empty dict
    remaining = max(width - it, 0)
    c = rng.random()
    if drained and rng.random() < 0.7:
        length = rng.choice([1, 2, 3, rng.randint(2, 12), remaining + rng.randint(1, 6)])
    elif c < 0.45:
        length = rng.randint(1, 12)
    elif c < 0.6:
        length = max(1, remaining)                  # exactly to the end of the allocated matrix
    elif c < 0.7:
        length = max(1, remaining + rng.choice([-1, 1]))
    elif c < 0.85:
        length = remaining + rng.randint(1, 8)      # beyond the horizon
    elif c < 0.88:
        length = 0                                  # rows of length zero (outside the property, still modelled)
    else:
        length = 1
    nums = list(station_nums)
    rng.shuffle(nums)
    if nums:
        k = rng.choice([len(nums), len(nums), rng.randint(1, len(nums)), 1])
        nums = nums[:k]
    sub = []
    for n in nums:
        kind = rng.choice(KINDS)
        sub.append(dict(station=name_of(n), kind=kind, vals=rand_vals(rng, kind, length)))
    if malformed in ("unknown", "both") or (not station_nums and malformed is None and rng.random() < 0.4):
        kind = rng.choice(KINDS)
        bad = dict(station=rng.choice(["PS-999", "ghost", name_of(max(list(station_nums) + [0]) + 1)]), kind=kind,
                   vals=rand_vals(rng, kind, length))
        sub.insert(rng.randint(0, len(sub)), bad)
    if malformed in ("ragged", "both"):
        if len(sub) < 2:
            if len(station_nums) >= 2 and len(sub) == 1:
                other = [n for n in station_nums if name_of(n) != sub[0]["station"]][0]
                sub.append(dict(station=name_of(other), kind="float", vals=rand_vals(rng, "float", length)))
            else:
                return rand_submission(rng, station_nums, it, width, drained, "unknown")
        j = rng.randrange(len(sub))
        row = sub[j]
        newlen = max(0, length + rng.choice([-1, 1, 2, -length]))
        if newlen == length:
            newlen = length + 1
        if row["kind"] in ("array", "intarray"):
            row["kind"] = "float"                   # keep np.array(list-of-rows) out of numpy's ragged path
        row["vals"] = rand_vals(rng, row["kind"], newlen)
    return sub


def sub_coq(sub):
    return coq_list(["(%s, %s)" % (zlit(enc_station(r["station"])), coq_list([q(float(v)) for v in r["vals"]]))
                     for r in sub])


def enc_station(name):
    if name.startswith("PS-"):
        return num_of(name)
    return 100000 + sum(ord(c) for c in name)


# ---------------------------------------------------------------------------------------------
# stream 1: a whole run()
# ---------------------------------------------------------------------------------------------
def make_network(station_nums, constraints=()):
    """constraints: [(limit, [station nums])] -> sum of the stations' currents <= limit (often violated by the
    scripted schedules: _update_schedules only warns about infeasible schedules, it must still apply them)"""
    from acnportal.acnsim.network import ChargingNetwork, Current
    from acnportal.acnsim.models import EVSE

    class RecNet(ChargingNetwork):
        def __init__(self):
            super().__init__()
            self.rec = []
            self.sim = None

        def post_charging_update(self):
            self.rec.append(dict(it=int(self.sim._iteration),
                                 last=self.sim.event_queue.get_last_timestamp(),
                                 empty=bool(self.sim.event_queue.empty()),
                                 width=int(self.sim.pilot_signals.shape[1]),
                                 pilots=[float(e.current_pilot) for e in self._EVSEs.values()]))

    net = RecNet()
    for n in station_nums:
        net.register_evse(EVSE(name_of(n), max_rate=BIG, min_rate=0), 240, 0)
    for j, (limit, members) in enumerate(constraints):
        net.add_constraint(Current([name_of(m) for m in members]), limit, "lim%d" % j)
    return net


def rand_constraints(rng, pool):
    if not pool or rng.random() < 0.5:
        return []
    out = []
    for _ in range(rng.choice([1, 1, 2])):
        members = [m for m in pool if rng.random() < 0.7] or [pool[0]]
        out.append([rng.choice([1, 10, 40, 1000]), members])
    return out


def make_events(inp):
    from acnportal.acnsim.events import EventQueue, PluginEvent, RecomputeEvent
    from acnportal.acnsim.models import EV, Battery
    evs = []
    events = []
    for i, s in enumerate(inp["sessions"]):
        ev = EV(s["arrival"], s["departure"], s["energy"], name_of(s["station"]), "sess-%d" % i,
                Battery(100, 0, 100))
        evs.append(ev)
        events.append(PluginEvent(s["arrival"], ev))
    for t in inp["recomputes"]:
        events.append(RecomputeEvent(t))
    return EventQueue(events), evs


def run_sim(inp, provider):
    """inp: dict(stations=[nums in registration order], sessions, recomputes, max_recompute)
    provider(call_index, it, width, drained) -> json-able submission.  Returns the recorded behaviour."""
    from acnportal.acnsim import Simulator
    from acnportal.algorithms import BaseAlgorithm

    calls = []

    class Scripted(BaseAlgorithm):
        def __init__(self, max_recompute):
            super().__init__()
            self.max_recompute = max_recompute
            self.sim = None

        def schedule(self, active_sessions):
            sim = self.sim
            it = int(sim._iteration)
            sub = provider(len(calls), it, int(sim.pilot_signals.shape[1]), bool(sim.event_queue.empty()))
            seen = {}
            try:
                applied = self.interface.last_applied_pilot_signals
                st_of = {ev.session_id: ev.station_id for ev in sim.network.active_evs}
                seen = {st_of[sid]: float(v) for sid, v in applied.items() if sid in st_of}
            except Exception as e:  # noqa
                seen = {"error": type(e).__name__}
            calls.append(dict(it=it, last=sim.event_queue.get_last_timestamp(),
                              empty=bool(sim.event_queue.empty()), sub=sub, seen_prev=seen))
            return build_sched(sub)

    net = make_network(inp["stations"], inp.get("constraints", ()))
    queue, evs = make_events(inp)
    last0 = queue.get_last_timestamp()
    alg = Scripted(inp["max_recompute"])
    sim = Simulator(net, alg, queue, datetime(2020, 1, 1), period=5, verbose=False)
    net.sim = sim
    alg.sim = sim
    exc = None
    try:
        with warnings.catch_warnings():
            warnings.simplefilter("ignore")
            sim.run()
    except Exception as e:  # noqa
        exc = type(e).__name__
    try:
        df = sim.pilot_signals_as_df()
        df_ok = list(df.columns) == list(net.station_ids) and \
            [[float(x) for x in df[c]] for c in df.columns] == [[float(x) for x in r] for r in sim.pilot_signals]
    except Exception:  # noqa
        df_ok = False
    return dict(exc=exc, last0=last0, ids=[num_of(s) for s in net.station_ids], df_ok=df_ok,
                rows=[[float(x) for x in r] for r in sim.pilot_signals],
                wid=int(sim.pilot_signals.shape[1]), iter=int(sim._iteration),
                periods=net.rec, calls=calls,
                energies=[float(ev.energy_delivered) for ev in evs])


def rand_run_input(rng):
    n = rng.choice([0, 1, 1, 2, 2, 3, 3, 4, 5])
    pool = rng.sample(range(1, 60), n)               # registration order != numeric order
    horizon = rng.choice([1, 2, rng.randint(1, 24), rng.randint(4, 24), rng.randint(8, 30)])
    sessions = []
    busy = {s: 0 for s in pool}
    for _ in range(rng.choice([0, 1, 2, 3, 4]) if n else 0):
        s = rng.choice(pool)
        a = rng.randint(busy[s], horizon)
        if a >= horizon:
            continue
        d = rng.randint(a + 1, horizon)
        busy[s] = d
        sessions.append(dict(station=s, arrival=a, departure=d, energy=rng.choice([1, 5, 20])))
    k = rng.choice([0, 1, 2, 4]) if sessions else rng.choice([0, 1, 2, 4, 4])
    if rng.random() < 0.04:
        k = 0
    recomputes = sorted(rng.randint(0, horizon) for _ in range(k))
    return dict(stations=pool, sessions=sessions, recomputes=recomputes,
                max_recompute=rng.choice([None, None, 1, 2, 5]), constraints=rand_constraints(rng, pool))


def trace_of(impl):
    """[(last, sub-or-None)] per period, chronological, incl. the period in which run() raised"""
    by_it = {c["it"]: c for c in impl["calls"]}
    tr = []
    for p in impl["periods"]:
        c = by_it.get(p["it"])
        tr.append((p["last"], c["sub"] if c else None))
    if impl["exc"] is not None and impl["calls"]:
        c = impl["calls"][-1]
        if c["it"] == len(impl["periods"]):
            tr.append((c["last"], c["sub"]))
    return tr


def run_case(inp, impl):
    tr = trace_of(impl)
    coq = ("{| c_ids := %s; c_last0 := %s;\n   c_trace := %s;\n   i_exc := %s; i_rows := %s; i_wid := %s; i_iter := %s;\n"
           "   i_sent := %s |}") % (
        coq_list([zlit(n) for n in impl["ids"]]), coq_opt(impl["last0"], zlit),
        coq_list(["(%s, %s)" % (coq_opt(l, zlit), coq_opt(s, sub_coq)) for l, s in tr]),
        coq_opt(impl["exc"], coq_str), coq_list([coq_list([q(x) for x in r]) for r in impl["rows"]]),
        zlit(impl["wid"]), zlit(impl["iter"]),
        coq_list([coq_list([q(x) for x in p["pilots"]]) for p in impl["periods"]]))
    subs = [c["sub"] for c in impl["calls"]]
    kinds = set()
    for c in impl["calls"]:
        kinds.add(classify(c["sub"], impl["ids"]))
        if c["sub"] and c["empty"]:
            kinds.add("drained")
        if c["sub"] and c["it"] + sublen(c["sub"]) > c_width_before(impl, c):
            kinds.add("grow")
    tag = "run/" + ("exc" if impl["exc"] else "ok") + ("+grow" if "grow" in kinds else "") + \
        ("+drained" if "drained" in kinds else "")
    return dict(input=dict(stream="run", **inp, script=subs), impl=impl, coq=coq, ambiguous=False, kind=tag,
                sig=["run", inp["stations"], inp["sessions"], inp["recomputes"], inp["max_recompute"],
                     inp.get("constraints"),
                     [[(r["station"], r["vals"]) for r in s] for s in subs]],
                nontrivial=any(len(s) > 0 for s in subs))


def c_width_before(impl, call):
    """matrix width when the scheduler was called at call['it'] (= width after the previous period)"""
    prev = [p for p in impl["periods"] if p["it"] == call["it"] - 1]
    if prev:
        return prev[0]["width"]
    return 1 if impl["last0"] is None else impl["last0"] + 1


def sublen(sub):
    return len(sub[0]["vals"]) if sub else 0


def classify(sub, ids):
    if not sub:
        return "empty"
    if any(not r["station"].startswith("PS-") or num_of(r["station"]) not in ids for r in sub):
        return "unknown"
    if len({len(r["vals"]) for r in sub}) > 1:
        return "ragged"
    return "ok"


def _row(num, vals, kind="float"):
    return dict(station=name_of(num), kind=kind, vals=[float(v) for v in vals])


# deterministic scenarios that are part of every run
CORPUS = [
    # the defect fixed by /repo commit afd41a2: a schedule reaching beyond the allocated matrix, submitted in the
    # period that drains the event queue (get_last_timestamp() is None there)
    dict(stations=[7], sessions=[dict(station=7, arrival=0, departure=2, energy=5)], recomputes=[],
         max_recompute=None, constraints=[],
         script=[[_row(7, [16, 16])], [_row(7, [8, 8, 8, 8, 8], "int")]]),
    # overlay: a long schedule, then a shorter one that omits a station, then an empty one
    dict(stations=[9, 4], sessions=[dict(station=4, arrival=0, departure=6, energy=5)], recomputes=[2, 3],
         max_recompute=None, constraints=[[10, [9, 4]]],
         script=[[_row(4, [1, 2, 3, 4, 5, 6]), _row(9, [7, 7, 7, 7, 7, 7], "np64")], [_row(9, [30.5, 31.5], "array")],
                 [], [_row(4, [12.125])]]),
    # max_recompute = 1: a submission in every period, each one period long, stations in reverse order
    dict(stations=[3, 2, 1], sessions=[dict(station=2, arrival=1, departure=4, energy=5)], recomputes=[],
         max_recompute=1, constraints=[],
         script=[[_row(1, [k]), _row(2, [k + 0.5]), _row(3, [k + 0.25], "np32")] for k in range(8)]),
]


def corpus_cases():
    out = []
    for sc in CORPUS:
        base = {k: v for k, v in sc.items() if k != "script"}
        script = sc["script"]
        impl = run_sim(base, lambda k, it, w, d, script=script: script[k] if k < len(script) else [])
        c = run_case(base, impl)
        c["kind"] = "corpus/" + c["kind"]
        out.append(c)
    return out


def gen_run_cases(rng, n, corpus=False):
    cases = corpus_cases() if corpus else []
    while len(cases) < n:
        inp = rand_run_input(rng)
        bad_at = rng.choice([None] * 6 + [rng.randint(0, 6)])      # ~14% of the runs contain a malformed submission
        bad_kind = rng.choice(["unknown", "ragged", "ragged", "both"])

        def provider(k, it, width, drained, inp=inp, bad_at=bad_at, bad_kind=bad_kind):
            return rand_submission(rng, inp["stations"], it, width, drained,
                                   malformed=bad_kind if (bad_at is not None and k == bad_at) else None)
        impl = run_sim(inp, provider)
        c = run_case(inp, impl)
        # the same scenario with every mapping's entries in another order must give the same matrix
        if rng.random() < 0.35 and impl["calls"]:
            script = [list(s) for s in c["input"]["script"]]
            for s in script:
                rng.shuffle(s)
            impl2 = run_sim(inp, lambda k, it, w, d, script=script: script[k] if k < len(script) else [])
            c["impl"]["perm"] = dict(rows=impl2["rows"], wid=impl2["wid"], exc=impl2["exc"],
                                     sent=[p["pilots"] for p in impl2["periods"]])
        cases.append(c)
    return cases


# ---------------------------------------------------------------------------------------------
# stream 2: _update_schedules called directly
# ---------------------------------------------------------------------------------------------
def digest(sim, evs):
    return dict(pilots=[[float(x) for x in r] for r in sim.pilot_signals],
                rates=[[float(x) for x in r] for r in sim.charging_rates],
                iteration=int(sim._iteration), resolve=bool(sim._resolve), last_update=sim._last_schedule_update,
                peak=float(sim.peak), queue=len(sim.event_queue),
                energies=[float(ev.energy_delivered) for ev in evs],
                charges=[float(ev._battery._current_charge) for ev in evs],
                evse_pilots=[float(e.current_pilot) for e in sim.network._EVSEs.values()],
                occupants=[None if e.ev is None else e.ev.session_id for e in sim.network._EVSEs.values()],
                history=None if sim.schedule_history is None else sorted(sim.schedule_history))


def run_upd(inp):
    """inp: dict(stations, iteration, matrix (station-major floats), width, last (int|None), plugged=[nums], sub)"""
    import numpy as np
    from acnportal.acnsim import Simulator
    from acnportal.acnsim.events import EventQueue, RecomputeEvent
    from acnportal.acnsim.models import EV, Battery
    from acnportal.algorithms import BaseAlgorithm
    net = make_network(inp["stations"], inp.get("constraints", ()))
    evs = []
    for i, s in enumerate(inp["plugged"]):
        ev = EV(0, 1000, 50, name_of(s), "sess-%d" % i, Battery(100, 10, 100))
        net.plugin(ev)
        evs.append(ev)
    events = [] if inp["last"] is None else [RecomputeEvent(inp["last"])] + \
        [RecomputeEvent(t) for t in inp.get("more_events", [])]
    sim = Simulator(net, BaseAlgorithm(), EventQueue(events), datetime(2020, 1, 1), period=5, verbose=False,
                    store_schedule_history=True)
    net.sim = sim
    n = len(inp["stations"])
    sim.pilot_signals = np.array(inp["matrix"], dtype=float).reshape((n, inp["width"]))
    sim.charging_rates = np.zeros((n, inp["width"]))
    sim._iteration = inp["iteration"]
    before = digest(sim, evs)
    exc = None
    try:
        with warnings.catch_warnings():
            warnings.simplefilter("ignore")
            sim._update_schedules(build_sched(inp["sub"]))
    except Exception as e:  # noqa
        exc = type(e).__name__
    after = digest(sim, evs)
    return dict(exc=exc, ids=[num_of(s) for s in net.station_ids], before=before, after=after,
                rows=after["pilots"], wid=int(sim.pilot_signals.shape[1]),
                last=sim.event_queue.get_last_timestamp())


def rand_upd_input(rng):
    n = rng.choice([0, 1, 2, 2, 3, 4, 5])
    pool = rng.sample(range(1, 60), n)
    it = rng.choice([0, 0, 1, 2, rng.randint(0, 20)])
    width = rng.choice([it, it + 1, it + 1, it + rng.randint(1, 14), it + rng.randint(1, 14),
                        max(1, it - rng.randint(1, 3))])     # width == it: nothing allocated ahead; < it: not reachable by run()
    if width == 0:
        width = 1
    matrix = [[rng.choice([0.0, 0.0, 6.0, 16.0, round(rng.uniform(0, 64), 2)]) for _ in range(width)] for _ in pool]
    last = rng.choice([None, None, it + 1, width - 1, width + rng.randint(0, 9), rng.randint(0, 30)])
    if last is not None and last < 0:
        last = None
    mal = rng.choice([None, None, None, None, None, None, "unknown", "ragged", "ragged", "both"])
    sub = rand_submission(rng, pool, it, width, last is None, malformed=mal)
    plugged = [s for s in pool if rng.random() < 0.5]
    return dict(stations=pool, iteration=it, matrix=matrix, width=width, last=last, plugged=plugged, sub=sub,
                constraints=rand_constraints(rng, pool))


def upd_case(inp, impl):
    coq = ("{| u_ids := %s; u_last := %s; u_iter := %s; u_rows := %s; u_wid := %s;\n   u_sched := %s;\n"
           "   iu_exc := %s; iu_rows := %s; iu_wid := %s |}") % (
        coq_list([zlit(x) for x in impl["ids"]]), coq_opt(impl["last"], zlit), zlit(inp["iteration"]),
        coq_list([coq_list([q(x) for x in r]) for r in inp["matrix"]]), zlit(inp["width"]), sub_coq(inp["sub"]),
        coq_opt(impl["exc"], coq_str), coq_list([coq_list([q(x) for x in r]) for r in impl["rows"]]), zlit(impl["wid"]))
    cl = classify(inp["sub"], impl["ids"])
    grow = cl == "ok" and inp["iteration"] + sublen(inp["sub"]) > inp["width"]
    tag = "upd/%s%s%s" % (cl, "+grow" if grow else "", "+drained" if inp["last"] is None else "")
    return dict(input=dict(stream="upd", **inp), impl=impl, coq=coq, ambiguous=False, kind=tag,
                sig=["upd", inp["stations"], inp["iteration"], inp["width"], inp["last"], inp["matrix"],
                     [(r["station"], r["vals"]) for r in inp["sub"]]], nontrivial=bool(inp["sub"]))


# ---------------------------------------------------------------------------------------------
# stream 3: _increase_width
# ---------------------------------------------------------------------------------------------
def run_incw(inp):
    import numpy as np
    from acnportal.acnsim.simulator import _increase_width
    a = np.array(inp["matrix"], dtype=float).reshape((inp["n"], inp["width"]))
    a0 = a.copy()
    try:
        b = _increase_width(a, inp["target"])
    except Exception as e:  # noqa
        return dict(exc=type(e).__name__, rows=[], wid=-1, n=-1, input_untouched=bool((a == a0).all()))
    return dict(exc=None, rows=[[float(x) for x in r] for r in b], wid=int(b.shape[1]), n=int(b.shape[0]),
                input_untouched=bool((a == a0).all()))


def incw_case(rng):
    n = rng.choice([0, 1, 2, 3, 5])
    width = rng.choice([0, 1, 1, 2, rng.randint(1, 15)])
    matrix = [[rng.choice([0.0, 6.0, 32.0, round(rng.uniform(0, 64), 2)]) for _ in range(width)] for _ in range(n)]
    target = rng.choice([width, width + 1, width - 1, width + rng.randint(0, 12), rng.randint(0, 20), 0])
    target = max(target, 0)
    inp = dict(stream="incw", n=n, width=width, matrix=matrix, target=target)
    impl = run_incw(inp)
    coq = "{| w_rows := %s; w_wid := %s; w_target := %s; iw_exc := %s; iw_rows := %s; iw_wid := %s |}" % (
        coq_list([coq_list([q(x) for x in r]) for r in matrix]), zlit(width), zlit(target),
        coq_opt(impl["exc"], coq_str),
        coq_list([coq_list([q(x) for x in r]) for r in impl["rows"]]), zlit(impl["wid"]))
    return dict(input=inp, impl=impl, coq=coq, ambiguous=False,
                kind="incw/" + ("keep" if target <= width else "grow"), sig=["incw", n, width, target, matrix],
                nontrivial=True)


# ---------------------------------------------------------------------------------------------
# the harness interface
# ---------------------------------------------------------------------------------------------
def gen_cases(rng, n, tier):
    return gen_run_cases(rng, n, corpus=True)


def gen_upd_cases(rng, n):
    out = []
    for _ in range(n):
        inp = rand_upd_input(rng)
        out.append(upd_case(inp, run_upd(inp)))
    return out


def extra_streams(rng, tier):
    n_upd = 500 if tier == "quick" else 8000
    n_w = 150 if tier == "quick" else 2000
    hdr = CORR_HEADER
    return [("u", hdr, "check_c04u", gen_upd_cases(rng, n_upd)),
            ("w", hdr, "check_c04w", [incw_case(rng) for _ in range(n_w)])]


# ---------------------------------------------------------------------------------------------
# monitors: C04 stated directly on the implementation's recorded behaviour
# ---------------------------------------------------------------------------------------------
def spec_value(subs, station, t):
    """independent re-statement of pilot_spec.  subs: chronological [(t', sub)]; last covering one wins"""
    val = 0.0
    for t0, sub in subs:
        if not sub:
            continue
        length = len(sub[0]["vals"])
        if t0 <= t < t0 + length:
            val = 0.0
            for r in sub:
                if r["station"] == station:
                    val = float(r["vals"][t - t0])
    return val


def monitor_run(case):
    impl = case["impl"]
    ids = impl["ids"]
    calls = impl["calls"]
    accepted = []
    for i, c in enumerate(calls):
        cl = classify(c["sub"], ids)
        last_call = i == len(calls) - 1
        if cl in ("unknown", "ragged"):
            want = "KeyError" if cl == "unknown" else "InvalidScheduleError"
            if not last_call or impl["exc"] != want:
                return "malformed submission (%s) at period %d did not end run() with %s (got %r)" % (
                    cl, c["it"], want, impl["exc"])
            if impl["iter"] != c["it"]:
                return "rejected submission changed the iteration counter"
        else:
            accepted.append((c["it"], c["sub"]))
    bad_last = calls and classify(calls[-1]["sub"], ids) in ("unknown", "ragged")
    if impl["exc"] is not None and not bad_last:
        c = calls[-1] if calls else None
        return "run() raised %s although every submission is well-formed (last submission at period %s, length %s, queue %s)" % (
            impl["exc"], c and c["it"], c and sublen(c["sub"]), "drained" if c and c["empty"] else "non-empty")
    # overlay: the recorded matrix is the overlay of the accepted submissions
    for s, num in enumerate(ids):
        row = impl["rows"][s]
        if len(row) != impl["wid"]:
            return "row %d has %d columns, width is %d" % (s, len(row), impl["wid"])
        for t in range(impl["wid"]):
            want = spec_value(accepted, name_of(num), t)
            if row[t] != want:
                return "pilot_signals[%s][%d] = %r, the submitted schedules say %r" % (name_of(num), t, row[t], want)
    for t0, sub in accepted:
        if sub and ids and t0 + sublen(sub) > impl["wid"]:
            return "submission at %d of length %d reaches beyond the recorded width %d" % (t0, sublen(sub), impl["wid"])
    # applied: what every EVSE saw in period t
    for p in impl["periods"]:
        upto = [(t0, sub) for t0, sub in accepted if t0 <= p["it"]]
        for s, num in enumerate(ids):
            want = spec_value(upto, name_of(num), p["it"])
            if p["pilots"][s] != want:
                return "station %s got pilot %r in period %d, the submitted schedules say %r" % (
                    name_of(num), p["pilots"][s], p["it"], want)
    if not impl.get("df_ok", True):
        return "pilot_signals_as_df() is not the transpose of pilot_signals with the stations as columns"
    # what the next scheduler call is told (Interface.last_applied_pilot_signals) about period it-1
    for c in calls:
        seen = c.get("seen_prev") or {}
        if "error" in seen:
            return "Interface.last_applied_pilot_signals raised %s" % seen["error"]
        upto = [(t0, sub) for t0, sub in accepted if t0 <= c["it"] - 1]
        for station, v in seen.items():
            want = spec_value(upto, station, c["it"] - 1)
            if v != want:
                return "scheduler at period %d was told %r was applied at %s in period %d, the submitted schedules say %r" % (
                    c["it"], v, station, c["it"] - 1, want)
    if [p["it"] for p in impl["periods"]] != list(range(len(impl["periods"]))):
        return "periods are not consecutive"
    perm = impl.get("perm")
    if perm is not None:
        if perm["rows"] != impl["rows"] or perm["wid"] != impl["wid"] or perm["exc"] != impl["exc"] \
                or perm["sent"] != [p["pilots"] for p in impl["periods"]]:
            return "permuting the entries of the submitted mappings changed the outcome"
    return None


def monitor_upd(case):
    inp, impl = case["input"], case["impl"]
    ids = impl["ids"]
    cl = classify(inp["sub"], ids)
    b, a = impl["before"], impl["after"]
    if cl == "empty":
        if impl["exc"] is not None or a != b:
            return "empty schedule changed state / raised %r" % impl["exc"]
        return None
    if cl in ("unknown", "ragged"):
        want = "KeyError" if cl == "unknown" else "InvalidScheduleError"
        if impl["exc"] != want:
            return "%s submission raised %r, expected %s" % (cl, impl["exc"], want)
        if a != b:
            return "rejected submission changed state: " + ", ".join(k for k in a if a[k] != b[k])
        return None
    it, length, w = inp["iteration"], sublen(inp["sub"]), inp["width"]
    if impl["exc"] is not None:
        return "well-formed submission (period %d, length %d, width %d, queue %s) raised %s" % (
            it, length, w, "drained" if inp["last"] is None else "last=%d" % inp["last"], impl["exc"])
    neww = impl["wid"]
    if neww < w or (ids and neww < it + length):
        return "width %d after a submission of length %d at %d (was %d)" % (neww, length, it, w)
    for s, num in enumerate(ids):
        for t in range(neww):
            old = inp["matrix"][s][t] if t < w else 0.0
            want = spec_value([(it, inp["sub"])], name_of(num), t) if it <= t < it + length else old
            if impl["rows"][s][t] != want:
                return "after the submission pilot_signals[%s][%d] = %r, expected %r" % (name_of(num), t, impl["rows"][s][t], want)
    rest_b = {k: v for k, v in b.items() if k != "pilots"}
    rest_a = {k: v for k, v in a.items() if k != "pilots"}
    if rest_a != rest_b:
        return "a submission changed state other than the pilot matrix: " + ", ".join(k for k in rest_a if rest_a[k] != rest_b[k])
    return None


def monitor_incw(case):
    inp, impl = case["input"], case["impl"]
    w, t = inp["width"], inp["target"]
    if impl.get("exc"):
        return "_increase_width(%d -> %d) raised %s" % (w, t, impl["exc"])
    if impl["wid"] != max(w, t) or impl["n"] != inp["n"]:
        return "_increase_width(%d -> %d) returned width %d" % (w, t, impl["wid"])
    for s in range(inp["n"]):
        want = list(inp["matrix"][s]) + [0.0] * (max(w, t) - w)
        if impl["rows"][s] != want:
            return "_increase_width changed content of row %d" % s
    if not impl["input_untouched"]:
        return "_increase_width modified its argument"
    return None


def monitor(case):
    st = case["input"].get("stream")
    if st == "run":
        return monitor_run(case)
    if st == "upd":
        return monitor_upd(case)
    if st == "incw":
        return monitor_incw(case)
    return None


def search(rng, budget_s, broken):
    t0 = time.time()
    while time.time() - t0 < budget_s:
        for c in gen_upd_cases(rng, 150) + gen_run_cases(rng, 40) + [incw_case(rng) for _ in range(40)]:
            r = monitor(c)
            if r:
                return dict(case=shrink(c), impl=c["impl"], why=r)
    return None


def rerun(inp):
    """re-execute a json-able case input on the current tree -> case dict"""
    st = inp["stream"]
    if st == "run":
        script = inp["script"]
        base = {k: inp[k] for k in ("stations", "sessions", "recomputes", "max_recompute", "constraints") if k in inp}
        impl = run_sim(base, lambda k, it, w, d: script[k] if k < len(script) else [])
        return run_case(base, impl)
    if st == "upd":
        base = {k: v for k, v in inp.items() if k != "stream"}
        return upd_case(base, run_upd(base))
    base = dict(inp)
    impl = run_incw(base)
    return dict(input=base, impl=impl)


def shrink(case):
    """greedy shrinking of a failing direct-call case (fewer stations / shorter rows); run cases are kept as is"""
    inp = case["input"]
    if inp.get("stream") != "upd":
        return inp
    best = copy.deepcopy(inp)
    for _ in range(30):
        progressed = False
        cands = []
        if len(best["stations"]) > 1:
            for drop in list(best["stations"]):
                c = copy.deepcopy(best)
                j = c["stations"].index(drop)
                c["stations"].pop(j)
                c["matrix"].pop(j)
                c["plugged"] = [p for p in c["plugged"] if p != drop]
                c["sub"] = [r for r in c["sub"] if r["station"] != name_of(drop)]
                cands.append(c)
        if best["plugged"]:
            c = copy.deepcopy(best)
            c["plugged"] = []
            cands.append(c)
        for c in cands:
            try:
                cc = rerun(c)
            except Exception:  # noqa
                continue
            if monitor(cc):
                best, progressed = c, True
                break
        if not progressed:
            break
    return best


def replay(w):
    inp = w["case"]
    c = rerun(inp)
    return monitor(c)
