"""C11 — the event queue returns events by time then precedence, for every interleaving.

Correspondence: random operation sequences over the REAL acnportal EventQueue (heapq underneath)
vs the exact Gallina model (Model/HeapQ.v + Model/Events.v).  Every returned value is compared,
including the identity of every popped event (an integer `vid` attached to each event object, which
also survives the JSON round trip) and the raw `_queue` array after every JSON round trip and at
the end of the sequence.

Monitor: C11's statements evaluated on the implementation's trace against a shadow multiset
(pop-min, exactly-the-current-events in order, len/empty/last, restored queue == original)."""
import json
import time

from harness.core import z, coq_list, coq_bool, coq_opt

PID = "C11"
GEN_GROUPS = ["Events", "EventParams"]
TARGETS = ["coq/Props/C11.vo", "coq/Model/Events.vo", "coq/Model/HeapQ.vo"]
CASES = {"quick": 400, "thorough": 4000}
MAXLEN = {"quick": 200, "thorough": 2000}
CORR_HEADER = ("From Coq Require Import ZArith List Bool.\n"
               "From ACN Require Import Base.Num Model.Events.\nImport ListNotations.\n"
               "Open Scope Z_scope.\n")
CHECK_FN = "check_c11"
SHARD = 25
RULE = ("random op sequences (<=200 ops quick, <=2000 thorough) over EventQueue(events)/add_event/add_events/"
        "get_event/get_current_events(t)/len/empty/get_last_timestamp/to_json+from_json, generated while "
        "running the real queue so that t and re-pushed events are chosen from the pending set; timestamps "
        "from a per-case range in {1,3,8,40,1000} (ties; 15% of the cases also negative), all three event classes, occasional re-push of a "
        "pending event object, get_event on an empty queue; non-trivial = distinct op sequence")
ASSUMPTIONS = ["timestamps and precedences are integers (the three shipped event classes); CPython's heapq "
               "(C accelerator) behaves as Lib/heapq.py — re-implemented line by line and compared on every case, "
               "including the identity of each popped event and the raw heap array"]
TRUSTED_EXTRA = ["tools/gen_events.py (reads the precedence/event_type literals assigned in the event constructors)"]

KINDS = ["Unplug", "Plugin", "Recompute"]          # rank in the property text: unplug, plug-in, recompute
KCOQ = {"Unplug": "KUnplug", "Plugin": "KPlugin", "Recompute": "KRecompute"}
RANK = {k: i for i, k in enumerate(KINDS)}
BADP = 999983                                       # stands for a precedence the model cannot represent


# ---------------------------------------------------------------------------------------------
# running the real implementation
# ---------------------------------------------------------------------------------------------
def _mk_event(ts, kind, vid):
    from acnportal.acnsim.events import PluginEvent, UnplugEvent, RecomputeEvent
    from acnportal.acnsim.models import EV, Battery
    if kind == "Recompute":
        e = RecomputeEvent(ts)
    else:
        ev = EV(ts, ts + 5, 10, "S%d" % (vid % 7), "sess%d" % vid, Battery(50, 0, 7))
        e = PluginEvent(ts, ev) if kind == "Plugin" else UnplugEvent(ts, ev)
    e.vid = vid          # extra attribute: kept by the registry serialiser, so identity survives JSON
    return e


def _prec(p):
    if isinstance(p, bool) or not isinstance(p, (int, float)):
        return BADP
    if p != p or p in (float("inf"), float("-inf")) or int(p) != p:
        return BADP
    return int(p)


def _ev_obs(e):
    """(timestamp attribute, precedence, vid, event_type) of a returned event"""
    return [getattr(e, "timestamp", None), _prec(getattr(e, "precedence", None)), getattr(e, "vid", -1),
            getattr(e, "event_type", "?")]


def _arr_obs(q):
    out = []
    for entry in q._queue:
        try:
            ts, e = entry
            out.append([ts] + _ev_obs(e))
        except Exception:  # noqa  (an entry that is not a (ts, event) pair)
            out.append([None, None, BADP, -1, "?"])
    return out


class Runner:
    """Applies ops to a real EventQueue; after a JSON round trip it also keeps the ORIGINAL queue as a
    twin that receives the same ops, to observe 'a restored queue behaves identically'."""

    def __init__(self, init):
        from acnportal.acnsim.events import EventQueue
        self.EventQueue = EventQueue
        self.objs = {}          # vid -> event object living in the main queue
        self.twin = None
        self.twin_objs = {}
        evs = [self._obj(t) for t in (init or [])]
        self.q = EventQueue(evs) if init is not None else EventQueue()
        self.results = []

    def _obj(self, triple, twin=False):
        ts, kind, vid = triple
        objs = self.twin_objs if twin else self.objs
        if vid not in objs:
            e = _mk_event(ts, kind, vid)
            objs[vid] = e
            if not twin and self.twin is not None and vid not in self.twin_objs:
                self.twin_objs[vid] = e       # new events are shared between the queue and its twin
        return objs[vid]

    def _do(self, q, op, twin):
        k = op[0]
        if k == "add":
            return q.add_event(self._obj(op[1:4], twin))
        if k == "addmany":
            return q.add_events([self._obj(t, twin) for t in op[1]])
        if k == "get":
            return q.get_event()
        if k == "cur":
            return q.get_current_events(op[1])
        if k == "len":
            return len(q)
        if k == "empty":
            return q.empty()
        if k == "last":
            return q.get_last_timestamp()
        raise ValueError(k)

    @staticmethod
    def _obs(k, r):
        if k in ("add", "addmany"):
            return ["none"] if r is None else ["value", repr(r)]
        if k == "get":
            return ["ev"] + _ev_obs(r) if hasattr(r, "precedence") else ["value", repr(r)]
        if k == "cur":
            if isinstance(r, list) and all(hasattr(e, "precedence") for e in r):
                return ["evs", [_ev_obs(e) for e in r]]
            return ["value", repr(r)]
        if k == "len":
            return ["len", r] if isinstance(r, int) and not isinstance(r, bool) else ["value", repr(r)]
        if k == "empty":
            return ["bool", r] if isinstance(r, bool) else ["value", repr(r)]
        if k == "last":
            return ["last", r] if (r is None or (isinstance(r, int) and not isinstance(r, bool))) else ["value", repr(r)]
        return ["value", repr(r)]

    def apply(self, op):
        k = op[0]
        if k == "json":
            try:
                s = self.q.to_json()
                q2 = self.EventQueue.from_json(s)
                before = _arr_obs(self.q)
                res = ["json", getattr(q2, "_timestep", None), _arr_obs(q2), before, self.q._timestep]
                self.twin, self.twin_objs = self.q, dict(self.objs)
                self.q = q2
                self.objs = {}
                for _, e in q2._queue:
                    self.objs.setdefault(getattr(e, "vid", -1), e)
            except Exception as ex:  # noqa
                res = ["exc", type(ex).__name__]
            self.results.append(res)
            return res
        try:
            r = self._do(self.q, op, False)
        except IndexError:
            res = ["IndexError"]
        except Exception as ex:  # noqa
            res = ["exc", type(ex).__name__]
        else:
            try:
                res = self._obs(k, r)
            except Exception as ex:  # noqa
                res = ["value", "unobservable result: %s" % type(ex).__name__]
        if self.twin is not None:
            try:
                tres = self._obs(k, self._do(self.twin, op, True))
            except IndexError:
                tres = ["IndexError"]
            except Exception as ex:  # noqa
                tres = ["exc", type(ex).__name__]
            if tres != res:
                res = res + [{"twin": tres}]
        self.results.append(res)
        return res

    def final(self):
        try:
            return dict(array=_arr_obs(self.q), timestep=self.q._timestep)
        except Exception as ex:  # noqa
            return dict(array=[[None, None, BADP, -1, type(ex).__name__]], timestep=None)


def run_impl(init, ops):
    r = Runner(init)
    for op in ops:
        r.apply(op)
    return dict(results=r.results, final=r.final())


# ---------------------------------------------------------------------------------------------
# Coq terms
# ---------------------------------------------------------------------------------------------
def _item(t):
    return "(mk %s %s %d%%nat)" % (z(t[0]), KCOQ[t[1]], t[2])


def _raw(ts, prec, vid):
    return "(%s, (%s, %d%%nat))" % (z(ts), z(prec), max(int(vid), 0) if isinstance(vid, int) else 0)


def _ev_raw(o):
    ts = o[0] if isinstance(o[0], int) and not isinstance(o[0], bool) else BADP
    return _raw(ts, o[1], o[2])


def _arr_raw(arr):
    out = []
    for a in arr:
        ts = a[0] if isinstance(a[0], int) and not isinstance(a[0], bool) else BADP
        # the tuple's ts and the event's own timestamp attribute must agree to be representable
        out.append(_raw(ts if a[1] == a[0] else BADP, a[2], a[3]))
    return coq_list(out)


def op_coq(op):
    k = op[0]
    if k == "add":
        return "OAdd %s" % _item(op[1:4])
    if k == "addmany":
        return "OAddMany %s" % coq_list([_item(t) for t in op[1]])
    return {"get": "OGet", "len": "OLen", "empty": "OEmpty", "last": "OLast", "json": "OJson"}.get(k) or "OCurrent %s" % z(op[1])


def res_coq(r):
    k = r[0]
    if isinstance(r[-1], dict):          # twin disagreement: not representable -> forces a mismatch
        return "RJson None"
    if k == "none":
        return "RNone"
    if k == "ev":
        return "REvent %s" % _ev_raw(r[1:])
    if k == "IndexError":
        return "RIndexError"
    if k == "evs":
        return "REvents %s" % coq_list([_ev_raw(o) for o in r[1]])
    if k == "len":
        return "RLen %s" % z(r[1])
    if k == "bool":
        return "RBool %s" % coq_bool(r[1])
    if k == "last":
        return "RLast %s" % coq_opt(r[1], z)
    if k == "json":
        ts = r[1] if isinstance(r[1], int) else BADP
        return "RJson (Some (%s, %s))" % (z(ts), _arr_raw(r[2]))
    return "RJson None"                   # unexpected exception / value: forces a mismatch


def case_coq(init, ops, impl):
    fin = impl["final"]
    return ("{| c_init := %s;\n   c_ops := %s;\n   i_results := %s;\n   i_final := %s; i_timestep := %s |}" % (
        coq_list([_item(t) for t in (init or [])]),
        coq_list([op_coq(o) for o in ops]),
        coq_list([res_coq(r) for r in impl["results"]]),
        _arr_raw(fin["array"]), z(fin["timestep"] if isinstance(fin["timestep"], int) else BADP)))


# ---------------------------------------------------------------------------------------------
# generator (interleaved with the real queue so that choices depend on the pending set)
# ---------------------------------------------------------------------------------------------
PROFILES = ["mixed", "fill_drain", "simulator", "ties", "churn", "json_heavy", "tiny"]


def gen_one(rng, maxlen, profile=None):
    profile = profile or rng.choice(PROFILES)
    span = rng.choice([1, 3, 8, 40, 1000]) if profile != "ties" else rng.choice([1, 2])
    n = rng.randint(1, maxlen) if profile != "tiny" else rng.randint(0, 6)
    if rng.random() < 0.5:
        n = min(n, max(8, maxlen // 4))
    nid = [0]
    neg = rng.random() < 0.15          # some cases use negative timestamps as well

    def fresh(lo=0):
        vid = nid[0]
        nid[0] += 1
        ts = lo + rng.randint(0, span) - (3 if neg and rng.random() < 0.3 else 0)
        return [ts, rng.choice(KINDS), vid]

    init = None
    if rng.random() < 0.6:
        init = [fresh() for _ in range(rng.choice([0, 1, 2, 5, 12, 30]))]
    run = Runner(init)
    ops = []
    pending = {}          # vid -> triple (tracked from observed results)
    for t in (init or []):
        pending[t[2]] = t
    clock = [0]

    def note(op, res):
        if op[0] == "add":
            pending[op[3]] = op[1:4]
        elif op[0] == "addmany":
            for t in op[1]:
                pending[t[2]] = t
        elif res[0] == "ev":
            pending.pop(res[3], None)     # (re-pushed objects stay in the real queue; only used for choices)
        elif res[0] == "evs":
            for o in res[1]:
                pending.pop(o[2], None)

    w = dict(mixed=dict(add=5, addmany=1, get=3, cur=2, len=1, empty=1, last=1, json=0.3, repush=0.3),
             fill_drain=dict(add=6, addmany=2, get=0.2, cur=0.2, len=0.3, empty=0.3, last=0.3, json=0.1, repush=0.2),
             simulator=dict(add=2, addmany=0.3, get=0, cur=6, len=0.3, empty=1, last=1, json=0.2, repush=0),
             ties=dict(add=5, addmany=1, get=4, cur=1, len=0.5, empty=0.5, last=0.5, json=0.3, repush=0.5),
             churn=dict(add=4, addmany=0, get=4, cur=0.5, len=0.2, empty=0.2, last=0.2, json=0.1, repush=0.2),
             json_heavy=dict(add=4, addmany=1, get=2, cur=1, len=0.5, empty=0.5, last=0.5, json=2, repush=0.3),
             tiny=dict(add=2, addmany=1, get=3, cur=2, len=1, empty=1, last=1, json=1, repush=0.3))[profile]
    names = list(w)
    weights = [w[k] for k in names]
    drain = False
    for i in range(n):
        if profile == "fill_drain" and i >= n * 0.55:
            drain = True
        k = rng.choices(names, weights)[0]
        if drain and k in ("add", "addmany", "repush") and rng.random() < 0.9:
            k = rng.choice(["get", "get", "get", "cur"])
        lo = clock[0] if profile == "simulator" else 0
        if k == "add":
            op = ["add"] + fresh(lo)
        elif k == "addmany":
            op = ["addmany", [fresh(lo) for _ in range(rng.choice([0, 1, 2, 3, 8]))]]
        elif k == "repush":
            if not pending:
                continue
            op = ["add"] + list(rng.choice(sorted(pending.values(), key=lambda t: t[2])))
        elif k == "cur":
            tss = sorted({t[0] for t in pending.values()})
            if profile == "simulator":
                clock[0] += rng.choice([0, 1, 1, 1, 2, span])
                t = clock[0]
            elif tss and rng.random() < 0.8:
                t = rng.choice(tss) + rng.choice([0, 0, 0, -1, 1])
                if rng.random() < 0.15:
                    t = rng.choice([tss[0] - 1, tss[-1], tss[-1] + 1])
            else:
                t = rng.randint(-1, span + 1)
            op = ["cur", t]
        else:
            op = [k]
        res = run.apply(op)
        ops.append(op)
        note(op, res)
        if profile == "simulator" and res[0] == "evs":
            # like Simulator._process_event: a popped plug-in schedules its unplug
            for o in res[1]:
                if o[3] == "Plugin" and rng.random() < 0.8:
                    op2 = ["add", clock[0] + rng.randint(0, span), "Unplug", nid[0]]
                    nid[0] += 1
                    res2 = run.apply(op2)
                    ops.append(op2)
                    note(op2, res2)
    impl = dict(results=run.results, final=run.final())
    return init, ops, impl, profile


def make_case(init, ops, impl, profile):
    inp = dict(init=init, ops=ops)
    nontrivial = sum(1 for o in ops if o[0] in ("get", "cur")) > 0 and len(ops) >= 3
    return dict(input=inp, impl=impl, coq=case_coq(init, ops, impl), ambiguous=False,
                kind=profile, sig=[init, ops], nontrivial=nontrivial)


CORPUS = [
    # get_event on an empty queue, queries on an empty queue, JSON of an empty queue
    (None, [["get"], ["len"], ["empty"], ["last"], ["json"], ["cur", 5], ["get"]]),
    # all three classes at one timestamp, inserted in the "wrong" order, drained one by one
    ([[3, "Recompute", 0], [3, "Plugin", 1], [3, "Unplug", 2]], [["get"], ["get"], ["get"], ["get"]]),
    # boundary of get_current_events: ts == t is returned, ts == t+1 stays
    ([[4, "Plugin", 0], [5, "Plugin", 1], [5, "Unplug", 2], [6, "Unplug", 3]],
     [["cur", 3], ["cur", 5], ["len"], ["last"], ["cur", 5], ["cur", 6], ["empty"]]),
    # insertion between retrievals + restore-then-continue
    ([[2, "Plugin", 0], [2, "Plugin", 1], [7, "Recompute", 2]],
     [["get"], ["add", 2, "Unplug", 3], ["json"], ["add", 1, "Recompute", 4], ["get"], ["get"], ["json"], ["get"], ["get"]]),
    # the same event object pushed twice
    ([[1, "Plugin", 0]], [["add", 1, "Plugin", 0], ["add", 1, "Unplug", 1], ["len"], ["json"], ["get"], ["get"], ["get"]]),
]


def gen_cases(rng, n, tier):
    cases = []
    for init, ops in CORPUS:
        cases.append(make_case(init, ops, run_impl(init, ops), "corpus"))
    maxlen = MAXLEN[tier]
    shrunk = any(monitor(c) for c in cases)
    while len(cases) < n:
        # thorough: most sequences stay moderate, a share goes up to 2000 ops
        ml = maxlen if (tier == "quick" or rng.random() < 0.04) else 300
        init, ops, impl, profile = gen_one(rng, ml)
        if not shrunk and monitor_trace(init, ops, impl):
            # the implementation violates C11 on this sequence: keep a minimised version of it
            # (it becomes the replay witness); costs nothing on a conforming tree
            shrunk = True
            init, ops = _shrink(init, ops)
            impl = run_impl(init, ops)
        cases.append(make_case(init, ops, impl, profile))
    return cases[:n]


# ---------------------------------------------------------------------------------------------
# monitor: C11 stated on the implementation's trace
# ---------------------------------------------------------------------------------------------
def monitor_trace(init, ops, impl):
    pend = {}             # vid -> [ts, kind, multiplicity]
    timestep = 0

    def add(t):
        if t[2] in pend:
            pend[t[2]][2] += 1
        else:
            pend[t[2]] = [t[0], t[1], 1]

    def key(vid):
        return (pend[vid][0], RANK[pend[vid][1]])

    def take(o, what):
        """o = [timestamp attr, prec, vid, event_type] of a returned event"""
        vid = o[2]
        if vid not in pend:
            return "%s returned event %r which is not pending" % (what, o)
        ts, kind, _ = pend[vid]
        if o[0] != ts or o[3] != kind:
            return "%s returned event %r but the pending event %d is (%d, %s)" % (what, o, vid, ts, kind)
        return None

    def drop(vid):
        pend[vid][2] -= 1
        if pend[vid][2] == 0:
            del pend[vid]

    for t in (init or []):
        add(t)
    results = impl["results"]
    if len(results) != len(ops):
        return "trace length mismatch"
    for i, (op, r) in enumerate(zip(ops, results)):
        k = op[0]
        where = "op %d %s" % (i, json.dumps(op)[:60])
        if isinstance(r[-1], dict):
            return "%s: restored queue answered %r, the original %r" % (where, r[:-1], r[-1]["twin"])
        if r[0] == "exc" or r[0] == "value":
            return "%s: unexpected %r" % (where, r)
        if k == "add":
            add(op[1:4])
        elif k == "addmany":
            for t in op[1]:
                add(t)
        elif k == "get":
            if not pend:
                if r[0] != "IndexError":
                    return "%s: get_event on an empty queue returned %r" % (where, r)
                continue
            if r[0] != "ev":
                return "%s: get_event on a non-empty queue gave %r" % (where, r)
            e = take(r[1:], where)
            if e:
                return e
            kk = key(r[3])
            low = min(key(v) for v in pend)
            if kk != low:
                return "%s: returned key %r (ts, rank) although %r is pending" % (where, kk, low)
            drop(r[3])
        elif k == "cur":
            t = op[1]
            timestep = t
            if r[0] != "evs":
                return "%s: gave %r" % (where, r)
            want = sorted(v for v in pend for _ in range(pend[v][2]) if pend[v][0] <= t)
            got = sorted(o[2] for o in r[1])
            for o in r[1]:
                e = take(o, where)
                if e:
                    return e
            if got != want:
                return "%s: returned vids %r, pending with ts<=%d are %r" % (where, got, t, want)
            keys = [key(o[2]) for o in r[1]]
            if any(a > b for a, b in zip(keys, keys[1:])):
                return "%s: returned keys not in (timestamp, unplug<plugin<recompute) order: %r" % (where, keys)
            for o in r[1]:
                drop(o[2])
        elif k == "len":
            n = sum(p[2] for p in pend.values())
            if r != ["len", n]:
                return "%s: len %r, pending %d" % (where, r, n)
        elif k == "empty":
            if r != ["bool", not pend]:
                return "%s: empty() %r, pending %d" % (where, r, len(pend))
        elif k == "last":
            want = max(p[0] for p in pend.values()) if pend else None
            if r != ["last", want]:
                return "%s: get_last_timestamp %r, expected %r" % (where, r, want)
        elif k == "json":
            if r[0] != "json":
                return "%s: gave %r" % (where, r)
            if r[1] != timestep:
                return "%s: restored _timestep %r, original %r" % (where, r[1], timestep)
            if r[2] != r[3]:
                return "%s: restored array differs from the serialised one" % where
            got = sorted(a[3] for a in r[2])
            want = sorted(v for v in pend for _ in range(pend[v][2]))
            if got != want:
                return "%s: restored pending set %r, expected %r" % (where, got, want)
            for a in r[2]:
                if a[3] not in pend or a[0] != pend[a[3]][0] or a[1] != a[0] or a[4] != pend[a[3]][1]:
                    return "%s: restored entry %r does not match pending event" % (where, a)
    fin = impl["final"]
    got = sorted(a[3] for a in fin["array"])
    want = sorted(v for v in pend for _ in range(pend[v][2]))
    if got != want:
        return "final pending set %r, expected %r" % (got, want)
    return None


def monitor(case):
    inp = case["input"]
    return monitor_trace(inp["init"], inp["ops"], case["impl"])


def _shrink(init, ops):
    """greedy delta-debugging over the op list / initial events while the monitor still fails"""
    def fails(i, o):
        try:
            return monitor_trace(i, o, run_impl(i, o)) is not None
        except Exception:  # noqa
            return False
    changed = True
    t0 = time.time()
    while changed and time.time() - t0 < 20:
        changed = False
        chunk = max(1, len(ops) // 2)
        while chunk >= 1:
            j = 0
            while j < len(ops):
                cand = ops[:j] + ops[j + chunk:]
                if fails(init, cand):
                    ops, changed = cand, True
                else:
                    j += chunk
            chunk //= 2
        if init:
            j = 0
            while j < len(init):
                cand = init[:j] + init[j + 1:]
                if fails(cand, ops):
                    init, changed = cand, True
                else:
                    j += 1
    return init, ops


def search(rng, budget_s, broken):
    t0 = time.time()
    while time.time() - t0 < budget_s:
        init, ops, impl, profile = gen_one(rng, 60)
        why = monitor_trace(init, ops, impl)
        if why:
            init, ops = _shrink(init, ops)
            impl = run_impl(init, ops)
            return dict(case=dict(init=init, ops=ops), impl=impl, why=monitor_trace(init, ops, impl) or why)
    return None


def replay(w):
    inp = w["case"]
    init = [list(t) for t in inp["init"]] if inp.get("init") is not None else None
    ops = inp["ops"]
    return monitor_trace(init, ops, run_impl(init, ops))
