"""C11 — the event queue returns events by time then precedence, for every interleaving.

Correspondence: random operation sequences over the REAL acnportal EventQueue (heapq underneath)
vs the exact Gallina model (Model/HeapQ.v + Model/Events.v).  Every returned value is compared,
including the identity of every popped event (an integer `vid` attached to each event object, which
also survives the JSON round trip) and the raw `_queue` array after every JSON round trip and at
the end of the sequence.

Further scenario families (checklist audit): an event object pushed into two queues; the caller's own
list handed to EventQueue(events)/add_events must come back untouched and is then trashed by the caller;
JSON round trips through a string, a file path and a file-like buffer; timestamps / t given as numpy
int64 or integral floats, tuples instead of lists, timestamps beyond 2**63; the `queue` property;
a sample of the scenarios is re-executed in a second process with another PYTHONHASHSEED.

Monitor: C11's statements evaluated on the implementation's trace against a shadow multiset
(pop-min, exactly-the-current-events in order, len/empty/last, restored queue == original)."""
import io
import json
import numbers
import os
import subprocess
import sys
import tempfile
import time

from harness.core import z, coq_list, coq_bool, coq_opt

PID = "C11"
GEN_GROUPS = ["Events", "EventParams"]
TARGETS = ["coq/Props/C11.vo", "coq/Model/Events.vo", "coq/Model/HeapQ.vo"]
CASES = {"quick": 400, "thorough": 2500}
MAXLEN = {"quick": 200, "thorough": 2000}
CORR_HEADER = ("From Coq Require Import ZArith List Bool.\n"
               "From ACN Require Import Base.Num Model.Events.\nImport ListNotations.\n"
               "Open Scope Z_scope.\n")
CHECK_FN = "check_c11m"
SHARD = 25
NQ_CHOICES = [1, 1, 2, 2, 2, 3, 3]
RULE = ("scenarios of 1-3 EventQueue instances in one process with interleaved ops, events shared between queues, "
        "caller-owned lists checked and trashed, JSON via string/file/buffer, numpy/float/huge timestamps, the queue "
        "property, a sample re-run in a second process with another PYTHONHASHSEED; precedence/event_type customised "
        "on a share of the instances; plug-in/unplug events of one session sharing one EV object, often at one "
        "timestamp, in either insertion order; every list returned by "
        "get_current_events is held and re-read after every later op and at the end; clobber steps mutate returned "
        "lists; random op sequences (<=200 ops quick, <=2000 thorough) over EventQueue(events)/add_event/add_events/"
        "get_event/get_current_events(t)/len/empty/get_last_timestamp/to_json+from_json, generated while "
        "running the real queue so that t and re-pushed events are chosen from the pending set; timestamps "
        "from a per-case range in {1,3,8,40,1000} (ties; 15% of the cases also negative), all three event classes, occasional re-push of a "
        "pending event object, get_event on an empty queue; non-trivial = distinct op sequence")
ASSUMPTIONS = ["timestamps and precedences are integers (the three shipped event classes); CPython's heapq "
               "(C accelerator) behaves as Lib/heapq.py — re-implemented line by line and compared on every case, "
               "including the identity of each popped event and the raw heap array"]
TRUSTED_EXTRA = ["tools/gen_events.py (reads the precedence/event_type literals assigned in the event constructors; "
                 "refuses when an event class defines __eq__ or a subclass overrides __lt__)"]

KINDS = ["Unplug", "Plugin", "Recompute"]          # rank in the property text: unplug, plug-in, recompute
KCOQ = {"Unplug": "KUnplug", "Plugin": "KPlugin", "Recompute": "KRecompute"}
RANK = {k: i for i, k in enumerate(KINDS)}
# "ties broken by precedence (unplug, then plug-in, then recompute)": the precedence scale on which an
# instance's customised `precedence` is compared with the class defaults (monitor side; the model takes the
# defaults from the regenerated Gen/EventParams.v)
SPEC_PREC = {"Unplug": 0, "Plugin": 10, "Recompute": 20}
SPEC_TYPE = {"Unplug": "Unplug", "Plugin": "Plugin", "Recompute": "Recompute", "Base": ""}
CUSTOM_PRECS = [-7, -1, 0, 5, 10, 12, 15, 20, 25]
CUSTOM_TYPES = ["Maintenance", "", "Plugin "]


def _extras(t):
    """optional trailing elements of an event triple [ts, kind, vid, ...]: a number-type tag (str) and a
    customisation {"p": precedence set on the instance, "ty": event_type set on the instance,
    "ev": key of the EV object (charging session) that this plug-in / unplug event refers to}"""
    dt, custom = None, {}
    for x in t[3:]:
        if isinstance(x, dict):
            custom = x
        elif isinstance(x, str):
            dt = x
    return dt, custom


def _want_prec(t):
    c = _extras(t)[1]
    return c["p"] if "p" in c else SPEC_PREC[t[1]]


def _want_type(t):
    c = _extras(t)[1]
    return c["ty"] if "ty" in c else SPEC_TYPE[t[1]]
BADP = 999983                                       # stands for a precedence the model cannot represent


# ---------------------------------------------------------------------------------------------
# running the real implementation
# ---------------------------------------------------------------------------------------------
def _mk_event(ts, kind, vid, dt=None, custom=None, pool=None):
    ts0 = ts
    ts = _conv(ts, dt)
    from acnportal.acnsim.events import Event, PluginEvent, UnplugEvent, RecomputeEvent
    from acnportal.acnsim.models import EV, Battery
    if kind == "Recompute":
        e = RecomputeEvent(ts)
    elif kind == "Base":                # the base class; its default precedence is inf, so it is always customised
        e = Event(ts)
    else:
        if custom and "ev" in custom and pool is not None:
            # the plug-in and the unplug event of one charging session share their EV object, as in the
            # simulator (Simulator._process_event queues UnplugEvent(ev.departure, ev) for a plugged-in ev)
            key = ("ev", custom["ev"])
            if key not in pool:
                pool[key] = EV(ts0, ts0 + 5, 10, "SE%d" % (custom["ev"] % 7), "sessE%d" % custom["ev"], Battery(50, 0, 7))
            ev = pool[key]
        else:
            ev = EV(ts, ts + 5, 10, "S%d" % (vid % 7), "sess%d" % vid, Battery(50, 0, 7))
        e = PluginEvent(ts, ev) if kind == "Plugin" else UnplugEvent(ts, ev)
    # the caller customises the public attributes of this instance before queueing it
    if custom and "p" in custom:
        e.precedence = custom["p"]
    if custom and "ty" in custom:
        e.event_type = custom["ty"]
    e.vid = vid          # extra attribute: kept by the registry serialiser, so identity survives JSON
    return e


def _prec(p):
    if isinstance(p, bool) or not isinstance(p, (int, float)):
        return BADP
    if p != p or p in (float("inf"), float("-inf")) or int(p) != p:
        return BADP
    return int(p)


def _num(x):
    """python int for any integral number (int, numpy integer, integral float); anything else unchanged"""
    if isinstance(x, bool):
        return x
    if isinstance(x, numbers.Integral):
        return int(x)
    if isinstance(x, numbers.Real) and x == x and x not in (float("inf"), float("-inf")) and int(x) == x:
        return int(x)
    return x


def _conv(x, dt):
    """the caller's choice of number type for a timestamp / period index"""
    if dt == "np":
        import numpy as np
        return np.int64(x) if -2**62 < x < 2**62 else x
    if dt == "float":
        return float(x) if abs(x) < 2**50 else x
    return x


def _ev_obs(e):
    """(timestamp attribute, precedence, vid, event_type) of a returned event"""
    return [_num(getattr(e, "timestamp", None)), _prec(getattr(e, "precedence", None)), getattr(e, "vid", -1),
            getattr(e, "event_type", "?")]


def _arr_obs(q):
    out = []
    for entry in q._queue:
        try:
            ts, e = entry
            out.append([_num(ts)] + _ev_obs(e))
        except Exception:  # noqa  (an entry that is not a (ts, event) pair)
            out.append([None, None, BADP, -1, "?"])
    return out


class Runner:
    """Applies ops to a real EventQueue; after a JSON round trip it also keeps the ORIGINAL queue as a
    twin that receives the same ops, to observe 'a restored queue behaves identically'."""

    def __init__(self, init, pool=None):
        from acnportal.acnsim.events import EventQueue
        self.EventQueue = EventQueue
        self.pool = pool if pool is not None else {}    # vid -> event object, shared by all queues of a scenario
        self.objs = {}          # vid -> event object living in the main queue
        self.twin = None
        self.twin_objs = {}
        self.init_problem = None
        evs = [self._obj(t) for t in (init or [])]
        before = list(evs)
        self.q = EventQueue(evs) if init is not None else EventQueue()
        # the list belongs to the caller: the constructor must leave it alone, and the caller may do
        # whatever it likes with it afterwards
        if len(evs) != len(before) or any(a is not b for a, b in zip(evs, before)):
            self.init_problem = "EventQueue(events) modified the caller's list"
        del evs[:]
        evs.append(_Junk())
        self.results = []
        self.last_raw = None    # the object returned by the last non-JSON op (for held-list tracking)

    def _obj(self, triple, twin=False):
        ts, kind, vid = triple[:3]
        objs = self.twin_objs if twin else self.objs
        if vid not in objs:
            e = self.pool.get(vid)
            if e is None:
                e = _mk_event(ts, kind, vid, *_extras(triple), pool=self.pool)
                self.pool[vid] = e
            objs[vid] = e
            if not twin and self.twin is not None and vid not in self.twin_objs:
                self.twin_objs[vid] = e       # new events are shared between the queue and its twin
        return objs[vid]

    def _do(self, q, op, twin):
        k = op[0]
        if k == "add":
            return q.add_event(self._obj(op[1:], twin))
        if k == "addmany":
            evs = [self._obj(t, twin) for t in op[1]]
            if len(op) > 2 and op[2] == "tuple":
                return q.add_events(tuple(evs))
            before = list(evs)
            r = q.add_events(evs)
            if len(evs) != len(before) or any(a is not b for a, b in zip(evs, before)):
                return "add_events modified the caller's list"
            del evs[:]                     # the caller reuses its list for something else
            evs.append(_Junk())
            return r
        if k == "get":
            return q.get_event()
        if k == "cur":
            return q.get_current_events(_conv(op[1], op[2] if len(op) > 2 else None))
        if k == "queue":
            return q.queue
        if k == "len":
            return len(q)
        if k == "empty":
            return q.empty()
        if k == "last":
            return q.get_last_timestamp()
        raise ValueError(k)

    @staticmethod
    def _obs(k, r):
        if k in ("add", "addmany"):
            return ["none"] if r is None else ["value", repr(r)]
        if k == "get":
            return ["ev"] + _ev_obs(r) if hasattr(r, "precedence") else ["value", repr(r)]
        if k == "cur":
            if isinstance(r, list) and any(isinstance(e, _Junk) for e in r):
                return ["value", "a list that contains what a caller had put into a previously returned list "
                                 "(returned lists are not fresh)"]
            if isinstance(r, list) and all(hasattr(e, "precedence") for e in r):
                return ["evs", [_ev_obs(e) for e in r]]
            return ["value", repr(r)]
        if k == "queue":
            if not isinstance(r, list):
                return ["value", repr(r)]
            out = []
            for entry in r:
                try:
                    ts, e = entry
                    out.append([_num(ts)] + _ev_obs(e))
                except Exception:  # noqa
                    out.append([None, None, BADP, -1, "?"])
            return ["arr", out]
        r = _num(r) if k in ("len", "last") and r is not None else r
        if k == "len":
            return ["len", r] if isinstance(r, int) and not isinstance(r, bool) else ["value", repr(r)]
        if k == "empty":
            return ["bool", r] if isinstance(r, bool) else ["value", repr(r)]
        if k == "last":
            return ["last", r] if (r is None or (isinstance(r, int) and not isinstance(r, bool))) else ["value", repr(r)]
        return ["value", repr(r)]

    def apply(self, op):
        k = op[0]
        self.last_raw = None
        if k == "json":
            try:
                how = op[1] if len(op) > 1 else "str"
                if how == "file":
                    d = tempfile.mkdtemp(prefix="c11json")
                    path = os.path.join(d, "queue.json")
                    try:
                        self.q.to_json(path)
                        q2 = self.EventQueue.from_json(path)
                    finally:
                        if os.path.exists(path):
                            os.unlink(path)
                        os.rmdir(d)
                elif how == "buf":
                    buf = io.StringIO()
                    self.q.to_json(buf)
                    buf.seek(0)
                    q2 = self.EventQueue.from_json(buf)
                else:
                    s = self.q.to_json()
                    q2 = self.EventQueue.from_json(s)
                before = _arr_obs(self.q)
                res = ["json", _num(getattr(q2, "_timestep", None)), _arr_obs(q2), before, _num(self.q._timestep)]
                self.twin, self.twin_objs = self.q, dict(self.objs)
                self.q = q2
                self.objs = {}
                for _, e in q2._queue:
                    self.objs.setdefault(getattr(e, "vid", -1), e)
            except Exception as ex:  # noqa
                res = ["exc", type(ex).__name__]
            self.results.append(res)
            return res
        try:
            r = self._do(self.q, op, False)
        except IndexError:
            res = ["IndexError"]
        except Exception as ex:  # noqa
            res = ["exc", type(ex).__name__]
        else:
            self.last_raw = r
            try:
                res = self._obs(k, r)
            except Exception as ex:  # noqa
                res = ["value", "unobservable result: %s" % type(ex).__name__]
        if self.twin is not None:
            try:
                tres = self._obs(k, self._do(self.twin, op, True))
            except IndexError:
                tres = ["IndexError"]
            except Exception as ex:  # noqa
                tres = ["exc", type(ex).__name__]
            if tres != res:
                res = res + [{"twin": tres}]
        self.results.append(res)
        return res

    def final(self):
        try:
            return dict(array=_arr_obs(self.q), timestep=_num(self.q._timestep))
        except Exception as ex:  # noqa
            return dict(array=[[None, None, BADP, -1, type(ex).__name__]], timestep=None)


class _Junk:
    """what a careless caller appends to a list it was handed"""


def _list_obs(lst):
    return [_ev_obs(e) if hasattr(e, "precedence") else ["junk", type(e).__name__] for e in lst]


class Multi:
    """Several EventQueue instances in one process; ops are (queue index, op).  Keeps every list
    returned by get_current_events and re-reads all of them after every later op."""

    def __init__(self, inits):
        self.pool = {}
        self.rs = [Runner(i, self.pool) for i in inits]
        self.results = []
        self.held = []          # dict(idx, qi, lst, ids, rec, live)
        self.changes = []       # a held list that no longer holds what it held when returned
        self.clobbered = []     # lists the "caller" has trashed (our junk is removed again in finish)

    def recheck(self, now):
        for h in self.held:
            if not h["live"]:
                continue
            try:
                same = tuple(map(id, h["lst"])) == h["ids"]
            except Exception:  # noqa
                same = False
            if not same:
                h["live"] = False
                try:
                    cur = _list_obs(h["lst"])
                except Exception as ex:  # noqa
                    cur = ["unreadable", type(ex).__name__]
                shared = [g["idx"] for g in self.held if g is not h and g["lst"] is h["lst"]]
                self.changes.append(dict(op=h["idx"], queue=h["qi"], after_op=now, recorded=h["rec"], now=cur,
                                         same_object_as_result_of_ops=shared))

    def apply(self, qi, op):
        idx = len(self.results)
        if op[0] == "clobber":
            # the caller mutates every list it was handed by queue qi so far
            for h in self.held:
                if h["qi"] == qi and h["live"]:
                    h["live"] = False
                    try:
                        self.clobbered.append(h["lst"])
                        del h["lst"][:]
                        h["lst"].append(_Junk())
                    except Exception:  # noqa
                        pass
            res = ["clobber"]
        else:
            r = self.rs[qi]
            res = r.apply(op)
            if op[0] == "cur" and isinstance(r.last_raw, list) and res[0] == "evs":
                self.held.append(dict(idx=idx, qi=qi, lst=r.last_raw, ids=tuple(map(id, r.last_raw)),
                                      rec=res[1], live=True))
            r.last_raw = None
        self.results.append(res)
        self.recheck(idx)
        return res

    def finish(self):
        """end of the sequence: everything still held was re-read after the last op (recheck); now the
        caller trashes all the lists it still holds, and only then are the queues' arrays observed"""
        self.recheck(len(self.results))
        for qi in range(len(self.rs)):
            for h in self.held:
                if h["qi"] == qi and h["live"]:
                    h["live"] = False
                    try:
                        self.clobbered.append(h["lst"])
                        del h["lst"][:]
                        h["lst"].append(_Junk())
                    except Exception:  # noqa
                        pass
        out = dict(results=self.results, finals=[r.final() for r in self.rs], changes=self.changes)
        problems = [[qi, r.init_problem] for qi, r in enumerate(self.rs) if r.init_problem]
        if problems:
            out["init_problems"] = problems
        # take our junk out again, so that a scenario never depends on what an earlier scenario of this
        # process left in a list that the implementation (wrongly) shares between calls
        for lst in self.clobbered:
            try:
                lst[:] = [x for x in lst if not isinstance(x, _Junk)]
            except Exception:  # noqa
                pass
        return out


def run_impl(inits, ops):
    m = Multi(inits)
    for qi, op in ops:
        m.apply(qi, op)
    return m.finish()


# ---------------------------------------------------------------------------------------------
# Coq terms
# ---------------------------------------------------------------------------------------------
def _item(t):
    c = _extras(t)[1]
    if "p" in c:                       # precedence set on the instance: the item carries it
        return "(%s, (%s, %d%%nat))" % (z(t[0]), z(c["p"]), t[2])
    return "(mk %s %s %d%%nat)" % (z(t[0]), KCOQ[t[1]], t[2])


def _raw(ts, prec, vid):
    return "(%s, (%s, %d%%nat))" % (z(ts), z(prec), max(int(vid), 0) if isinstance(vid, int) else 0)


def _ev_raw(o):
    ts = o[0] if isinstance(o[0], int) and not isinstance(o[0], bool) else BADP
    return _raw(ts, o[1], o[2])


def _arr_raw(arr):
    out = []
    for a in arr:
        ts = a[0] if isinstance(a[0], int) and not isinstance(a[0], bool) else BADP
        # the tuple's ts and the event's own timestamp attribute must agree to be representable
        out.append(_raw(ts if a[1] == a[0] else BADP, a[2], a[3]))
    return coq_list(out)


def op_coq(op):
    k = op[0]
    if k == "add":
        return "OAdd %s" % _item(op[1:])
    if k == "addmany":
        return "OAddMany %s" % coq_list([_item(t) for t in op[1]])
    return {"get": "OGet", "len": "OLen", "empty": "OEmpty", "last": "OLast", "json": "OJson",
            "queue": "OQueue"}.get(k) or "OCurrent %s" % z(op[1])


def res_coq(r):
    k = r[0]
    if isinstance(r[-1], dict):          # twin disagreement: not representable -> forces a mismatch
        return "RJson None"
    if k == "none":
        return "RNone"
    if k == "ev":
        return "REvent %s" % _ev_raw(r[1:])
    if k == "IndexError":
        return "RIndexError"
    if k == "evs":
        return "REvents %s" % coq_list([_ev_raw(o) for o in r[1]])
    if k == "len":
        return "RLen %s" % z(r[1])
    if k == "bool":
        return "RBool %s" % coq_bool(r[1])
    if k == "last":
        return "RLast %s" % coq_opt(r[1], z)
    if k == "arr":
        return "RQueue %s" % _arr_raw(r[1])
    if k == "json":
        ts = r[1] if isinstance(r[1], int) else BADP
        return "RJson (Some (%s, %s))" % (z(ts), _arr_raw(r[2]))
    return "RJson None"                   # unexpected exception / value: forces a mismatch


def case_coq(inits, ops, impl):
    changed = {c["op"] for c in impl["changes"]}
    real = [(i, qi, op) for i, (qi, op) in enumerate(ops) if op[0] != "clobber"]     # clobber has no model counterpart
    res = []
    for i, qi, op in real:
        # a returned list that later stopped holding what it held is not representable (model values are immutable)
        res.append("RJson None" if (i in changed or impl.get("init_problems") or impl.get("xproc")) else res_coq(impl["results"][i]))
    fins = []
    for fin in impl["finals"]:
        fins.append("(%s, %s)" % (_arr_raw(fin["array"]), z(fin["timestep"] if isinstance(fin["timestep"], int) else BADP)))
    return ("{| m_inits := %s;\n   m_ops := %s;\n   mi_results := %s;\n   mi_finals := %s |}" % (
        coq_list([coq_list([_item(t) for t in (init or [])]) for init in inits]),
        coq_list(["(%d%%nat, %s)" % (qi, op_coq(op)) for _, qi, op in real]),
        coq_list(res), coq_list(fins)))


# ---------------------------------------------------------------------------------------------
# generator (interleaved with the real queues so that choices depend on the pending sets)
# ---------------------------------------------------------------------------------------------
PROFILES = ["mixed", "fill_drain", "simulator", "ties", "churn", "json_heavy", "tiny", "hold"]
WEIGHTS = dict(
    mixed=dict(add=5, addmany=1, get=3, cur=2, len=1, empty=1, last=1, json=0.3, repush=0.3, clobber=0.2, queue=0.3, xpush=0.3),
    fill_drain=dict(add=6, addmany=2, get=0.2, cur=0.2, len=0.3, empty=0.3, last=0.3, json=0.1, repush=0.2, clobber=0.1, queue=0.1, xpush=0.2),
    simulator=dict(add=2, addmany=0.3, get=0, cur=6, len=0.3, empty=1, last=1, json=0.2, repush=0, clobber=0.2, queue=0.2, xpush=0.2),
    ties=dict(add=5, addmany=1, get=4, cur=1, len=0.5, empty=0.5, last=0.5, json=0.3, repush=0.5, clobber=0.1, queue=0.2, xpush=0.4),
    churn=dict(add=4, addmany=0, get=4, cur=0.5, len=0.2, empty=0.2, last=0.2, json=0.1, repush=0.2, clobber=0.1, queue=0.1, xpush=0.2),
    json_heavy=dict(add=4, addmany=1, get=2, cur=1, len=0.5, empty=0.5, last=0.5, json=2, repush=0.3, clobber=0.2, queue=0.3, xpush=0.4),
    tiny=dict(add=2, addmany=1, get=3, cur=2, len=1, empty=1, last=1, json=1, repush=0.3, clobber=0.5, queue=0.5, xpush=0.4),
    # many retrievals whose results stay held while other queues / later periods are retrieved
    hold=dict(add=4, addmany=1, get=0.5, cur=5, len=0.3, empty=0.3, last=0.3, json=0.2, repush=0.1, clobber=0.05, queue=0.1, xpush=0.2))


class QGen:
    """op generator for one queue of a scenario (tracks what is pending from the observed results)"""

    def __init__(self, rng, profile, span, neg, nid, init, dt=None):
        self.rng, self.profile, self.span, self.neg, self.nid = rng, profile, span, neg, nid
        self.dt = dt              # None | "np" | "float" | "mixed": number type the caller uses
        self.others = []          # the generators of the other queues of the scenario
        self.custom = False       # the caller customises precedence / event_type on a share of the instances
        self.sessions = False     # plug-in / unplug events come in pairs that share one EV object
        self.known = {}           # vid -> triple of every event this generator has produced
        self.pending = {}
        for t in (init or []):
            self.pending[t[2]] = t
        self.clock = 0
        self.drain = False
        self.names = list(WEIGHTS[profile])
        self.weights = [WEIGHTS[profile][k] for k in self.names]

    def fresh(self, lo=0):
        rng = self.rng
        vid = self.nid[0]
        self.nid[0] += 1
        ts = lo + rng.randint(0, self.span) - (3 if self.neg and rng.random() < 0.3 else 0)
        d = self.pick_dt()
        kind = rng.choice(KINDS)
        c = {}
        if self.sessions:
            # plug-in and unplug events of ONE session (one EV object), often at the same timestamp
            # (a stay of zero periods), in either insertion order
            partners = [t for g in [self] + self.others for t in g.pending.values()
                        if t[1] in ("Plugin", "Unplug") and "ev" in _extras(t)[1]]
            if partners and rng.random() < 0.45:
                t0 = rng.choice(sorted(partners, key=lambda t: t[2]))
                kind = "Unplug" if t0[1] == "Plugin" else "Plugin"
                if rng.random() < 0.2:
                    kind = t0[1]
                if rng.random() < 0.7:
                    ts = t0[0]
                c["ev"] = _extras(t0)[1]["ev"]
            elif kind in ("Plugin", "Unplug"):
                c["ev"] = vid
        if self.custom and rng.random() < 0.4:
            if rng.random() < 0.8:
                c["p"] = rng.choice(CUSTOM_PRECS)
            if rng.random() < 0.4:
                c["ty"] = rng.choice(CUSTOM_TYPES)
            if rng.random() < 0.1 and "ev" not in c:
                kind, c["p"] = "Base", c.get("p", rng.choice(CUSTOM_PRECS))
        t = [ts, kind, vid] + ([d] if d else []) + ([c] if c else [])
        self.known[vid] = t
        return t

    def pick_dt(self):
        if self.dt == "mixed":
            return self.rng.choice([None, "np", "float"])
        return self.dt

    def note(self, op, res):
        pending = self.pending
        if op[0] == "add":
            pending[op[3]] = op[1:]
        elif op[0] == "addmany":
            for t in op[1]:
                pending[t[2]] = t
        elif res[0] == "ev":
            pending.pop(res[3], None)     # (re-pushed objects stay in the real queue; only used for choices)
        elif res[0] == "evs":
            for o in res[1]:
                pending.pop(o[2], None)

    def next_op(self):
        rng, span, profile, pending = self.rng, self.span, self.profile, self.pending
        k = rng.choices(self.names, self.weights)[0]
        if self.drain and k in ("add", "addmany", "repush") and rng.random() < 0.9:
            k = rng.choice(["get", "get", "get", "cur"])
        lo = self.clock if profile == "simulator" else 0
        if k == "add":
            return ["add"] + self.fresh(lo)
        if k == "addmany":
            op = ["addmany", [self.fresh(lo) for _ in range(rng.choice([0, 1, 2, 3, 8]))]]
            return op + (["tuple"] if rng.random() < 0.25 else [])
        if k == "xpush":
            # an event object that is pending in ANOTHER queue of the scenario is pushed here as well
            cands = [t for g in self.others for t in g.pending.values() if t[2] not in pending]
            if not cands:
                return None
            return ["add"] + list(rng.choice(sorted(cands, key=lambda t: t[2])))
        if k == "json":
            return ["json"] + rng.choice([[], [], [], ["file"], ["buf"]])
        if k == "repush":
            if not pending:
                return None
            return ["add"] + list(rng.choice(sorted(pending.values(), key=lambda t: t[2])))
        if k == "cur":
            tss = sorted({t[0] for t in pending.values()})
            if profile == "simulator":
                self.clock += rng.choice([0, 1, 1, 1, 2, span])
                t = self.clock
            elif profile == "hold" and tss and rng.random() < 0.7:
                t = tss[0]                     # period by period: many small results to hold
            elif tss and rng.random() < 0.8:
                t = rng.choice(tss) + rng.choice([0, 0, 0, -1, 1])
                if rng.random() < 0.15:
                    t = rng.choice([tss[0] - 1, tss[-1], tss[-1] + 1])
            else:
                t = rng.randint(-1, span + 1)
            d = self.pick_dt()
            return ["cur", t] + ([d] if d else [])
        return [k]


def gen_one(rng, maxlen, profile=None, nq=None):
    profile = profile or rng.choice(PROFILES)
    nq = nq or rng.choice(NQ_CHOICES)
    span = rng.choice([1, 3, 8, 40, 1000, 1000, 10**12, 2**65]) if profile != "ties" else rng.choice([1, 2])
    n = rng.randint(1, maxlen) if profile != "tiny" else rng.randint(0, 8)
    dt = rng.choice([None] * 15 + ["np", "np", "float", "mixed", "mixed"])
    custom = rng.random() < 0.3
    sessions = profile == "simulator" or rng.random() < 0.4
    if rng.random() < 0.5:
        n = min(n, max(8, maxlen // 4))
    nid = [0]
    neg = rng.random() < 0.15          # some cases use negative timestamps as well
    inits, gens = [], []
    for _ in range(nq):
        g0 = QGen(rng, profile, span, neg, nid, None, dt)
        g0.custom = custom
        g0.sessions = sessions
        init = None
        if rng.random() < 0.6:
            init = []
            for _ in range(rng.choice([0, 1, 2, 5, 12, 30])):
                t = g0.fresh()
                g0.pending[t[2]] = t          # so that later init events can pair up with earlier ones
                init.append(t)
        inits.append(init)
        gens.append(QGen(rng, profile, span, neg, nid, init, dt))
        gens[-1].known = g0.known
    for g in gens:
        g.others = [h for h in gens if h is not g]
        g.custom = custom
        g.sessions = sessions
    run = Multi(inits)
    ops = []
    qi = 0
    for i in range(n):
        if nq > 1 and rng.random() < 0.6:          # otherwise stay on the same queue for a burst
            qi = rng.randrange(nq)
        g = gens[qi]
        if profile == "fill_drain" and i >= n * 0.55:
            for gg in gens:
                gg.drain = True
        op = g.next_op()
        if op is None:
            continue
        res = run.apply(qi, op)
        ops.append([qi, op])
        g.note(op, res)
        if profile == "simulator" and res[0] == "evs":
            # like Simulator._process_event: a popped plug-in schedules its unplug
            for o in res[1]:
                if o[3] == "Plugin" and rng.random() < 0.8:
                    op2 = ["add", g.clock + rng.randint(0, min(span, 1000)), "Unplug", nid[0]]
                    src = next((h.known[o[2]] for h in gens if o[2] in h.known), None)
                    if src is not None and "ev" in _extras(src)[1]:
                        op2.append({"ev": _extras(src)[1]["ev"]})      # the unplug of the SAME ev
                    nid[0] += 1
                    res2 = run.apply(qi, op2)
                    ops.append([qi, op2])
                    g.note(op2, res2)
    return inits, ops, run.finish(), profile


def make_case(inits, ops, impl, profile):
    inp = dict(inits=inits, ops=ops)
    nontrivial = sum(1 for _, o in ops if o[0] in ("get", "cur")) > 0 and len(ops) >= 3
    return dict(input=inp, impl=impl, coq=case_coq(inits, ops, impl), ambiguous=False,
                kind="%s/%dq" % (profile, len(inits)), sig=[inits, ops], nontrivial=nontrivial)


def _q0(init, ops):
    return [init], [[0, o] for o in ops]


CORPUS = [
    # get_event on an empty queue, queries on an empty queue, JSON of an empty queue
    _q0(None, [["get"], ["len"], ["empty"], ["last"], ["json"], ["cur", 5], ["get"]]),
    # all three classes at one timestamp, inserted in the "wrong" order, drained one by one
    _q0([[3, "Recompute", 0], [3, "Plugin", 1], [3, "Unplug", 2]], [["get"], ["get"], ["get"], ["get"]]),
    # boundary of get_current_events: ts == t is returned, ts == t+1 stays
    _q0([[4, "Plugin", 0], [5, "Plugin", 1], [5, "Unplug", 2], [6, "Unplug", 3]],
        [["cur", 3], ["cur", 5], ["len"], ["last"], ["cur", 5], ["cur", 6], ["empty"]]),
    # insertion between retrievals + restore-then-continue
    _q0([[2, "Plugin", 0], [2, "Plugin", 1], [7, "Recompute", 2]],
        [["get"], ["add", 2, "Unplug", 3], ["json"], ["add", 1, "Recompute", 4], ["get"], ["get"], ["json"], ["get"], ["get"]]),
    # the same event object pushed twice
    _q0([[1, "Plugin", 0]], [["add", 1, "Plugin", 0], ["add", 1, "Unplug", 1], ["len"], ["json"], ["get"], ["get"], ["get"]]),
    # the result of period 1 is still held while period 2 is retrieved
    _q0([[1, "Unplug", 0], [1, "Plugin", 1], [2, "Recompute", 2], [6, "Plugin", 3]], [["cur", 1], ["cur", 2], ["cur", 6]]),
    # two queues stepped side by side; a result of queue 0 is held across retrievals of queue 1
    ([[[1, "Plugin", 0], [3, "Unplug", 1]], [[2, "Recompute", 2], [3, "Recompute", 3]]],
     [[0, ["cur", 1]], [1, ["cur", 2]], [0, ["cur", 3]], [1, ["cur", 3]], [0, ["len"]], [1, ["empty"]]]),
    # a caller that trashes the list it was given; the queue must not notice
    _q0([[1, "Plugin", 0], [2, "Plugin", 1], [2, "Unplug", 2]], [["cur", 1], ["clobber"], ["len"], ["cur", 2], ["clobber"], ["len"], ["get"]]),
    # one event object pending in two queues at once; JSON through a file and through a buffer; numpy / float numbers
    ([[[2, "Plugin", 0, "np"], [2, "Unplug", 1, "float"]], None],
     [[1, ["add", 2, "Plugin", 0]], [1, ["add", 1, "Recompute", 2, "np"]], [0, ["json", "file"]], [1, ["json", "buf"]],
      [0, ["queue"]], [1, ["cur", 2, "float"]], [0, ["cur", 2, "np"]], [0, ["last"]], [1, ["len"]]]),
    # the caller's list given to add_events is reused by the caller; a tuple works as well; timestamps beyond 2**63
    _q0([[2 ** 65, "Unplug", 0]], [["addmany", [[5, "Plugin", 1], [2 ** 65 + 1, "Recompute", 2], [5, "Unplug", 3]]],
                                   ["addmany", [[5, "Recompute", 4]], "tuple"], ["queue"], ["last"], ["cur", 5], ["json"],
                                   ["get"], ["get"], ["get"]]),
    # precedence / event_type customised on instances of every class (and a base Event); restore, then drain
    _q0([[3, "Plugin", 0, {"p": 25}], [3, "Recompute", 1], [3, "Unplug", 2, {"p": 12, "ty": "Maintenance"}],
         [3, "Recompute", 3, {"p": -1, "ty": ""}], [3, "Base", 4, {"p": 15}], [3, "Plugin", 5]],
        [["json"], ["get"], ["get"], ["json", "buf"], ["get"], ["cur", 3]]),
    # both events of one session (one EV object) pending together at one timestamp, plug-in inserted first
    _q0([[5, "Plugin", 0, {"ev": 7}], [5, "Unplug", 1, {"ev": 7}]], [["get"], ["get"]]),
    _q0(None, [["add", 2, "Plugin", 0, {"ev": 1}], ["add", 2, "Recompute", 1], ["add", 2, "Unplug", 2, {"ev": 1}],
               ["json"], ["add", 2, "Unplug", 3, {"ev": 4}], ["add", 2, "Plugin", 4, {"ev": 4}], ["cur", 2]]),
    # three queues, one of them restored from JSON in between
    ([None, [[5, "Plugin", 0]], None],
     [[0, ["add", 1, "Recompute", 1]], [2, ["add", 1, "Unplug", 2]], [0, ["cur", 1]], [1, ["json"]], [2, ["cur", 1]],
      [1, ["cur", 5]], [0, ["cur", 9]], [2, ["get"]]]),
]


def gen_cases(rng, n, tier):
    cases = []
    shrunk = False
    for inits, ops in CORPUS:
        impl = run_impl(inits, ops)
        if not shrunk and monitor_trace(inits, ops, impl):
            shrunk = True
            inits, ops = _shrink(inits, ops)
            impl = run_impl(inits, ops)
        cases.append(make_case(inits, ops, impl, "corpus"))
    maxlen = MAXLEN[tier]
    while len(cases) < n:
        # thorough: most sequences stay moderate, a share goes up to 2000 ops
        ml = maxlen if (tier == "quick" or rng.random() < 0.04) else 300
        inits, ops, impl, profile = gen_one(rng, ml)
        if not shrunk and monitor_trace(inits, ops, impl):
            # the implementation violates C11 on this sequence: keep a minimised version of it
            # (it becomes the replay witness); costs nothing on a conforming tree
            shrunk = True
            inits, ops = _shrink(inits, ops)
            impl = run_impl(inits, ops)
        cases.append(make_case(inits, ops, impl, profile))
    cases = cases[:n]
    _xproc(cases[:len(CORPUS) + (25 if tier == "quick" else 150)])
    return cases


XPROC_HASHSEED = "4242"


def _plain(o):
    from harness.core import jsonable
    return json.loads(json.dumps(o, default=jsonable))


def _xproc_main():
    """(second process) re-execute the scenarios given on stdin and print what the implementation did"""
    scen = json.load(sys.stdin)
    out = [_plain(run_impl(inits, ops)) for inits, ops in scen]
    sys.stdout.write("\nXPROC-RESULT " + json.dumps(out) + "\n")


def _xproc(cases):
    """determinism across processes: the same scenarios in a fresh interpreter with another PYTHONHASHSEED
    must give the same answers, the same arrays, the same (absence of) changes in held lists"""
    from harness.core import ROOT
    env = dict(os.environ, PYTHONHASHSEED=XPROC_HASHSEED)
    payload = json.dumps([[c["input"]["inits"], c["input"]["ops"]] for c in cases])
    try:
        p = subprocess.run([sys.executable, "-c", "from harness import c11; c11._xproc_main()"], input=payload,
                           cwd=ROOT, env=env, stdout=subprocess.PIPE, stderr=subprocess.STDOUT, text=True, timeout=600)
        line = [ln for ln in p.stdout.split("\n") if ln.startswith("XPROC-RESULT ")]
        other = json.loads(line[-1][len("XPROC-RESULT "):]) if line else None
        err = None if other is not None else "second process failed: " + p.stdout[-300:]
    except Exception as ex:  # noqa
        other, err = None, "second process failed: %s" % type(ex).__name__
    for i, c in enumerate(cases):
        mine = _plain(c["impl"])
        theirs = other[i] if other is not None and i < len(other) else None
        if theirs != mine:
            diff = err
            if diff is None:
                for k, (a, b) in enumerate(zip(mine["results"], theirs["results"])):
                    if a != b:
                        diff = "op %d %s answered %r here and %r there" % (k, json.dumps(c["input"]["ops"][k])[:60], a, b)
                        break
                else:
                    diff = "final arrays / held lists differ"
            c["impl"]["xproc"] = diff
            c["coq"] = case_coq(c["input"]["inits"], c["input"]["ops"], c["impl"])


# ---------------------------------------------------------------------------------------------
# monitor: C11 stated on the implementation's trace
# ---------------------------------------------------------------------------------------------
class _Shadow:
    """the pending multiset of one queue, as the property text describes it"""

    def __init__(self, init):
        self.pend = {}            # vid -> [ts, kind, multiplicity, precedence, event_type]
        self.timestep = 0
        for t in (init or []):
            self.add(t)

    def add(self, t):
        if t[2] in self.pend:
            self.pend[t[2]][2] += 1
        else:
            self.pend[t[2]] = [t[0], t[1], 1, _want_prec(t), _want_type(t)]

    def key(self, vid):
        return (self.pend[vid][0], self.pend[vid][3])

    def take(self, o, what):
        """o = [timestamp attr, prec, vid, event_type] of a returned event"""
        vid = o[2]
        if vid not in self.pend:
            return "%s returned event %r which is not pending" % (what, o)
        ts, kind, _, prec, ety = self.pend[vid]
        if o[0] != ts or o[3] != ety or o[1] != prec:
            return "%s returned event %r (timestamp, precedence, id, event_type) but the pending %s event %d has (%d, %r, %r)" % (
                what, o, kind, vid, ts, prec, ety)
        return None

    def drop(self, vid):
        self.pend[vid][2] -= 1
        if self.pend[vid][2] == 0:
            del self.pend[vid]

    def vids(self):
        return sorted(v for v in self.pend for _ in range(self.pend[v][2]))

    def check(self, op, r, where):
        pend = self.pend
        k = op[0]
        if k == "clobber":
            return None
        if isinstance(r[-1], dict):
            return "%s: restored queue answered %r, the original %r" % (where, r[:-1], r[-1]["twin"])
        if r[0] == "exc" or r[0] == "value":
            return "%s: unexpected %r" % (where, r)
        if k == "add":
            self.add(op[1:])
        elif k == "addmany":
            for t in op[1]:
                self.add(t)
        elif k == "get":
            if not pend:
                if r[0] != "IndexError":
                    return "%s: get_event on an empty queue returned %r" % (where, r)
                return None
            if r[0] != "ev":
                return "%s: get_event on a non-empty queue gave %r" % (where, r)
            e = self.take(r[1:], where)
            if e:
                return e
            kk = self.key(r[3])
            low = min(self.key(v) for v in pend)
            if kk != low:
                return "%s: returned key %r (timestamp, precedence) although %r is pending" % (where, kk, low)
            self.drop(r[3])
        elif k == "cur":
            t = op[1]
            self.timestep = t
            if r[0] != "evs":
                return "%s: gave %r" % (where, r)
            want = sorted(v for v in pend for _ in range(pend[v][2]) if pend[v][0] <= t)
            got = sorted(o[2] for o in r[1])
            for o in r[1]:
                e = self.take(o, where)
                if e:
                    return e
            if got != want:
                return "%s: returned vids %r, pending with ts<=%d are %r" % (where, got, t, want)
            keys = [self.key(o[2]) for o in r[1]]
            if any(a > b for a, b in zip(keys, keys[1:])):
                return "%s: returned keys not in (timestamp, precedence) order, unplug=0 < plug-in=10 < recompute=20: %r" % (where, keys)
            for o in r[1]:
                self.drop(o[2])
        elif k == "queue":
            if r[0] != "arr":
                return "%s: gave %r" % (where, r)
            got = sorted(a[3] for a in r[1])
            if got != self.vids():
                return "%s: the queue property holds %r, pending are %r" % (where, got, self.vids())
        elif k == "len":
            n = sum(p[2] for p in pend.values())
            if r != ["len", n]:
                return "%s: len %r, pending %d" % (where, r, n)
        elif k == "empty":
            if r != ["bool", not pend]:
                return "%s: empty() %r, pending %d" % (where, r, len(pend))
        elif k == "last":
            want = max(p[0] for p in pend.values()) if pend else None
            if r != ["last", want]:
                return "%s: get_last_timestamp %r, expected %r" % (where, r, want)
        elif k == "json":
            if r[0] != "json":
                return "%s: gave %r" % (where, r)
            if r[1] != self.timestep:
                return "%s: restored _timestep %r, original %r" % (where, r[1], self.timestep)
            got = sorted(a[3] for a in r[2])
            if got != self.vids():
                return "%s: restored pending set %r, expected %r" % (where, got, self.vids())
            for a in r[2]:
                if a[3] not in pend or a[0] != pend[a[3]][0] or a[1] != a[0]:
                    return "%s: restored entry %r does not match pending event" % (where, a)
                if a[2] != pend[a[3]][3] or a[4] != pend[a[3]][4]:
                    return "%s: restored event %d has precedence %r and event_type %r, the original had %r and %r" % (
                        where, a[3], a[2], a[4], pend[a[3]][3], pend[a[3]][4])
            if r[2] != r[3]:
                return "%s: restored array differs from the serialised one" % where
        return None


def monitor_trace(inits, ops, impl):
    shadows = [_Shadow(i) for i in inits]
    results = impl["results"]
    for qi, what in impl.get("init_problems", []):
        return "queue %d: %s" % (qi, what)
    if impl.get("xproc"):
        return "a second process with PYTHONHASHSEED=%s behaves differently: %s" % (XPROC_HASHSEED, impl["xproc"])
    if len(results) != len(ops):
        return "trace length mismatch"
    changes = sorted(impl.get("changes", []), key=lambda c: c["after_op"])
    for i, ((qi, op), r) in enumerate(zip(ops, results)):
        where = "op %d queue %d %s" % (i, qi, json.dumps(op)[:60])
        e = shadows[qi].check(op, r, where)
        if e:
            return e
        for c in changes:
            if c["after_op"] == i:
                qo, oo = ops[c["op"]] if c["op"] < len(ops) else (c["queue"], ["?"])
                extra = ""
                if c["same_object_as_result_of_ops"]:
                    extra = " (it is the same list object as the result of op(s) %r)" % c["same_object_as_result_of_ops"]
                return ("the list returned by op %d (queue %d %s) held %r when it was returned, but after %s it holds %r%s"
                        % (c["op"], qo, json.dumps(oo), [o[2] for o in c["recorded"]], where,
                           [o[2] if isinstance(o, list) and len(o) > 2 else o for o in c["now"]] if isinstance(c["now"], list) else c["now"],
                           extra))
    for c in changes:
        return "the list returned by op %d changed by the end of the sequence: %r -> %r" % (c["op"], c["recorded"], c["now"])
    for qi, (sh, fin) in enumerate(zip(shadows, impl["finals"])):
        got = sorted(a[3] for a in fin["array"])
        if got != sh.vids():
            return "queue %d: final pending set %r, expected %r (after the caller mutated the lists it had been handed)" % (
                qi, got, sh.vids())
    return None


def monitor(case):
    inp = case["input"]
    return monitor_trace(inp["inits"], inp["ops"], case["impl"])


def _shrink(inits, ops):
    """greedy delta-debugging over the op list / initial events while the monitor still fails"""
    def fails(i, o):
        try:
            return monitor_trace(i, o, run_impl(i, o)) is not None
        except Exception:  # noqa
            return False
    changed = True
    t0 = time.time()
    while changed and time.time() - t0 < 20:
        changed = False
        chunk = max(1, len(ops) // 2)
        while chunk >= 1:
            j = 0
            while j < len(ops):
                cand = ops[:j] + ops[j + chunk:]
                if fails(inits, cand):
                    ops, changed = cand, True
                else:
                    j += chunk
            chunk //= 2
        for qi in range(len(inits)):
            j = 0
            while inits[qi] and j < len(inits[qi]):
                cand = [list(x) if x is not None else None for x in inits]
                cand[qi] = inits[qi][:j] + inits[qi][j + 1:]
                if fails(cand, ops):
                    inits, changed = cand, True
                else:
                    j += 1
    # drop trailing queues that nothing addresses any more
    while len(inits) > 1 and all(qi != len(inits) - 1 for qi, _ in ops) and fails(inits[:-1], ops):
        inits = inits[:-1]
    return inits, ops


def search(rng, budget_s, broken):
    t0 = time.time()
    while time.time() - t0 < budget_s:
        inits, ops, impl, profile = gen_one(rng, 60)
        why = monitor_trace(inits, ops, impl)
        if why:
            inits, ops = _shrink(inits, ops)
            impl = run_impl(inits, ops)
            return dict(case=dict(inits=inits, ops=ops), impl=impl, why=monitor_trace(inits, ops, impl) or why)
    return None


def replay(w):
    inp = w["case"]
    if "inits" not in inp:                      # replay files written before scenarios had several queues
        inp = dict(inits=[inp.get("init")], ops=[[0, o] for o in inp["ops"]])
    inits = [[list(t) for t in i] if i is not None else None for i in inp["inits"]]
    ops = [[qi, op] for qi, op in inp["ops"]]
    return monitor_trace(inits, ops, run_impl(inits, ops))
