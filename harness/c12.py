"""C12 — constraint matrix, limits and names stay aligned under add/remove/update; Current algebra;
subset queries; registration guard.

Correspondence: random operation sequences on the REAL ChargingNetwork (register_evse / add_constraint /
remove_constraint / update_constraint interleaved with state snapshots and constraint_current queries),
Currents built by the REAL Current class from random expression trees; the Coq model (Model/Current.v,
Model/Network.v) is run on the same sequence and every observation must agree.

The monitor states the property directly on what the implementation showed, using an independent
book-keeping in exact rationals (class Ref below) — it never looks at the Coq model."""
import fractions
import math
import time
import warnings

from harness.core import q, z, coq_list, coq_bool, coq_opt, coq_str

PID = "C12"
GEN_GROUPS = ["C12Shape"]
TARGETS = ["coq/Props/C12.vo", "coq/Model/Network.vo", "coq/Model/Current.vo"]
CASES = {"quick": 260, "thorough": 6000}
CORR_HEADER = ("From Coq Require Import ZArith QArith List String.\n"
               "From ACN Require Import Base.Num Model.Current Model.Network.\nImport ListNotations.\n"
               "Open Scope string_scope.\nOpen Scope Q_scope.\n")
CHECK_FN = "check_c12"
SHARD = 100
F = fractions.Fraction

RULE = ("one case = one ChargingNetwork driven through <= 30 operations (register_evse in random order incl. re-registration, "
        "add/remove/update_constraint with explicit / default / colliding / empty names, Currents from random expression trees over "
        "all constructor forms, +, -, k*a, a*k, Series operands and the in-place spellings), snapshots (station list, "
        "voltages, matrix or None, constraints_as_df, limits, names, Interface.get_constraints) after every failing operation and at "
        "random points, constraint_current (linear=True, and the default phase-aware form with cos/sin of the registered angles "
        "computed by the harness) on random name subsets (shuffled, duplicated, unknown names) and time indices (negative, repeated, "
        "non-consecutive with consecutive end points, empty, out of range); malformed stream: unknown station in a Current, "
        "removing/updating a missing name, registering after constraints exist (also after all were removed), query before the "
        "first constraint, wrong schedule height.  Scenario families (fractions of the same budget): JSON round trip "
        "(to_json/from_json) mid-registration, mid-run and after all constraints were removed, operations continue on the reloaded "
        "object; station ids whose string order differs from registration order (S-9/S-10/S-11, mixed case, numeric-looking, '' and "
        "'0') and constraint names '' / '0'; the SAME Current object reused for several constraints and on a second network, and "
        "changed in place by the caller between uses; two networks of the same shape driven alternately, sharing EVSE and Current "
        "objects; every argument compared before/after the call, every returned object (frame, arrays, lists, Interface copies) "
        "scribbled on, results kept by the caller re-read at the end; schedule / time indices / constraint ids / limit passed as "
        "list, tuple, set, ndarray, numpy scalars, ints; is_feasible (linear and default) and analysis.constraint_currents compared "
        "with the same book-keeping; the first sequences are re-run in a second process with another PYTHONHASHSEED.  A second "
        "stream evaluates expression trees alone (index order and values).  distinct = distinct operation sequence; "
        "non-trivial = at least one constraint accepted")
ASSUMPTIONS = [
    "coefficients, limits and schedules are finite floats (no NaN/inf given as input); Currents built from a dict / Series have a unique index",
    "pandas > '1.4.0' in the string comparison of add_constraint (the concat branch); asserted by the harness on every run",
    "station names are numbered by their rank in Python string order (pandas sorts the union of two different indexes)",
    "the phase-aware constraint_current is modelled with cos/sin of the registered angles as inputs (computed by the harness with "
    "math.cos/sin, independently of the implementation); its magnitudes / feasibility belong to C06",
    "which in-place semantics applies to `a += b` / `a -= b` (the class's own operators, or pandas' reindex-to-left when it "
    "defines none) is read from the class body by tools/gen_c12.py and from Current.__dict__ by the harness on every run; "
    "the two must agree and the correspondence confirms the behaviour",
]
TRUSTED_EXTRA = ["harness/c12.py: Ref (independent exact book-keeping used by the monitor), station-name -> rank encoding, NaN -> None encoding"]

STATION_POOL = ["CA-303", "CA-148", "AB-01", "AB-1", "PS-001", "PS-010", "PS-002", "ca-9", "AV-22", "BC-7", "Z9", "A", "b0", "CC-3",
                "S-9", "S-10", "S-11", "s-10", "10", "9", "", "0"]
RANK = {s: i for i, s in enumerate(sorted(STATION_POOL))}
BY_RANK = {i: s for s, i in RANK.items()}
NAME_POOL = ["Primary A", "Secondary B", "pod", "_const_0", "_const_1", "_const_2", "_const_1_v2", "pod_v2", "t1", "t1_v2", "x", "", "0", "S-10"]
COEFFS = [1, 1, -1, 0.5, 2, 0.25, -0.5, 3, 1.5, 0, 0.1, -2.0, 0.75, 1 / 3, 1.0]
SCALARS = [2, -1, 0.5, 3, 0, -0.25, 1.5, 1, 2.0, -1.0, 0.1]
LIMITS = [10, 32.5, 100.0, 0, 64, 80.0, 416.67, 180, 1e-3, 54.0, -3, 0.0, 1e6]
VOLTS = [208, 240, 277, 120, 415.5]
ANGLES = [30, -30, 150, -90, 90, -150, 0]


def _imports():
    warnings.filterwarnings("ignore")
    import numpy as np
    import pandas as pd
    from acnportal.acnsim.network import ChargingNetwork, Current
    from acnportal.acnsim.models import EVSE
    return np, pd, ChargingNetwork, Current, EVSE


def inplace_mode():
    """which Python semantics `a += b` / `a -= b` has for a Current: the class's own operator if it defines
    one, otherwise pandas' NDFrame._inplace_method (result reindexed like the left operand)"""
    _, _, _, Current, _ = _imports()
    own = all(name in vars(Current) for name in ("__iadd__", "__isub__"))
    return "InplaceRebind" if own else "InplaceReindex"


# ---------------------------------------------------------------------------------------------
# expression trees
# ---------------------------------------------------------------------------------------------
def rand_items(rng, sts, lo=0):
    k = rng.randint(lo, min(4, len(sts)))
    return [[s, rng.choice(COEFFS)] for s in rng.sample(sts, k)]


def rand_leaf(rng, sts):
    t = rng.random()
    if t < 0.08:
        return ["none"]
    if t < 0.3:
        return ["str", rng.choice(sts)]
    if t < 0.55:
        l = [rng.choice(sts) for _ in range(rng.randint(0, 5))]
        return ["list", l]
    if t < 0.85:
        return ["dict", rand_items(rng, sts)]
    return ["series", rand_items(rng, sts, 1)]


def rand_expr(rng, sts, depth):
    if depth <= 0 or rng.random() < 0.3:
        return rand_leaf(rng, sts)
    t = rng.random()
    a = rand_expr(rng, sts, depth - 1)
    if t < 0.25:
        return ["add", a, rand_expr(rng, sts, depth - 1)]
    if t < 0.45:
        return ["sub", a, rand_expr(rng, sts, depth - 1)]
    if t < 0.57:
        return ["mul", a, rng.choice(SCALARS)]
    if t < 0.69:
        return ["rmul", rng.choice(SCALARS), a]
    if t < 0.75:
        return ["raddser", rand_items(rng, sts, 1), a]
    if t < 0.80:
        return ["addser", a, rand_items(rng, sts, 1)]
    if t < 0.87:
        return ["iadd", a, rand_expr(rng, sts, depth - 1)]
    if t < 0.93:
        return ["isub", a, rand_expr(rng, sts, depth - 1)]
    return ["imul", a, rng.choice(SCALARS)]


def build(e):
    """the Current the REAL class produces for the tree"""
    np, pd, _, Current, _ = _imports()
    k = e[0]
    if k == "none":
        return Current()
    if k == "str":
        return Current(e[1])
    if k == "list":
        return Current(list(e[1]))
    if k == "dict":
        return Current({s: v for s, v in e[1]})
    if k == "series":
        return Current(pd.Series({s: float(v) for s, v in e[1]}, dtype="float64"))
    if k == "add":
        return build(e[1]) + build(e[2])
    if k == "sub":
        return build(e[1]) - build(e[2])
    if k == "mul":
        return build(e[1]) * e[2]
    if k == "rmul":
        return e[1] * build(e[2])
    if k == "raddser":
        return pd.Series({s: float(v) for s, v in e[1]}, dtype="float64") + build(e[2])
    if k == "addser":
        return build(e[1]) + pd.Series({s: float(v) for s, v in e[2]}, dtype="float64")
    if k == "iadd":
        t = build(e[1])
        t += build(e[2])
        return t
    if k == "isub":
        t = build(e[1])
        t -= build(e[2])
        return t
    if k == "imul":
        t = build(e[1])
        t *= e[2]
        return t
    raise ValueError(k)


def algebra(e):
    """what the algebra MEANS: station -> exact coefficient (sum, difference, scalar multiple, pointwise);
    stations that appear with coefficient 0 are kept (they are still part of the Current)"""
    k = e[0]
    if k == "none":
        return {}
    if k == "str":
        return {e[1]: F(1)}
    if k == "list":
        return {s: F(1) for s in e[1]}
    if k in ("dict", "series"):
        return {s: F(v) for s, v in e[1]}
    if k in ("add", "iadd", "sub", "isub"):
        a, b = algebra(e[1]), algebra(e[2])
        sg = 1 if k in ("add", "iadd") else -1
        return {s: a.get(s, F(0)) + sg * b.get(s, F(0)) for s in list(a) + [x for x in b if x not in a]}
    if k in ("mul", "imul"):
        return {s: v * F(e[2]) for s, v in algebra(e[1]).items()}
    if k == "rmul":
        return {s: v * F(e[1]) for s, v in algebra(e[2]).items()}
    if k == "raddser":
        a, b = algebra(e[2]), {s: F(v) for s, v in e[1]}
        return {s: a.get(s, F(0)) + b.get(s, F(0)) for s in list(a) + [x for x in b if x not in a]}
    if k == "addser":
        a, b = algebra(e[1]), {s: F(v) for s, v in e[2]}
        return {s: a.get(s, F(0)) + b.get(s, F(0)) for s in list(a) + [x for x in b if x not in a]}
    raise ValueError(k)


def has_lossy_inplace(e):
    """an in-place sum/difference whose right operand mentions a station the left one lacks"""
    k = e[0]
    if k in ("none", "str", "list", "dict", "series"):
        return False
    subs = {"add": e[1:3], "sub": e[1:3], "iadd": e[1:3], "isub": e[1:3], "mul": e[1:2], "imul": e[1:2],
            "rmul": e[2:3], "raddser": e[2:3], "addser": e[1:2]}[k]
    if any(has_lossy_inplace(x) for x in subs):
        return True
    if k in ("iadd", "isub"):
        return any(s not in algebra(e[1]) for s in algebra(e[2]))
    return False


def expr_coq(e):
    k = e[0]
    st = lambda s: "%d%%nat" % RANK[s]
    items = lambda l: coq_list(["(%s, %s)" % (st(s), q(v)) for s, v in l])
    if k == "none":
        return "ENone"
    if k == "str":
        return "(EStr %s)" % st(e[1])
    if k == "list":
        return "(EList %s)" % coq_list([st(s) for s in e[1]])
    if k == "dict":
        return "(EDict %s)" % items(e[1])
    if k == "series":
        return "(ESeries %s)" % items(e[1])
    if k in ("add", "sub", "iadd", "isub"):
        return "(E%s %s %s)" % (k.capitalize() if k in ("add", "sub") else "I" + k[1:], expr_coq(e[1]), expr_coq(e[2]))
    if k == "mul":
        return "(EMul %s %s)" % (expr_coq(e[1]), q(e[2]))
    if k == "imul":
        return "(EImul %s %s)" % (expr_coq(e[1]), q(e[2]))
    if k == "rmul":
        return "(ERmul %s %s)" % (q(e[1]), expr_coq(e[2]))
    if k == "raddser":
        return "(ERaddSer %s %s)" % (items(e[1]), expr_coq(e[2]))
    if k == "addser":
        return "(EAddSer %s %s)" % (expr_coq(e[1]), items(e[2]))
    raise ValueError(k)


def cur_items(c):
    return [[str(k), float(v)] for k, v in zip(list(c.index), list(c.values))]


# ---------------------------------------------------------------------------------------------
# running the implementation
# ---------------------------------------------------------------------------------------------
def num_or_none(x):
    x = float(x)
    return None if (math.isnan(x) or math.isinf(x)) else x


def mat_list(a):
    import numpy as np
    a = np.asarray(a)
    if a.ndim != 2:
        raise ValueError("matrix of dimension %d" % a.ndim)
    if np.iscomplexobj(a):
        if np.any(a.imag != 0):
            raise ValueError("non-zero imaginary part in a linear aggregate current")
        a = a.real
    return [[num_or_none(v) for v in row] for row in a.tolist()] if a.shape[1] else [[] for _ in range(a.shape[0])]


def split(o):
    """an operation may carry a trailing dict of harness-only options:
       net (0/1: which of two interleaved networks), store / use (slot of a Current OBJECT that is kept and reused),
       xtype / ttype / ctype / ltype (how schedule, time indices, constraint ids and the limit are passed)"""
    if o and isinstance(o[-1], dict):
        return list(o[:-1]), o[-1]
    return list(o), {}


def snapshot(net):
    base = dict(
        stations=list(net.station_ids),
        volts=[float(v) for v in net._voltages.tolist()],
        angles=[float(v) for v in net._phase_angles.tolist()],
        mags=[float(v) for v in net.magnitudes.tolist()], names=list(net.constraint_index))
    cm = net.constraint_matrix
    if cm is not None and getattr(cm, "ndim", 2) != 2:
        # a row-less matrix that lost its second dimension (JSON round trip)
        err = None
        try:
            net.constraints_as_df()
        except Exception as e:  # noqa
            err = type(e).__name__
        return dict(kind="snapdeg", df_err=err, shape=list(cm.shape), **base)
    df = net.constraints_as_df()
    out = dict(kind="snap", mat=None if cm is None else mat_list(cm),
               df_cols=[str(c) for c in df.columns], df_idx=[str(i) for i in df.index], df_vals=mat_list(df.to_numpy()),
               **base)
    # other public entry points that report the same quantities (Interface) — and what they hand out are copies
    try:
        import types
        from acnportal.acnsim.interface import Interface
        itf = Interface(types.SimpleNamespace(network=net))
        gc = itf.get_constraints()
        out["iface"] = dict(mat=mat_list(gc.constraint_matrix), mags=[float(v) for v in gc.magnitudes],
                            names=list(gc.constraint_index), stations=list(gc.evse_index))
        if gc.constraint_matrix.size:
            gc.constraint_matrix[:] = 77
        if len(gc.magnitudes):
            gc.magnitudes[:] = 77
        gc.constraint_index.append("poked")
        gc.evse_index.append("poked")
    except Exception as e:  # noqa
        out["iface"] = dict(err=type(e).__name__ + ": " + str(e)[:80])
    # the caller scribbles on everything that was handed out
    try:
        if df.size:
            df.iloc[:, :] = 77
        df.loc["poked"] = 1
    except Exception:  # noqa
        pass
    net.station_ids.append("poked")
    return out


def as_arg(kind, value, np):
    """pass the same values in another container / dtype"""
    if value is None:
        return None
    if kind == "tuple":
        return tuple(value)
    if kind == "ndarray":
        return np.array(value, dtype=int)
    if kind == "npint":
        return [np.int64(v) for v in value]
    if kind == "set":
        return set(value)
    return list(value)


def sched_arg(kind, rows, w, np):
    X = np.array(rows, dtype=float).reshape(len(rows), w)
    if kind == "list":
        return X.tolist() if (len(rows) and w) else X
    if kind == "int" and all(float(v).is_integer() for r in rows for v in r):
        return X.astype(int)
    return X


def limit_arg(kind, v, np):
    if kind == "np":
        return np.float64(v)
    if kind == "int" and float(v).is_integer():
        return int(v)
    return v


def same(a, b, np):
    try:
        if isinstance(a, np.ndarray) or isinstance(b, np.ndarray):
            return np.array_equal(np.asarray(a), np.asarray(b))
        return a == b and type(a) is type(b)
    except Exception:  # noqa
        return False


def run_impl(ops):
    """ops: list of json-able operations; returns the list of observations (same length).
    Up to two networks live side by side (option `net`); they share the EVSE objects and the stored Current
    objects.  Every argument is checked to be left untouched by the call, every returned object is scribbled on."""
    import copy
    import types
    np, pd, ChargingNetwork, Current, EVSE = _imports()
    from acnportal.acnsim import analysis
    assert pd.__version__ > "1.4.0", "model covers the concat branch of add_constraint only"
    nets = {}
    evses, slots, held = {}, {}, []
    out = []

    def get_net(tag):
        if tag not in nets:
            nets[tag] = ChargingNetwork()
        return nets[tag]

    def current_for(expr, opts):
        if "use" in opts and opts["use"] in slots:
            c = slots[opts["use"]]
        else:
            c = build(expr)
        if "store" in opts:
            slots[opts["store"]] = c
        return c

    for o in ops:
        o, opts = split(o)
        k = o[0]
        tag = opts.get("net", 0)
        net = get_net(tag)
        if k == "mutate":
            # the caller changes a Current object it passed earlier (true in-place pandas path: no __imul__)
            if o[1] in slots:
                slots[o[1]] *= o[2]
            out.append(dict(kind="noop"))
            continue
        if k in ("snap", "json"):
            try:
                if k == "json":
                    nets[tag] = net = ChargingNetwork.from_json(net.to_json())
                out.append(snapshot(net))
            except Exception as e:  # noqa
                out.append(dict(kind="query", err="snapshot:" + type(e).__name__ + ":" + str(e)[:60]))
            continue
        if k in ("query", "queryp"):
            _, rows, w, C, T = o
            lin = k == "query"
            X = sched_arg(opts.get("xtype"), rows, w, np)
            Ca, Ta = as_arg(opts.get("ctype"), C, np), as_arg(opts.get("ttype"), T, np)
            before = (copy.deepcopy(X), copy.deepcopy(Ca), copy.deepcopy(Ta))
            ob = dict(kind=k, err=None, val=None, full=None, re=None, im=None, full_re=None, full_im=None)
            try:
                r = np.asarray(net.constraint_current(X, constraints=Ca, time_indices=Ta, linear=lin))
                if lin:
                    ob["val"] = mat_list(r)
                else:
                    ob["re"], ob["im"] = mat_list(r.real), mat_list(r.imag)
                if opts.get("hold"):
                    held.append((len(out), r, r.copy()))
                    try:   # the same request for another schedule: must not touch what was handed out before
                        net.constraint_current(np.asarray(X, dtype=float) + 1.0, constraints=Ca, time_indices=Ta, linear=lin)
                    except Exception:  # noqa
                        pass
                elif r.size:
                    r[:] = 0
            except Exception as e:  # noqa
                ob["err"] = type(e).__name__
            if not (same(before[0], X, np) and same(before[1], Ca, np) and same(before[2], Ta, np)):
                ob["args_changed"] = "constraint_current changed an argument (schedule / constraints / time_indices)"
            try:
                r = np.asarray(net.constraint_current(X, linear=lin))
                if lin:
                    ob["full"] = mat_list(r)
                else:
                    ob["full_re"], ob["full_im"] = mat_list(r.real), mat_list(r.imag)
            except Exception as e:  # noqa
                pass
            # the same quantity through the other public entry points
            if T is None and net.constraint_matrix is not None and getattr(net.constraint_matrix, "ndim", 2) == 2:
                try:
                    Xf = np.asarray(X, dtype=float)
                    ob["feas"] = [bool(net.is_feasible(Xf, linear=True)), bool(net.is_feasible(Xf))]
                except Exception as e:  # noqa
                    ob["feas"] = "err:" + type(e).__name__
                if not lin:
                    try:
                        sim = types.SimpleNamespace(network=net, charging_rates=np.asarray(X, dtype=float))
                        d = analysis.constraint_currents(sim, return_magnitudes=True,
                                                         constraint_ids=None if C is None else list(C))
                        ob["analysis"] = [[str(nm), [num_or_none(v.real) for v in row], [num_or_none(v.imag) for v in row]]
                                          for nm, row in d.items()]
                    except Exception as e:  # noqa
                        ob["analysis"] = "err:" + type(e).__name__
            out.append(ob)
            continue
        ob = dict(kind="step", err=None, cur=None)
        try:
            if k == "register":
                if o[1] not in evses:
                    evses[o[1]] = EVSE(o[1])
                net.register_evse(evses[o[1]], o[2], o[3])
            elif k in ("add", "update"):
                expr = o[1] if k == "add" else o[2]
                c = current_for(expr, opts)
                ob["cur"] = cur_items(c)
                limit = limit_arg(opts.get("ltype"), o[2] if k == "add" else o[3], np)
                try:
                    if k == "add":
                        net.add_constraint(c, limit, name=o[3]) if o[3] is not None else net.add_constraint(c, limit)
                    elif o[4] is None:
                        net.update_constraint(o[1], c, limit)
                    else:
                        net.update_constraint(o[1], c, limit, new_name=o[4])
                finally:
                    if cur_items(c) != ob["cur"] and not (ob["cur"] != ob["cur"]):
                        ob["args_changed"] = "%s_constraint changed the Current it was given" % k
            elif k == "remove":
                net.remove_constraint(o[1])
            else:
                raise ValueError(k)
        except Exception as e:  # noqa
            ob["err"] = type(e).__name__
        ob["names"] = list(net.constraint_index)
        ob["mags"] = [float(v) for v in net.magnitudes.tolist()]
        out.append(ob)
    # results that were handed out earlier and kept by the caller must still read the same
    for idx, live, cp in held:
        try:
            unchanged = np.array_equal(live, cp, equal_nan=True)
        except TypeError:
            unchanged = live.shape == cp.shape and repr(live.tolist()) == repr(cp.tolist())
        if not unchanged:
            out[idx]["held_changed"] = "an aggregate-current array returned earlier changed while the caller kept it"
    return out


# ---------------------------------------------------------------------------------------------
# Coq terms
# ---------------------------------------------------------------------------------------------
def st_list(l):
    return coq_list(["%d%%nat" % RANK[s] for s in l])


def qmat(m):
    return coq_list([coq_list([coq_opt(v, q) for v in row]) for row in m])


def op_coq(o, trig=()):
    o, _ = split(o)
    k = o[0]
    if k == "snap":
        return "CSnap"
    if k == "json":
        return "CJson"
    if k in ("query", "queryp"):
        _, rows, w, C, T = o
        body = "(mkSched %d%%nat %s) %s %s" % (
            w, coq_list([coq_list([q(v) for v in r]) for r in rows]),
            coq_opt(C, lambda l: coq_list([coq_str(x) for x in l])),
            coq_opt(T, lambda l: coq_list(["(%d)%%Z" % t for t in l])))
        if k == "query":
            return "(CQuery %s)" % body
        return "(CQueryP %s %s)" % (body, coq_list(["(%s, %s)" % (q(c), q(sn)) for c, sn in trig]))
    if k == "register":
        return "(CRegister %d%%nat %s %s)" % (RANK[o[1]], q(o[2]), q(o[3]))
    if k == "add":
        return "(CAdd %s %s %s)" % (expr_coq(o[1]), q(o[2]), coq_opt(o[3], coq_str))
    if k == "remove":
        return "(CRemove %s)" % coq_str(o[1])
    if k == "update":
        return "(CUpdate %s %s %s %s)" % (coq_str(o[1]), expr_coq(o[2]), q(o[3]), coq_opt(o[4], coq_str))
    raise ValueError(k)


def obs_coq(b):
    if b["kind"] == "step":
        return "(BStep %s %s %s)" % (coq_opt(b["err"], coq_str), coq_list([coq_str(x) for x in b["names"]]),
                                     coq_list([q(v) for v in b["mags"]]))
    if b["kind"] == "snap":
        return "(BSnap %s %s %s %s %s %s %s %s %s)" % (
            st_list(b["stations"]), coq_list([q(v) for v in b["volts"]]), coq_list([q(v) for v in b["angles"]]),
            coq_opt(b["mat"], qmat), st_list(b["df_cols"]), coq_list([coq_str(x) for x in b["df_idx"]]),
            qmat(b["df_vals"]), coq_list([q(v) for v in b["mags"]]), coq_list([coq_str(x) for x in b["names"]]))
    if b["kind"] == "snapdeg":
        return "(BSnapDeg %s %s %s %s %s %s)" % (
            st_list(b["stations"]), coq_list([q(v) for v in b["volts"]]), coq_list([q(v) for v in b["angles"]]),
            coq_opt(b["df_err"], coq_str), coq_list([q(v) for v in b["mags"]]), coq_list([coq_str(x) for x in b["names"]]))
    if b["kind"] == "queryp":
        if b["err"] is not None:
            return "(BQueryP (Err %s))" % coq_str(b["err"])
        return "(BQueryP (Ok (%s, %s)))" % (qmat(b["re"]), qmat(b["im"]))
    if b["err"] is not None:
        return "(BQuery (Err %s))" % coq_str(b["err"])
    return "(BQuery (Ok %s))" % qmat(b["val"])


def trig_lists(ops, obs):
    """for every op: (cos, sin) of the angle of every registered station (last registration), in station order"""
    order, angle, out = [], {}, []
    for o, b in zip(ops, obs):
        o, _ = split(o)
        if o[0] == "register" and b.get("err") is None:
            if o[1] not in angle:
                order.append(o[1])
            angle[o[1]] = o[3]
        out.append([(math.cos(math.radians(angle[s])), math.sin(math.radians(angle[s]))) for s in order])
    return out


def project(ops, obs, tag):
    """the operations (and what was observed) of ONE of the interleaved networks; `mutate` steps touch no network"""
    po, pb = [], []
    for o, b in zip(ops, obs):
        oo, opts = split(o)
        if oo[0] == "mutate" or opts.get("net", 0) != tag:
            continue
        po.append(o)
        pb.append(b)
    return po, pb


_LOSSY = []


def json_lossy():
    """probe: does a network whose constraints were all removed come back from a JSON round trip with a matrix of
    shape (0,) instead of (0, n)?"""
    if not _LOSSY:
        np, pd, ChargingNetwork, Current, EVSE = _imports()
        n = ChargingNetwork()
        n.register_evse(EVSE("a"), 208, 0)
        n.register_evse(EVSE("b"), 208, 0)
        n.add_constraint(Current("a"), 1, name="x")
        n.remove_constraint("x")
        try:
            m = ChargingNetwork.from_json(n.to_json())
            _LOSSY.append(getattr(m.constraint_matrix, "ndim", 2) != 2)
        except Exception:  # noqa
            _LOSSY.append(False)
    return _LOSSY[0]


def case_coq(mode, ops, obs):
    trigs = trig_lists(ops, obs)
    return "{| k_mode := %s; k_lossy := %s; k_ops := %s;\n   k_obs := %s |}" % (
        mode, coq_bool(json_lossy()), coq_list([op_coq(o, t) for o, t in zip(ops, trigs)]),
        coq_list([obs_coq(b) for b in obs]))


# ---------------------------------------------------------------------------------------------
# generator of operation sequences
# ---------------------------------------------------------------------------------------------
def rand_sched(rng, nrows, w):
    vals = [0, 1, 2, 6, 8, 16, 32, -4, 0.5, 12.25, 31.75]
    return [[rng.choice(vals) for _ in range(w)] for _ in range(nrows)]


def rand_query(rng, nst, names):
    w = rng.randint(0, 4) if rng.random() < 0.15 else rng.randint(1, 5)
    nrows = nst
    if rng.random() < 0.06:
        nrows = max(0, nst + rng.choice([-1, 1]))
    rows = rand_sched(rng, nrows, w)
    C = None
    if rng.random() < 0.7:
        pool = list(names)
        C = rng.sample(pool, rng.randint(0, len(pool))) if pool else []
        if rng.random() < 0.3:
            C.append(rng.choice(NAME_POOL))
        if C and rng.random() < 0.2:
            C.append(rng.choice(C))
        rng.shuffle(C)
    T = None
    if rng.random() < 0.7:
        lo, hi = -w, w - 1
        T = [rng.randint(lo, hi) for _ in range(rng.randint(0, 5))] if w else []
        if T and rng.random() < 0.25:
            # same end points and length as a consecutive run, but repeated / out of order
            a = rng.randint(0, max(0, w - 1))
            T = rng.choice([[a, a], [a, a, min(w - 1, a + 2)], [0, min(w - 1, 2), min(w - 1, 1), w - 1]])
        if rng.random() < 0.08:
            T.append(rng.choice([w, -w - 1, w + 3]))
            rng.shuffle(T)
    opts = {}
    if rng.random() < 0.3:
        opts["xtype"] = rng.choice(["list", "int"])
    if T is not None and rng.random() < 0.3:
        opts["ttype"] = rng.choice(["tuple", "ndarray", "npint"])
    if C is not None and rng.random() < 0.3:
        opts["ctype"] = rng.choice(["tuple", "set"])
    if rng.random() < 0.3:
        opts["hold"] = True
    q_ = ["queryp" if rng.random() < 0.35 else "query", rows, w, C, T]
    return q_ + [opts] if opts else q_


def gen_ops_iter(rng, slots, pool=None):
    """yields batches of operations for ONE network.  `slots` (slot -> expression tree of the stored Current object)
    is shared by all networks of a case: a Current object built for one constraint is reused for others, on either
    network, and is changed in place by the caller between uses."""
    nst = 1 if rng.random() < 0.04 else rng.randint(2, 8)
    if pool is None:
        pool = rng.sample(STATION_POOL, min(len(STATION_POOL), nst + 2))
    else:
        nst = len(pool) - 2
    reg, unknown = pool[:nst], pool[nst:]
    names = []          # names the generator believes are live (only to aim the operations)
    budget = rng.randint(8, 30)
    done = 0
    jsonp = rng.choice([0.0, 0.0, 0.05, 0.12])
    # registration phase: random order; now and then the same station twice, or an early add attempt
    order = list(reg)
    rng.shuffle(order)
    registered = []
    early = rng.random()
    for s in order:
        ops = [["register", s, rng.choice(VOLTS), rng.choice(ANGLES)]]
        registered.append(s)
        if rng.random() < 0.06:
            ops.append(["register", rng.choice(registered), rng.choice(VOLTS), rng.choice(ANGLES)])
        if early < 0.12 and rng.random() < 0.3:
            # add attempt naming a station that is not registered yet: KeyError, registration stays open
            ops.append(["add", ["list", [s, rng.choice(unknown + [x for x in reg if x not in registered] or unknown)]],
                        rng.choice(LIMITS), None])
            ops.append(["snap"])
        if early > 0.95 and rng.random() < 0.3:
            ops.append(rand_query(rng, len(set(registered)), []))
        if rng.random() < jsonp:
            ops.append(["json"])
        done += 1
        yield ops
    ops = []
    if rng.random() < 0.1:
        ops.append(["snap"])
    if rng.random() < 0.04:
        ops.append(["remove", rng.choice(NAME_POOL)])
    if ops:
        yield ops
    sts_ok = list(reg)

    def expr(bad=False):
        e = rand_expr(rng, sts_ok, rng.randint(0, 3))
        if bad:
            u = rng.choice(unknown)
            t = rng.random()
            wrap = ["str", u] if t < 0.4 else (["dict", [[u, 0]]] if t < 0.6 else ["rmul", 0, ["list", [u, rng.choice(sts_ok)]]])
            e = [rng.choice(["add", "sub"]), e, wrap] if rng.random() < 0.7 else ["add", wrap, e]
        return e

    def current_opts(e):
        """reuse a stored Current object / store this one; returns (expression the object denotes, options)"""
        opts = {}
        t = rng.random()
        usable = [k for k, tr in slots.items() if all(st in sts_ok for st in algebra(tr))]
        if t < 0.18 and usable:
            k = rng.choice(usable)
            opts["use"] = k
            e = slots[k]
        elif t < 0.40:
            k = "c%d" % len(slots)
            opts["store"] = k
            slots[k] = e
        if rng.random() < 0.25:
            opts["ltype"] = rng.choice(["np", "int"])
        return e, opts

    while done < budget:
        ops = []
        t = rng.random()
        bad = False
        if t < 0.42:
            nm = None if rng.random() < 0.45 else rng.choice(NAME_POOL)
            if names and rng.random() < 0.15:
                nm = rng.choice(names)
            bad = rng.random() < 0.07
            e, opts = current_opts(expr(bad))
            bad = bad or any(st not in sts_ok for st in algebra(e))
            ops.append(["add", e, rng.choice(LIMITS), nm] + ([opts] if opts else []))
            if not bad:
                names.append(nm if nm is not None else "_const_%d" % len(names))
        elif t < 0.62:
            if names and rng.random() < 0.85:
                nm = rng.choice(names)
                names.remove(nm)
            else:
                nm, bad = rng.choice(NAME_POOL), True
            ops.append(["remove", nm])
        elif t < 0.85:
            if names and rng.random() < 0.88:
                nm = rng.choice(names)
            else:
                nm, bad = rng.choice(NAME_POOL), True
            nn = None if rng.random() < 0.5 else rng.choice(NAME_POOL + names)
            badc = rng.random() < 0.08
            e, opts = current_opts(expr(badc))
            badc = badc or any(st not in sts_ok for st in algebra(e))
            ops.append(["update", nm, e, rng.choice(LIMITS), nn] + ([opts] if opts else []))
            bad = bad or badc
            if nm in names:
                names.remove(nm)
                if not badc:
                    names.append(nn if nn is not None else nm)
        elif t < 0.92:
            s = rng.choice(reg + unknown)
            ops.append(["register", s, rng.choice(VOLTS), rng.choice(ANGLES)])
            bad = True
        else:
            # drain: remove everything, then try to register
            for nm in list(names)[:6]:
                ops.append(["remove", nm])
            names = names[6:]
            ops.append(["snap"])
            if rng.random() < 0.2:
                ops.append(["json"])
            ops.append(["register", rng.choice(unknown + reg), rng.choice(VOLTS), rng.choice(ANGLES)])
            bad = True
        if slots and rng.random() < 0.12:
            # the caller changes, in place, a Current object it handed to a network earlier
            k = rng.choice(sorted(slots))
            sc = rng.choice(SCALARS)
            ops.append(["mutate", k, sc])
            slots[k] = ["imul", slots[k], sc]
        if bad or rng.random() < 0.12:
            ops.append(["snap"])
        if rng.random() < jsonp:
            ops.append(["json"])
        if rng.random() < 0.22:
            ops.append(rand_query(rng, len(reg), names))
        done += 1
        yield ops
    yield [["snap"], rand_query(rng, len(reg), names)]


def gen_ops(rng):
    return [o for batch in gen_ops_iter(rng, {}) for o in batch]


def gen_ops2(rng):
    """two networks of the same shape (same stations, other registration order, other values) driven alternately;
    they share the EVSE objects and the stored Current objects"""
    nst = rng.randint(2, 5)
    pool = rng.sample(STATION_POOL, nst + 2)
    slots = {}
    its = [gen_ops_iter(rng, slots, list(pool)), gen_ops_iter(rng, slots, list(pool))]
    alive = [0, 1]
    ops = []
    while alive:
        tag = rng.choice(alive)
        try:
            batch = next(its[tag])
        except StopIteration:
            alive.remove(tag)
            continue
        for o in batch:
            oo, opts = split(o)
            if tag:
                opts = dict(opts, net=1)
            ops.append(oo + ([opts] if opts else []))
    return ops


def plain(ops):
    """the same operations without object reuse (every Current built afresh from its expression)"""
    out = []
    for o in ops:
        oo, opts = split(o)
        if oo[0] == "mutate":
            continue
        opts = {k: v for k, v in opts.items() if k not in ("use", "store")}
        out.append(oo + ([opts] if opts else []))
    return out


def make_cases(ops, mode=None, shrink_ok=False):
    """run one operation list (one or two interleaved networks) on the implementation; one case per network"""
    mode = mode or inplace_mode()
    obs = run_impl(ops)
    tags = sorted({split(o)[1].get("net", 0) for o in ops}) or [0]
    cases = []
    for tag in tags:
        po, pb = project(ops, obs, tag)
        inp = dict(ops=po, mode=mode)
        if len(tags) > 1 or len(po) != len(ops):
            inp["full_ops"] = ops
            inp["net"] = tag
        case = dict(input=inp, impl=pb, coq=case_coq(mode, po, pb), ambiguous=False)
        why = monitor(case)
        nadds = sum(1 for o, b in zip(po, pb) if o[0] in ("add", "update") and b.get("err") is None)
        errs = sorted({b["err"] for b in pb if b.get("err")})
        fam = [f for f, on in (("2net", len(tags) > 1), ("json", any(o[0] == "json" for o in po)),
                               ("reuse", any("use" in split(o)[1] for o in po))) if on]
        case["kind"] = "seq%s/%s" % ("".join("+" + f for f in fam), "+".join(e[:5] for e in errs) if errs else "clean")
        case["nontrivial"] = nadds > 0
        case["sig"] = po
        if why and shrink_ok:
            # the property fails on the implementation: keep a minimised operation list for the replay file
            try:
                base = plain(ops)
                if _fails(base, mode):
                    inp["shrunk_ops"] = shrink(base, lambda cand: _fails(cand, mode))
            except Exception:  # noqa
                pass
        cases.append(case)
    return cases


def make_case(ops, mode=None, shrink_ok=False):
    return make_cases(ops, mode, shrink_ok)[0]


def monitor_all(ops, mode):
    """first property violation on any of the networks driven by `ops`"""
    obs = run_impl(ops)
    for tag in sorted({split(o)[1].get("net", 0) for o in ops}) or [0]:
        po, pb = project(ops, obs, tag)
        r = monitor(dict(input=dict(ops=po, mode=mode), impl=pb))
        if r:
            return r
    return None


def _fails(ops, mode):
    return bool(monitor_all(ops, mode))


def hashseed_check(op_lists):
    """re-run the operation lists in a second process with another PYTHONHASHSEED; returns {index: message}"""
    import json, os, subprocess, sys, tempfile
    from harness.core import ROOT, REPO, jsonable
    if not op_lists:
        return {}
    with tempfile.NamedTemporaryFile("w", suffix=".json", delete=False) as f:
        json.dump(op_lists, f)
        path = f.name
    code = ("import json,sys,warnings; warnings.filterwarnings('ignore'); from harness import c12, core; "
            "ops=json.load(open(sys.argv[1])); "
            "print(json.dumps([json.dumps(c12.run_impl(o), sort_keys=True, default=core.jsonable) for o in ops]))")
    env = dict(os.environ, PYTHONHASHSEED="4242", PYTHONPATH="%s:%s" % (REPO, ROOT), PYTHONWARNINGS="ignore")
    try:
        p = subprocess.run([sys.executable, "-c", code, path], cwd=ROOT, env=env, stdout=subprocess.PIPE,
                           stderr=subprocess.PIPE, text=True, timeout=300)
        theirs = json.loads(p.stdout.strip().split("\n")[-1])
    except Exception as e:  # noqa
        return {0: "second process (PYTHONHASHSEED=4242) could not be run: %s" % type(e).__name__}
    finally:
        os.unlink(path)
    bad = {}
    for i, ops in enumerate(op_lists):
        # ops went through JSON in the child: do the same here so that both sides see identical inputs
        mine = json.dumps(run_impl(json.loads(json.dumps(ops))), sort_keys=True, default=jsonable)
        if mine != theirs[i]:
            bad[i] = "the same operation list gives different observations in a process with another PYTHONHASHSEED"
    return bad


def corpus():
    """minimised past failures (corpus/C12/*.json): always run first"""
    import glob, json, os
    from harness.core import ROOT
    alg, seq = [], []
    for p in sorted(glob.glob(os.path.join(ROOT, "corpus", "C12", "*.json"))):
        with open(p) as f:
            d = json.load(f)
        alg += d.get("alg", [])
        seq += d.get("seq", [])
    return alg, seq


def gen_cases(rng, n, tier):
    """n = budget of Coq cases; about a quarter of it goes to pairs of interleaved networks"""
    mode = inplace_mode()
    out, shrunk = [], 0
    for ops in corpus()[1]:
        for c in make_cases(ops, mode):
            c["kind"] = "corpus/" + c["kind"]
            out.append(c)
    first = []
    while len(out) < n + len(corpus()[1]):
        ops = gen_ops2(rng) if rng.random() < 0.14 else gen_ops(rng)
        cs = make_cases(ops, mode, shrink_ok=shrunk < 1)
        shrunk += sum(1 for c in cs if "shrunk_ops" in c["input"])
        if len(first) < (12 if tier == "quick" else 40):
            first.append((ops, cs))
        out.extend(cs)
    bad = hashseed_check([ops for ops, _ in first])
    for i, msg in bad.items():
        first[i][1][0]["impl"].append(dict(kind="hashseed", msg=msg))
        first[i][1][0]["input"]["ops"] = first[i][1][0]["input"]["ops"]   # observation only; the Coq term is unchanged
    return out


# ---------------------------------------------------------------------------------------------
# second stream: the algebra alone
# ---------------------------------------------------------------------------------------------
ALG_HEADER = CORR_HEADER
ALG_N = {"quick": 500, "thorough": 10000}


def make_alg_case(e, mode):
    err, items = None, None
    try:
        items = cur_items(build(e))
    except Exception as ex:  # noqa
        err = type(ex).__name__
    inp = dict(expr=e, mode=mode)
    impl = dict(items=items, err=err)
    if err is None and all(v is not None and not math.isnan(v) for _, v in items):
        coq = "{| g_mode := %s; g_expr := %s; g_keys := %s; g_vals := %s |}" % (
            mode, expr_coq(e), st_list([k for k, _ in items]), coq_list([q(v) for _, v in items]))
    else:   # the real class raised or produced NaN on a well-formed tree: a term the model can never match
        coq = "{| g_mode := %s; g_expr := %s; g_keys := [999%%nat]; g_vals := [] |}" % (mode, expr_coq(e))
    case = dict(input=inp, impl=impl, coq=coq, ambiguous=False, kind="alg/" + e[0], nontrivial=e[0] not in ("none",))
    why = monitor(case)
    case["sig"] = e
    return case


def extra_streams(rng, tier):
    mode = inplace_mode()
    cases = []
    for e in corpus()[0]:
        c = make_alg_case(e, mode)
        c["kind"] = "corpus/" + c["kind"]
        cases.append(c)
    for _ in range(ALG_N[tier]):
        nst = rng.randint(1, 8)
        sts = rng.sample(STATION_POOL, nst)
        cases.append(make_alg_case(rand_expr(rng, sts, rng.randint(1, 4)), mode))
    return [("alg", ALG_HEADER, "check_c12alg", cases)]


# ---------------------------------------------------------------------------------------------
# implementation-level monitor (the property, stated on what the implementation showed)
# ---------------------------------------------------------------------------------------------
def finite(x):
    return x is not None and not (isinstance(x, float) and (math.isnan(x) or math.isinf(x)))


def close(a, b):
    if not finite(a) or not finite(b):
        return False
    a, b = F(a), F(b)
    return abs(a - b) <= F(1, 10**9) * max(1, abs(a))


def check_algebra(e, items):
    """items: [(station, coefficient)] of the Current the implementation built for tree e"""
    want = algebra(e)
    got = {k: v for k, v in items}
    if len(got) != len(items):
        return "Current index has duplicate stations"
    nonfin = [k for k, v in items if not finite(v)]
    if nonfin:
        return "coefficient of %s in the Current is %r, the algebra gives %s" % (nonfin[0], got[nonfin[0]], want.get(nonfin[0], F(0)))
    bad = [s for s in set(want) | set(got)
           if not close(want.get(s, F(0)), got.get(s, 0.0))]
    if bad:
        s = sorted(bad)[0]
        msg = "coefficient of %s in the Current is %r, the algebra gives %s" % (s, got.get(s, 0.0), want.get(s, F(0)))
        if has_lossy_inplace(e):
            msg += " (the tree has an in-place sum/difference whose right operand brings a station the left one lacks; cf. corpus/C12)"
        return msg
    return None


class Ref:
    """paper book-keeping of the live constraints, exact"""

    def __init__(self):
        self.stations, self.ever, self.live = [], False, []
        self.angle = {}          # station -> angle given at its last successful registration
        self.volt = {}

    def names(self):
        return [x[0] for x in self.live]

    def resolve(self, name):
        nm = name if name is not None else "_const_%d" % len(self.live)
        return nm + "_v2" if nm in self.names() else nm

    def remove(self, nm):
        for i, x in enumerate(self.live):
            if x[0] == nm:
                del self.live[i]
                return True
        return False


def check_other_entry_points(ref, o, b):
    """is_feasible (linear / phase-aware) and analysis.constraint_currents must report the same constraints, limits and
    aggregate currents as constraint_current"""
    _, rows, w, C, T = o
    if T is not None or len(rows) != len(ref.stations):
        return None
    feas = b.get("feas")
    if feas is not None:
        if isinstance(feas, str):
            return "is_feasible raised " + feas[4:]
        for lin, got in ((True, feas[0]), (False, feas[1])):
            verdict, margin_ok = True, True
            for name, coeffs, limit in ref.live:
                tol = max(F(1, 10**5), limit * F(1, 10**7))
                for t in range(w):
                    if lin:
                        agg = abs(sum(abs(coeffs.get(s, F(0))) * F(rows[k][t]) for k, s in enumerate(ref.stations)))
                    else:
                        re = sum(float(coeffs.get(s, F(0))) * rows[k][t] * math.cos(math.radians(ref.angle[s]))
                                 for k, s in enumerate(ref.stations))
                        im = sum(float(coeffs.get(s, F(0))) * rows[k][t] * math.sin(math.radians(ref.angle[s]))
                                 for k, s in enumerate(ref.stations))
                        agg = F(math.hypot(re, im))
                    gap = float(limit + tol) - float(agg)
                    if abs(gap) < 1e-6:
                        margin_ok = False
                    if gap < 0:
                        verdict = False
            if margin_ok and bool(got) != verdict:
                return "is_feasible(linear=%s) = %s although the live constraints and limits give %s" % (lin, got, verdict)
    an = b.get("analysis")
    if an is not None and b.get("err") is None:
        if isinstance(an, str):
            return "analysis.constraint_currents raised " + an[4:]
        sel = [i for i, x in enumerate(ref.live) if C is None or x[0] in C]
        want = {}
        for i in sel:      # a python dict: of two constraints with the same name the later one is kept
            want[ref.live[i][0]] = i
        if [nm for nm, _, _ in an] != list(dict.fromkeys(ref.live[i][0] for i in sel)):
            return "analysis.constraint_currents lists %r, live constraints requested are %r" % (
                [nm for nm, _, _ in an], [ref.live[i][0] for i in sel])
        for nm, re_row, im_row in an:
            i = want[nm]
            for t in range(w):
                wre = sum(ref.live[i][1].get(s, F(0)) * F(rows[k][t]) * F(math.cos(math.radians(ref.angle[s])))
                          for k, s in enumerate(ref.stations))
                wim = sum(ref.live[i][1].get(s, F(0)) * F(rows[k][t]) * F(math.sin(math.radians(ref.angle[s])))
                          for k, s in enumerate(ref.stations))
                if not (close(wre, re_row[t]) and close(wim, im_row[t])):
                    return "analysis.constraint_currents[%r][%d] = %r%+rj, the aggregate current of that constraint is %r%+rj" % (
                        nm, t, re_row[t], im_row[t], float(wre), float(wim))
    return None


def monitor(case):
    if "expr" in case["input"]:
        impl = case["impl"]
        if impl["err"] is not None:
            return "building a Current from a well-formed expression raised %s" % impl["err"]
        return check_algebra(case["input"]["expr"], impl["items"])
    ops, obs = case["input"]["ops"], case["impl"]
    ref = Ref()
    for b in obs[len(ops):]:
        if b.get("kind") == "hashseed":
            return b["msg"]
    # findings that do not depend on the book-keeping: reported even when the case also shows a known finding
    for step_no, (o, b) in enumerate(zip(ops, obs)):
        for key in ("args_changed", "held_changed"):
            if b.get(key):
                return "op %d %s: %s" % (step_no, split(o)[0][0], b[key])
    for step_no, (o, b) in enumerate(zip(ops, obs)):
        o, opts = split(o)
        k = o[0]
        where = "op %d %s: " % (step_no, k)
        if b["kind"] == "snapdeg":
            if ref.ever and not ref.live and k == "json":
                return (where + "after to_json/from_json of a network whose constraints were all removed "
                        "constraint_matrix has shape %s instead of (0, %d); constraints_as_df: %s (cf. corpus/C12)" % (
                            tuple(b.get("shape", [])), len(ref.stations), b["df_err"]))
            return where + "constraint_matrix is not 2-dimensional (shape %s)" % (tuple(b.get("shape", [])),)
        if k == "register":
            if ref.ever:
                if b["err"] != "EVSERegistrationError":
                    return where + "register_evse after a constraint was added did not raise EVSERegistrationError (got %r)" % b["err"]
            else:
                if b["err"] is not None:
                    return where + "register_evse before any constraint raised %s" % b["err"]
                if o[1] not in ref.stations:
                    ref.stations.append(o[1])
                ref.angle[o[1]] = o[3]
                ref.volt[o[1]] = o[2]
        elif k in ("add", "update"):
            items = b.get("cur")
            if items is None:
                return where + "building the Current raised %s" % b["err"]
            r = check_algebra(o[1] if k == "add" else o[2], items)
            if r:
                return where + r
            coeffs = {s: F(v) for s, v in items}      # alignment is judged against the Current actually passed
            unknown = [s for s in coeffs if s not in ref.stations]
            if k == "update" and o[1] not in ref.names():
                if b["err"] != "KeyError":
                    return where + "updating a missing constraint did not raise KeyError (got %r)" % b["err"]
            else:
                if k == "update":
                    ref.remove(o[1])
                if unknown:
                    if b["err"] != "KeyError":
                        return where + "Current names unregistered station %s but no KeyError (got %r)" % (unknown[0], b["err"])
                else:
                    if b["err"] is not None:
                        return where + "raised %s on a well-formed constraint" % b["err"]
                    nm = o[3] if k == "add" else (o[4] if o[4] is not None else o[1])
                    ref.live.append((ref.resolve(nm), coeffs, F(o[2] if k == "add" else o[3])))
                    ref.ever = True
        elif k == "remove":
            if ref.remove(o[1]):
                if b["err"] is not None:
                    return where + "removing a live constraint raised %s" % b["err"]
            elif b["err"] != "KeyError":
                return where + "removing a missing constraint did not raise KeyError (got %r)" % b["err"]
        if b["kind"] == "step":
            if b["names"] != ref.names():
                return where + "constraint_index is %r, live constraints are %r" % (b["names"], ref.names())
            if len(b["mags"]) != len(ref.live) or any(F(m) != x[2] for m, x in zip(b["mags"], ref.live)):
                return where + "magnitudes %r are not the limits %r of the live constraints" % (b["mags"], [float(x[2]) for x in ref.live])
        elif b["kind"] == "snap":
            itf = b.get("iface")
            if itf is not None:
                if "err" in itf:
                    return where + "Interface.get_constraints() raised " + itf["err"]
                want_mat = b["mat"] if b["mat"] is not None else []
                if itf["names"] != b["names"] or itf["stations"] != b["stations"] or itf["mags"] != b["mags"] \
                        or itf["mat"] != want_mat:
                    return where + "Interface.get_constraints() differs from the network's own arrays"
            if b["stations"] != ref.stations:
                return where + "station list %r differs from the registered stations %r" % (b["stations"], ref.stations)
            if b["volts"] != [float(ref.volt[x]) for x in ref.stations] or b["angles"] != [float(ref.angle[x]) for x in ref.stations]:
                return where + "voltages %r / phase angles %r are not those given at the (last) registration of %r" % (
                    b["volts"], b["angles"], ref.stations)
            if (b["mat"] is not None) != ref.ever:
                return where + "constraint_matrix is %s although %s" % ("None" if b["mat"] is None else "set", "a constraint was accepted" if ref.ever else "no constraint was ever accepted")
            if b["names"] != ref.names() or b["df_idx"] != ref.names():
                return where + "names %r / df index %r differ from live constraints %r" % (b["names"], b["df_idx"], ref.names())
            if len(b["mags"]) != len(ref.live) or any(F(m) != x[2] for m, x in zip(b["mags"], ref.live)):
                return where + "magnitudes do not match the limits"
            if b["df_cols"] != ref.stations:
                return where + "constraints_as_df columns are not the station list"
            for label, m in (("constraint_matrix", b["mat"]), ("constraints_as_df", b["df_vals"])):
                if m is None:
                    continue
                if len(m) != len(ref.live):
                    return where + "%s has %d rows for %d live constraints" % (label, len(m), len(ref.live))
                for i, (row, x) in enumerate(zip(m, ref.live)):
                    if len(row) != len(ref.stations):
                        return where + "%s row %d has %d entries for %d stations" % (label, i, len(row), len(ref.stations))
                    for s, v in zip(ref.stations, row):
                        if not close(x[1].get(s, F(0)), v):
                            return where + "%s[%d][%s] = %r but the coefficient of %s in constraint %r is %s" % (
                                label, i, s, v, s, x[0], x[1].get(s, F(0)))
        elif b["kind"] == "query":
            if b.get("err") and b["err"].startswith("snapshot:"):
                return where + "reading the network state raised " + b["err"]
            _, rows, w, C, T = o
            Tn = None
            if T is not None:
                Tn = [t if t >= 0 else t + w for t in T]
                if any(not (-w <= t < w) for t in T):
                    if b["err"] != "IndexError":
                        return where + "time index out of range but no IndexError (got %r)" % b["err"]
                    continue
            if not ref.ever:
                if b["err"] != "TypeError":
                    return where + "query before any constraint: expected TypeError, got %r" % b["err"]
                continue
            if len(rows) != len(ref.stations):
                if b["err"] != "ValueError":
                    return where + "schedule with %d rows for %d stations: expected ValueError, got %r" % (len(rows), len(ref.stations), b["err"])
                continue
            if b["err"] is not None:
                return where + "constraint_current raised %s" % b["err"]
            sel = [i for i, x in enumerate(ref.live) if C is None or x[0] in C]
            cols = list(range(w)) if Tn is None else Tn
            val = b["val"]
            if len(val) != len(sel) or any(len(r) != len(cols) for r in val):
                return where + "aggregate currents have shape %dx%s, expected %dx%d" % (len(val), [len(r) for r in val][:1], len(sel), len(cols))
            for r, i in enumerate(sel):
                for c, t in enumerate(cols):
                    want = sum(abs(ref.live[i][1].get(s, F(0))) * F(rows[k][t]) for k, s in enumerate(ref.stations))
                    if not close(want, val[r][c]):
                        return where + "aggregate current [%d][%d] = %r, expected row %d (%r) x period %d = %s" % (
                            r, c, val[r][c], i, ref.live[i][0], t, want)
                    if b["full"] is not None and not close(b["full"][i][t], val[r][c]):
                        return where + "subset result [%d][%d] differs from the full result [%d][%d]" % (r, c, i, t)
            r = check_other_entry_points(ref, o, b)
            if r:
                return where + r
        elif b["kind"] == "queryp":
            # the default, phase-aware query: sum_k coeff_i(s_k) * X[k][t] * exp(j*angle(s_k))
            _, rows, w, C, T = o
            Tn = None
            if T is not None:
                Tn = [t if t >= 0 else t + w for t in T]
                if any(not (-w <= t < w) for t in T):
                    if b["err"] != "IndexError":
                        return where + "time index out of range but no IndexError (got %r)" % b["err"]
                    continue
            if len(rows) != len(ref.stations):
                continue      # wrong height: numpy may broadcast a one-row schedule; not judged here
            if not ref.ever:
                if b["err"] != "TypeError":
                    return where + "query before any constraint: expected TypeError, got %r" % b["err"]
                continue
            if b["err"] is not None:
                return where + "phase-aware constraint_current raised %s on a well-formed schedule" % b["err"]
            ang = ref.angle
            sel = [i for i, x in enumerate(ref.live) if C is None or x[0] in C]
            cols = list(range(w)) if Tn is None else Tn
            for part, fn in (("re", math.cos), ("im", math.sin)):
                val = b[part]
                if len(val) != len(sel) or any(len(r) != len(cols) for r in val):
                    return where + "aggregate currents (%s) have the wrong shape" % part
                for r, i in enumerate(sel):
                    for c, t in enumerate(cols):
                        want = sum(ref.live[i][1].get(s, F(0)) * F(rows[k][t]) * F(fn(math.radians(ang[s])))
                                   for k, s in enumerate(ref.stations))
                        if not close(want, val[r][c]):
                            return where + "aggregate current (%s) [%d][%d] = %r, expected row %d (%r) x period %d = %s" % (
                                part, r, c, val[r][c], i, ref.live[i][0], t, float(want))
                        full = b["full_" + part]
                        if full is not None and not close(full[i][t], val[r][c]):
                            return where + "subset result (%s) [%d][%d] differs from the full result [%d][%d]" % (part, r, c, i, t)
            r = check_other_entry_points(ref, o, b)
            if r:
                return where + r
    return None


# ---------------------------------------------------------------------------------------------
# search / replay / known findings
# ---------------------------------------------------------------------------------------------
def shrink(ops, pred):
    """greedy delta-debugging over the operation list"""
    cur = list(ops)
    changed = True
    while changed:
        changed = False
        for i in range(len(cur) - 1, -1, -1):
            cand = cur[:i] + cur[i + 1:]
            try:
                if pred(cand):
                    cur, changed = cand, True
            except Exception:  # noqa
                pass
    return cur


def search(rng, budget_s, broken):
    t0 = time.time()
    mode = inplace_mode()

    def fails(ops):
        return _fails(ops, mode)

    while time.time() - t0 < budget_s:
        for _ in range(40):
            ops = gen_ops2(rng) if rng.random() < 0.2 else gen_ops(rng)
            if fails(ops):
                if fails(plain(ops)):
                    ops = shrink(plain(ops), fails)
                return dict(case=dict(ops=ops, full_ops=ops, mode=mode), impl=run_impl(ops), why=monitor_all(ops, mode))
        for _ in range(200):
            sts = rng.sample(STATION_POOL, rng.randint(1, 8))
            c = make_alg_case(rand_expr(rng, sts, rng.randint(1, 4)), mode)
            r = monitor(c)
            if r:
                return dict(case=c["input"], impl=c["impl"], why=r)
    return None


def replay(w):
    inp = w["case"]
    if "expr" in inp:
        c = make_alg_case(inp["expr"], inplace_mode())
        return monitor(c)
    ops = inp.get("shrunk_ops") or inp.get("full_ops") or inp["ops"]
    return monitor_all(ops, inplace_mode())


def replay_known(entry):
    """re-run the witness of an open finding on the implementation; returns what still fails (or None).
    An entry with an `expr` or `ops` witness is replayed with the monitor (which also reports the known class)."""
    w = entry.get("witness", {})
    if "expr" in w:
        return monitor(make_alg_case(w["expr"], inplace_mode()))
    if "ops" in w:
        obs = run_impl(w["ops"])
        return monitor(dict(input=dict(ops=w["ops"], mode=inplace_mode()), impl=obs))
    return "not re-checked"
