"""C12 — constraint matrix, limits and names stay aligned under add/remove/update; Current algebra;
subset queries; registration guard.

Correspondence: random operation sequences on the REAL ChargingNetwork (register_evse / add_constraint /
remove_constraint / update_constraint interleaved with state snapshots and constraint_current queries),
Currents built by the REAL Current class from random expression trees; the Coq model (Model/Current.v,
Model/Network.v) is run on the same sequence and every observation must agree.

The monitor states the property directly on what the implementation showed, using an independent
book-keeping in exact rationals (class Ref below) — it never looks at the Coq model."""
import fractions
import math
import time
import warnings

from harness.core import q, z, coq_list, coq_bool, coq_opt, coq_str

PID = "C12"
GEN_GROUPS = ["C12Shape"]
TARGETS = ["coq/Props/C12.vo", "coq/Model/Network.vo", "coq/Model/Current.vo"]
CASES = {"quick": 300, "thorough": 6000}
CORR_HEADER = ("From Coq Require Import ZArith QArith List String.\n"
               "From ACN Require Import Base.Num Model.Current Model.Network.\nImport ListNotations.\n"
               "Open Scope string_scope.\nOpen Scope Q_scope.\n")
CHECK_FN = "check_c12"
SHARD = 100
F = fractions.Fraction

RULE = ("one case = one ChargingNetwork driven through <= 30 operations (register_evse in random order incl. re-registration, "
        "add/remove/update_constraint with explicit / default / colliding names, Currents from random expression trees over "
        "all constructor forms, +, -, k*a, a*k, Series operands and the in-place spellings), snapshots (station list, "
        "voltages, matrix or None, constraints_as_df, limits, names) after every failing operation and at random points, "
        "constraint_current (linear=True, and the default phase-aware form with cos/sin of the registered angles computed by the "
        "harness) on random name subsets (shuffled, duplicated, unknown names) and time indices "
        "(negative, repeated, empty, out of range); malformed stream: unknown station in a Current, removing/updating a "
        "missing name, registering after constraints exist (also after all were removed), query before the first "
        "constraint, wrong schedule height.  A second stream evaluates expression trees alone (index order and values). "
        "distinct = distinct operation sequence; non-trivial = at least one constraint accepted")
ASSUMPTIONS = [
    "coefficients, limits and schedules are finite floats (no NaN/inf given as input); Currents built from a dict / Series have a unique index",
    "pandas > '1.4.0' in the string comparison of add_constraint (the concat branch); asserted by the harness on every run",
    "station names are numbered by their rank in Python string order (pandas sorts the union of two different indexes)",
    "the phase-aware constraint_current is modelled with cos/sin of the registered angles as inputs (computed by the harness with "
    "math.cos/sin, independently of the implementation); its magnitudes / feasibility belong to C06",
    "which in-place semantics applies to `a += b` / `a -= b` (the class's own operators, or pandas' reindex-to-left when it "
    "defines none) is read from the class body by tools/gen_c12.py and from Current.__dict__ by the harness on every run; "
    "the two must agree and the correspondence confirms the behaviour",
]
TRUSTED_EXTRA = ["harness/c12.py: Ref (independent exact book-keeping used by the monitor), station-name -> rank encoding, NaN -> None encoding"]

STATION_POOL = ["CA-303", "CA-148", "AB-01", "AB-1", "PS-001", "PS-010", "PS-002", "ca-9", "AV-22", "BC-7", "Z9", "A", "b0", "CC-3"]
RANK = {s: i for i, s in enumerate(sorted(STATION_POOL))}
BY_RANK = {i: s for s, i in RANK.items()}
NAME_POOL = ["Primary A", "Secondary B", "pod", "_const_0", "_const_1", "_const_2", "_const_1_v2", "pod_v2", "t1", "t1_v2", "x"]
COEFFS = [1, 1, -1, 0.5, 2, 0.25, -0.5, 3, 1.5, 0, 0.1, -2.0, 0.75, 1 / 3, 1.0]
SCALARS = [2, -1, 0.5, 3, 0, -0.25, 1.5, 1, 2.0, -1.0, 0.1]
LIMITS = [10, 32.5, 100.0, 0, 64, 80.0, 416.67, 180, 1e-3, 54.0]
VOLTS = [208, 240, 277, 120, 415.5]
ANGLES = [30, -30, 150, -90, 90, -150, 0]


def _imports():
    warnings.filterwarnings("ignore")
    import numpy as np
    import pandas as pd
    from acnportal.acnsim.network import ChargingNetwork, Current
    from acnportal.acnsim.models import EVSE
    return np, pd, ChargingNetwork, Current, EVSE


def inplace_mode():
    """which Python semantics `a += b` / `a -= b` has for a Current: the class's own operator if it defines
    one, otherwise pandas' NDFrame._inplace_method (result reindexed like the left operand)"""
    _, _, _, Current, _ = _imports()
    own = all(name in vars(Current) for name in ("__iadd__", "__isub__"))
    return "InplaceRebind" if own else "InplaceReindex"


# ---------------------------------------------------------------------------------------------
# expression trees
# ---------------------------------------------------------------------------------------------
def rand_items(rng, sts, lo=0):
    k = rng.randint(lo, min(4, len(sts)))
    return [[s, rng.choice(COEFFS)] for s in rng.sample(sts, k)]


def rand_leaf(rng, sts):
    t = rng.random()
    if t < 0.08:
        return ["none"]
    if t < 0.3:
        return ["str", rng.choice(sts)]
    if t < 0.55:
        l = [rng.choice(sts) for _ in range(rng.randint(0, 5))]
        return ["list", l]
    if t < 0.85:
        return ["dict", rand_items(rng, sts)]
    return ["series", rand_items(rng, sts, 1)]


def rand_expr(rng, sts, depth):
    if depth <= 0 or rng.random() < 0.3:
        return rand_leaf(rng, sts)
    t = rng.random()
    a = rand_expr(rng, sts, depth - 1)
    if t < 0.25:
        return ["add", a, rand_expr(rng, sts, depth - 1)]
    if t < 0.45:
        return ["sub", a, rand_expr(rng, sts, depth - 1)]
    if t < 0.57:
        return ["mul", a, rng.choice(SCALARS)]
    if t < 0.69:
        return ["rmul", rng.choice(SCALARS), a]
    if t < 0.75:
        return ["raddser", rand_items(rng, sts, 1), a]
    if t < 0.80:
        return ["addser", a, rand_items(rng, sts, 1)]
    if t < 0.87:
        return ["iadd", a, rand_expr(rng, sts, depth - 1)]
    if t < 0.93:
        return ["isub", a, rand_expr(rng, sts, depth - 1)]
    return ["imul", a, rng.choice(SCALARS)]


def build(e):
    """the Current the REAL class produces for the tree"""
    np, pd, _, Current, _ = _imports()
    k = e[0]
    if k == "none":
        return Current()
    if k == "str":
        return Current(e[1])
    if k == "list":
        return Current(list(e[1]))
    if k == "dict":
        return Current({s: v for s, v in e[1]})
    if k == "series":
        return Current(pd.Series({s: float(v) for s, v in e[1]}, dtype="float64"))
    if k == "add":
        return build(e[1]) + build(e[2])
    if k == "sub":
        return build(e[1]) - build(e[2])
    if k == "mul":
        return build(e[1]) * e[2]
    if k == "rmul":
        return e[1] * build(e[2])
    if k == "raddser":
        return pd.Series({s: float(v) for s, v in e[1]}, dtype="float64") + build(e[2])
    if k == "addser":
        return build(e[1]) + pd.Series({s: float(v) for s, v in e[2]}, dtype="float64")
    if k == "iadd":
        t = build(e[1])
        t += build(e[2])
        return t
    if k == "isub":
        t = build(e[1])
        t -= build(e[2])
        return t
    if k == "imul":
        t = build(e[1])
        t *= e[2]
        return t
    raise ValueError(k)


def algebra(e):
    """what the algebra MEANS: station -> exact coefficient (sum, difference, scalar multiple, pointwise);
    stations that appear with coefficient 0 are kept (they are still part of the Current)"""
    k = e[0]
    if k == "none":
        return {}
    if k == "str":
        return {e[1]: F(1)}
    if k == "list":
        return {s: F(1) for s in e[1]}
    if k in ("dict", "series"):
        return {s: F(v) for s, v in e[1]}
    if k in ("add", "iadd", "sub", "isub"):
        a, b = algebra(e[1]), algebra(e[2])
        sg = 1 if k in ("add", "iadd") else -1
        return {s: a.get(s, F(0)) + sg * b.get(s, F(0)) for s in list(a) + [x for x in b if x not in a]}
    if k in ("mul", "imul"):
        return {s: v * F(e[2]) for s, v in algebra(e[1]).items()}
    if k == "rmul":
        return {s: v * F(e[1]) for s, v in algebra(e[2]).items()}
    if k == "raddser":
        a, b = algebra(e[2]), {s: F(v) for s, v in e[1]}
        return {s: a.get(s, F(0)) + b.get(s, F(0)) for s in list(a) + [x for x in b if x not in a]}
    if k == "addser":
        a, b = algebra(e[1]), {s: F(v) for s, v in e[2]}
        return {s: a.get(s, F(0)) + b.get(s, F(0)) for s in list(a) + [x for x in b if x not in a]}
    raise ValueError(k)


def has_lossy_inplace(e):
    """an in-place sum/difference whose right operand mentions a station the left one lacks"""
    k = e[0]
    if k in ("none", "str", "list", "dict", "series"):
        return False
    subs = {"add": e[1:3], "sub": e[1:3], "iadd": e[1:3], "isub": e[1:3], "mul": e[1:2], "imul": e[1:2],
            "rmul": e[2:3], "raddser": e[2:3], "addser": e[1:2]}[k]
    if any(has_lossy_inplace(x) for x in subs):
        return True
    if k in ("iadd", "isub"):
        return any(s not in algebra(e[1]) for s in algebra(e[2]))
    return False


def expr_coq(e):
    k = e[0]
    st = lambda s: "%d%%nat" % RANK[s]
    items = lambda l: coq_list(["(%s, %s)" % (st(s), q(v)) for s, v in l])
    if k == "none":
        return "ENone"
    if k == "str":
        return "(EStr %s)" % st(e[1])
    if k == "list":
        return "(EList %s)" % coq_list([st(s) for s in e[1]])
    if k == "dict":
        return "(EDict %s)" % items(e[1])
    if k == "series":
        return "(ESeries %s)" % items(e[1])
    if k in ("add", "sub", "iadd", "isub"):
        return "(E%s %s %s)" % (k.capitalize() if k in ("add", "sub") else "I" + k[1:], expr_coq(e[1]), expr_coq(e[2]))
    if k == "mul":
        return "(EMul %s %s)" % (expr_coq(e[1]), q(e[2]))
    if k == "imul":
        return "(EImul %s %s)" % (expr_coq(e[1]), q(e[2]))
    if k == "rmul":
        return "(ERmul %s %s)" % (q(e[1]), expr_coq(e[2]))
    if k == "raddser":
        return "(ERaddSer %s %s)" % (items(e[1]), expr_coq(e[2]))
    if k == "addser":
        return "(EAddSer %s %s)" % (expr_coq(e[1]), items(e[2]))
    raise ValueError(k)


def cur_items(c):
    return [[str(k), float(v)] for k, v in zip(list(c.index), list(c.values))]


# ---------------------------------------------------------------------------------------------
# running the implementation
# ---------------------------------------------------------------------------------------------
def num_or_none(x):
    x = float(x)
    return None if (math.isnan(x) or math.isinf(x)) else x


def mat_list(a):
    import numpy as np
    a = np.asarray(a)
    if a.ndim != 2:
        raise ValueError("matrix of dimension %d" % a.ndim)
    if np.iscomplexobj(a):
        if np.any(a.imag != 0):
            raise ValueError("non-zero imaginary part in a linear aggregate current")
        a = a.real
    return [[num_or_none(v) for v in row] for row in a.tolist()] if a.shape[1] else [[] for _ in range(a.shape[0])]


def snapshot(net):
    df = net.constraints_as_df()
    return dict(
        stations=list(net.station_ids),
        volts=[float(v) for v in net._voltages.tolist()],
        angles=[float(v) for v in net._phase_angles.tolist()],
        mat=None if net.constraint_matrix is None else mat_list(net.constraint_matrix),
        df_cols=[str(c) for c in df.columns], df_idx=[str(i) for i in df.index], df_vals=mat_list(df.to_numpy()),
        mags=[float(v) for v in net.magnitudes.tolist()], names=list(net.constraint_index))


def run_impl(ops):
    """ops: list of json-able operations; returns the list of observations (same length)"""
    np, pd, ChargingNetwork, Current, EVSE = _imports()
    assert pd.__version__ > "1.4.0", "model covers the concat branch of add_constraint only"
    net = ChargingNetwork()
    out = []
    for o in ops:
        k = o[0]
        if k == "snap":
            try:
                out.append(dict(kind="snap", **snapshot(net)))
            except Exception as e:  # noqa
                out.append(dict(kind="query", err="snapshot:" + type(e).__name__))
            continue
        if k == "query":
            _, rows, w, C, T = o
            X = np.array(rows, dtype=float).reshape(len(rows), w)
            ob = dict(kind="query", err=None, val=None, full=None)
            try:
                ob["val"] = mat_list(net.constraint_current(X, constraints=C, time_indices=T, linear=True))
            except Exception as e:  # noqa
                ob["err"] = type(e).__name__
            try:
                ob["full"] = mat_list(net.constraint_current(X, linear=True))
            except Exception as e:  # noqa
                ob["full"] = None
            out.append(ob)
            continue
        if k == "queryp":
            _, rows, w, C, T = o
            X = np.array(rows, dtype=float).reshape(len(rows), w)
            ob = dict(kind="queryp", err=None, re=None, im=None, full_re=None, full_im=None)
            try:
                r = np.asarray(net.constraint_current(X, constraints=C, time_indices=T))
                ob["re"], ob["im"] = mat_list(r.real), mat_list(r.imag)
            except Exception as e:  # noqa
                ob["err"] = type(e).__name__
            try:
                r = np.asarray(net.constraint_current(X))
                ob["full_re"], ob["full_im"] = mat_list(r.real), mat_list(r.imag)
            except Exception as e:  # noqa
                pass
            out.append(ob)
            continue
        ob = dict(kind="step", err=None, cur=None)
        try:
            if k == "register":
                net.register_evse(EVSE(o[1]), o[2], o[3])
            elif k == "add":
                c = build(o[1])
                ob["cur"] = cur_items(c)
                net.add_constraint(c, o[2], name=o[3]) if o[3] is not None else net.add_constraint(c, o[2])
            elif k == "remove":
                net.remove_constraint(o[1])
            elif k == "update":
                c = build(o[2])
                ob["cur"] = cur_items(c)
                if o[4] is None:
                    net.update_constraint(o[1], c, o[3])
                else:
                    net.update_constraint(o[1], c, o[3], new_name=o[4])
            else:
                raise ValueError(k)
        except Exception as e:  # noqa
            ob["err"] = type(e).__name__
        ob["names"] = list(net.constraint_index)
        ob["mags"] = [float(v) for v in net.magnitudes.tolist()]
        out.append(ob)
    return out


# ---------------------------------------------------------------------------------------------
# Coq terms
# ---------------------------------------------------------------------------------------------
def st_list(l):
    return coq_list(["%d%%nat" % RANK[s] for s in l])


def qmat(m):
    return coq_list([coq_list([coq_opt(v, q) for v in row]) for row in m])


def op_coq(o, trig=()):
    k = o[0]
    if k == "snap":
        return "CSnap"
    if k in ("query", "queryp"):
        _, rows, w, C, T = o
        body = "(mkSched %d%%nat %s) %s %s" % (
            w, coq_list([coq_list([q(v) for v in r]) for r in rows]),
            coq_opt(C, lambda l: coq_list([coq_str(x) for x in l])),
            coq_opt(T, lambda l: coq_list(["(%d)%%Z" % t for t in l])))
        if k == "query":
            return "(CQuery %s)" % body
        return "(CQueryP %s %s)" % (body, coq_list(["(%s, %s)" % (q(c), q(sn)) for c, sn in trig]))
    if k == "register":
        return "(CRegister %d%%nat %s %s)" % (RANK[o[1]], q(o[2]), q(o[3]))
    if k == "add":
        return "(CAdd %s %s %s)" % (expr_coq(o[1]), q(o[2]), coq_opt(o[3], coq_str))
    if k == "remove":
        return "(CRemove %s)" % coq_str(o[1])
    if k == "update":
        return "(CUpdate %s %s %s %s)" % (coq_str(o[1]), expr_coq(o[2]), q(o[3]), coq_opt(o[4], coq_str))
    raise ValueError(k)


def obs_coq(b):
    if b["kind"] == "step":
        return "(BStep %s %s %s)" % (coq_opt(b["err"], coq_str), coq_list([coq_str(x) for x in b["names"]]),
                                     coq_list([q(v) for v in b["mags"]]))
    if b["kind"] == "snap":
        return "(BSnap %s %s %s %s %s %s %s %s %s)" % (
            st_list(b["stations"]), coq_list([q(v) for v in b["volts"]]), coq_list([q(v) for v in b["angles"]]),
            coq_opt(b["mat"], qmat), st_list(b["df_cols"]), coq_list([coq_str(x) for x in b["df_idx"]]),
            qmat(b["df_vals"]), coq_list([q(v) for v in b["mags"]]), coq_list([coq_str(x) for x in b["names"]]))
    if b["kind"] == "queryp":
        if b["err"] is not None:
            return "(BQueryP (Err %s))" % coq_str(b["err"])
        return "(BQueryP (Ok (%s, %s)))" % (qmat(b["re"]), qmat(b["im"]))
    if b["err"] is not None:
        return "(BQuery (Err %s))" % coq_str(b["err"])
    return "(BQuery (Ok %s))" % qmat(b["val"])


def trig_lists(ops, obs):
    """for every op: (cos, sin) of the angle of every registered station (last registration), in station order"""
    order, angle, out = [], {}, []
    for o, b in zip(ops, obs):
        if o[0] == "register" and b.get("err") is None:
            if o[1] not in angle:
                order.append(o[1])
            angle[o[1]] = o[3]
        out.append([(math.cos(math.radians(angle[s])), math.sin(math.radians(angle[s]))) for s in order])
    return out


def case_coq(mode, ops, obs):
    trigs = trig_lists(ops, obs)
    return "{| k_mode := %s; k_ops := %s;\n   k_obs := %s |}" % (
        mode, coq_list([op_coq(o, t) for o, t in zip(ops, trigs)]), coq_list([obs_coq(b) for b in obs]))


# ---------------------------------------------------------------------------------------------
# generator of operation sequences
# ---------------------------------------------------------------------------------------------
def rand_sched(rng, nrows, w):
    vals = [0, 1, 2, 6, 8, 16, 32, -4, 0.5, 12.25, 31.75]
    return [[rng.choice(vals) for _ in range(w)] for _ in range(nrows)]


def rand_query(rng, nst, names):
    w = rng.randint(0, 4) if rng.random() < 0.15 else rng.randint(1, 5)
    nrows = nst
    if rng.random() < 0.06:
        nrows = max(0, nst + rng.choice([-1, 1]))
    rows = rand_sched(rng, nrows, w)
    C = None
    if rng.random() < 0.7:
        pool = list(names)
        C = rng.sample(pool, rng.randint(0, len(pool))) if pool else []
        if rng.random() < 0.3:
            C.append(rng.choice(NAME_POOL))
        if C and rng.random() < 0.2:
            C.append(rng.choice(C))
        rng.shuffle(C)
    T = None
    if rng.random() < 0.7:
        lo, hi = -w, w - 1
        T = [rng.randint(lo, hi) for _ in range(rng.randint(0, 5))] if w else []
        if rng.random() < 0.08:
            T.append(rng.choice([w, -w - 1, w + 3]))
            rng.shuffle(T)
    return ["queryp" if rng.random() < 0.35 else "query", rows, w, C, T]


def gen_ops(rng):
    nst = rng.randint(2, 8)
    pool = rng.sample(STATION_POOL, min(len(STATION_POOL), nst + 2))
    reg, unknown = pool[:nst], pool[nst:]
    ops = []
    names = []          # names the generator believes are live (only to aim the operations)
    budget = rng.randint(8, 30)
    # registration phase: random order; now and then the same station twice, or an early add attempt
    order = list(reg)
    rng.shuffle(order)
    registered = []
    early = rng.random()
    for s in order:
        ops.append(["register", s, rng.choice(VOLTS), rng.choice(ANGLES)])
        registered.append(s)
        if rng.random() < 0.06:
            ops.append(["register", rng.choice(registered), rng.choice(VOLTS), rng.choice(ANGLES)])
        if early < 0.12 and rng.random() < 0.3:
            # add attempt naming a station that is not registered yet: KeyError, registration stays open
            ops.append(["add", ["list", [s, rng.choice(unknown + [x for x in reg if x not in registered] or unknown)]],
                        rng.choice(LIMITS), None])
            ops.append(["snap"])
        if early > 0.95 and rng.random() < 0.3:
            ops.append(rand_query(rng, len(set(registered)), []))
    if rng.random() < 0.1:
        ops.append(["snap"])
    if rng.random() < 0.04:
        ops.append(["remove", rng.choice(NAME_POOL)])
    sts_ok = list(reg)

    def expr(bad=False):
        e = rand_expr(rng, sts_ok, rng.randint(0, 3))
        if bad:
            u = rng.choice(unknown)
            t = rng.random()
            wrap = ["str", u] if t < 0.4 else (["dict", [[u, 0]]] if t < 0.6 else ["rmul", 0, ["list", [u, rng.choice(sts_ok)]]])
            e = [rng.choice(["add", "sub"]), e, wrap] if rng.random() < 0.7 else ["add", wrap, e]
        return e

    while len([o for o in ops if o[0] not in ("snap", "query", "queryp")]) < budget:
        t = rng.random()
        bad = False
        if t < 0.42:
            nm = None if rng.random() < 0.45 else rng.choice(NAME_POOL)
            if names and rng.random() < 0.15:
                nm = rng.choice(names)
            bad = rng.random() < 0.07
            ops.append(["add", expr(bad), rng.choice(LIMITS), nm])
            if not bad:
                names.append(nm if nm is not None else "_const_%d" % len(names))
        elif t < 0.62:
            if names and rng.random() < 0.85:
                nm = rng.choice(names)
                names.remove(nm)
            else:
                nm, bad = rng.choice(NAME_POOL), True
            ops.append(["remove", nm])
        elif t < 0.85:
            if names and rng.random() < 0.88:
                nm = rng.choice(names)
            else:
                nm, bad = rng.choice(NAME_POOL), True
            nn = None if rng.random() < 0.5 else rng.choice(NAME_POOL + names)
            badc = rng.random() < 0.08
            ops.append(["update", nm, expr(badc), rng.choice(LIMITS), nn])
            bad = bad or badc
            if nm in names:
                names.remove(nm)
                if not badc:
                    names.append(nn if nn is not None else nm)
        elif t < 0.92:
            s = rng.choice(reg + unknown)
            ops.append(["register", s, rng.choice(VOLTS), rng.choice(ANGLES)])
            bad = True
        else:
            # drain: remove everything, then try to register
            for nm in list(names)[:6]:
                ops.append(["remove", nm])
            names = names[6:]
            ops.append(["snap"])
            ops.append(["register", rng.choice(unknown + reg), rng.choice(VOLTS), rng.choice(ANGLES)])
            bad = True
        if bad or rng.random() < 0.12:
            ops.append(["snap"])
        if rng.random() < 0.22:
            ops.append(rand_query(rng, len(reg), names))
    ops.append(["snap"])
    ops.append(rand_query(rng, len(reg), names))
    return ops


def make_case(ops, mode=None, shrink_ok=False):
    mode = mode or inplace_mode()
    obs = run_impl(ops)
    inp = dict(ops=ops, mode=mode)
    case = dict(input=inp, impl=obs, coq=case_coq(mode, ops, obs), ambiguous=False)
    why = monitor(case)
    nadds = sum(1 for o, b in zip(ops, obs) if o[0] in ("add", "update") and b.get("err") is None)
    errs = sorted({b["err"] for b in obs if b.get("err")})
    case["kind"] = "seq/%s" % ("+".join(e[:5] for e in errs) if errs else "clean")
    case["nontrivial"] = nadds > 0
    case["sig"] = ops
    if why and shrink_ok:
        # the property fails on the implementation: keep a minimised operation list for the replay file
        try:
            inp["shrunk_ops"] = shrink(ops, lambda cand: _fails(cand, mode))
        except Exception:  # noqa
            pass
    return case


def _fails(ops, mode):
    r = monitor(dict(input=dict(ops=ops, mode=mode), impl=run_impl(ops)))
    return bool(r)


def corpus():
    """minimised past failures (corpus/C12/*.json): always run first"""
    import glob, json, os
    from harness.core import ROOT
    alg, seq = [], []
    for p in sorted(glob.glob(os.path.join(ROOT, "corpus", "C12", "*.json"))):
        with open(p) as f:
            d = json.load(f)
        alg += d.get("alg", [])
        seq += d.get("seq", [])
    return alg, seq


def gen_cases(rng, n, tier):
    mode = inplace_mode()
    out, shrunk = [], 0
    for ops in corpus()[1]:
        c = make_case(ops, mode)
        c["kind"] = "corpus/" + c["kind"]
        out.append(c)
    for _ in range(n):
        c = make_case(gen_ops(rng), mode, shrink_ok=shrunk < 1)
        shrunk += 1 if "shrunk_ops" in c["input"] else 0
        out.append(c)
    return out


# ---------------------------------------------------------------------------------------------
# second stream: the algebra alone
# ---------------------------------------------------------------------------------------------
ALG_HEADER = CORR_HEADER
ALG_N = {"quick": 600, "thorough": 10000}


def make_alg_case(e, mode):
    err, items = None, None
    try:
        items = cur_items(build(e))
    except Exception as ex:  # noqa
        err = type(ex).__name__
    inp = dict(expr=e, mode=mode)
    impl = dict(items=items, err=err)
    if err is None and all(v is not None and not math.isnan(v) for _, v in items):
        coq = "{| g_mode := %s; g_expr := %s; g_keys := %s; g_vals := %s |}" % (
            mode, expr_coq(e), st_list([k for k, _ in items]), coq_list([q(v) for _, v in items]))
    else:   # the real class raised or produced NaN on a well-formed tree: a term the model can never match
        coq = "{| g_mode := %s; g_expr := %s; g_keys := [999%%nat]; g_vals := [] |}" % (mode, expr_coq(e))
    case = dict(input=inp, impl=impl, coq=coq, ambiguous=False, kind="alg/" + e[0], nontrivial=e[0] not in ("none",))
    why = monitor(case)
    case["sig"] = e
    return case


def extra_streams(rng, tier):
    mode = inplace_mode()
    cases = []
    for e in corpus()[0]:
        c = make_alg_case(e, mode)
        c["kind"] = "corpus/" + c["kind"]
        cases.append(c)
    for _ in range(ALG_N[tier]):
        nst = rng.randint(1, 8)
        sts = rng.sample(STATION_POOL, nst)
        cases.append(make_alg_case(rand_expr(rng, sts, rng.randint(1, 4)), mode))
    return [("alg", ALG_HEADER, "check_c12alg", cases)]


# ---------------------------------------------------------------------------------------------
# implementation-level monitor (the property, stated on what the implementation showed)
# ---------------------------------------------------------------------------------------------
def finite(x):
    return x is not None and not (isinstance(x, float) and (math.isnan(x) or math.isinf(x)))


def close(a, b):
    if not finite(a) or not finite(b):
        return False
    a, b = F(a), F(b)
    return abs(a - b) <= F(1, 10**9) * max(1, abs(a))


def check_algebra(e, items):
    """items: [(station, coefficient)] of the Current the implementation built for tree e"""
    want = algebra(e)
    got = {k: v for k, v in items}
    if len(got) != len(items):
        return "Current index has duplicate stations"
    nonfin = [k for k, v in items if not finite(v)]
    if nonfin:
        return "coefficient of %s in the Current is %r, the algebra gives %s" % (nonfin[0], got[nonfin[0]], want.get(nonfin[0], F(0)))
    bad = [s for s in set(want) | set(got)
           if not close(want.get(s, F(0)), got.get(s, 0.0))]
    if bad:
        s = sorted(bad)[0]
        msg = "coefficient of %s in the Current is %r, the algebra gives %s" % (s, got.get(s, 0.0), want.get(s, F(0)))
        if has_lossy_inplace(e):
            msg += " (the tree has an in-place sum/difference whose right operand brings a station the left one lacks; cf. corpus/C12)"
        return msg
    return None


class Ref:
    """paper book-keeping of the live constraints, exact"""

    def __init__(self):
        self.stations, self.ever, self.live = [], False, []
        self.angle = {}          # station -> angle given at its last successful registration

    def names(self):
        return [x[0] for x in self.live]

    def resolve(self, name):
        nm = name if name is not None else "_const_%d" % len(self.live)
        return nm + "_v2" if nm in self.names() else nm

    def remove(self, nm):
        for i, x in enumerate(self.live):
            if x[0] == nm:
                del self.live[i]
                return True
        return False


def monitor(case):
    if "expr" in case["input"]:
        impl = case["impl"]
        if impl["err"] is not None:
            return "building a Current from a well-formed expression raised %s" % impl["err"]
        return check_algebra(case["input"]["expr"], impl["items"])
    ops, obs = case["input"]["ops"], case["impl"]
    ref = Ref()
    for step_no, (o, b) in enumerate(zip(ops, obs)):
        k = o[0]
        where = "op %d %s: " % (step_no, k)
        if k == "register":
            if ref.ever:
                if b["err"] != "EVSERegistrationError":
                    return where + "register_evse after a constraint was added did not raise EVSERegistrationError (got %r)" % b["err"]
            else:
                if b["err"] is not None:
                    return where + "register_evse before any constraint raised %s" % b["err"]
                if o[1] not in ref.stations:
                    ref.stations.append(o[1])
                ref.angle[o[1]] = o[3]
        elif k in ("add", "update"):
            items = b.get("cur")
            if items is None:
                return where + "building the Current raised %s" % b["err"]
            r = check_algebra(o[1] if k == "add" else o[2], items)
            if r:
                return where + r
            coeffs = {s: F(v) for s, v in items}      # alignment is judged against the Current actually passed
            unknown = [s for s in coeffs if s not in ref.stations]
            if k == "update" and o[1] not in ref.names():
                if b["err"] != "KeyError":
                    return where + "updating a missing constraint did not raise KeyError (got %r)" % b["err"]
            else:
                if k == "update":
                    ref.remove(o[1])
                if unknown:
                    if b["err"] != "KeyError":
                        return where + "Current names unregistered station %s but no KeyError (got %r)" % (unknown[0], b["err"])
                else:
                    if b["err"] is not None:
                        return where + "raised %s on a well-formed constraint" % b["err"]
                    nm = o[3] if k == "add" else (o[4] if o[4] is not None else o[1])
                    ref.live.append((ref.resolve(nm), coeffs, F(o[2] if k == "add" else o[3])))
                    ref.ever = True
        elif k == "remove":
            if ref.remove(o[1]):
                if b["err"] is not None:
                    return where + "removing a live constraint raised %s" % b["err"]
            elif b["err"] != "KeyError":
                return where + "removing a missing constraint did not raise KeyError (got %r)" % b["err"]
        if b["kind"] == "step":
            if b["names"] != ref.names():
                return where + "constraint_index is %r, live constraints are %r" % (b["names"], ref.names())
            if len(b["mags"]) != len(ref.live) or any(F(m) != x[2] for m, x in zip(b["mags"], ref.live)):
                return where + "magnitudes %r are not the limits %r of the live constraints" % (b["mags"], [float(x[2]) for x in ref.live])
        elif b["kind"] == "snap":
            if b["stations"] != ref.stations:
                return where + "station list %r differs from the registered stations %r" % (b["stations"], ref.stations)
            if (b["mat"] is not None) != ref.ever:
                return where + "constraint_matrix is %s although %s" % ("None" if b["mat"] is None else "set", "a constraint was accepted" if ref.ever else "no constraint was ever accepted")
            if b["names"] != ref.names() or b["df_idx"] != ref.names():
                return where + "names %r / df index %r differ from live constraints %r" % (b["names"], b["df_idx"], ref.names())
            if len(b["mags"]) != len(ref.live) or any(F(m) != x[2] for m, x in zip(b["mags"], ref.live)):
                return where + "magnitudes do not match the limits"
            if b["df_cols"] != ref.stations:
                return where + "constraints_as_df columns are not the station list"
            for label, m in (("constraint_matrix", b["mat"]), ("constraints_as_df", b["df_vals"])):
                if m is None:
                    continue
                if len(m) != len(ref.live):
                    return where + "%s has %d rows for %d live constraints" % (label, len(m), len(ref.live))
                for i, (row, x) in enumerate(zip(m, ref.live)):
                    if len(row) != len(ref.stations):
                        return where + "%s row %d has %d entries for %d stations" % (label, i, len(row), len(ref.stations))
                    for s, v in zip(ref.stations, row):
                        if not close(x[1].get(s, F(0)), v):
                            return where + "%s[%d][%s] = %r but the coefficient of %s in constraint %r is %s" % (
                                label, i, s, v, s, x[0], x[1].get(s, F(0)))
        elif b["kind"] == "query":
            if b.get("err") and b["err"].startswith("snapshot:"):
                return where + "reading the network state raised " + b["err"]
            _, rows, w, C, T = o
            Tn = None
            if T is not None:
                Tn = [t if t >= 0 else t + w for t in T]
                if any(not (-w <= t < w) for t in T):
                    if b["err"] != "IndexError":
                        return where + "time index out of range but no IndexError (got %r)" % b["err"]
                    continue
            if not ref.ever:
                if b["err"] != "TypeError":
                    return where + "query before any constraint: expected TypeError, got %r" % b["err"]
                continue
            if len(rows) != len(ref.stations):
                if b["err"] != "ValueError":
                    return where + "schedule with %d rows for %d stations: expected ValueError, got %r" % (len(rows), len(ref.stations), b["err"])
                continue
            if b["err"] is not None:
                return where + "constraint_current raised %s" % b["err"]
            sel = [i for i, x in enumerate(ref.live) if C is None or x[0] in C]
            cols = list(range(w)) if Tn is None else Tn
            val = b["val"]
            if len(val) != len(sel) or any(len(r) != len(cols) for r in val):
                return where + "aggregate currents have shape %dx%s, expected %dx%d" % (len(val), [len(r) for r in val][:1], len(sel), len(cols))
            for r, i in enumerate(sel):
                for c, t in enumerate(cols):
                    want = sum(abs(ref.live[i][1].get(s, F(0))) * F(rows[k][t]) for k, s in enumerate(ref.stations))
                    if not close(want, val[r][c]):
                        return where + "aggregate current [%d][%d] = %r, expected row %d (%r) x period %d = %s" % (
                            r, c, val[r][c], i, ref.live[i][0], t, want)
                    if b["full"] is not None and not close(b["full"][i][t], val[r][c]):
                        return where + "subset result [%d][%d] differs from the full result [%d][%d]" % (r, c, i, t)
        elif b["kind"] == "queryp":
            # the default, phase-aware query: sum_k coeff_i(s_k) * X[k][t] * exp(j*angle(s_k))
            _, rows, w, C, T = o
            Tn = None
            if T is not None:
                Tn = [t if t >= 0 else t + w for t in T]
                if any(not (-w <= t < w) for t in T):
                    if b["err"] != "IndexError":
                        return where + "time index out of range but no IndexError (got %r)" % b["err"]
                    continue
            if len(rows) != len(ref.stations):
                continue      # wrong height: numpy may broadcast a one-row schedule; not judged here
            if not ref.ever:
                if b["err"] != "TypeError":
                    return where + "query before any constraint: expected TypeError, got %r" % b["err"]
                continue
            if b["err"] is not None:
                return where + "phase-aware constraint_current raised %s on a well-formed schedule" % b["err"]
            ang = ref.angle
            sel = [i for i, x in enumerate(ref.live) if C is None or x[0] in C]
            cols = list(range(w)) if Tn is None else Tn
            for part, fn in (("re", math.cos), ("im", math.sin)):
                val = b[part]
                if len(val) != len(sel) or any(len(r) != len(cols) for r in val):
                    return where + "aggregate currents (%s) have the wrong shape" % part
                for r, i in enumerate(sel):
                    for c, t in enumerate(cols):
                        want = sum(ref.live[i][1].get(s, F(0)) * F(rows[k][t]) * F(fn(math.radians(ang[s])))
                                   for k, s in enumerate(ref.stations))
                        if not close(want, val[r][c]):
                            return where + "aggregate current (%s) [%d][%d] = %r, expected row %d (%r) x period %d = %s" % (
                                part, r, c, val[r][c], i, ref.live[i][0], t, float(want))
                        full = b["full_" + part]
                        if full is not None and not close(full[i][t], val[r][c]):
                            return where + "subset result (%s) [%d][%d] differs from the full result [%d][%d]" % (part, r, c, i, t)
    return None


# ---------------------------------------------------------------------------------------------
# search / replay / known findings
# ---------------------------------------------------------------------------------------------
def shrink(ops, pred):
    """greedy delta-debugging over the operation list"""
    cur = list(ops)
    changed = True
    while changed:
        changed = False
        for i in range(len(cur) - 1, -1, -1):
            cand = cur[:i] + cur[i + 1:]
            try:
                if pred(cand):
                    cur, changed = cand, True
            except Exception:  # noqa
                pass
    return cur


def search(rng, budget_s, broken):
    t0 = time.time()
    mode = inplace_mode()

    def fails(ops):
        return _fails(ops, mode)

    while time.time() - t0 < budget_s:
        for _ in range(40):
            ops = gen_ops(rng)
            if fails(ops):
                ops = shrink(ops, fails)
                obs = run_impl(ops)
                return dict(case=dict(ops=ops, mode=mode), impl=obs,
                            why=monitor(dict(input=dict(ops=ops, mode=mode), impl=obs)))
        for _ in range(200):
            sts = rng.sample(STATION_POOL, rng.randint(1, 8))
            c = make_alg_case(rand_expr(rng, sts, rng.randint(1, 4)), mode)
            r = monitor(c)
            if r:
                return dict(case=c["input"], impl=c["impl"], why=r)
    return None


def replay(w):
    inp = w["case"]
    if "expr" in inp:
        c = make_alg_case(inp["expr"], inplace_mode())
        return monitor(c)
    ops = inp.get("shrunk_ops") or inp["ops"]
    obs = run_impl(ops)
    return monitor(dict(input=dict(ops=ops, mode=inplace_mode()), impl=obs))


def replay_known(entry):
    """re-run the witness of an open finding on the implementation; returns what still fails (or None).
    C12 has no open finding at present; an entry with an `expr` or `ops` witness is replayed with the monitor."""
    w = entry.get("witness", {})
    if "expr" in w:
        return monitor(make_alg_case(w["expr"], inplace_mode()))
    if "ops" in w:
        return replay(dict(case=dict(ops=w["ops"])))
    return "not re-checked"
