"""Second process for the hash-seed determinism family: reads a JSON list of inputs on stdin, runs the
real Simulator on each (harness.simcommon.run_impl) and prints the JSON list of trace digests.
Started by harness/c01.py with a different PYTHONHASHSEED."""
import json
import sys
import warnings

warnings.filterwarnings("ignore")
from harness import simcommon as S


def digest(impl):
    return dict(error=impl["error"], hist=[list(h) for h in impl["hist"]], occ=[[t, list(o)] for t, o in impl["occ"]],
                iteration=impl["iteration"], rates=impl["rates"], energy=[list(e) for e in impl["energy"]],
                calls=[[c["t"], [s["sid"] for s in c["sessions"]], [list(x) for x in c["last_pilots"]],
                        sorted((str(k), v) for k, v in c["schedule"].items())] for c in impl["calls"]])


if __name__ == "__main__":
    inputs = json.load(sys.stdin)
    json.dump([json.loads(json.dumps(digest(S.run_impl(i)))) for i in inputs], sys.stdout)
