"""C03, simulation level: run the REAL Simulator (ChargingNetwork, EVSE, EV, batteries of all classes, a
scripted scheduler emitting non-negative pilots) and hand each station's recorded pilot / rate rows to the
station model (Model/BatteryStation.v), together with the noise draws each battery consumed."""
import warnings
from datetime import datetime

from harness import batt
from harness.core import q, coq_list

HEADER = ("From Coq Require Import ZArith QArith List String.\n"
          "From ACN Require Import Base.Num Model.EVSE Model.Battery Model.BatteryStation.\nImport ListNotations.\n"
          "Open Scope string_scope.\nOpen Scope Q_scope.\n")
CHECK_FN = "check_station"


AV_RATES = [0] + list(range(6, 33))          # get_evse_by_type(.., "AeroVironment")
CC_RATES = [0, 8, 16, 24, 32]                # get_evse_by_type(.., "ClipperCreek")


def make_evse(sid, kind):
    """kind: ["C", min, max] | ["D", deadband_end, max] | ["F", [rates]] | ["T", "BASIC"|"AeroVironment"|"ClipperCreek"]"""
    from acnportal.acnsim.models import EVSE, DeadbandEVSE, FiniteRatesEVSE
    from acnportal.acnsim.models.evse import get_evse_by_type
    if kind[0] == "T":
        return get_evse_by_type(sid, kind[1])
    if kind[0] == "C":
        return EVSE(sid, max_rate=kind[2], min_rate=kind[1])
    if kind[0] == "D":
        return DeadbandEVSE(sid, deadband_end=kind[1], max_rate=kind[2])
    return FiniteRatesEVSE(sid, list(kind[1]))


def evse_params(kind):
    """normalised (class letter, parameters) of a station's EVSE, for the model and the pilot generator"""
    if kind[0] == "T":
        return {"BASIC": ("C", 0, 32), "AeroVironment": ("F", AV_RATES), "ClipperCreek": ("F", CC_RATES)}[kind[1]]
    return tuple(kind)


def evse_coq(kind):
    k = evse_params(kind)
    if k[0] == "C":
        return "(Continuous %s %s)" % (q(k[1]), q(k[2]))
    if k[0] == "D":
        return "(Deadband %s %s)" % (q(k[1]), q(k[2]))
    return "(Finite %s)" % coq_list([q(r) for r in k[1]])


def allowed_pilot(rng, kind, want_zero=False):
    """a pilot the station's EVSE accepts (0 is always among them)"""
    k = evse_params(kind)
    if want_zero:
        return 0
    u = rng.random()
    if k[0] == "C":
        lo, hi = k[1], k[2]
        return hi if u < 0.3 else rng.choice([x for x in (6, 8, 13.5, 16) if lo <= x <= hi] or [hi]) if u < 0.55 else round(rng.uniform(lo, hi), 3)
    if k[0] == "D":
        lo, hi = k[1], k[2]
        return hi if u < 0.3 else lo if u < 0.45 else round(rng.uniform(lo, hi), 3)
    rates = [r for r in k[1] if r > 0]
    if not rates:
        return 0
    return max(rates) if u < 0.3 else min(rates) if u < 0.45 else rng.choice(rates)


def rand_evse(rng):
    u = rng.random()
    if u < 0.12:
        return ["T", rng.choice(["BASIC", "AeroVironment", "ClipperCreek"])]
    if u < 0.30:
        return ["C", 0, rng.choice([16, 32, 32, 80])]
    if u < 0.45:
        return ["D", rng.choice([6, 6, 8]), rng.choice([16, 32, 32])]
    if u < 0.62:
        return ["F", AV_RATES]
    if u < 0.79:
        return ["F", CC_RATES]
    return ["F", sorted(set(rng.choice([6, 8, 10, 12.5, 16, 24, 30, 32, 40]) for _ in range(rng.randint(1, 5))))]


STATION_NAMES = ["S-9", "S-10", "S-11", "s-2"]      # lexicographic order differs from registration order


def run_sim(inp):
    """inp: dict(period, stations=[dict(voltage, evse=kind)], sessions=[dict(station, arrival, departure, requested,
    battery=spec)], script=[[pilot per station] per period], noise=[floats]).
    Besides the two matrices, every other public view of the same quantities is recorded (network.current_charging_rates
    and the EVSEs' current_pilot after every period, Interface.last_applied_pilot_signals / last_actual_charging_rate as
    the scheduler sees them, the *_as_df frames), and — inp['rerun'] — the same EV objects are EV.reset() and simulated
    a second time on a new network."""
    import numpy as np
    from acnportal.acnsim import Simulator
    from acnportal.acnsim.network import ChargingNetwork
    from acnportal.acnsim.events import EventQueue, PluginEvent
    from acnportal.acnsim.models import EV
    from acnportal.algorithms import BaseAlgorithm

    sids = STATION_NAMES[:len(inp["stations"])]
    noise_vals = list(inp["noise"])
    drawn = []

    def fake_normal(*a, **k):
        v = noise_vals[len(drawn) % len(noise_vals)]
        drawn.append(v)
        return v

    calls = {}            # (session, period) -> noise draw used (0.0 when none)
    evs = []
    holder = {}
    for k, s in enumerate(inp["sessions"]):
        b, err = batt.construct(s["battery"])
        if b is None:
            raise RuntimeError("bad battery spec in simulation case: %s" % err)

        def charge(pilot, voltage, period, _orig=b.charge, _k=k):
            before = len(drawn)
            try:
                return _orig(pilot, voltage, period)
            finally:
                if holder.get("first"):
                    calls[(_k, holder["sim"].iteration)] = drawn[before] if len(drawn) > before else 0.0
        b.charge = charge
        evs.append(EV(s["arrival"], s["departure"], s["requested"], sids[s["station"]], "sess%d" % k, b))

    script = inp["script"]

    def one_run(record):
        views = dict(net=[], iface=[])

        class RecNet(ChargingNetwork):
            def post_charging_update(self):
                if record:
                    views["net"].append([[batt.fnum(e.current_pilot) for e in self._EVSEs.values()],
                                         [batt.fnum(x) for x in self.current_charging_rates]])

        class Scripted(BaseAlgorithm):
            def __init__(self):
                super().__init__()
                self.max_recompute = 1

            def schedule(self, active_sessions):
                t = self.interface.current_time
                if record:
                    views["iface"].append([t, {k: batt.fnum(v) for k, v in self.interface.last_applied_pilot_signals.items()},
                                           {k: batt.fnum(v) for k, v in self.interface.last_actual_charging_rate.items()}])
                if t >= len(script):
                    return {}
                return {sid: [script[t][k]] for k, sid in enumerate(sids)}

        net = RecNet()
        for sid, st in zip(sids, inp["stations"]):
            net.register_evse(make_evse(sid, st["evse"]), st["voltage"], 0)
        del drawn[:]
        err = None
        sim = Simulator(net, Scripted(), EventQueue([PluginEvent(ev.arrival, ev) for ev in evs]), datetime(2021, 3, 4),
                        period=inp["period"], verbose=False)
        holder["sim"] = sim
        try:
            sim.run()
        except Exception as e:  # noqa
            err = type(e).__name__
        it = sim.iteration
        pil = np.array(sim.pilot_signals)
        rat = np.array(sim.charging_rates)
        n = min(it, pil.shape[1], rat.shape[1])
        out = dict(error=err, periods=int(n),
                   pilots=[[batt.fnum(x) for x in pil[s, :n]] for s in range(len(sids))],
                   rates=[[batt.fnum(x) for x in rat[s, :n]] for s in range(len(sids))],
                   final=[[batt.fnum(ev.energy_delivered), batt.fnum(ev._battery._current_charge)] for ev in evs])
        if record and err is None:
            dfr, dfp = sim.charging_rates_as_df(), sim.pilot_signals_as_df()
            views["df_rates"] = {sid: [batt.fnum(x) for x in dfr[sid].values[:n]] for sid in sids}
            views["df_pilots"] = {sid: [batt.fnum(x) for x in dfp[sid].values[:n]] for sid in sids}
            out["views"] = views
        return out

    orig = np.random.normal
    np.random.normal = fake_normal
    try:
        with warnings.catch_warnings():
            warnings.simplefilter("ignore")
            holder["first"] = True
            out = one_run(True)
            holder["first"] = False
            out["draws"] = {"%d,%d" % k: v for k, v in calls.items()}
            if inp.get("rerun") and out["error"] is None:
                for ev in evs:
                    ev.reset()
                second = one_run(False)
                out["rerun"] = dict(error=second["error"], same=(second["pilots"] == out["pilots"] and
                                                                  second["rates"] == out["rates"] and second["final"] == out["final"]),
                                    rates=second["rates"])
    finally:
        np.random.normal = orig
    out["sids"] = sids
    return out


def occupant(inp, station, t):
    for k, s in enumerate(inp["sessions"]):
        if s["station"] == station and s["arrival"] <= t < s["departure"]:
            return k
    return None


def station_cases(inp, impl):
    """one Coq case per station"""
    out = []
    for s, st in enumerate(inp["stations"]):
        sess = [k for k, x in enumerate(inp["sessions"]) if x["station"] == s]
        local = {k: i for i, k in enumerate(sess)}
        slots = []
        for t in range(impl["periods"]):
            p = impl["pilots"][s][t]
            k = occupant(inp, s, t)
            if k is None:
                slots.append("(Empty %s %s %s)" % (q(p), q(st["voltage"]), q(inp["period"])))
            else:
                n = impl["draws"].get("%d,%d" % (k, t), 0.0)
                slots.append("(Occupied %d%%nat %s %s %s %s %s)" % (local[k], q(p), q(st["voltage"]), q(inp["period"]), q(n), q(n)))
        coq = ("{| st_evse := %s;\n   st_batts := %s;\n   st_slots := %s;\n   st_pilots := %s; st_rates := %s;\n   st_final := %s |}" % (
            evse_coq(st["evse"]), coq_list([batt.batt_coq(inp["sessions"][k]["battery"]) for k in sess]), coq_list(slots),
            coq_list([q(x) for x in impl["pilots"][s]]), coq_list([q(x) for x in impl["rates"][s]]),
            coq_list(["(%s, %s)" % (q(impl["final"][k][0]), q(impl["final"][k][1])) for k in sess])))
        out.append(coq)
    return out


def rand_sim(rng, c03):
    period = rng.choice([1, 5, 5, 15, 7, 2.5])
    nst = rng.choice([1, 1, 2, 3])
    stations = [dict(voltage=rng.choice([120, 208, 208, 240, 277]), evse=rand_evse(rng)) for _ in range(nst)]
    sessions = []
    horizon = 0
    for s in range(nst):
        t = rng.randint(0, 2)
        for _ in range(rng.choice([1, 1, 2, 3])):
            dur = rng.randint(1, 7)
            spec = c03.rand_spec(rng)
            # start anywhere, often close to full or to the transition so that the regimes are crossed inside the stay
            frac = rng.choice([0, 0.3, 0.7, 0.78, 0.9, 0.97, 0.999, 1.0]) if rng.random() < 0.7 else rng.random()
            spec["init"] = round(spec["cap"] * frac, 4)
            sessions.append(dict(station=s, arrival=t, departure=t + dur, requested=round(rng.uniform(1, 30), 2), battery=spec))
            t += dur + rng.randint(1, 3)
        horizon = max(horizon, t)
    # schedules: per station a pattern with 0 A pilots WHILE an EV is connected (pauses, time-sharing between the
    # stations, on/off), every pilot being one the station's EVSE class accepts
    patterns = [rng.choice(["mixed", "pause", "share", "onoff", "mixed"]) for _ in stations]
    script = []
    for t in range(horizon + 1):
        row = []
        for k, st in enumerate(stations):
            pat = patterns[k]
            if pat == "pause":
                zero = (t % 4) in (1, 2)
            elif pat == "share":
                zero = (t % max(nst, 2)) != (k % max(nst, 2))          # round-robin: one station at a time
            elif pat == "onoff":
                zero = (t % 2) == 1
            else:
                zero = rng.random() < 0.2
            row.append(allowed_pilot(rng, st["evse"], want_zero=zero))
        script.append(row)
    noise = [rng.gauss(0, 1) * rng.choice([0.1, 1, 5]) for _ in range(7)] + [0.0, 100.0, -100.0]
    rng.shuffle(noise)
    return dict(period=period, stations=stations, sessions=sessions, script=script, noise=noise, rerun=rng.random() < 0.4)


def ambiguous(inp, impl):
    """stepwise + noise: `soc < transition_soc` within 1e-9 at some call (state threaded through floats)"""
    # the battery states are not recorded per period; be conservative: flag only when a stepwise noisy battery exists
    # and some period's recorded rate pattern cannot tell; in practice decided by replaying the calls on a copy
    for k, s in enumerate(inp["sessions"]):
        spec = s["battery"]
        if spec["kind"] == "l2" and spec["mode"] == "stepwise" and spec["nl"] > 0:
            b, _ = batt.construct(spec)
            V = inp["stations"][s["station"]]["voltage"]
            for t in range(s["arrival"], min(s["departure"], impl["periods"])):
                first = (t == s["arrival"])
                op = ("charge", impl["pilots"][s["station"]][t], V, inp["period"], impl["draws"].get("%d,%d" % (k, t), 0.0))
                if batt.stepwise_ambiguous(spec, b._current_charge, op, first):
                    return True
                batt.apply_op(b, op)
    return False
