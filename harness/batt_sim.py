"""C03, simulation level: run the REAL Simulator (ChargingNetwork, EVSE, EV, batteries of all classes, a
scripted scheduler emitting non-negative pilots) and hand each station's recorded pilot / rate rows to the
station model (Model/BatteryStation.v), together with the noise draws each battery consumed."""
import warnings
from datetime import datetime

from harness import batt
from harness.core import q, coq_list

HEADER = ("From Coq Require Import ZArith QArith List String.\n"
          "From ACN Require Import Base.Num Model.Battery Model.BatteryStation.\nImport ListNotations.\n"
          "Open Scope string_scope.\nOpen Scope Q_scope.\n")
CHECK_FN = "check_station"


def run_sim(inp):
    """inp: dict(period, stations=[dict(voltage, max_rate)], sessions=[dict(station, arrival, departure, requested,
    battery=spec)], script=[[pilot per station] per period], noise=[floats])"""
    import numpy as np
    from acnportal.acnsim import Simulator
    from acnportal.acnsim.network import ChargingNetwork
    from acnportal.acnsim.events import EventQueue, PluginEvent
    from acnportal.acnsim.models import EV, EVSE
    from acnportal.algorithms import BaseAlgorithm

    sids = ["S%d" % k for k in range(len(inp["stations"]))]
    net = ChargingNetwork()
    for sid, st in zip(sids, inp["stations"]):
        net.register_evse(EVSE(sid, max_rate=st["max_rate"]), st["voltage"], 0)

    noise_vals = list(inp["noise"])
    drawn = []

    def fake_normal(*a, **k):
        v = noise_vals[len(drawn) % len(noise_vals)]
        drawn.append(v)
        return v

    calls = {}            # (session, period) -> noise draw used (0.0 when none)
    evs, events = [], []
    holder = {}
    for k, s in enumerate(inp["sessions"]):
        b, err = batt.construct(s["battery"])
        if b is None:
            raise RuntimeError("bad battery spec in simulation case: %s" % err)

        def charge(pilot, voltage, period, _orig=b.charge, _k=k):
            before = len(drawn)
            try:
                return _orig(pilot, voltage, period)
            finally:
                calls[(_k, holder["sim"].iteration)] = drawn[before] if len(drawn) > before else 0.0
        b.charge = charge
        ev = EV(s["arrival"], s["departure"], s["requested"], sids[s["station"]], "sess%d" % k, b)
        evs.append(ev)
        events.append(PluginEvent(s["arrival"], ev))

    script = inp["script"]

    class Scripted(BaseAlgorithm):
        def __init__(self):
            super().__init__()
            self.max_recompute = 1

        def schedule(self, active_sessions):
            t = self.interface.current_time
            if t >= len(script):
                return {}
            return {sid: [script[t][k]] for k, sid in enumerate(sids)}

    orig = np.random.normal
    np.random.normal = fake_normal
    err = None
    try:
        with warnings.catch_warnings():
            warnings.simplefilter("ignore")
            sim = Simulator(net, Scripted(), EventQueue(events), datetime(2021, 3, 4), period=inp["period"], verbose=False)
            holder["sim"] = sim
            try:
                sim.run()
            except Exception as e:  # noqa
                err = type(e).__name__
    finally:
        np.random.normal = orig
    it = sim.iteration
    pil = np.array(sim.pilot_signals)
    rat = np.array(sim.charging_rates)
    n = min(it, pil.shape[1], rat.shape[1])
    return dict(error=err, periods=int(n),
                pilots=[[batt.fnum(x) for x in pil[s, :n]] for s in range(len(sids))],
                rates=[[batt.fnum(x) for x in rat[s, :n]] for s in range(len(sids))],
                draws={"%d,%d" % k: v for k, v in calls.items()},
                final=[[batt.fnum(ev.energy_delivered), batt.fnum(ev._battery._current_charge)] for ev in evs])


def occupant(inp, station, t):
    for k, s in enumerate(inp["sessions"]):
        if s["station"] == station and s["arrival"] <= t < s["departure"]:
            return k
    return None


def station_cases(inp, impl):
    """one Coq case per station"""
    out = []
    for s, st in enumerate(inp["stations"]):
        sess = [k for k, x in enumerate(inp["sessions"]) if x["station"] == s]
        local = {k: i for i, k in enumerate(sess)}
        slots = []
        for t in range(impl["periods"]):
            p = impl["pilots"][s][t]
            k = occupant(inp, s, t)
            if k is None:
                slots.append("(Empty %s %s %s)" % (q(p), q(st["voltage"]), q(inp["period"])))
            else:
                n = impl["draws"].get("%d,%d" % (k, t), 0.0)
                slots.append("(Occupied %d%%nat %s %s %s %s %s)" % (local[k], q(p), q(st["voltage"]), q(inp["period"]), q(n), q(n)))
        coq = ("{| st_batts := %s;\n   st_slots := %s;\n   st_pilots := %s; st_rates := %s;\n   st_final := %s |}" % (
            coq_list([batt.batt_coq(inp["sessions"][k]["battery"]) for k in sess]), coq_list(slots),
            coq_list([q(x) for x in impl["pilots"][s]]), coq_list([q(x) for x in impl["rates"][s]]),
            coq_list(["(%s, %s)" % (q(impl["final"][k][0]), q(impl["final"][k][1])) for k in sess])))
        out.append(coq)
    return out


def rand_sim(rng, c03):
    period = rng.choice([1, 5, 5, 15])
    nst = rng.choice([1, 1, 2, 3])
    stations = [dict(voltage=rng.choice([120, 208, 208, 240, 277]), max_rate=rng.choice([16, 32, 32, 80])) for _ in range(nst)]
    sessions = []
    horizon = 0
    for s in range(nst):
        t = rng.randint(0, 2)
        for _ in range(rng.choice([1, 1, 2, 3])):
            dur = rng.randint(1, 7)
            spec = c03.rand_spec(rng)
            # start anywhere, often close to full or to the transition so that the regimes are crossed inside the stay
            frac = rng.choice([0, 0.3, 0.7, 0.78, 0.9, 0.97, 0.999, 1.0]) if rng.random() < 0.7 else rng.random()
            spec["init"] = round(spec["cap"] * frac, 4)
            sessions.append(dict(station=s, arrival=t, departure=t + dur, requested=round(rng.uniform(1, 30), 2), battery=spec))
            t += dur + rng.randint(1, 3)
        horizon = max(horizon, t)
    script = []
    for t in range(horizon + 1):
        row = []
        for st in stations:
            u = rng.random()
            row.append(0 if u < 0.15 else st["max_rate"] if u < 0.4 else rng.choice([6, 8, 13.5, 16]) if u < 0.6 else round(rng.uniform(0, st["max_rate"]), 3))
        script.append(row)
    noise = [rng.gauss(0, 1) * rng.choice([0.1, 1, 5]) for _ in range(7)] + [0.0, 100.0, -100.0]
    rng.shuffle(noise)
    return dict(period=period, stations=stations, sessions=sessions, script=script, noise=noise)


def ambiguous(inp, impl):
    """stepwise + noise: `soc < transition_soc` within 1e-9 at some call (state threaded through floats)"""
    # the battery states are not recorded per period; be conservative: flag only when a stepwise noisy battery exists
    # and some period's recorded rate pattern cannot tell; in practice decided by replaying the calls on a copy
    for k, s in enumerate(inp["sessions"]):
        spec = s["battery"]
        if spec["kind"] == "l2" and spec["mode"] == "stepwise" and spec["nl"] > 0:
            b, _ = batt.construct(spec)
            V = inp["stations"][s["station"]]["voltage"]
            for t in range(s["arrival"], min(s["departure"], impl["periods"])):
                first = (t == s["arrival"])
                op = ("charge", impl["pilots"][s["station"]][t], V, inp["period"], impl["draws"].get("%d,%d" % (k, t), 0.0))
                if batt.stepwise_ambiguous(spec, b._current_charge, op, first):
                    return True
                batt.apply_op(b, op)
    return False
