"""C17 — tariff lookup is total, unambiguous and aligned with simulation time; cost formulas.

Correspondence: the real TimeOfUseTariff / Interface / analysis functions of $ACN_REPO against
Model/Tariff.v (vm_compute) on generated instants, vectors, simulator views and randomly built / edited
tariff files (temp copies; nothing under $ACN_REPO is written)."""
import atexit
import datetime as D
import fractions
import json
import os
import re
import shutil
import tempfile
import time

from harness import core
from harness.core import q, z, coq_list, coq_opt, coq_str

PID = "C17"
GEN_GROUPS = ["Tariffs", "TariffK"]
TARGETS = ["coq/Props/C17.vo", "coq/Model/Tariff.vo"]
CASES = {"quick": 1200, "thorough": 5000}
CORR_HEADER = ("From Coq Require Import ZArith QArith List String.\n"
               "From ACN Require Import Base.Num Base.TariffRaw Gen.Tariffs Model.Tariff.\nImport ListNotations.\n"
               "Open Scope string_scope.\nOpen Scope Z_scope.\n")
CHECK_FN = "check_c17"
SHARD = 150
RULE = ("per bundled file: sweeps over every day of a leap and a non-leap year at 4 times of day (get_tariffs), "
        "instants at every breakpoint +-1 s on season boundary days, 29 Feb, new year and weekend edges in years of all "
        "14 calendar types, random instants in years 2..9998 (naive and pytz-aware starts), Interface.get_prices / "
        "get_demand_charge through a real Simulator, analysis.energy_cost / demand_charge on random rate matrices; "
        "random and edited tariff files in a temp dir (gaps, overlaps, wrap-around, ties, unsorted / non-integer times, "
        "constructor errors); datetime field decomposition of random instants. non-trivial = distinct (operation, tariff, "
        "instant/shape)")
ASSUMPTIONS = [
    "instants are naive wall-clock microsecond counts; a tz-aware datetime enters the code only through its wall-clock fields",
    "Decimal(minute)/60 + Decimal(second)/3600 (28 significant digits) is modelled by the exact rational; for breakpoints "
    "that are ints/floats (dyadic rationals) the comparison is the same (gap >= 6e-20 unless equal, and equal cases are exact in Decimal)",
    "simulation periods are whole minutes (timedelta(minutes=p) = 60e6*p microseconds); the generators use divisors of 60 and, as often, periods that do not divide 60 or exceed it (7, 9, 11, 25, 45, 90, 120)",
    "prices and demand charges are compared exactly; energy_cost / demand_charge (float arithmetic) to 1e-9 relative",
]
TRUSTED_EXTRA = ["tools/dump_tariffs.py (JSON -> Gen/Tariffs.v; expression translator subclass for tuples / mask index / Decimal / timedelta)",
                 "CPython datetime / timedelta field arithmetic as modelled by Base/Calendar.v (tied by the CFields stream)"]
F = fractions.Fraction
US = 10 ** 6
SCHED_REL = "acnportal/signals/tariffs/tariff_schedules"

_tmp = None


def tmpdir():
    global _tmp
    if _tmp is None:
        _tmp = tempfile.mkdtemp(prefix="c17_", dir="/tmp")
        atexit.register(lambda: shutil.rmtree(_tmp, ignore_errors=True))
    return _tmp


# ------------------------------------------------------------------------------------------------
# instants
# ------------------------------------------------------------------------------------------------
def us_of(dt):
    return ((dt.toordinal() * 86400 + dt.hour * 3600 + dt.minute * 60 + dt.second) * US) + dt.microsecond


def dt_of(t):
    return D.datetime(1, 1, 1) + D.timedelta(microseconds=t - 86400 * US)


def calendar_years():
    """one year per calendar type (leap x weekday of Jan 1), 14 in all"""
    out = {}
    for y in range(1996, 2060):
        leap = (y % 4 == 0 and y % 100 != 0) or y % 400 == 0
        out.setdefault((leap, D.date(y, 1, 1).weekday()), y)
    assert len(out) == 14
    return sorted(out.values())


YEARS14 = calendar_years()


# ------------------------------------------------------------------------------------------------
# tariff sources
# ------------------------------------------------------------------------------------------------
def bundled_names():
    d = os.path.join(core.REPO, SCHED_REL)
    return sorted(f[:-5] for f in os.listdir(d) if f.endswith(".json"))


def bundled_docs(name):
    with open(os.path.join(core.REPO, SCHED_REL, name + ".json")) as f:
        return json.load(f)["schedule"]


_impl_cache = {}
_inline = []          # list of schedule-doc lists; index = id


def err_label(e):
    n, m = type(e).__name__, str(e)
    if isinstance(e, ValueError):
        for pre, lab in (("No valid tariff schedule", "none"), ("More than one tariff schedule", "many"),
                         ("Error with tariff schedule. Could not find", "price"),
                         ("Error with tariff schedule. Schedule must start", "start0"),
                         ("dow_mask must be", "dow_mask"), ("No pricing method", "nopricing"),
                         ("zero-size array", "empty")):
            if m.startswith(pre):
                return "ValueError:" + lab
        return "ValueError:?" + m[:40]
    return n


def load_impl(src):
    """src = ('b', name) | ('i', index into _inline).  Returns (tariff | None, ctor_error_label | None)."""
    key = tuple(src)
    if key not in _impl_cache:
        from acnportal.signals.tariffs.tou_tariff import TimeOfUseTariff
        try:
            if src[0] == "b":
                t = TimeOfUseTariff(src[1])
            else:
                name = "inline_%d" % src[1]
                with open(os.path.join(tmpdir(), name + ".json"), "w") as f:
                    # half of the generated files share their "name" with two bundled files (a cache keyed by the
                    # tariff's name instead of the object would mix them up)
                    json.dump(dict(name=name if src[1] % 2 else "SCE TOU-EV-8", effective="2020-01-01",
                                   schedule=_inline[src[1]]), f)
                t = TimeOfUseTariff(name, tariff_dir=tmpdir())
            _impl_cache[key] = (t, None)
        except Exception as e:  # noqa
            _impl_cache[key] = (None, err_label(e))
    return _impl_cache[key]


def src_docs(src):
    return bundled_docs(src[1]) if src[0] == "b" else _inline[src[1]]


def src_coq(src):
    if src is None:
        return "None"
    return '(Bundled "%s")' % src[1] if src[0] == "b" else "(Inline rawi_%d)" % src[1]


def raw_coq(docs):
    import dump_tariffs
    return dump_tariffs.raw_list_coq(docs, "inline")


def finite(v):
    """a recorded result must be a finite number (or a vector of them); anything else is reported as an
    error label so that it can never be mistaken for a value"""
    import math
    try:
        if isinstance(v, (list, tuple)) or getattr(v, "ndim", 0) > 0:
            ok = all(math.isfinite(float(x)) for x in v)
        else:
            ok = math.isfinite(float(v))
    except (TypeError, ValueError):
        ok = False
    return ("ok", v) if ok else ("err", "not-a-finite-number:%.40r" % (v,))


def run(src, f):
    """call f(tariff) on the real implementation; ('ok', value) | ('err', label)"""
    t, cerr = load_impl(src)
    if t is None:
        return ("err", "ctor:" + cerr)
    try:
        return finite(f(t))
    except Exception as e:  # noqa
        return ("err", err_label(e))


def res_coq(r, f):
    return "(Ok %s)" % f(r[1]) if r[0] == "ok" else '(Err "%s")' % r[1].replace('"', "'")


def qlist(xs):
    return coq_list([q(x) for x in xs])


def jres(r):
    if r[0] == "err":
        return dict(error=r[1])
    v = r[1]
    if isinstance(v, (list, tuple)) or getattr(v, "ndim", 0) > 0:
        v = [float(x) for x in v]
        return dict(ok=v if len(v) <= 12 else v[:6] + ["... %d values ..." % len(v)] + v[-3:], n=len(v))
    return dict(ok=v if not hasattr(v, "item") else v.item())


# ------------------------------------------------------------------------------------------------
# the property stated directly (reference used by the monitor only)
# ------------------------------------------------------------------------------------------------
def md_tuple(s):
    return tuple(int(x) for x in s.split("-"))


def spec_at(docs, dt):
    """exactly one (season, weekday class) applies -> ('ok', price, demand); else ('err', count)"""
    md, wd = (dt.month, dt.day), dt.weekday()
    hits = []
    for d in docs:
        st, en = md_tuple(d["effective_start"]), md_tuple(d["effective_end"])
        in_season = (st <= md <= en) if not en < st else (md >= st or md <= en)
        cls = {"WEEKDAYS": wd < 5, "WEEKENDS": wd >= 5, "ALL": True}.get(d["dow_mask"])
        if cls is None:
            return None
        if in_season and cls:
            hits.append(d)
    if len(hits) != 1:
        return ("err", len(hits))
    d = hits[0]
    tod = F(dt.hour) + F(dt.minute, 60) + F(dt.second, 3600)
    n = len(d["times"])
    if len(d["tariffs"]) < n or n == 0:
        return None
    pairs = [(F(d["times"][i]), float(d["tariffs"][i])) for i in range(n)]
    if min(p[0] for p in pairs) != 0:
        return None
    cands = [p for p in pairs if p[0] <= tod]
    if not cands:
        return None
    latest = max(c[0] for c in cands)
    rates = sorted({c[1] for c in cands if c[0] == latest})
    return ("ok", rates, d["demand_charge"])


def docs_wellformed(docs):
    for d in docs:
        if d["dow_mask"] not in ("WEEKDAYS", "WEEKENDS", "ALL"):
            return False
        n = len(d["times"])
        if n == 0 or len(d["tariffs"]) < n or min(F(x) for x in d["times"]) != 0:
            return False
    return True


# ------------------------------------------------------------------------------------------------
# case constructors (each runs the implementation)
# ------------------------------------------------------------------------------------------------
def mkdt(t, aware):
    dt = dt_of(t)
    if aware:
        import pytz
        tz = pytz.timezone(aware)
        try:
            return tz.localize(dt)
        except Exception:  # noqa  (cannot happen with is_dst default, kept defensive)
            return dt
    return dt


def case_fields(t):
    dt = dt_of(t)
    impl = dict(y=dt.year, m=dt.month, d=dt.day, wd=dt.weekday(), h=dt.hour, mi=dt.minute, s=dt.second)
    coq = "(CFields %s %s %s %s %s %s %s %s)" % (z(t), z(dt.year), z(dt.month), z(dt.day), z(dt.weekday()),
                                              z(dt.hour), z(dt.minute), z(dt.second))
    return dict(input=dict(op="fields", t=t), impl=impl, coq=coq, kind="fields", sig=["fields", t], nontrivial=True)


def case_ctor(src):
    t, cerr = load_impl(src)
    if t is None:
        r = ("err", cerr)
        coq_e = '(Err "%s")' % cerr
    else:
        r = ("ok", [dict(id=s.id, start=list(s.start), end=list(s.end), mask=list(s.dow_mask),
                         tariffs=[[str(a), b] for a, b in s.tariffs], demand=s.demand_charge) for s in t._schedule])
        items = []
        for s in t._schedule:
            items.append("{| s_id := %s; s_start := %s; s_end := %s; s_mask := %s; s_tariffs := %s; s_demand := %s |}" % (
                coq_str(s.id), coq_list([z(x) for x in s.start]), coq_list([z(x) for x in s.end]),
                coq_list(["true" if b else "false" for b in s.dow_mask]),
                coq_list(["(%s, %s)" % (q(F(a)), q(b)) for a, b in s.tariffs]), q(s.demand_charge)))
        coq_e = "(Ok %s)" % coq_list(items)
    return dict(input=dict(op="ctor", src=list(src)), impl=jres(r) if r[0] == "err" else dict(ok=r[1]),
                coq="(CCtor %s %s)" % (src_coq(src), coq_e), kind="ctor/" + src[0] + ("/err" if r[0] == "err" else ""),
                sig=["ctor", list(src)], nontrivial=True)


def case_tariff(src, t, aware=None):
    dt = mkdt(t, aware)
    r = run(src, lambda T: T.get_tariff(dt))
    return dict(input=dict(op="get_tariff", src=list(src), t=t, dt=str(dt)), impl=jres(r),
                coq="(CTariff %s %s %s)" % (src_coq(src), z(t), res_coq(r, q)),
                kind="get_tariff/" + src[0] + ("/err" if r[0] == "err" else ""), sig=["t", list(src), t], nontrivial=True,
                raw=r)


def case_demand(src, t, aware=None):
    dt = mkdt(t, aware)
    r = run(src, lambda T: T.get_demand_charge(dt))
    return dict(input=dict(op="get_demand_charge", src=list(src), t=t, dt=str(dt)), impl=jres(r),
                coq="(CDemand %s %s %s)" % (src_coq(src), z(t), res_coq(r, q)),
                kind="get_demand_charge/" + src[0] + ("/err" if r[0] == "err" else ""), sig=["d", list(src), t],
                nontrivial=True, raw=r)


def whole(period):
    """is the period an integer object (int / numpy integer)?  Floats — even integral ones — go through the
    rational model"""
    return isinstance(period, int) or type(period).__name__.startswith(("int", "uint"))


def us_step(period):
    """microseconds of timedelta(minutes=period) (exact for the periods the generators use)"""
    return int(F(period) * 60 * US)


def jnum(x):
    return x.item() if hasattr(x, "item") else x


FRAC_PERIODS = [2.5, 0.5, 7.5, 12.25, 0.25, 1.5, 22.5, 5.0, 60.0, 37.5, 0.125]


def case_tariffs(src, start, n, period, aware=None):
    dt = mkdt(start, aware)
    r = run(src, lambda T: T.get_tariffs(dt, n, period))
    if not whole(period):
        return dict(input=dict(op="get_tariffs", src=list(src), start=start, dt=str(dt), length=jnum(n), period=jnum(period)),
                    impl=jres(r), coq="(CTariffsQ %s %s %s %s %s)" % (src_coq(src), z(start), z(n), q(period), res_coq(r, qlist)),
                    kind="get_tariffs/frac" + ("/err" if r[0] == "err" else ""), sig=["tsq", list(src), start, jnum(n), jnum(period)],
                    nontrivial=n > 0, raw=r)
    if r[0] == "ok" and len(r[1]) > 40:
        table = sorted(set(r[1]))
        pos = {v: i for i, v in enumerate(table)}
        coq = "(CTariffsT %s %s %s %s %s %s)" % (src_coq(src), z(start), z(n), z(period), qlist(table),
                                              coq_list(["%d%%nat" % pos[v] for v in r[1]]))
    else:
        coq = "(CTariffs %s %s %s %s %s)" % (src_coq(src), z(start), z(n), z(period), res_coq(r, qlist))
    return dict(input=dict(op="get_tariffs", src=list(src), start=start, dt=str(dt), length=n, period=period),
                impl=jres(r), coq=coq,
                kind="get_tariffs/" + src[0] + ("/err" if r[0] == "err" else ""), sig=["ts", list(src), start, n, period],
                nontrivial=n > 0, raw=r)


ODD_IDS = [["S-9", "S-10", "S-11", "S-2"], ["b", "A", "a", "B"], ["10", "9", "100", "1"], ["0", "", "x", "-"],
           ["S3", "S2", "S1", "S0"]]


def make_sim(src, start, period, iteration, voltages, aware=None, rates=None, ids=None, scheduler=None, int_rates=False):
    import numpy as np
    from acnportal.acnsim import Simulator, ChargingNetwork, EventQueue
    from acnportal.acnsim.models import EVSE
    net = ChargingNetwork()
    for i, v in enumerate(voltages):
        net.register_evse(EVSE(ids[i] if ids else "S%d" % i), v, 0)
    signals = {}
    if src is not None:
        T, cerr = load_impl(src)
        if T is None:
            return None, "ctor:" + cerr
        signals = {"tariff": T}
    sim = Simulator(net, scheduler, EventQueue(), mkdt(start, aware), period=period, signals=signals, verbose=False)
    sim._iteration = iteration
    if rates is not None:
        sim.charging_rates = np.array(rates, dtype=int if int_rates else float).reshape(len(voltages), -1)
    return sim, None


def call(f):
    try:
        return finite(f())
    except Exception as e:  # noqa
        return ("err", err_label(e))


def case_prices(src, start, period, iteration, n, st, aware=None, iface=None, kind="iface.get_prices", result=None):
    """Interface.get_prices on a fresh simulator, or on the given live interface (its simulator must have the stated
    start / period / iteration); `result` = an already recorded outcome"""
    from acnportal.acnsim.interface import Interface
    if result is not None:
        r = result
    elif iface is not None:
        r = call(lambda: iface.get_prices(n, st))
    else:
        sim, cerr = make_sim(src, start, period, iteration, [208.0], aware)
        r = ("err", cerr) if sim is None else call(lambda: Interface(sim).get_prices(n, st))
    srcc = "None" if src is None else "(Some %s)" % src_coq(src)
    stv = None if st is None else int(st)
    if whole(period):
        coq = "(CPrices %s %s %s %s %s %s %s)" % (srcc, z(start), z(period), z(iteration), z(n), coq_opt(stv, z), res_coq(r, qlist))
    else:
        coq = "(CPricesQ %s %s %s %s %s %s %s)" % (srcc, z(start), q(period), z(iteration), z(n), coq_opt(stv, z), res_coq(r, qlist))
    returned = r[1] if r[0] == "ok" else None
    if r[0] == "ok":
        r = ("ok", [float(v) for v in r[1]])        # a private copy: the caller may scribble over the returned array
    return dict(input=dict(op="Interface.get_prices", src=None if src is None else list(src), start=start, period=jnum(period),
                           iteration=iteration, length=int(n), st=stv, aware=aware), impl=jres(r), coq=coq,
                kind=kind + ("" if whole(period) else "/frac") + ("/err" if r[0] == "err" else ""),
                sig=["p", None if src is None else list(src), start, jnum(period), iteration, int(n), stv], nontrivial=True, raw=r,
                returned=returned)


def case_iface_demand(src, start, period, iteration, st, aware=None, iface=None, kind="iface.get_demand_charge", result=None):
    from acnportal.acnsim.interface import Interface
    if result is not None:
        r = result
    elif iface is not None:
        r = call(lambda: iface.get_demand_charge(st))
    else:
        sim, cerr = make_sim(src, start, period, iteration, [208.0], aware)
        r = ("err", cerr) if sim is None else call(lambda: Interface(sim).get_demand_charge(st))
    srcc = "None" if src is None else "(Some %s)" % src_coq(src)
    stv = None if st is None else int(st)
    if whole(period):
        coq = "(CIfaceDemand %s %s %s %s %s %s)" % (srcc, z(start), z(period), z(iteration), coq_opt(stv, z), res_coq(r, q))
    else:
        coq = "(CIfaceDemandQ %s %s %s %s %s %s)" % (srcc, z(start), q(period), z(iteration), coq_opt(stv, z), res_coq(r, q))
    return dict(input=dict(op="Interface.get_demand_charge", src=None if src is None else list(src), start=start,
                           period=jnum(period), iteration=iteration, st=stv, aware=aware), impl=jres(r), coq=coq,
                kind=kind + ("" if whole(period) else "/frac") + ("/err" if r[0] == "err" else ""),
                sig=["pd", None if src is None else list(src), start, jnum(period), iteration, stv], nontrivial=True, raw=r)


def cost_coq(which, src, start, period, voltages, rates, r):
    ncol = len(rates[0]) if rates else 0
    cols = [[rates[s_][k] for s_ in range(len(voltages))] for k in range(ncol)]
    colq = coq_list([qlist(c) for c in cols])
    if which == "demand":
        return "(CDemandCharge %s %s %s %s %s)" % (src_coq(src), z(start), qlist(voltages), colq, res_coq(r, q))
    if whole(period):
        return "(CEnergy %s %s %s %s %s %s)" % (src_coq(src), z(start), z(period), qlist(voltages), colq, res_coq(r, q))
    return "(CEnergyQ %s %s %s %s %s %s)" % (src_coq(src), z(start), q(period), qlist(voltages), colq, res_coq(r, q))


def cost_on(sim, which, T=None):
    """call the analysis function; the simulator's rate matrix is caller-owned and must come back untouched"""
    import numpy as np
    from acnportal.acnsim import analysis
    fn = analysis.energy_cost if which == "energy" else analysis.demand_charge
    before = np.array(sim.charging_rates, copy=True)
    r = call((lambda: fn(sim, T)) if T is not None else (lambda: fn(sim)))
    after = sim.charging_rates
    if after.shape != before.shape or after.dtype != before.dtype or not np.array_equal(after, before):
        r = ("err", "caller-owned charging_rates changed by analysis." + which)
    return r


def case_cost_pick(which, signal, explicit, start, period, voltages, rates, aware=None):
    """analysis cost function on a simulator whose signals carry `signal` (or no tariff) while `explicit` (or nothing) is
    passed as the tariff argument; the tariff that must apply is the explicit one, else the signal's"""
    sim, cerr = make_sim(signal, start, period, len(rates[0]) if rates else 0, voltages, aware, rates)
    T = None
    if sim is not None and explicit is not None:
        T, cerr2 = load_impl(explicit)
        if T is None:
            sim, cerr = None, "ctor:" + cerr2
    r = ("err", cerr) if sim is None else cost_on(sim, which, T)
    ncol = len(rates[0]) if rates else 0
    cols = [[rates[s_][k] for s_ in range(len(voltages))] for k in range(ncol)]
    colq = coq_list([qlist(c) for c in cols])
    sg = "None" if signal is None else "(Some %s)" % src_coq(signal)
    ex = "None" if explicit is None else "(Some %s)" % src_coq(explicit)
    if which == "energy":
        coq = "(CEnergyP %s %s %s %s %s %s %s)" % (sg, ex, z(start), q(period), qlist(voltages), colq, res_coq(r, q))
    else:
        coq = "(CDemandChargeP %s %s %s %s %s %s)" % (sg, ex, z(start), qlist(voltages), colq, res_coq(r, q))
    applies = explicit if explicit is not None else signal
    return dict(input=dict(op="analysis." + ("energy_cost" if which == "energy" else "demand_charge"),
                           src=None if applies is None else list(applies), signal=None if signal is None else list(signal),
                           explicit_tariff=None if explicit is None else list(explicit), start=start, period=jnum(period),
                           voltages=voltages, rates=rates, aware=aware, pick=True),
                impl=jres(r), coq=coq, kind="precedence/analysis." + which + ("/err" if r[0] == "err" else ""),
                sig=["pick", which, signal and list(signal), explicit and list(explicit), start, jnum(period), rates],
                nontrivial=ncol > 0, raw=r)


def precedence_cases(rng, names, k):
    """signal tariff x explicit tariff: all ordered pairs of bundled files (cycled through), explicit on a simulator
    without tariff signal, no argument, neither"""
    combos = [(a, b) for a in names for b in names] + [(None, b) for b in names] + [(a, None) for a in names] + [(None, None)]
    rng.shuffle(combos)
    out = []
    for a, b in combos[:k]:
        signal = None if a is None else ("b", a)
        explicit = None if b is None else ("b", b)
        docs = bundled_docs(b if b is not None else (a if a is not None else names[0]))
        period = rng.choice(SIM_PERIODS + FRAC_PERIODS[:4])
        start = boundary_instant(rng, docs) if rng.random() < 0.6 else rand_instant(rng)
        ns = rng.randint(1, 3)
        ncol = rng.choice([1, 3, 12, 30])
        voltages = [rng.choice([208.0, 240.0, 277.0]) for _ in range(ns)]
        rates = [[rng.choice([0.0, 6.0, 16.0, 32.0, round(rng.uniform(0, 32), 3)]) for _ in range(ncol)] for _ in range(ns)]
        out.append(case_cost_pick(rng.choice(["energy", "energy", "demand"]), signal, explicit, start, period, voltages, rates,
                                  rng.choice(AWARE)))
    return out


def case_cost(which, src, start, period, voltages, rates, aware=None, explicit=False, ids=None, int_rates=False,
              reload=False, sim=None, kind=None):
    """rates: station-major matrix (list of rows).  which = 'energy' | 'demand'.
    reload: the simulator goes through to_json / from_json first (signals are not serialised: tariff given explicitly)."""
    cerr, T = None, None
    if sim is None:
        sched = None
        if reload:
            from acnportal.algorithms import UncontrolledCharging
            sched, explicit = UncontrolledCharging(), True
        sim, cerr = make_sim(None if explicit else src, start, period, len(rates[0]) if rates else 0, voltages, aware, rates,
                             ids=ids, scheduler=sched, int_rates=int_rates)
        if sim is not None and reload:
            # (Simulator.to_json writes the start with strftime("%d%m%Y"): years below 1000 are not zero-padded by glibc
            #  and from_json then fails — serialisation is C09's subject; reload cases use years >= 1000)
            from acnportal.acnsim import Simulator
            sim = Simulator.from_json(sim.to_json())
    if explicit:
        T, cerr2 = load_impl(src)
        if T is None:
            sim, cerr = None, "ctor:" + cerr2
    r = ("err", cerr) if sim is None else cost_on(sim, which, T if explicit else None)
    ncol = len(rates[0]) if rates else 0
    return dict(input=dict(op="analysis." + ("energy_cost" if which == "energy" else "demand_charge"), src=list(src),
                           start=start, period=jnum(period), voltages=voltages, rates=rates, aware=aware, explicit=explicit,
                           ids=ids, int_rates=int_rates, reload=reload),
                impl=jres(r), coq=cost_coq(which, src, start, period, voltages, rates, r),
                kind=(kind or "analysis." + which) + ("" if whole(period) else "/frac") + ("/reload" if reload else "")
                + ("/err" if r[0] == "err" else ""),
                sig=[which, list(src), start, jnum(period), voltages, rates, reload], nontrivial=ncol > 0, raw=r)


# ------------------------------------------------------------------------------------------------
# generators
# ------------------------------------------------------------------------------------------------
AWARE = [None, None, "America/Los_Angeles", "UTC", "Europe/Berlin"]
# simulation periods in whole minutes: divisors of 60, and (as often) periods that do not divide 60 or exceed it
SIM_PERIODS = [1, 5, 5, 15, 60, 12, 7, 9, 25, 45, 90, 7, 25, 45, 120, 11]


def at(y, m, d, sod=0, us=0):
    return (D.date(y, m, d).toordinal() * 86400 + sod) * US + us


def rand_instant(rng, lo=2, hi=9998):
    y = rng.choice([rng.randint(lo, hi), rng.randint(1990, 2040), rng.choice(YEARS14)])
    n = rng.randint(D.date(y, 1, 1).toordinal(), D.date(y, 12, 31).toordinal())
    return (n * 86400 + rng.randint(0, 86399)) * US + rng.choice([0, 0, rng.randint(0, 999999)])


def add_days(md, k):
    """(month, day) shifted by k days inside the leap year 2020 (wrapping)"""
    base = D.date(2020, md[0], md[1]).toordinal() - D.date(2020, 1, 1).toordinal()
    dd = D.date(2020, 1, 1) + D.timedelta(days=(base + k) % 366)
    return (dd.month, dd.day)


def interesting_days(docs):
    days = {(1, 1), (12, 31), (2, 28), (2, 29), (3, 1)}
    for d in docs:
        for key in ("effective_start", "effective_end"):
            try:
                md = md_tuple(d[key])
                D.date(2020, md[0], md[1])
            except Exception:  # noqa
                continue
            for k in (-1, 0, 1):
                days.add(add_days(md, k))
    return sorted(days)


def interesting_sods(docs):
    s = {0, 86399, 43200}
    for d in docs:
        for x in d["times"]:
            try:
                v = int(F(x) * 3600)
            except Exception:  # noqa
                continue
            for k in (-1, 0, 1):
                if 0 <= v + k < 86400:
                    s.add(v + k)
    return sorted(s)


def year_with(rng, md, wd=None):
    ys = list(YEARS14) + [rng.randint(2, 9998) for _ in range(6)]
    rng.shuffle(ys)
    for y in ys + list(range(1996, 2060)):
        try:
            dd = D.date(y, md[0], md[1])
        except ValueError:
            continue
        if wd is None or dd.weekday() == wd:
            return y
    return None


def boundary_instant(rng, docs):
    md = rng.choice(interesting_days(docs))
    y = year_with(rng, md, rng.choice([None, None, 0, 4, 5, 6]))
    sod = rng.choice(interesting_sods(docs)) if rng.random() < 0.8 else rng.randint(0, 86399)
    return at(y, md[0], md[1], sod, rng.choice([0, 0, 0, 999999, 1]))


def rand_tariff_docs(rng):
    """a random tariff file: a partition of the year into seasons x weekday classes, then (often) damaged"""
    k = rng.choice([1, 2, 2, 3, 4])
    starts = set()
    while len(starts) < k:
        m = rng.randint(1, 12)
        starts.add((m, rng.choice([1, 1, 15, rng.randint(1, 28), 29 if m == 2 else 30])))
    if rng.random() < 0.3:
        starts = set(list(starts)[:k - 1]) | {(1, 1)}
    starts = sorted(starts)
    pad = rng.random() < 0.5
    fmt = (lambda md: "%02d-%02d" % md) if pad else (lambda md: "%d-%d" % md)
    docs = []
    for i, st in enumerate(starts):
        en = add_days(starts[(i + 1) % len(starts)], -1)
        if len(starts) == 1:
            en = add_days(st, -1)
            if rng.random() < 0.5:
                st, en = (1, 1), (12, 31)
        classes = rng.choice([["ALL"], ["WEEKDAYS", "WEEKENDS"], ["WEEKDAYS", "WEEKENDS"], ["WEEKENDS", "WEEKDAYS"]])
        for c in classes:
            nb = rng.choice([1, 1, 2, 3, 5])
            grid = [0.25 * j for j in range(1, 96)] + [8 + 1 / 3, 17.1, 21.5, 8.5, 12, 16, 18, 21, 23]
            times = [0] + sorted(rng.sample(grid, nb - 1))
            times = [int(x) if float(x).is_integer() and rng.random() < 0.7 else x for x in times]
            tariffs = [round(rng.uniform(0.03, 0.5), 5) for _ in times]
            if rng.random() < 0.3:
                idx = list(range(len(times)))
                rng.shuffle(idx)
                times, tariffs = [times[j] for j in idx], [tariffs[j] for j in idx]
            docs.append(dict(id="S%d-%s" % (i, c), effective_start=fmt(st), effective_end=fmt(en), dow_mask=c,
                             times=times, tariffs=tariffs, demand_charge=rng.choice([0, 15.51, round(rng.uniform(0, 25), 2)])))
    # damage
    r = rng.random()
    if r < 0.55:
        pass
    elif r < 0.63:      # end moved by a day: gap or overlap at a boundary
        d = rng.choice(docs)
        d["effective_end"] = fmt(add_days(md_tuple(d["effective_end"]), rng.choice([-1, 1])))
    elif r < 0.70:      # start moved
        d = rng.choice(docs)
        d["effective_start"] = fmt(add_days(md_tuple(d["effective_start"]), rng.choice([-1, 1])))
    elif r < 0.76:      # mask changed
        rng.choice(docs)["dow_mask"] = rng.choice(["ALL", "WEEKDAYS", "WEEKENDS"])
    elif r < 0.80:
        docs.pop(rng.randrange(len(docs)))
    elif r < 0.84:
        docs.append(dict(rng.choice(docs), id="dup"))
    elif r < 0.88:      # tie: same breakpoint twice with different rates
        d = rng.choice(docs)
        j = rng.randrange(len(d["times"]))
        d["times"] = d["times"] + [d["times"][j]]
        d["tariffs"] = d["tariffs"] + [round(rng.uniform(0.03, 0.5), 5)]
    elif r < 0.91:      # does not start at 0 / negative time
        d = rng.choice(docs)
        d["times"] = [rng.choice([0.5, 1, -1, -0.25]) if x == 0 else x for x in d["times"]] if rng.random() < 0.6 \
            else d["times"] + [-2]
        if len(d["tariffs"]) < len(d["times"]):
            d["tariffs"] = d["tariffs"] + [0.1]
    elif r < 0.94:      # length mismatch
        d = rng.choice(docs)
        if rng.random() < 0.5 and len(d["tariffs"]) > 0:
            d["tariffs"] = d["tariffs"][:-1]
        else:
            d["tariffs"] = d["tariffs"] + [0.2]
    elif r < 0.96:
        d = rng.choice(docs)
        d["times"], d["tariffs"] = [], []
    elif r < 0.98:
        rng.choice(docs)["dow_mask"] = rng.choice(["WEEKDAY", "all", ""])
    else:               # breakpoint at or beyond 24 h
        d = rng.choice(docs)
        d["times"] = d["times"] + [rng.choice([24, 25.5])]
        d["tariffs"] = d["tariffs"] + [0.3]
    if rng.random() < 0.3:
        rng.shuffle(docs)
    return docs


def edited_bundled(rng):
    """a copy of a bundled file with one realistic edit (season boundary / mask / breakpoints)"""
    docs = json.loads(json.dumps(bundled_docs(rng.choice(bundled_names()))))
    r = rng.random()
    d = rng.choice(docs)
    if r < 0.3:
        d["dow_mask"] = rng.choice(["ALL", "WEEKDAYS", "WEEKENDS"])
    elif r < 0.6:
        key = rng.choice(["effective_start", "effective_end"])
        md = add_days(md_tuple(d[key]), rng.choice([-1, 1, 30]))
        d[key] = "%02d-%02d" % md
    elif r < 0.8:
        docs.remove(d)
    else:
        d["times"] = [x + 0.5 if x else x for x in d["times"]]
    return docs


def live_cases(rng, names):
    """a real Simulator.run() with a scheduler that asks its interface for prices at every invocation: the
    recorded (current_time, prices, demand charge) become interface cases, the charging rates the run
    produced become cost cases"""
    from acnportal.acnsim import Simulator, ChargingNetwork, EventQueue, analysis
    from acnportal.acnsim.events import PluginEvent
    from acnportal.acnsim.models import EVSE, EV, Battery
    from acnportal.algorithms import BaseAlgorithm

    class Stop(BaseException):
        pass

    class Recorder(BaseAlgorithm):
        def __init__(self, n, every, fail_at, exc):
            super().__init__()
            self.max_recompute = every
            self.n = n
            self.log = []
            self.fail_at, self.exc = fail_at, exc

        def schedule(self, active_sessions):
            it = self.interface.current_time
            self.log.append((it, call(lambda: self.interface.get_prices(self.n)),
                             call(lambda: self.interface.get_demand_charge())))
            if self.fail_at is not None and len(self.log) == self.fail_at:
                self.fail_at = None
                raise self.exc("scheduler interrupted")
            return {s.station_id: [rate] for s, rate in zip(active_sessions, [16, 8, 24, 32])}

    src = ("b", rng.choice(names))
    T, _ = load_impl(src)
    docs = bundled_docs(src[1])
    period = rng.choice(SIM_PERIODS) if rng.random() < 0.75 else rng.choice(FRAC_PERIODS)
    start = boundary_instant(rng, docs) // US * US - rng.choice([0, 1, 2, 3]) * us_step(period)
    aware = rng.choice(AWARE)
    voltages = [rng.choice([208.0, 240.0, 277.0]) for _ in range(rng.randint(1, 3))]
    net = ChargingNetwork()
    events = []
    for i, v in enumerate(voltages):
        net.register_evse(EVSE("S%d" % i), v, 0)
        a = rng.randint(0, 4)
        ev = EV(a, a + rng.randint(2, 10), rng.choice([2.0, 10.0]), "S%d" % i, "sess%d" % i, Battery(60, 0, 7))
        events.append(PluginEvent(a, ev))
    interrupted = rng.random() < 0.4
    alg = Recorder(rng.choice([1, 3, 12]), rng.choice([1, 1, 2]), rng.choice([1, 2, 3, 5]) if interrupted else None,
                   rng.choice([RuntimeError, Stop]))
    sim = Simulator(net, alg, EventQueue(events), mkdt(start, aware), period=period, signals={"tariff": T}, verbose=False)
    for _ in range(3):          # a scheduler that raises (Exception or BaseException) interrupts run(); run() again resumes
        try:
            sim.run()
            break
        except (RuntimeError, Stop):
            continue
    out = []
    tag = "live/interrupted" if interrupted else "live"
    for it, pr, dc in alg.log:
        out.append(case_prices(src, start, period, it, alg.n, None, aware, kind=tag + "/get_prices", result=pr))
        out.append(case_iface_demand(src, start, period, it, None, aware, kind=tag + "/get_demand_charge", result=dc))
    rates = [[float(x) for x in row] for row in sim.charging_rates]
    for which in ("energy", "demand"):
        out.append(case_cost(which, src, start, period, voltages, rates, aware, sim=sim, kind=tag + "/analysis." + which))
    return out


def pick_src(rng, names):
    """a bundled tariff; sometimes a SECOND live instance of the same file"""
    n = rng.choice(names)
    return ("b", n) if rng.random() < 0.7 else ("b", n, 2)


def iface_sequence_cases(rng, names):
    """Two live simulators (different tariffs, starts, periods), each with ONE Interface object that is queried
    several times, alternately, with the simulator's iteration moved between queries; returned arrays are held,
    half of them scribbled over by the caller, and the untouched ones re-read at the end."""
    import numpy as np
    from acnportal.acnsim.interface import Interface
    sims = []
    for _ in range(2):
        src = pick_src(rng, names)
        docs = bundled_docs(src[1])
        period = rng.choice(SIM_PERIODS + FRAC_PERIODS[:6])
        start = boundary_instant(rng, docs) if rng.random() < 0.6 else rand_instant(rng)
        aware = rng.choice(AWARE)
        sim, _ = make_sim(src, start, period, rng.randint(0, 400), [208.0, 240.0], aware)
        sims.append(dict(src=src, period=period, start=start, aware=aware, sim=sim, iface=Interface(sim)))
    out, held = [], []
    for _ in range(rng.choice([4, 6, 8])):
        x = rng.choice(sims)
        if rng.random() < 0.5:
            x["sim"]._iteration = rng.choice([0, x["sim"]._iteration + 1, rng.randint(0, 3000)])
        it = x["sim"]._iteration
        st = rng.choice([None, None, 0, it, rng.randint(0, 3000), -rng.randint(1, 50), np.int64(rng.randint(0, 99))])
        if rng.random() < 0.7:
            n = rng.choice([0, 1, 3, 12, -1, np.int64(4), np.int32(2)])
            c = case_prices(x["src"], x["start"], x["period"], it, n, st, x["aware"], iface=x["iface"], kind="sequence/get_prices")
            arr = c.pop("returned")
            if arr is not None and hasattr(arr, "__setitem__") and len(arr):
                if rng.random() < 0.5:
                    arr[...] = -1.0                     # the caller owns the returned array
                else:
                    held.append((c, arr, [float(v) for v in arr]))
            out.append(c)
        else:
            out.append(case_iface_demand(x["src"], x["start"], x["period"], it, st, x["aware"], iface=x["iface"],
                                         kind="sequence/get_demand_charge"))
    for c, arr, snapshot in held:
        if [float(v) for v in arr] != snapshot:
            c["raw"] = ("err", "a price vector returned earlier changed after later queries")
            c["impl"] = jres(c["raw"])
            c["coq"] = c["coq"][:c["coq"].rindex("(Ok ")] + '(Err "aliased-result"))'
    return out


def cost_sequence_cases(rng, names):
    """one simulator whose rate matrix is changed between cost queries (more periods, other values, integer dtype),
    stations registered with ids whose sorted order differs from registration order, per-station voltages"""
    import numpy as np
    src = pick_src(rng, names)
    docs = bundled_docs(src[1])
    period = rng.choice(SIM_PERIODS) if rng.random() < 0.7 else rng.choice(FRAC_PERIODS)
    start = boundary_instant(rng, docs) if rng.random() < 0.6 else rand_instant(rng)
    aware = rng.choice(AWARE)
    ns = rng.randint(2, 4)
    ids = rng.choice(ODD_IDS)[:ns]
    voltages = [rng.choice([208.0, 240.0, 120.0, 277.0, 208.5, 480.0]) for _ in range(ns)]
    ncol = rng.choice([1, 3, 8, 20])
    rates = [[rng.choice([0.0, 6.0, 16.0, 32.0, round(rng.uniform(0, 32), 3)]) for _ in range(ncol)] for _ in range(ns)]
    sim, _ = make_sim(src, start, period, ncol, voltages, aware, rates, ids=ids)
    out = []
    for step in range(rng.choice([2, 3, 4])):
        which = rng.choice(["energy", "energy", "demand"])
        out.append(case_cost(which, src, start, period, voltages, rates, aware, sim=sim, ids=ids, kind="sequence/analysis." + which))
        how = rng.choice(["grow", "values", "int", "peak-elsewhere"])
        if how == "grow":
            more = rng.choice([1, 5])
            rates = [row + [rng.choice([0.0, 8.0, 32.0]) for _ in range(more)] for row in rates]
        elif how == "values":
            rates = [[round(rng.uniform(0, 32), 2) for _ in row] for row in rates]
        elif how == "int":
            rates = [[float(rng.randint(0, 32)) for _ in row] for row in rates]
        else:   # the period with the largest current is not the one with the largest power
            rates = [[0.0 for _ in row] for row in rates]
            lo, hi = voltages.index(min(voltages)), voltages.index(max(voltages))
            if len(rates[0]) >= 2 and lo != hi:
                rates[lo][0], rates[hi][-1] = 30.0, 29.0
        sim.charging_rates = np.array(rates, dtype=int if how == "int" else float).reshape(ns, -1)
        sim._iteration = len(rates[0])
    return out


def second_interpreter_cases(rng, names, k=10):
    """the same lookups done by a second interpreter started with another PYTHONHASHSEED"""
    import os, subprocess, sys
    specs = []
    for _ in range(k):
        n = rng.choice(names)
        docs = bundled_docs(n)
        t = boundary_instant(rng, docs) if rng.random() < 0.6 else rand_instant(rng)
        specs.append(dict(name=n, t=t, n=rng.choice([1, 4, 24]), period=rng.choice([5, 60, 45, 360])))
    env = dict(os.environ, PYTHONHASHSEED=str(rng.randint(1, 4000000000)))
    p = subprocess.run([sys.executable, "-W", "ignore", "-c",
                        "import sys, json; from harness import c17; print(json.dumps(c17.lookups(json.loads(sys.stdin.read()))))"],
                       input=json.dumps(specs), env=env, cwd=core.ROOT, stdout=subprocess.PIPE, stderr=subprocess.PIPE, text=True,
                       timeout=120)
    try:
        results = json.loads(p.stdout.strip().split("\n")[-1])
    except Exception:  # noqa
        results = [dict(tariffs=["err", "second interpreter failed"], demand=["err", "second interpreter failed"])] * k
    out = []
    for sp, r in zip(specs, results):
        src = ("b", sp["name"])
        rt, rd = tuple(r["tariffs"]), tuple(r["demand"])
        out.append(dict(input=dict(op="get_tariffs", src=list(src), start=sp["t"], length=sp["n"], period=sp["period"],
                                   pythonhashseed=env["PYTHONHASHSEED"]), impl=jres(rt),
                        coq="(CTariffs %s %s %s %s %s)" % (src_coq(src), z(sp["t"]), z(sp["n"]), z(sp["period"]), res_coq(rt, qlist)),
                        kind="hashseed/get_tariffs", sig=["hs", sp["name"], sp["t"], sp["n"], sp["period"]], nontrivial=True, raw=rt))
        out.append(dict(input=dict(op="get_demand_charge", src=list(src), t=sp["t"], pythonhashseed=env["PYTHONHASHSEED"]),
                        impl=jres(rd), coq="(CDemand %s %s %s)" % (src_coq(src), z(sp["t"]), res_coq(rd, q)),
                        kind="hashseed/get_demand_charge", sig=["hsd", sp["name"], sp["t"]], nontrivial=True, raw=rd))
    return out


def lookups(specs):
    """(runs in the second interpreter)"""
    res = []
    for sp in specs:
        src = ("b", sp["name"])
        dt = dt_of(sp["t"])
        rt = run(src, lambda T: [float(x) for x in T.get_tariffs(dt, sp["n"], sp["period"])])
        rd = run(src, lambda T: T.get_demand_charge(dt))
        res.append(dict(tariffs=list(rt), demand=list(rd)))
    return res


def fixed_cases(names):
    """deterministic part: year sweeps and constructor state for every bundled file"""
    cases = []
    for n in names:
        src = ("b", n)
        cases.append(case_ctor(src))
        for y, off in ((2020, 2 * 3600 + 15 * 60), (2021, 3 * 3600 + 40 * 60)):
            days = 366 if y == 2020 else 365
            cases.append(case_tariffs(src, at(y, 1, 1, off), days * 4, 360))
    return cases


def bundled_random_case(rng, names):
    src = pick_src(rng, names)
    docs = bundled_docs(src[1])
    aware = rng.choice(AWARE)
    r = rng.random()
    t = boundary_instant(rng, docs) if rng.random() < 0.6 else rand_instant(rng)
    if r < 0.40:
        return case_tariff(src, t, aware)
    if r < 0.50:
        return case_demand(src, t, aware)
    if r < 0.64:
        period = rng.choice([1, 5, 5, 15, 30, 60, 60, 360, 1440, 7, 10080, 9, 25, 45, 90, 11] + FRAC_PERIODS[:7])
        n = rng.choice([0, 1, 2, 5, 12, 24, 48, 100, -1])
        return case_tariffs(src, t, n, period, aware)
    if r < 0.80:
        period = rng.choice(SIM_PERIODS) if rng.random() < 0.8 else rng.choice(FRAC_PERIODS)
        it = rng.randint(0, 3000)
        n = rng.choice([0, 1, 3, 12, 36])
        st = rng.choice([None, None, 0, it, rng.randint(0, 5000), it + rng.randint(1, 50), -rng.randint(1, 100)])
        s = src if rng.random() < 0.95 else None
        if rng.random() < 0.75:
            return case_prices(s, t, period, it, n, st, aware)
        return case_iface_demand(s, t, period, it, st, aware)
    period = rng.choice(SIM_PERIODS) if rng.random() < 0.8 else rng.choice(FRAC_PERIODS)
    ns = rng.randint(1, 4)
    ncol = rng.choice([0, 1, 2, 6, 24, 60]) if rng.random() < 0.9 else 0
    voltages = [rng.choice([208.0, 240.0, 120.0, 277.0, 208.5]) for _ in range(ns)]
    int_rates = rng.random() < 0.2
    rates = [[rng.choice([0.0, 0.0, 6.0, 16.0, 32.0, round(rng.uniform(0, 32), 3)]) for _ in range(ncol)] for _ in range(ns)]
    if int_rates:
        rates = [[float(int(v)) for v in row] for row in rates]
    return case_cost(rng.choice(["energy", "energy", "demand"]), src, t, period, voltages, rates, aware,
                     explicit=rng.random() < 0.3, ids=rng.choice([None, rng.choice(ODD_IDS)[:ns]]), int_rates=int_rates,
                     reload=ncol > 0 and dt_of(t).year >= 1000 and rng.random() < 0.12)


def finite_check_cases():
    """Evaluate the finite check behind C17_exactly_one on the regenerated data (vm_compute in coqc) and turn
    every failing (file, month, day, weekday) cell into a lookup on the real implementation.  Empty on a
    healthy tree; on a damaged one these cases come first, so the reported witness is the replayed cell."""
    out = []
    try:
        cells, ctor = coq_failing_cells()
    except Exception:  # noqa
        return out
    import random
    rr = random.Random(0)
    for name, e in ctor[:5]:
        c = case_ctor(("b", name))
        c["input"]["from_finite_check"] = [name, e]
        out.append(c)
    seen = {}
    for name, m, d, wd, cnt in cells:
        if seen.get(name, 0) >= 4:
            continue
        y = year_with(rr, (m, d), wd)
        if y is None:
            continue
        seen[name] = seen.get(name, 0) + 1
        c = case_tariff(("b", name), at(y, m, d, 9 * 3600))
        c["input"]["from_finite_check"] = dict(file=name, month=m, day=d, weekday=wd, valid_schedules_in_model=cnt)
        c["kind"] = "finite-check-cell"
        out.append(c)
    return out


def gen_cases(rng, n, tier):
    names = bundled_names()
    pre = finite_check_cases()
    return pre + gen_cases_main(rng, n, tier, names)


def gen_cases_main(rng, n, tier, names):
    cases = fixed_cases(names)
    for _ in range(120 if tier == "quick" else 600):
        cases.append(case_fields(rand_instant(rng, 1, 9999) if rng.random() < 0.8 else
                                 rng.choice([at(1, 1, 1), at(9999, 12, 31, 86399, 999999), at(2000, 2, 29, 86399),
                                             at(1900, 3, 1), at(2100, 2, 28, 86399, 999999), at(1600, 12, 31)])))
    fixed, cases = cases[:len(names) * 3], cases[len(names) * 3:]
    for _ in range(5 if tier == "quick" else 40):
        cases.extend(live_cases(rng, names))
    for _ in range(10 if tier == "quick" else 80):
        cases.extend(iface_sequence_cases(rng, names))
    for _ in range(10 if tier == "quick" else 80):
        cases.extend(cost_sequence_cases(rng, names))
    cases.extend(second_interpreter_cases(rng, names))
    cases.extend(precedence_cases(rng, names, 36 if tier == "quick" else 200))
    while len(cases) + len(fixed) < n:
        cases.append(bundled_random_case(rng, names))
    # spread the long sweeps over the shards (they dominate the evaluation time)
    for i, c in enumerate(fixed):
        cases.insert(min(len(cases), (i * SHARD) // 2), c)
    return cases


INLINE_HEADER_FILES = {"quick": 40, "thorough": 100}


def extra_streams(rng, tier):
    """random / edited tariff files written to a temp dir; header carries their raw data"""
    del _inline[:]
    for k in list(_impl_cache):
        if k[0] == "i":
            del _impl_cache[k]
    nfiles = INLINE_HEADER_FILES[tier]
    cases = []
    for i in range(nfiles):
        docs = edited_bundled(rng) if rng.random() < 0.25 else rand_tariff_docs(rng)
        _inline.append(docs)
        src = ("i", i)
        cases.append(case_ctor(src))
        per = 14 if tier == "quick" else 30
        for _ in range(per):
            t = boundary_instant(rng, docs) if rng.random() < 0.75 else rand_instant(rng)
            r = rng.random()
            if r < 0.6:
                cases.append(case_tariff(src, t, rng.choice(AWARE)))
            elif r < 0.75:
                cases.append(case_demand(src, t))
            elif r < 0.9:
                cases.append(case_tariffs(src, t, rng.choice([1, 3, 8, 30]), rng.choice([60, 360, 1440, 5, 7, 45, 90])))
            else:
                cases.append(case_prices(src, t, rng.choice([5, 60, 7, 25, 90, 2.5, 7.5]), rng.randint(0, 100), rng.choice([1, 4]), None))
    for c in cases:
        if c["input"].get("src") and c["input"]["src"][0] == "i":
            c["input"]["docs"] = _inline[c["input"]["src"][1]]
    header = CORR_HEADER + "\n".join("Definition rawi_%d : list raw_schedule := %s." % (i, raw_coq(d))
                                      for i, d in enumerate(_inline)) + "\n"
    return [("inl", header, CHECK_FN, cases)]


# ------------------------------------------------------------------------------------------------
# monitor: C17 stated directly on the implementation's recorded behaviour
# ------------------------------------------------------------------------------------------------
def close(a, b):
    return abs(a - b) <= 1e-9 * max(1.0, abs(a), abs(b))


def check_price_at(docs, t, got, what, bundled):
    sp = spec_at(docs, dt_of(t))
    if sp is None:
        return None
    if sp[0] == "err":
        if bundled:
            return "%s: %d schedules apply at %s (exactly one must)" % (what, sp[1], dt_of(t))
        if got[0] == "ok":
            return "%s: a price was returned at %s although %d schedules apply" % (what, dt_of(t), sp[1])
        return None
    if got[0] == "err":
        return "%s: %s at %s although exactly one schedule applies" % (what, got[1], dt_of(t))
    if got[1] not in sp[1]:
        return "%s: price %r at %s is not the rate of the latest breakpoint (%r)" % (what, got[1], dt_of(t), sp[1])
    return None


def monitor(case):
    inp, raw = case["input"], case.get("raw")
    op = inp["op"]
    if op in ("fields", "ctor"):
        if op == "ctor" and inp["src"][0] == "b" and "error" in case["impl"]:
            return "bundled tariff %s cannot be loaded: %s" % (inp["src"][1], case["impl"]["error"])
        return None
    if raw is None:
        return None
    src = inp.get("src")
    if src is None:
        return None
    src = tuple(src)
    docs = src_docs(src)
    bundled = src[0] == "b"
    if not docs_wellformed(docs):
        return None
    if raw[0] == "err" and raw[1].startswith("ctor:"):
        return "tariff %s cannot be loaded: %s" % (src, raw[1]) if bundled else None
    if op == "get_tariff":
        return check_price_at(docs, inp["t"], raw, "get_tariff", bundled)
    if op == "get_demand_charge" or op == "Interface.get_demand_charge":
        t = inp["t"] if op == "get_demand_charge" else inp["start"] + us_step(inp["period"]) * (
            inp["iteration"] if inp["st"] is None else inp["st"])
        sp = spec_at(docs, dt_of(t))
        if sp is None:
            return None
        if sp[0] == "err":
            return ("%s: %d schedules apply at %s" % (op, sp[1], dt_of(t))) if bundled or raw[0] == "ok" else None
        if raw[0] == "err":
            return "%s: %s at %s although exactly one schedule applies" % (op, raw[1], dt_of(t))
        if raw[1] != sp[2]:
            return "%s: %r is not the demand rate %r in force at %s" % (op, raw[1], sp[2], dt_of(t))
        return None
    if op in ("get_tariffs", "Interface.get_prices"):
        if op == "get_tariffs":
            t0, n, period = inp["start"], inp["length"], inp["period"]
        else:
            period, n = inp["period"], inp["length"]
            t0 = inp["start"] + us_step(period) * (inp["iteration"] if inp["st"] is None else inp["st"])
        n = max(n, 0)
        if raw[0] == "ok" and len(raw[1]) != n:
            return "%s: %d prices for %d periods" % (op, len(raw[1]), n)
        for k in range(n):
            t = t0 + k * us_step(period)
            got = ("ok", raw[1][k]) if raw[0] == "ok" else raw
            r = check_price_at(docs, t, got, "%s[%d]" % (op, k), bundled)
            if raw[0] == "err":
                # the vector call fails iff some entry has no unique schedule: find it
                sp = spec_at(docs, dt_of(t))
                if sp is not None and sp[0] == "err":
                    return r if bundled else None
                continue
            if r:
                return r
        if raw[0] == "err":
            return "%s: %s although every period has exactly one schedule" % (op, raw[1])
        return None
    if op in ("analysis.energy_cost", "analysis.demand_charge"):
        V, rates, period, t0 = inp["voltages"], inp["rates"], inp["period"], inp["start"]
        ncol = len(rates[0]) if rates else 0
        agg = [sum(F(V[s]) * F(rates[s][k]) for s in range(len(V))) / 1000 for k in range(ncol)]
        if op == "analysis.energy_cost":
            tot = F(0)
            for k in range(ncol):
                sp = spec_at(docs, dt_of(t0 + k * us_step(period)))
                if sp is None or sp[0] == "err":
                    return ("energy_cost: no unique schedule in period %d" % k) if bundled and sp is not None else None
                if len(sp[1]) != 1:
                    return None
                tot += F(sp[1][0]) * agg[k] * F(period) / 60
            if raw[0] == "err":
                return "energy_cost: %s" % raw[1]
            if not close(float(tot), raw[1]):
                return "energy_cost %r != sum(price x power x dt) = %r" % (raw[1], float(tot))
            return None
        sp = spec_at(docs, dt_of(t0))
        if sp is None:
            return None
        if sp[0] == "err":
            return "demand_charge: %d schedules apply at the start" % sp[1] if bundled else None
        if ncol == 0:
            return None
        if raw[0] == "err":
            return "demand_charge: %s" % raw[1]
        want = float(F(sp[2]) * max(agg))
        if not close(want, raw[1]):
            return "demand_charge %r != demand rate x peak power = %r" % (raw[1], want)
        return None
    return None


# ------------------------------------------------------------------------------------------------
# search / replay
# ------------------------------------------------------------------------------------------------
SEARCH_HEADER = CORR_HEADER


def coq_failing_cells():
    """evaluate the finite check of C17_exactly_one on the regenerated data: [(file, m, d, wd, count)] and
    [(file, ctor error)]"""
    term = ("flat_map (fun nr => match file_failures (snd nr) with Ok l => map (fun c => (fst nr, c)) (firstn 40 l) "
            "| Err _ => [] end) bundled")
    term2 = "flat_map (fun nr => match file_failures (snd nr) with Ok _ => [] | Err e => [(fst nr, e)] end) bundled"
    outs = core.eval_terms(PID, SEARCH_HEADER, [term, term2], tag="search")
    text = "\n".join(outs)
    cells = [(m.group(1), int(m.group(2)), int(m.group(3)), int(m.group(4)), int(m.group(5)))
             for m in re.finditer(r'\("([^"]+)",\s*\((\d+),\s*(\d+),\s*(\d+),\s*(\d+)(?:%nat)?\)\)', text)]
    ctor = [(m.group(1), m.group(2)) for m in re.finditer(r'\("([^"]+)",\s*"([^"]+)"\)', text)]
    return cells, ctor


def replay_cell(name, m, d, wd):
    """replay a failing (file, month, day, weekday) of the finite check on the implementation"""
    import random
    y = year_with(random.Random(0), (m, d), wd)
    if y is None:
        return None
    for sod in (9 * 3600, 0, 86399):
        c = case_tariff(("b", name), at(y, m, d, sod))
        r = monitor(c)
        if r:
            return dict(case=c["input"], impl=c["impl"], why=r, cell=[name, m, d, wd])
    return None


def enumerate_impl(names):
    """all 366 x 7 calendar cells of every bundled file on the implementation (fallback search)"""
    import random
    rr = random.Random(1)
    for n in names:
        c = case_ctor(("b", n))
        r = monitor(c)
        if r:
            return dict(case=c["input"], impl=c["impl"], why=r)
        docs = bundled_docs(n)
        sods = interesting_sods(docs) if docs_wellformed(docs) else [0, 43200]
        for m in range(1, 13):
            for d in range(1, 32):
                try:
                    D.date(2020, m, d)
                except ValueError:
                    continue
                for wd in range(7):
                    y = year_with(rr, (m, d), wd)
                    for sod in rr.sample(sods, min(3, len(sods))):
                        c = case_tariff(("b", n), at(y, m, d, sod))
                        r = monitor(c)
                        if r:
                            return dict(case=c["input"], impl=c["impl"], why=r, cell=[n, m, d, wd])
    return None


def search(rng, budget_s, broken):
    t0 = time.time()
    names = bundled_names()
    try:
        cells, ctor = coq_failing_cells()
    except Exception:  # noqa
        cells, ctor = [], []
    for name, e in ctor:
        c = case_ctor(("b", name))
        r = monitor(c)
        if r:
            return dict(case=c["input"], impl=c["impl"], why=r, from_finite_check=True)
    for name, m, d, wd, cnt in cells:
        w = replay_cell(name, m, d, wd)
        if w:
            w["from_finite_check"] = True
            w["model_count"] = cnt
            return w
    w = enumerate_impl(names)
    if w:
        return w
    while time.time() - t0 < budget_s:
        for c in gen_cases_main(rng, 400, "quick", names):
            r = monitor(c)
            if r:
                return dict(case=c["input"], impl=c["impl"], why=r)
    return None


def replay(w):
    inp = w["case"]
    op = inp["op"]
    src = tuple(inp["src"]) if inp.get("src") else None
    if src is not None and src[0] == "i":
        if "docs" not in inp:
            return None
        _inline.append(inp["docs"])
        src = ("i", len(_inline) - 1)
    aware = inp.get("aware")
    if op == "ctor":
        c = case_ctor(src)
    elif op == "get_tariff":
        c = case_tariff(src, inp["t"])
    elif op == "get_demand_charge":
        c = case_demand(src, inp["t"])
    elif op == "get_tariffs":
        c = case_tariffs(src, inp["start"], inp["length"], inp["period"])
    elif op == "Interface.get_prices":
        c = case_prices(src, inp["start"], inp["period"], inp["iteration"], inp["length"], inp["st"], aware)
    elif op == "Interface.get_demand_charge":
        c = case_iface_demand(src, inp["start"], inp["period"], inp["iteration"], inp["st"], aware)
    elif op.startswith("analysis.") and inp.get("pick"):
        c = case_cost_pick("energy" if op.endswith("energy_cost") else "demand",
                           None if inp["signal"] is None else tuple(inp["signal"]),
                           None if inp["explicit_tariff"] is None else tuple(inp["explicit_tariff"]),
                           inp["start"], inp["period"], inp["voltages"], inp["rates"], aware)
    elif op.startswith("analysis."):
        c = case_cost("energy" if op.endswith("energy_cost") else "demand", src, inp["start"], inp["period"],
                      inp["voltages"], inp["rates"], aware, inp.get("explicit", False))
    else:
        return None
    return monitor(c)
