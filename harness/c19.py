"""C19 — stochastic space assignment never loses, duplicates or starves a session.

Correspondence: StochasticNetwork inside the REAL acnportal Simulator.  A thin recording subclass logs
every top-level network call the simulator makes (plugin / unplug / post_charging_update) and the
full network state after it; `random` in the module's namespace is replaced by a shim whose
`choice` calls the real `random.choice` and logs the index of the chosen station.  The Coq model
(Model/StochNet.v) replays the op sequence with the logged choices and must reproduce every
snapshot (occupants, queue order, ev.station_id of every EV, counters, number of draws, the set of
sessions that left).  Every scenario is run twice with the same seed (reproducibility)."""
import os
import time
from harness.core import z, coq_list, coq_bool, coq_opt, coq_str

PID = "C19"
GEN_GROUPS = ["EvseZ", "StochNet"]
TARGETS = ["coq/Props/C19.vo", "coq/Model/StochNet.vo", "coq/Proofs/StochNetGen.vo"]
CASES = {"quick": 260, "thorough": 4000}
CORR_HEADER = ("From Coq Require Import ZArith List String.\n"
               "From ACN Require Import Base.Num Model.StochNet.\nImport ListNotations.\n"
               "Open Scope string_scope.\nOpen Scope Z_scope.\n")
CHECK_FN = "check_c19"
SHARD = 40
RULE = ("stream 1: one case = one run of the real Simulator with a StochasticNetwork: 0-4 stations, more sessions than stations "
        "(arrival ties, one-period stays, stays overlapping so that a queue forms), early_departure on/off, "
        "uncontrolled / scripted-random / sorted (FCFS) scheduler, random.seed(k); the state after EVERY network call "
        "(every plugin, unplug and the post_charging_update of every period) is compared; distinct = distinct "
        "(scenario, seed); non-trivial = a queue formed at some point; stream 2 (direct): the same network calls "
        "for an arbitrary well-formed history (longer queues, arbitrary fully-charged sets, stale Unplug events; every 4th "
        "one aims at order dependence inside post_charging_update: more satisfied EVs than waiters); every case is also run in two "
        "fresh interpreters with PYTHONHASHSEED=1 / 4242 (the check runs with 0) and the recorded runs must be identical; "
        "40% of the cases name their stations unusually (integers from 0, an empty string, mixed); in a third of the simulator "
        "runs the scheduler raises (Exception / BaseException subclass, arrival or arbitrary periods) and run() is called again with the "
        "same or a fresh scheduler; 12% run a second simulation on the same network object; every 5th direct history drives two "
        "live networks alternately; odd periods / voltages / ratings, int and falsy session ids, numpy times, callers clearing returned lists")
ASSUMPTIONS = ["each session is plugged in once and unplugged once, after its plugin (C01); the monitor re-checks it on every recorded run",
               "EV objects are identified with their session ids; random.choice is an arbitrary index into the free list",
               "theorems are about Model/StochNet.v; the model is tied to stochastic_network.py by the per-call state comparison "
               "and by the regenerated skeletons Gen/StochNet_Z.v (refinement lemmas in Proofs/StochNet.v)"]
TRUSTED_EXTRA = ["harness/c19.py recording subclass and the random.choice shim (index = position of the returned id in the list passed)"]

SESS0 = 100      # session k is numbered SESS0 + k, station i is numbered i + 1


# ---------------------------------------------------------------------------------------------
# scenarios
# ---------------------------------------------------------------------------------------------
def rand_scenario(rng, tier="quick"):
    big = tier == "thorough" and rng.random() < 0.3
    n = rng.choice([0, 1, 1, 2, 2, 2, 3, 3, 4] + ([5, 6] if big else []))
    m = rng.randint(n + 1, 3 * n + (8 if big else 5))
    T = rng.choice([2, 4, 6, 10])
    D = rng.choice([2, 4, 8])
    sessions = []
    for k in range(m):
        a = rng.randint(0, T)
        d = rng.randint(1, D)        # a zero-length stay is rejected by Interface (SessionInfo) for every scheduler
        e = rng.choice([0.0, 0.0005, 0.3, 0.6, 0.64, 1.0, 2.0, 5.0, 20.0])    # 0 kWh: park-only session, satisfied from the start
        p = rng.choice([3.3, 7.68, 7.68])
        sessions.append(dict(k=k, arrival=a, departure=a + d, energy=e, max_power=p))
    rng.shuffle(sessions)
    # in a third of the runs the scheduler raises once in a period in which an EV arrives; the harness catches the
    # exception and calls run() again (interrupted-and-resumed run)
    raise_at = []
    if rng.random() < 0.35:
        horizon = max(s["departure"] for s in sessions)
        pool = [s["arrival"] for s in sessions] if rng.random() < 0.5 else list(range(horizon + 1))   # arrival periods / any period
        raise_at = sorted(set(rng.sample(pool, min(len(pool), rng.randint(1, 3)))))
    sc = dict(n=n, sessions=sessions, early=rng.random() < 0.6,
              sched=rng.choice(["unc", "unc", "scr", "scr", "fcfs"]),
              sched_seed=rng.randint(0, 10 ** 6), max_recompute=rng.choice([None, 1, 2]),
              seed=rng.randint(0, 10 ** 6), ids=rand_ids(rng), raise_at=raise_at,
              raise_kind=rng.choice(["Exception", "Exception", "BaseException"]), fresh_on_resume=rng.random() < 0.3)
    unusual(rng, sc)
    if rng.random() < 0.12:
        # object reuse: a second simulation on the SAME network object (and, half of the time, the same scheduler object)
        m2 = rng.randint(1, n + 3)
        sc["second"] = [dict(k=m + j, arrival=rng.randint(0, 3), departure=0, energy=rng.choice([0.3, 1.0, 5.0]),
                             max_power=7.68) for j in range(m2)]
        for x in sc["second"]:
            x["departure"] = x["arrival"] + rng.randint(1, 4)
        sc["reuse_sched"] = rng.random() < 0.5
    return sc


def unusual(rng, sc):
    """unusual-but-legal parameters and dtypes (checklist 6, 8): mostly defaults, each deviation in a fraction of the cases"""
    n = sc["n"]
    sc["sid_mode"] = rng.choice(["plain", "plain", "plain", "int0", "mixed"])
    sc["period"] = rng.choice([5, 5, 5, 1, 7, 2.5])
    sc["voltages"] = [rng.choice([240, 240, 208, 120]) for _ in range(n)]
    sc["rates"] = [rng.choice([32, 32, 16, 80]) for _ in range(n)]
    raw = rng.choice(["bool", "bool", "bool", "int", "none_or_str", "numpy"])
    sc["early_raw"] = sc["early"] if raw == "bool" else (1 if sc["early"] else 0) if raw == "int" else \
        ({"numpy_bool": sc["early"]} if raw == "numpy" else ("yes" if sc["early"] else None))
    sc["np_times"] = rng.random() < 0.25
    sc["est_dep"] = rng.random() < 0.25
    # the network is written to JSON and loaded back BEFORE any EV arrives (legitimate: queue empty, counters 0; the flag
    # early_departure does not survive a round trip - open finding owned by C09 - so only with early_departure off)
    if not sc["early"] and rng.random() < 0.35:
        sc["json_net"] = True
        sc["early_raw"] = False
        if sc.get("ids") in ("int0", "mixed"):
            sc["ids"] = "empty"          # JSON object keys are strings: integer station ids come back as "0", "1", ...


def rand_ids(rng):
    """how the stations are named: usual strings, or legal-but-unusual ids (integers from 0, an empty string, mixed,
    names whose lexicographic order differs from the registration order / mixed case / numeric-looking)"""
    return rng.choice(["plain", "plain", "plain", "int0", "empty", "mixed", "lex"])


LEX_IDS = ["S-9", "S-10", "S-11", "s-2", "10", "9", "S-1", "Z"]


def sess_name(sc, k):
    mode = sc.get("sid_mode", "plain")
    if mode == "int0":
        return k
    if mode == "mixed":
        return k if k % 2 == 0 else ("" if k == 1 else "s%d" % k)
    return "sess-%03d" % k


def station_ids(sc):
    mode, n = sc.get("ids", "plain"), sc["n"]
    if mode == "int0":
        return list(range(n))
    if mode == "empty":
        return [""] + ["ST-%02d" % i for i in range(1, n)] if n else []
    if mode == "lex":
        return LEX_IDS[:n] + ["ST-%02d" % i for i in range(len(LEX_IDS), n)]
    if mode == "mixed":
        return [0 if i == 0 else "" if i == 1 else ("ST-%02d" % i if i % 2 == 0 else i) for i in range(n)]
    return ["ST-%02d" % i for i in range(n)]


def rand_direct(rng, tier="quick"):
    """an arbitrary well-formed history of network calls (not produced by the simulator): longer queues,
    arbitrary 'fully charged' sets, Unplug events long after an early departure"""
    n = rng.choice([0, 1, 1, 2, 2, 3, 3, 4, 5])
    m = rng.randint(n + 1, 3 * n + 6)
    sessions = [dict(k=k, arrival=0, departure=1, energy=rng.choice([1.0, 5.0]), max_power=7.68) for k in range(m)]
    todo = list(range(m))
    rng.shuffle(todo)
    present, arrived, ops = [], [], []
    p_arr, p_dep, p_full = rng.choice([0.3, 0.5, 0.7]), rng.choice([0.15, 0.3]), rng.choice([0.1, 0.3, 0.6])
    while todo or present:
        r = rng.random()
        if todo and r < p_arr:
            k = todo.pop()
            present.append(k)
            arrived.append(k)
            ops.append(["A", k])
        elif present and r < p_arr + p_dep:
            k = present.pop(rng.randrange(len(present)))
            ops.append(["D", k])
        else:
            ops.append(["P", sorted(k for k in arrived if rng.random() < p_full)])
    ops.append(["P", []])
    sc = dict(n=n, sessions=sessions, early=rng.random() < 0.75, sched="direct", sched_seed=0,
              max_recompute=None, seed=rng.randint(0, 10 ** 6), ops=ops, ids=rand_ids(rng), poke=rng.random() < 0.4)
    unusual(rng, sc)
    return sc


def rand_hashprobe(rng):
    """direct history aimed at order dependence inside post_charging_update: all stations taken, fewer EVs waiting
    than satisfied EVs connected, everybody reported fully charged in the same period"""
    n = rng.choice([2, 3, 3, 4, 5])
    w = rng.randint(1, n - 1)
    m = n + w + rng.randint(0, 2)
    sessions = [dict(k=k, arrival=0, departure=1, energy=rng.choice([1.0, 5.0]), max_power=7.68) for k in range(m)]
    order = list(range(m))
    rng.shuffle(order)
    first, later = order[:n + w], order[n + w:]
    ops = [["A", k] for k in first]
    ops.append(["P", sorted(rng.sample(first, rng.randint(max(2, w + 1), len(first))) if rng.random() < 0.5 else first)])
    for k in later:
        ops.append(["A", k])
    ops.append(["P", sorted(order)])
    rest = list(order)
    rng.shuffle(rest)
    for k in rest:
        ops.append(["D", k])
        if rng.random() < 0.3:
            ops.append(["P", sorted(order)])
    ops.append(["P", []])
    sc = dict(n=n, sessions=sessions, early=True, sched="direct", sched_seed=0,
              max_recompute=None, seed=rng.randint(0, 10 ** 6), ops=ops, ids=rand_ids(rng), poke=rng.random() < 0.4)
    unusual(rng, sc)
    sc["early"], sc["early_raw"] = True, rng.choice([True, 1, "yes", {"numpy_bool": True}])
    return sc


def extra_streams(rng, tier):
    n = {"quick": 140, "thorough": 2500}[tier]
    cases = []
    i = 0
    while len(cases) < n:
        sc = rand_hashprobe(rng) if i % 4 == 0 else rand_direct(rng, tier)
        i += 1
        if i % 5 == 3:
            # two live networks driven alternately: one case for each of them
            sc["other"] = rand_hashprobe(rng) if rng.random() < 0.4 else rand_direct(rng, tier)
            cases.append(make_case(dict(sc, role="main")))
            cases.append(make_case(dict(sc, role="other")))
        else:
            cases.append(make_case(sc))
    cases = cases[:n]
    cross_process(cases)
    return [("d", CORR_HEADER, CHECK_FN, cases)]


# ---------------------------------------------------------------------------------------------
# reproducibility across processes: the same scenario and random.seed under other PYTHONHASHSEED values
# ---------------------------------------------------------------------------------------------
HASHSEEDS = ["1", "4242"]          # the check itself runs with PYTHONHASHSEED=0
XPROC_MAX = 1500


def digest(impl):
    import hashlib
    import json
    return hashlib.sha256(json.dumps([impl["steps"], impl["choices"], impl["energies"], impl["crash"]],
                                     sort_keys=True).encode()).hexdigest()


def other_processes(scs):
    """digest of the recorded run of every scenario in one fresh interpreter per hash seed; {seed: [digest|None]}"""
    import json
    import os
    import subprocess
    import sys
    root = os.path.dirname(os.path.dirname(os.path.abspath(__file__)))
    procs = {}
    for hs in HASHSEEDS:
        env = dict(os.environ, PYTHONHASHSEED=hs)
        procs[hs] = subprocess.Popen([sys.executable, "-m", "harness.c19", "--worker"], env=env, cwd=root, text=True,
                                     stdin=subprocess.PIPE, stdout=subprocess.PIPE, stderr=subprocess.PIPE)
    payload = json.dumps(scs)
    out = {}
    for hs, p in procs.items():
        so, se = p.communicate(payload)
        try:
            out[hs] = json.loads(so.strip().split("\n")[-1]) if p.returncode == 0 else [None] * len(scs)
        except ValueError:
            out[hs] = [None] * len(scs)
    return out


def cross_process(cases):
    """annotate cases with impl['xproc'] = {hashseed: same recorded run as in this process?}"""
    sub = cases[:XPROC_MAX]
    if not sub:
        return
    res = other_processes([c["input"] for c in sub])
    for i, c in enumerate(sub):
        own = digest(c["impl"])
        c["impl"]["xproc"] = {hs: (None if d[i] is None else d[i] == own) for hs, d in res.items()}


def _scheduler(sc):
    import random as pyrandom
    from acnportal.algorithms import UncontrolledCharging, SortedSchedulingAlgo, first_come_first_served, BaseAlgorithm
    if sc["sched"] == "unc":
        a = UncontrolledCharging()
    elif sc["sched"] == "fcfs":
        a = SortedSchedulingAlgo(first_come_first_served)
    else:
        class Scripted(BaseAlgorithm):
            def __init__(self, seed):
                super().__init__()
                self.r = pyrandom.Random(seed)

            def schedule(self, active_sessions):
                return {s.station_id: [self.r.choice([0, 0, 8, 12.5, 16])] for s in active_sessions}
        a = Scripted(sc["sched_seed"])
    a.max_recompute = sc["max_recompute"]
    return a


class _Shim:
    """stands for the module `random` inside stochastic_network.py; every choice is credited to the network whose
    top-level call is in progress"""
    def __init__(self):
        self.owner = None

    def choice(self, seq):
        import random as pyrandom
        r = pyrandom.choice(seq)
        self.owner.choices.append(list(seq).index(r))
        return r

    def __getattr__(self, name):
        import random as pyrandom
        return getattr(pyrandom, name)


def _build(sc, shim):
    """a recording StochasticNetwork with the stations of sc, and the EV objects of sc (first and second simulation)"""
    import numpy as np
    from acnportal.acnsim.models import EV, EVSE, Battery
    from acnportal.contrib.acnsim.network import stochastic_network as snmod
    st_num, se_num = {}, {}

    class Rec(snmod.StochasticNetwork):
        def _rec_init(self):
            self._depth = 0
            self.rlog = []
            self.seen = {}
            self.gone = set()
            self.choices = []

        def _present(self):
            p = [e.ev.session_id for e in self._EVSEs.values() if e.ev is not None]
            return p + list(self.waiting_queue.keys())

        def _snap(self, err):
            return dict(err=err,
                        occ=[(se_num[e.ev.session_id] if e.ev is not None else None) for e in self._EVSEs.values()],
                        queue=[se_num[k] for k in self.waiting_queue.keys()],
                        station_of=[[se_num[s], (None if ev.station_id is None else st_num.get(ev.station_id, -1))]
                                    for s, ev in self.seen.items()],
                        swaps=self.swaps, never=self.never_charged, early_unplug=self.early_unplug,
                        draws=len(self.choices), gone=sorted(se_num[g] for g in self.gone))

        def _top(self, op, fn):
            if self._depth > 0:
                return fn()
            self._depth += 1
            shim.owner = self
            before = set(self._present())
            try:
                r = fn()
            except Exception as ex:  # noqa
                self.rlog.append((op, self._snap(type(ex).__name__)))
                raise
            finally:
                self._depth -= 1
            self.gone |= before - set(self._present())
            self.rlog.append((op, self._snap(None)))
            return r

        def plugin(self, ev, station_id=None):
            self.seen[ev.session_id] = ev
            return self._top(["A", se_num[ev.session_id]], lambda: snmod.StochasticNetwork.plugin(self, ev))

        def unplug(self, station_id, session_id=None):
            return self._top(["D", se_num.get(session_id, -1), None if station_id is None else st_num.get(station_id, -1)],
                             lambda: snmod.StochasticNetwork.unplug(self, station_id, session_id))

        def post_charging_update(self):
            full = sorted(se_num[s] for s, ev in self.seen.items() if ev.fully_charged)
            return self._top(["P", full], lambda: snmod.StochasticNetwork.post_charging_update(self))

    raw = sc.get("early_raw", sc["early"])
    if isinstance(raw, dict):
        raw = np.bool_(raw["numpy_bool"])          # e.g. the result of a numpy comparison
    net = snmod.StochasticNetwork(early_departure=raw) if sc.get("json_net") else Rec(early_departure=raw)
    volts, rates = sc.get("voltages") or [], sc.get("rates") or []
    ids = station_ids(sc)
    for i, sid in enumerate(ids):
        st_num[sid] = i + 1
        net.register_evse(EVSE(sid, max_rate=rates[i] if i < len(rates) else 32), volts[i] if i < len(volts) else 240, 0)
    if sc.get("json_net"):
        net = snmod.StochasticNetwork.from_json(net.to_json())
        net.__class__ = Rec                          # the loaded object becomes the recorder
    net._rec_init()

    def make_ev(x):
        name = sess_name(sc, x["k"])
        se_num[name] = SESS0 + x["k"]
        a, d = x["arrival"], x["departure"]
        if sc.get("np_times"):
            a, d = np.int64(a), np.int64(d)
        est = None
        if sc.get("est_dep"):
            est = x["departure"] + [-1, 0, 2][x["k"] % 3]
            est = max(est, x["arrival"] + 1)
        # the station the session asks for: a registered one (the stochastic network assigns its own)
        wish = ids[x["k"] % len(ids)] if ids else "ST-00"
        return EV(a, d, x["energy"], wish, name, Battery(100, 0, x["max_power"]), estimated_departure=est)
    evs = [make_ev(x) for x in sc["sessions"]]
    evs2 = [make_ev(x) for x in sc.get("second", [])]
    return net, evs, evs2


def _direct_ops(sc, net, evs):
    """generator: performs the network calls of a direct history one at a time"""
    by_k = {x["k"]: ev for x, ev in zip(sc["sessions"], evs)}
    for op in sc["ops"]:
        if op[0] == "A":
            net.plugin(by_k[op[1]])
        elif op[0] == "D":
            net.unplug(by_k[op[1]].station_id, by_k[op[1]].session_id)
        else:
            for k, ev in by_k.items():
                # satisfied EVs: exactly the request, or over-delivered (a last period that was not capped)
                ev._energy_delivered = (ev.requested_energy + (0.5 if k % 3 == 0 else 0)) if k in op[1] else 0
            net.post_charging_update()
        if sc.get("poke"):
            # the caller mutates what the network handed out: must not reach the network
            for got in (net.available_evses(), net.station_ids, net.active_evs, net.active_station_ids):
                if isinstance(got, list):
                    got.clear()
        yield


def _simulate(sc, net, evs, evs2):
    """drive the network through the real Simulator (interrupted / resumed / reused as the scenario says)"""
    from datetime import datetime
    from acnportal.acnsim import Simulator, EventQueue, PluginEvent, Interface
    pending = set(sc.get("raise_at", []))
    resumed, iterations = 0, 0

    class Interrupted(Exception):
        pass

    class InterruptedBase(BaseException):
        pass
    exc = InterruptedBase if sc.get("raise_kind") == "BaseException" else Interrupted
    holder = {}

    def arm(alg):
        inner_run = alg.run

        def run_once():
            t = int(holder["sim"].iteration)
            if t in pending:
                pending.discard(t)
                raise exc("scheduler failed in period %d" % t)
            return inner_run()
        alg.run = run_once
        return alg
    alg = arm(_scheduler(sc))
    for nr, batch in enumerate([evs, evs2]):
        if nr == 1 and not batch:
            break
        if nr == 1 and not sc.get("reuse_sched"):
            alg = arm(_scheduler(sc))
        events = [PluginEvent(ev.arrival, ev) for ev in batch]
        sim = Simulator(net, alg, EventQueue(events), datetime(2020, 1, 1), period=sc.get("period", 5), verbose=False)
        events.clear()                                     # caller-owned list, mutated after the call
        holder["sim"] = sim
        for _ in range(len(pending) + 1):
            try:
                sim.run()
                break
            except (Interrupted, InterruptedBase):
                resumed += 1            # the caller handles the failure and resumes the same simulator ...
                if sc.get("fresh_on_resume"):
                    alg = arm(_scheduler(sc))              # ... possibly with a fresh scheduler object
                    sim.scheduler = alg
                    sim.max_recompute = alg.max_recompute
                    alg.register_interface(Interface(sim))
        iterations += int(sim.iteration)
    return iterations, resumed


def _record(net, evs, crash, iterations, resumed):
    if iterations is None:
        iterations = sum(1 for op, _ in net.rlog if op[0] == "P")
    return dict(steps=[[op, sn] for op, sn in net.rlog], choices=list(net.choices), crash=crash,
                iterations=iterations, resumed=resumed,
                energies=[float(ev.energy_delivered) for ev in evs])


def run_impl(sc):
    """one recorded run; returns dict(steps=[(op, snapshot)], choices=[...], crash=None|str, ...).
    sc['other'] (direct histories only): a SECOND live network of another scenario is driven alternately with this one
    (sc['role'] says whose record is returned)."""
    import random as pyrandom
    from acnportal.contrib.acnsim.network import stochastic_network as snmod
    shim = _Shim()
    saved_mod, saved_state = snmod.random, pyrandom.getstate()
    crash, iterations, resumed = None, None, 0
    net, evs, evs2 = _build(sc, shim)
    other = sc.get("other")
    if other is not None:
        net_b, evs_b, _ = _build(other, shim)
    try:
        snmod.random = shim
        pyrandom.seed(sc["seed"])
        if "ops" in sc:
            gens = [_direct_ops(sc, net, evs)]
            if other is not None:
                gens.append(_direct_ops(other, net_b, evs_b))
            turn = pyrandom.Random(sc["seed"] + 17)
            while gens:
                g = gens[turn.randrange(len(gens))]
                try:
                    next(g)
                except StopIteration:
                    gens.remove(g)
        else:
            iterations, resumed = _simulate(sc, net, evs, evs2)
    except BaseException as ex:  # noqa
        if isinstance(ex, (KeyboardInterrupt, SystemExit)):
            raise
        crash = "%s: %s" % (type(ex).__name__, str(ex)[:120])
    finally:
        snmod.random = saved_mod
        pyrandom.setstate(saved_state)
    if other is not None and sc.get("role") == "other":
        return _record(net_b, evs_b, crash, None, 0)
    return _record(net, evs + evs2, crash, iterations, resumed)


# ---------------------------------------------------------------------------------------------
# Coq terms
# ---------------------------------------------------------------------------------------------
def zl(n):
    return z(n)


def ev_coq(op):
    if op[0] == "A":
        return "(Arrive %s)" % zl(op[1])
    if op[0] == "D":
        return "(Depart %s)" % zl(op[1])
    return "(PostCharge %s)" % coq_list([zl(x) for x in op[1]])


def snap_coq(s):
    return ("{| s_err := %s; s_occ := %s; s_queue := %s; s_station_of := %s; s_swaps := %s; s_never := %s; "
            "s_early_unplug := %s; s_draws := %d%%nat; s_gone := %s |}") % (
        coq_opt(s["err"], coq_str), coq_list([coq_opt(o, zl) for o in s["occ"]]),
        coq_list([zl(x) for x in s["queue"]]),
        coq_list(["(%s, %s)" % (zl(a), coq_opt(b, zl)) for a, b in s["station_of"]]),
        zl(s["swaps"]), zl(s["never"]), zl(s["early_unplug"]), s["draws"], coq_list([zl(x) for x in s["gone"]]))


def case_coq(sc, impl):
    return ("{| c_stations := %s; c_early := %s; c_choices := %s;\n c_steps := %s |}") % (
        coq_list([zl(i + 1) for i in range(sc["n"])]), coq_bool(sc["early"]),
        coq_list(["%d%%nat" % c for c in impl["choices"]]),
        coq_list(["(%s, %s)" % (ev_coq(op), snap_coq(sn)) for op, sn in impl["steps"]]))


def subject(sc):
    """the scenario whose network a case is about (the partner when role == 'other')"""
    return sc["other"] if sc.get("other") is not None and sc.get("role") == "other" else sc


def make_case(sc):
    impl = run_impl(sc)
    again = run_impl(sc)
    impl["repro"] = (again["steps"] == impl["steps"] and again["choices"] == impl["choices"]
                     and again["energies"] == impl["energies"] and again["crash"] == impl["crash"])
    queued = any(sn["queue"] for _, sn in impl["steps"])
    early_used = any(sn["early_unplug"] for _, sn in impl["steps"])
    me = subject(sc)
    kind = "n%d/%s/%s/%s%s%s%s%s" % (me["n"], "early" if me["early"] else "late", me["sched"],
                                     "earlyunplug" if early_used else ("queue" if queued else "noqueue"),
                                     "" if me.get("ids", "plain") == "plain" else "/ids-" + me["ids"],
                                     "/resumed%d" % impl["resumed"] if impl.get("resumed") else "",
                                     "/reuse" if sc.get("second") else "",
                                     "/pair-%s" % sc.get("role", "main") if sc.get("other") is not None else "")
    return dict(input=sc, impl=impl, coq=case_coq(me, impl), ambiguous=False, kind=kind,
                sig=[me["n"], me["early"], me["sched"], sc["seed"], sc["sched_seed"],
                     [[s["k"], s["arrival"], s["departure"], s["energy"]] for s in me["sessions"]], me.get("ops"),
                     me.get("ids"), sc.get("raise_at"), sc.get("role"), me.get("sid_mode"), me.get("period")],
                nontrivial=queued)


def gen_cases(rng, n, tier):
    import random as pyrandom
    cases = []
    while len(cases) < n:
        sc = rand_scenario(rng, tier)
        cases.append(make_case(sc))
        # the same history under other seeds: other random choices of free station
        for _ in range(2 if sc["n"] >= 2 else 0):
            if len(cases) < n:
                sc2 = dict(sc, seed=rng.randint(0, 10 ** 6))
                cases.append(make_case(sc2))
    cases = cases[:n]
    cross_process(cases)
    return cases


# ---------------------------------------------------------------------------------------------
# the C19 statements, directly on the recorded behaviour of the implementation
# ---------------------------------------------------------------------------------------------
def monitor(case):
    sc, impl = case["input"], case["impl"]
    if impl.get("crash"):
        return "the run raised %s" % impl["crash"]
    if not impl.get("repro", True):
        return "two runs with the same random seed differ"
    for hs, same in sorted(impl.get("xproc", {}).items()):
        if same is False:
            return ("the same scenario with the same random.seed gives a different sequence of network states in a "
                    "process with PYTHONHASHSEED=%s than in this one (PYTHONHASHSEED=%s)" % (hs, os.environ.get("PYTHONHASHSEED", "random")))
        if same is None:
            return "the run in a second process (PYTHONHASHSEED=%s) failed to start" % hs
    sc = subject(sc)
    n = sc["n"]
    arrived, departed_ev = [], []
    occ, queue = [None] * n, []
    never = early_unplug = swaps = 0
    left = set()
    for i, (op, sn) in enumerate(impl["steps"]):
        where = "call %d %s" % (i, op)
        if sn["err"]:
            return "%s raised %s" % (where, sn["err"])
        pre_present = [x for x in occ if x is not None] + queue
        pre_queue, pre_occ = queue, occ
        occ, queue = sn["occ"], sn["queue"]
        conn = [x for x in occ if x is not None]
        present = conn + queue
        if op[0] == "A":
            if op[1] in arrived:
                return "%s: session plugged in twice (C01 precondition)" % where
            arrived.append(op[1])
            if op[1] not in present:
                return "%s: the arriving EV is neither connected nor waiting" % where
        if op[0] == "D":
            if op[1] not in arrived or op[1] in departed_ev:
                return "%s: unplug without plugin / second unplug (C01 precondition)" % where
            departed_ev.append(op[1])
            if op[1] in present:
                return "%s: EV still connected or waiting after its Unplug event" % where
            if op[1] in pre_queue:
                never += 1
            want_station = dict((a, b) for a, b in impl["steps"][i - 1][1]["station_of"]).get(op[1]) if i else None
            if op[2] != want_station:
                return "%s: Unplug event carried station %r, ev.station_id was %r" % (where, op[2], want_station)
        if len(set(present)) != len(present):
            return "%s: a session is in two places (%r / %r)" % (where, occ, queue)
        for x in present:
            if x not in arrived:
                return "%s: unknown session %r in the network" % (where, x)
            if x in left:
                return "%s: session %r came back after leaving" % (where, x)
        for x in pre_present:
            if x not in present:
                left.add(x)
                ok = (op[0] == "D" and op[1] == x) or (
                    op[0] == "P" and sc["early"] and x in op[1] and x in pre_occ and len(pre_queue) > 0)
                if not ok:
                    return "%s: session %r vanished (not its Unplug event, not an early departure of a satisfied EV)" % (where, x)
                if op[0] == "P":
                    early_unplug += 1
        if op[0] == "P":
            n_left = len([x for x in pre_present if x not in present])
            n_adm = len([x for x in conn if x in pre_queue])
            if n_left != n_adm:
                return "%s: %d EVs were sent away early but %d waiting EVs were admitted" % (where, n_left, n_adm)
        if op[0] == "P" and sc["early"]:
            stay = [x for x in pre_occ if x is not None and x in op[1] and x in conn]
            if stay and queue:
                return "%s: satisfied EV %r keeps its station while %r wait" % (where, stay, queue)
        for x in conn:
            if x in pre_queue:
                swaps += 1
        if queue and any(o is None for o in occ):
            return "%s: EVs %r wait while a station is free (%r)" % (where, queue, occ)
        idx = {x: k for k, x in enumerate(arrived)}
        if [idx[x] for x in queue] != sorted(idx[x] for x in queue):
            return "%s: queue %r is not in arrival order" % (where, queue)
        if queue and conn and max(idx[x] for x in conn) > min(idx[x] for x in queue):
            return "%s: a later arrival is connected while an earlier one still waits (%r / %r)" % (where, occ, queue)
        admitted = [x for x in conn if x in pre_queue]
        for y in admitted:
            for x in queue:
                if x in pre_queue and pre_queue.index(x) < pre_queue.index(y):
                    return "%s: %r was admitted although %r was ahead of it in the queue %r" % (where, y, x, pre_queue)
        so = dict((a, b) for a, b in sn["station_of"])
        for j, x in enumerate(occ):
            if x is not None and so.get(x) != j + 1:
                return "%s: EV %r sits at station %d but ev.station_id is %r" % (where, x, j + 1, so.get(x))
        for x in queue:
            if so.get(x) is not None:
                return "%s: waiting EV %r has station_id %r" % (where, x, so.get(x))
        if sn["never"] != never:
            return "%s: never_charged=%d, %d sessions departed while waiting" % (where, sn["never"], never)
        if sn["early_unplug"] != early_unplug:
            return "%s: early_unplug=%d, %d early departures observed" % (where, sn["early_unplug"], early_unplug)
        if sn["swaps"] != swaps:
            return "%s: swaps=%d, %d admissions from the queue observed" % (where, sn["swaps"], swaps)
    n_post = sum(1 for op, _ in impl["steps"] if op[0] == "P")
    if n_post != impl.get("iterations", n_post):
        return "post_charging_update was called %d times in %d periods" % (n_post, impl["iterations"])
    if sorted(arrived) != sorted(SESS0 + s["k"] for s in sc["sessions"] + sc.get("second", [])):
        return "not every session was plugged in"
    if sorted(departed_ev) != sorted(arrived):
        return "not every session got its Unplug event (C01 precondition)"
    if impl["steps"]:
        last = impl["steps"][-1][1]
        if any(o is not None for o in last["occ"]) or last["queue"]:
            return "at the end of the run stations/queue are not empty: %r / %r" % (last["occ"], last["queue"])
    return None


def search(rng, budget_s, broken):
    t0 = time.time()
    while time.time() - t0 < budget_s:
        batch = []
        for _ in range(60):
            u = rng.random()
            batch.append(make_case(rand_scenario(rng) if u < 0.4 else rand_direct(rng) if u < 0.6 else rand_hashprobe(rng)))
        cross_process(batch)
        for c in batch:
            r = monitor(c)
            if r:
                return dict(case=c["input"], impl=dict(steps=c["impl"]["steps"][-6:], choices=c["impl"]["choices"],
                                                       crash=c["impl"]["crash"], xproc=c["impl"].get("xproc")), why=r)
    return None


def replay(w):
    c = make_case(w["case"])
    cross_process([c])
    return monitor(c)


if __name__ == "__main__":
    import json
    import sys
    if "--worker" in sys.argv:
        import warnings
        warnings.filterwarnings("ignore")
        print(json.dumps([digest(run_impl(sc)) for sc in json.loads(sys.stdin.read())]))
