"""C08 — priority allocation: greedy grants the max feasible rate; round robin stops when blocked; uncontrolled baseline."""
import itertools
import json
import time
import fractions

from harness import core
from harness import sorted_common as sc
from harness import sorted_monitors as sm

PID = "C08"
GEN_GROUPS = ["Sorted", "SortedZ"]
TARGETS = ["coq/Props/C08.vo", "coq/Model/Sorted.vo"]
CASES = {"quick": 220, "thorough": 5000}
UNC = {"quick": 40, "thorough": 800}
SEQS = {"quick": 24, "thorough": 400}
MFR = {"quick": 40, "thorough": 800}            # direct calls of the static search functions          # multi-call sequences on ONE algorithm object (about 6 calls each)
SIMS = {"quick": 10, "thorough": 150}
SIM_CALLS = {"quick": 80, "thorough": 1500}
CORR_HEADER = ("From Coq Require Import ZArith QArith List String.\n"
               "From ACN Require Import Base.Num Model.Preproc Model.Sorted.\nImport ListNotations.\n"
               "Open Scope string_scope.\nOpen Scope Q_scope.\n")
CHECK_FN = "check_c08"
SHARD = 20
RULE = ("[wave 7: finite-rate level tables without 0 whose lowest level exceeds the head-room left by higher-priority grants; direct discrete_max_feasible_rate calls on such lists] [wave 6: in-simulator infrastructure taken from the EVSE objects / the harness' own constraint record and compared with Interface.infrastructure_info() at every call; sessions whose own minimum rate exceeds the remaining demand] [checklist families: object reuse, interleaved instances, caller-owned data frozen/vandalised, odd ids and dtypes, mid-run JSON round trip, constraint mutations between calls, odd periods/increments, interrupted+resumed runs, second process with another hash seed, direct entry points] C07 unit generator restricted to sessions with DISTINCT priority keys for the chosen order (equal keys are counted as "
        "skipped, kind 'tie-skipped'): unequal voltages / max pilots / limits so that laxity and processing-time orders differ "
        "from arrival order, several constraints binding at once, continuous and finite-rate EVSEs, all five orders x "
        "{greedy, round robin} x estimator x uninterrupted x increments. Compared: everything C07 compares (schedule, order, "
        "preprocessed sessions) plus, evaluated by the model on the IMPLEMENTATION's pilots, exact maximality for finite-rate "
        "stations (largest feasible level in [lb, ub] with earlier grants fixed, computed by filtering) and the eps-bracket for "
        "continuous ones. Second stream: UncontrolledCharging on random session sets. Third: scheduler calls captured inside "
        "real simulations (the record is what the scheduler returned INSIDE the simulation, the scheduler object living across all periods; a third of the simulations and 2/3 of the stub-driven multi-call sequences are LLF/LRPT families whose priority order flips while the session set is unchanged; scheduler objects are also reused on a second network with the same station ids and other ratings). Float-ambiguous decisions (1e-9) are skipped and counted.")
ASSUMPTIONS = [
    "theorems are over Q; the implementation computes in IEEE doubles",
    "distinct priority keys are not needed by the theorems (the sort is proved stable), only by the property text; ties are skipped in the correspondence stream",
    "C08_greedy_continuous_max is proved for the phasor check feasQ (interval property C08_feasible_interval); the structural theorems hold for any check",
    "finite-rate levels are assumed ascending (StronglySorted Qle) in C08_greedy_discrete_max, as the code's docstring requires",
    "one session per station, known station ids",
]
TRUSTED_EXTRA = ["harness/sorted_common.py (generator, stub driver, exact/float twin used only to flag ambiguous cases)"]

COMBOS = [(a, s, e, u, i) for a in ("greedy", "rr") for s in sc.SORTS for e in (False, True) for u in (False, True)
          for i in ((0.1, 0.5, 1.0, 3.0, 0.3, 7.0) if a == "rr" else (0.5,) * 6)]      # greedy and round robin equally often; increments that do not divide the range
F = fractions.Fraction
EDGE = [-1e-3, -5e-3, -9e-3, -2e-2, -1e-4, 1e-3, 5e-3, 2e-2]


def priority_keys(scn):
    inf = scn["infra"]
    out = []
    for s in scn["sessions"]:
        rap = (F(s["req"]) - F(s["deliv"])) * 1000 / F(inf["volt"][s["st"]]) * 60 / F(scn["period"])
        mp = F(inf["maxp"][s["st"]])
        out.append({"fcfs": F(s["arr"]), "lcfs": F(s["arr"]), "edf": F(s["edep"]),
                    "llf": F(s["edep"]) - scn["now"] - rap / mp, "lrpt": rap / mp}[scn["sort"]])
    return out


def mk_case(scn, src="unit", impl=None):
    impl = sc.run_impl(scn) if impl is None else impl
    r = sc.Twin(scn).run()
    keys = priority_keys(scn)
    tie = len(set(keys)) != len(keys) or len({s["st"] for s in scn["sessions"]}) != len(scn["sessions"])
    kind = "%s:%s/%s/est%d/un%d" % (src, scn["algo"], scn["sort"], scn["est"] is not None, scn["unint"])
    return dict(input=scn, impl=impl, coq=sc.case_coq(scn, impl), ambiguous=bool(r["amb"]) or tie,
                amb_why="equal priority keys" if tie else r["amb"],
                kind="tie-skipped" if tie else kind,
                sig=json.dumps(scn, sort_keys=True, default=str), nontrivial=len(scn["sessions"]) > 1)


def gen_cases(rng, n, tier):
    cases = []
    combos = list(COMBOS)
    rng.shuffle(combos)
    it = itertools.cycle(combos)
    while len(cases) < n:
        a, s, e, u, i = next(it)
        if a == "greedy" and len(cases) % 4 == 0:
            # a level of a finite-rate EVSE just inside / just outside the head-room left by higher-priority sessions
            cases.append(mk_case(sc.gen_level_edge(rng, tier, sort=s, unint=u, deltas=EDGE), "edge"))
            continue
        scn = sc.gen_scenario(rng, tier, algo=a, sort=s, est=e, unint=u, inc=i, distinct_keys=True,
                              user_bounds=rng.random() < 0.25, plenty=0.75)
        cases.append(mk_case(scn))
    return cases


def mk_unc(scn, impl=None, kind="uncontrolled"):
    scn = dict(scn, algo="unc", est=None)
    impl = sc.run_impl(scn) if impl is None else impl
    sched = impl["sched"] or []
    coq = "{| u_infra := %s; u_sessions := %s; ou_sched := %s |}" % (
        sc.infra_coq(scn["infra"]), core.coq_list([sc.session_coq(s, scn["now"]) for s in scn["sessions"]]),
        core.coq_list([core.coq_opt(x, core.q) for x in sched]))
    return dict(input=scn, impl=impl, coq=coq, ambiguous=impl["err"] is not None, kind=kind,
                sig=json.dumps(scn, sort_keys=True, default=str), nontrivial=len(scn["sessions"]) > 0)


def extra_streams(rng, tier):
    # (1) uncontrolled: fresh objects, and ONE object used on two networks that share station ids
    unc = [mk_unc(sc.gen_scenario(rng, tier)) for _ in range(UNC[tier] // 2)]
    for _ in range(UNC[tier] // 4):
        for scn, impl, tag in sc.run_unc_pair(rng, tier):
            unc.append(mk_unc(scn, impl, tag))
    # (2) ONE sorted-algorithm object driven through consecutive periods (LLF / LRPT orders that flip mid-run, network
    #     switches); every call is compared with the model fed that call's true state
    seq = []
    for k in range(SEQS[tier]):
        # every fourth: TWO live instances on same-shaped networks called alternately
        run = sc.run_interleaved(rng, tier) if k % 4 == 3 else sc.run_sequence(rng, tier, algo=("greedy", "greedy", "rr")[k % 3])
        for scn, impl, tag in run:
            seq.append(mk_case(scn, tag, impl=impl))
    mfr = [sm.mfr_case(rng, tier) for _ in range(MFR[tier])]
    # (3) the same inside real Simulators (what the scheduler returned in the simulation, call by call)
    sims = sm.sim_stream(rng, SIMS[tier], SIM_CALLS[tier], tier,
                         lambda snap, src, impl=None: (mk_unc(snap, impl, "sim-unc") if snap["algo"] == "unc"
                                                       else mk_case(snap, src, impl=impl)), with_unc=True)
    unc += [c for c in sims if c["input"].get("algo") == "unc"]
    sims = [c for c in sims if c["input"].get("algo") != "unc"]
    for k, msg in sm.hashseed_recheck(unc, limit=8).items():
        unc[k]["hash_violation"] = msg
    return [("unc", CORR_HEADER, "check_uncontrolled", unc), ("seq", CORR_HEADER, CHECK_FN, seq),
            ("sim", CORR_HEADER, CHECK_FN, sims), ("mfr", CORR_HEADER, "check_mfr", mfr)]


def monitor(case):
    if case.get("sim_violation"):
        # warnings / energies are C07's business; what the algorithm is told about its levels is C08's as well
        return case["sim_violation"] if "infrastructure_info()" in case["sim_violation"] else None
    if case.get("hash_violation"):
        return case["hash_violation"]
    if "mfr" in case["input"]:
        return None if case.get("ambiguous") else sm.monitor_mfr(case["input"]["mfr"], case["impl"])
    if case["input"].get("algo") == "unc":
        return sm.monitor_unc(case["input"], case["impl"])
    if case.get("ambiguous"):
        return None
    i_ = case["impl"]
    if i_.get("data_mutated") or i_.get("held_changed") or i_.get("info_diff"):
        return sm.monitor_c07(case["input"], i_)
    return sm.monitor_c08(case["input"], i_) or sm.monitor_rr_trace(case["input"], i_)


def search(rng, budget_s, broken):
    t0 = time.time()
    while time.time() - t0 < budget_s:
        a, s, e, u, i = rng.choice(COMBOS)
        scn = sc.gen_scenario(rng, "quick", algo=a, sort=s, est=e, unint=u, inc=i, distinct_keys=True, user_bounds=False)
        c = mk_case(scn)
        if not c["ambiguous"]:
            r = sm.monitor_c08(scn, c["impl"]) or sm.monitor_rr_trace(scn, c["impl"])
            if r:
                return dict(case=scn, impl=c["impl"], why=r)
        c3 = sm.mfr_case(rng, "quick")
        if not c3["ambiguous"]:
            r = sm.monitor_mfr(c3["input"]["mfr"], c3["impl"])
            if r:
                return dict(case=c3["input"], impl=c3["impl"], why=r)
        for scn2, impl2, tag in sc.run_unc_pair(rng, "quick"):
            r = sm.monitor_unc(scn2, impl2)
            if r:
                return dict(case=scn2, impl=impl2, why=r + " (second use of one UncontrolledCharging object: %s)" % tag)
        for scn2, impl2, tag in sc.run_sequence(rng, "quick"):
            if sc.Twin(scn2).run()["amb"]:
                continue
            r = sm.monitor_c08(scn2, impl2) or sm.monitor_rr_trace(scn2, impl2)
            if r:
                return dict(case=scn2, impl=impl2, why=r + " (call %s of one algorithm object)" % tag)
    return None


def replay(w):
    if "sim" in w["case"]:
        return sm.replay_sim(w["case"]["sim"], w["case"].get("plan"))
    if "mfr" in w["case"]:
        return sm.monitor_mfr(w["case"]["mfr"], sm.run_mfr(w["case"]["mfr"]))
    scn, impl = sc.replay_with_history(w["case"])
    if scn["algo"] == "unc":
        return sm.monitor_unc(scn, impl)
    return sm.monitor_c08(scn, impl) or sm.monitor_rr_trace(scn, impl)
