(* Base/Calendar.v — lemmas about the calendar of Base/CalendarDefs.v (round trips, ranges, order).
   No axioms. *)
From Coq Require Import ZArith List Bool Lia.
From ACN Require Export Base.CalendarDefs.
From ACN Require Import Base.CalendarEra1 Base.CalendarEra2 Base.CalendarEra3.
Import ListNotations.
Open Scope Z_scope.

(* ------------------------------------------------------------------ leap-year periodicity *)
Lemma is_leap_period y k : is_leap (y + 400 * k) = is_leap y.
Proof.
  unfold is_leap.
  replace ((y + 400 * k) mod 4) with (y mod 4)
    by (replace (y + 400 * k) with (y + (100 * k) * 4) by ring; now rewrite Z_mod_plus_full).
  replace ((y + 400 * k) mod 100) with (y mod 100)
    by (replace (y + 400 * k) with (y + (4 * k) * 100) by ring; now rewrite Z_mod_plus_full).
  replace ((y + 400 * k) mod 400) with (y mod 400)
    by (replace (y + 400 * k) with (y + k * 400) by ring; now rewrite Z_mod_plus_full).
  reflexivity.
Qed.

Lemma days_in_month_period y k m : days_in_month (y + 400 * k) m = days_in_month y m.
Proof. unfold days_in_month. now rewrite is_leap_period. Qed.

Lemma days_in_month_le_max y m : days_in_month y m <= max_days_in_month m.
Proof.
  unfold days_in_month, max_days_in_month.
  destruct (m =? 2); simpl; [destruct (is_leap y); simpl; lia|lia].
Qed.

Lemma max_days_in_month_le_31 m : max_days_in_month m <= 31.
Proof. unfold max_days_in_month. destruct (m =? 2); [lia|]. destruct (_ || _); lia. Qed.

(* ------------------------------------------------------------------ the two finite checks *)
(* (1) every day of an era decodes to a valid date that encodes back to it *)

(* (2) every valid date of a 400-year cycle encodes into the era and decodes back;
       y0 = year mod 400, the March-based year of era is (y0 - [m<=2]) mod 400 *)

(* ------------------------------------------------------------------ lifted to all of Z *)
Lemma civil_spec n :
  let '(y, m, d) := civil n in valid_date y m d = true /\ ordinal y m d = n.
Proof.
  unfold civil.
  set (z := n + 305).
  assert (Hr : 0 <= z mod 146097 < 0 + 146097) by (pose proof (Z.mod_pos_bound z 146097); lia).
  pose proof (Zforall_range_spec 0 146097 era_day_ok era_days_ok _ Hr) as H.
  unfold era_day_ok in H.
  destruct (civil_of_doe (z mod 146097)) as [[yoe m] d].
  repeat (apply andb_true_iff in H; destruct H as [H ?]).
  match goal with
  | H1 : (doe_of _ _ _ =? _) = true |- _ => apply Z.eqb_eq in H1; rename H1 into Hdoe
  end.
  assert (Hy0 : 0 <= yoe) by (apply Z.leb_le; assumption).
  assert (Hy1 : yoe < 400) by (apply Z.ltb_lt; assumption).
  split.
  - unfold valid_date.
    replace ((if m <=? 2 then yoe + 1 else yoe) + z / 146097 * 400)
      with ((if m <=? 2 then yoe + 1 else yoe) + 400 * (z / 146097)) by ring.
    rewrite days_in_month_period.
    repeat (apply andb_true_iff; split); assumption.
  - unfold ordinal.
    set (q := z / 146097).
    assert (Hy' : (if m <=? 2
                   then (if m <=? 2 then yoe + 1 else yoe) + q * 400 - 1
                   else (if m <=? 2 then yoe + 1 else yoe) + q * 400) = yoe + q * 400)
      by (destruct (m <=? 2); ring).
    rewrite Hy'.
    rewrite Z_div_plus_full by lia. rewrite Z_mod_plus_full.
    rewrite (Z.div_small yoe 400) by lia. rewrite (Z.mod_small yoe 400) by lia.
    rewrite Hdoe. subst q. pose proof (Z.div_mod z 146097). subst z. lia.
Qed.

Lemma ordinal_civil n : let '(y, m, d) := civil n in ordinal y m d = n.
Proof. pose proof (civil_spec n) as H. destruct (civil n) as [[y m] d]. tauto. Qed.

Lemma civil_valid n : let '(y, m, d) := civil n in valid_date y m d = true.
Proof. pose proof (civil_spec n) as H. destruct (civil n) as [[y m] d]. tauto. Qed.

Lemma civil_ordinal y m d : valid_date y m d = true -> civil (ordinal y m d) = (y, m, d).
Proof.
  unfold valid_date. intro H.
  repeat (apply andb_true_iff in H; destruct H as [H ?]).
  apply Z.leb_le in H. 
  match goal with H1 : (m <=? 12) = true |- _ => apply Z.leb_le in H1 end.
  match goal with H1 : (1 <=? d) = true |- _ => apply Z.leb_le in H1 end.
  match goal with H1 : (d <=? _) = true |- _ => rename H1 into Hd end.
  set (y0 := y mod 400). set (k := y / 400).
  assert (Hy : y = y0 + 400 * k) by (subst y0 k; pose proof (Z.div_mod y 400); lia).
  assert (Hy0 : 0 <= y0 < 0 + 400) by (subst y0; pose proof (Z.mod_pos_bound y 400); lia).
  rewrite Hy in Hd. rewrite days_in_month_period in Hd.
  pose proof (Zforall_range_spec _ _ _ era_dates_ok y0 Hy0) as H3. cbv beta in H3.
  assert (Hm : 1 <= m < 1 + 12) by lia.
  pose proof (Zforall_range_spec _ _ _ H3 m Hm) as H4.
  assert (Hd31 : 1 <= d < 1 + 31).
  { apply Z.leb_le in Hd. pose proof (days_in_month_le_max y0 m).
    pose proof (max_days_in_month_le_31 m). lia. }
  pose proof (Zforall_range_spec _ _ _ H4 d Hd31) as H5.
  unfold era_date_ok in H5. rewrite Hd in H5. cbn [implb] in H5. cbv zeta in H5.
  set (yoe := (if m <=? 2 then y0 - 1 else y0) mod 400) in *.
  apply andb_true_iff in H5. destruct H5 as [H5 Hc].
  apply andb_true_iff in H5. destruct H5 as [Hlo Hhi].
  apply Z.leb_le in Hlo. apply Z.ltb_lt in Hhi.
  (* the March-based year splits as era * 400 + yoe *)
  set (y' := if m <=? 2 then y - 1 else y).
  assert (Hyoe : y' mod 400 = yoe).
  { subst y' yoe. destruct (m <=? 2).
    - replace (y - 1) with (y0 - 1 + k * 400) by lia. apply Z_mod_plus_full.
    - replace y with (y0 + k * 400) at 1 by lia. apply Z_mod_plus_full. }
  unfold ordinal. fold y'. rewrite Hyoe.
  unfold civil.
  replace (y' / 400 * 146097 + doe_of yoe m d - 305 + 305)
    with (doe_of yoe m d + (y' / 400) * 146097) by ring.
  rewrite Z_mod_plus_full, Z_div_plus_full by lia.
  rewrite (Z.mod_small (doe_of yoe m d) 146097) by lia.
  rewrite (Z.div_small (doe_of yoe m d) 146097) by lia.
  destruct (civil_of_doe (doe_of yoe m d)) as [[yoe' m'] d'].
  apply andb_true_iff in Hc. destruct Hc as [Hc Hd'].
  apply andb_true_iff in Hc. destruct Hc as [Hyoe' Hm'].
  apply Z.eqb_eq in Hyoe', Hm', Hd'. subst yoe' m' d'.
  f_equal. f_equal.
  pose proof (Z.div_mod y' 400). rewrite Hyoe in *.
  subst y'. destruct (m <=? 2); lia.
Qed.

(* ------------------------------------------------------------------ range lemmas *)
Lemma civil_ranges n :
  1 <= month_of n <= 12 /\ 1 <= day_of n <= days_in_month (year_of n) (month_of n)
  /\ day_of n <= max_days_in_month (month_of n).
Proof.
  unfold month_of, day_of, year_of. pose proof (civil_valid n) as H.
  destruct (civil n) as [[y m] d]. simpl. unfold valid_date in H.
  repeat (apply andb_true_iff in H; destruct H as [H ?]).
  repeat match goal with H1 : (_ <=? _) = true |- _ => apply Z.leb_le in H1 end.
  pose proof (days_in_month_le_max y m). lia.
Qed.

Lemma weekday_range n : 0 <= weekday n < 7.
Proof. unfold weekday. apply Z.mod_pos_bound. lia. Qed.

Lemma weekday_next n : weekday (n + 1) = (weekday n + 1) mod 7.
Proof.
  unfold weekday. replace (n + 1 + 6) with (n + 6 + 1) by ring.
  rewrite Zplus_mod_idemp_l. reflexivity.
Qed.

Lemma civil_period n k :
  civil (n + 146097 * k) = (let '(y, m, d) := civil n in (y + 400 * k, m, d)).
Proof.
  unfold civil.
  replace (n + 146097 * k + 305) with (n + 305 + k * 146097) by ring.
  rewrite Z_mod_plus_full, Z_div_plus_full by lia.
  destruct (civil_of_doe ((n + 305) mod 146097)) as [[yoe m] d].
  f_equal. f_equal. ring.
Qed.

(* ------------------------------------------------------------------ order: years *)
(* first day of a year in closed form *)
Lemma ordinal_jan1 y :
  ordinal y 1 1 = 365 * (y - 1) + (y - 1) / 4 - (y - 1) / 100 + (y - 1) / 400 + 1.
Proof.
  unfold ordinal, doe_of.
  change (1 <=? 2) with true. change (2 <? 1) with false. cbv iota.
  change ((153 * (1 + 9) + 2) / 5) with 306.
  set (a := y - 1).
  pose proof (Z.div_mod a 400). pose proof (Z.mod_pos_bound a 400).
  set (e := a / 400) in *. set (r := a mod 400) in *.
  replace (a / 4) with (100 * e + r / 4)
    by (replace a with (r + (100 * e) * 4) by lia; rewrite Z_div_plus_full by lia; ring).
  replace (a / 100) with (4 * e + r / 100)
    by (replace a with (r + (4 * e) * 100) by lia; rewrite Z_div_plus_full by lia; ring).
  lia.
Qed.

Lemma ordinal_jan1_mono y1 y2 : y1 <= y2 -> ordinal y1 1 1 <= ordinal y2 1 1.
Proof.
  intro H. rewrite !ordinal_jan1.
  assert (H4 : (y1 - 1) / 4 <= (y2 - 1) / 4) by (apply Z.div_le_mono; lia).
  assert (H400 : (y1 - 1) / 400 <= (y2 - 1) / 400) by (apply Z.div_le_mono; lia).
  (* (a/4 - a/100) is monotone: a/100 = (a/4)/25 *)
  assert (E1 : (y1 - 1) / 100 = ((y1 - 1) / 4) / 25) by (rewrite Z.div_div by lia; reflexivity).
  assert (E2 : (y2 - 1) / 100 = ((y2 - 1) / 4) / 25) by (rewrite Z.div_div by lia; reflexivity).
  set (a1 := (y1 - 1) / 4) in *. set (a2 := (y2 - 1) / 4) in *.
  rewrite E1, E2.
  pose proof (Z.div_mod a1 25). pose proof (Z.mod_pos_bound a1 25).
  pose proof (Z.div_mod a2 25). pose proof (Z.mod_pos_bound a2 25).
  assert (a1 / 25 <= a2 / 25) by (apply Z.div_le_mono; lia).
  lia.
Qed.

(* every date of year y lies between Jan 1 of y and Jan 1 of y+1 *)

Lemma ordinal_shift y m d k : ordinal (y + 400 * k) m d = ordinal y m d + 146097 * k.
Proof.
  unfold ordinal.
  replace (if m <=? 2 then y + 400 * k - 1 else y + 400 * k)
    with ((if m <=? 2 then y - 1 else y) + k * 400) by (destruct (m <=? 2); ring).
  rewrite Z_div_plus_full, Z_mod_plus_full by lia. ring.
Qed.

Lemma ordinal_in_year y m d : valid_date y m d = true ->
  ordinal y 1 1 <= ordinal y m d < ordinal (y + 1) 1 1.
Proof.
  unfold valid_date. intro H.
  repeat (apply andb_true_iff in H; destruct H as [H ?]).
  repeat match goal with H1 : (_ <=? _) = true |- _ => apply Z.leb_le in H1 end.
  set (y0 := y mod 400). set (k := y / 400 - 1).
  assert (Hy : y = y0 + 400 + 400 * k) by (subst y0 k; pose proof (Z.div_mod y 400); lia).
  assert (Hy0 : 0 <= y0 < 0 + 400) by (subst y0; pose proof (Z.mod_pos_bound y 400); lia).
  assert (Hdim : days_in_month y m = days_in_month y0 m).
  { rewrite Hy. replace (y0 + 400 + 400 * k) with (y0 + 400 * (1 + k)) by ring.
    apply days_in_month_period. }
  pose proof (Zforall_range_spec _ _ _ year_spans_ok y0 Hy0) as H3. cbv beta in H3.
  assert (Hm : 1 <= m < 1 + 12) by lia.
  pose proof (Zforall_range_spec _ _ _ H3 m Hm) as H4.
  assert (Hd31 : 1 <= d < 1 + 31).
  { pose proof (days_in_month_le_max y m). pose proof (max_days_in_month_le_31 m). lia. }
  pose proof (Zforall_range_spec _ _ _ H4 d Hd31) as H5.
  unfold year_span_ok in H5.
  assert (Hdb : (d <=? days_in_month y0 m) = true) by (apply Z.leb_le; lia).
  rewrite Hdb in H5. cbn [implb] in H5. cbv zeta in H5.
  apply andb_true_iff in H5. destruct H5 as [Ha Hb].
  apply Z.leb_le in Ha. apply Z.ltb_lt in Hb.
  replace (y + 1) with (y0 + 401 + 400 * k) by lia. rewrite Hy.
  rewrite !ordinal_shift. lia.
Qed.

Lemma year_of_bounds n Y1 Y2 :
  ordinal Y1 1 1 <= n < ordinal (Y2 + 1) 1 1 -> Y1 <= year_of n <= Y2.
Proof.
  intro Hn. unfold year_of. pose proof (civil_spec n) as H.
  destruct (civil n) as [[y m] d]. simpl. destruct H as [Hv Ho].
  pose proof (ordinal_in_year y m d Hv) as Hy. rewrite Ho in Hy.
  split.
  - destruct (Z_le_gt_dec Y1 y); auto.
    assert (y + 1 <= Y1) by lia. pose proof (ordinal_jan1_mono _ _ H). lia.
  - destruct (Z_le_gt_dec y Y2); auto.
    assert (Y2 + 1 <= y) by lia. pose proof (ordinal_jan1_mono _ _ H). lia.
Qed.

(* ------------------------------------------------------------------ time of day *)
Definition sod_of (t : Z) : Z := t mod 86400.          (* second of day of an instant in seconds *)
Definition ord_of (t : Z) : Z := t / 86400.            (* ordinal day of an instant in seconds *)
Definition hour_of (t : Z) : Z := sod_of t / 3600.
Definition minute_of (t : Z) : Z := (sod_of t mod 3600) / 60.
Definition second_of (t : Z) : Z := sod_of t mod 60.

Lemma tod_ranges t :
  0 <= hour_of t <= 23 /\ 0 <= minute_of t <= 59 /\ 0 <= second_of t <= 59.
Proof.
  unfold hour_of, minute_of, second_of, sod_of.
  pose proof (Z.mod_pos_bound t 86400).
  Ltac Zify.zify_post_hook ::= Z.to_euclidean_division_equations.
  lia.
Qed.

Lemma tod_recompose t :
  t = ord_of t * 86400 + hour_of t * 3600 + minute_of t * 60 + second_of t.
Proof.
  unfold ord_of, hour_of, minute_of, second_of, sod_of.
  Ltac Zify.zify_post_hook ::= Z.to_euclidean_division_equations.
  lia.
Qed.

Lemma tod_of_parts n h mi s :
  0 <= h <= 23 -> 0 <= mi <= 59 -> 0 <= s <= 59 ->
  let t := n * 86400 + h * 3600 + mi * 60 + s in
  ord_of t = n /\ hour_of t = h /\ minute_of t = mi /\ second_of t = s.
Proof.
  intros. unfold t, ord_of, hour_of, minute_of, second_of, sod_of.
  Ltac Zify.zify_post_hook ::= Z.to_euclidean_division_equations.
  lia.
Qed.
