(* finite check 1 of Base/Calendar.v: every day of a 400-year era decodes to a valid date that encodes back *)
From Coq Require Import ZArith List Bool Lia.
From ACN Require Import Base.CalendarDefs.
Open Scope Z_scope.

Definition era_day_ok (doe : Z) : bool :=
  let '(yoe, m, d) := civil_of_doe doe in
  (0 <=? yoe) && (yoe <? 400) && (1 <=? m) && (m <=? 12) && (1 <=? d)
  && (d <=? days_in_month (if m <=? 2 then yoe + 1 else yoe) m)
  && (doe_of yoe m d =? doe).

Lemma era_days_ok : Zforall_range 0 146097 era_day_ok = true.
Proof. vm_compute. reflexivity. Qed.
