(* Base/Num.v — shared numeric helpers for the executable (Q) side of the models.
   Definitions only + small axiom-free lemmas.  No axioms. *)
From Coq Require Import ZArith QArith Qminmax Qabs Qround List Bool String.
Import ListNotations.
Open Scope Q_scope.

(* Result of a translated Python function that may raise. *)
Inductive res (A : Type) : Type :=
| Ok  (a : A)
| Err (e : string).
Arguments Ok {A} a.
Arguments Err {A} e.

(* Result of a translated Python method that mutates its object: both outcomes carry the
   object state (attributes written so far, effects emitted so far) at the point of exit. *)
Inductive resS (A : Type) : Type :=
| OkS  (a : A)
| ErrS (e : string) (a : A).
Arguments OkS {A} a.
Arguments ErrS {A} e a.
Definition stateS {A} (r : resS A) : A := match r with OkS a => a | ErrS _ a => a end.
Definition is_okS {A} (r : resS A) : bool := match r with OkS _ => true | ErrS _ _ => false end.
Definition errS {A} (r : resS A) : option string := match r with OkS _ => None | ErrS e _ => Some e end.

Definition res_map {A B} (f : A -> B) (r : res A) : res B :=
  match r with Ok a => Ok (f a) | Err e => Err e end.
Definition res_bind {A B} (r : res A) (f : A -> res B) : res B :=
  match r with Ok a => f a | Err e => Err e end.
Definition is_ok {A} (r : res A) : bool := match r with Ok _ => true | Err _ => false end.

(* boolean comparisons on Q *)
Definition Qleb (a b : Q) : bool := Qle_bool a b.
Definition Qltb (a b : Q) : bool := negb (Qle_bool b a).
Definition Qeqb (a b : Q) : bool := Qeq_bool a b.

Lemma Qleb_spec a b : Qleb a b = true <-> a <= b.
Proof. unfold Qleb. apply Qle_bool_iff. Qed.
Lemma Qltb_spec a b : Qltb a b = true <-> a < b.
Proof.
  unfold Qltb. rewrite negb_true_iff. split; intro H.
  - apply Qnot_le_lt. intro Hle. apply Qle_bool_iff in Hle. congruence.
  - destruct (Qle_bool b a) eqn:E; auto. apply Qle_bool_iff in E.
    exfalso. eapply Qlt_not_le; eauto.
Qed.
Lemma Qeqb_spec a b : Qeqb a b = true <-> a == b.
Proof. unfold Qeqb. apply Qeq_bool_iff. Qed.

(* |a - b| <= atol + rtol * |b|   (numpy.isclose) *)
Definition Qisclose (a b atol rtol : Q) : bool :=
  Qleb (Qabs (a - b)) (atol + rtol * Qabs b).

(* tolerance used by the correspondence checks: |m - i| <= 1e-9 * max(1,|m|) *)
Definition Qclose (m i : Q) : bool :=
  Qleb (Qabs (m - i)) ((1 # 1000000000) * Qmax 1 (Qabs m)).
Definition Qclose_tol (tol m i : Q) : bool :=
  Qleb (Qabs (m - i)) (tol * Qmax 1 (Qabs m)).

Fixpoint Qsum (l : list Q) : Q :=
  match l with [] => 0 | x :: r => x + Qsum r end.

Definition Qmin_list (d : Q) (l : list Q) : Q := fold_left Qmin l d.
Definition Qmax_list (d : Q) (l : list Q) : Q := fold_left Qmax l d.

(* Python int() on a float: truncation toward zero *)
Definition Qtrunc (q : Q) : Z := if Qleb 0 q then Qfloor q else Qceiling q.

(* ---- rational approximation of exp on arguments <= 0 (executable twin of R's exp) ----
   exp(x) = exp(x / 2^k)^(2^k); Taylor series of degree n on the reduced argument,
   every intermediate rounded to a dyadic grid so that sizes stay bounded.
   The accuracy (about 1e-18 on [-50, 0]) is validated against math.exp by the kernel
   correspondence stream; no theorem relies on it. *)
Definition qround (bits : positive) (q : Q) : Q :=
  Qfloor (q * inject_Z (Zpos (2 ^ bits)%positive)) # (2 ^ bits)%positive.

Fixpoint qexp_taylor (n : nat) (x : Q) (k : Z) (term acc : Q) : Q :=
  match n with
  | O => acc
  | S n' =>
      let term' := qround 90 (term * x / inject_Z k) in
      qexp_taylor n' x (k + 1)%Z term' (acc + term')
  end.

Fixpoint qsquare_n (n : nat) (y : Q) : Q :=
  match n with O => y | S n' => qsquare_n n' (qround 90 (y * y)) end.

Definition qexp (x : Q) : Q :=
  (* reduce by 2^10 : |x|/1024 small for |x| <= 700 *)
  let xr := x / inject_Z 1024 in
  let t := qexp_taylor 24 xr 1 1 1 in
  qsquare_n 10 t.

(* association lists keyed by Z *)
Fixpoint zassoc {A} (k : Z) (l : list (Z * A)) : option A :=
  match l with
  | [] => None
  | (k', v) :: r => if Z.eqb k k' then Some v else zassoc k r
  end.

Definition option_eqb {A} (eqb : A -> A -> bool) (a b : option A) : bool :=
  match a, b with
  | None, None => true
  | Some x, Some y => eqb x y
  | _, _ => false
  end.

Fixpoint list_eqb {A} (eqb : A -> A -> bool) (a b : list A) : bool :=
  match a, b with
  | [], [] => true
  | x :: a', y :: b' => eqb x y && list_eqb eqb a' b'
  | _, _ => false
  end.

Definition res_eqb {A} (eqb : A -> A -> bool) (a b : res A) : bool :=
  match a, b with
  | Ok x, Ok y => eqb x y
  | Err e1, Err e2 => String.eqb e1 e2
  | _, _ => false
  end.

(* index of first false in a list of verdicts, and count of falses *)
Fixpoint count_bad (l : list bool) : nat :=
  match l with [] => O | b :: r => (if b then O else 1%nat) + count_bad r end.
Fixpoint first_bad_from (i : nat) (l : list bool) : option nat :=
  match l with
  | [] => None
  | b :: r => if b then first_bad_from (S i) r else Some i
  end.
Definition first_bad := first_bad_from O.
Fixpoint bad_indices_from (i : nat) (l : list bool) : list nat :=
  match l with
  | [] => []
  | b :: r => if b then bad_indices_from (S i) r else i :: bad_indices_from (S i) r
  end.
Definition bad_indices := bad_indices_from O.
