(* Base/NumR.v — boolean comparisons on R used by the R twin of the generated kernels.
   Depends on the standard real-number axioms (through Reals). *)
From Coq Require Import Reals Lra Bool.
Open Scope R_scope.

Definition Rleb (a b : R) : bool := if Rle_dec a b then true else false.
Definition Rltb (a b : R) : bool := if Rlt_dec a b then true else false.
Definition Reqb (a b : R) : bool := if Req_EM_T a b then true else false.
Definition Risclose (a b atol rtol : R) : bool := Rleb (Rabs (a - b)) (atol + rtol * Rabs b).

Lemma Rleb_spec a b : Rleb a b = true <-> a <= b.
Proof. unfold Rleb; destruct (Rle_dec a b); split; intros; auto; discriminate. Qed.
Lemma Rltb_spec a b : Rltb a b = true <-> a < b.
Proof. unfold Rltb; destruct (Rlt_dec a b); split; intros; auto; discriminate. Qed.
Lemma Reqb_spec a b : Reqb a b = true <-> a = b.
Proof. unfold Reqb; destruct (Req_EM_T a b); split; intros; auto; discriminate. Qed.
Lemma Rleb_false a b : Rleb a b = false <-> b < a.
Proof. unfold Rleb; destruct (Rle_dec a b); split; intros; try discriminate; lra. Qed.
Lemma Rltb_false a b : Rltb a b = false <-> b <= a.
Proof. unfold Rltb; destruct (Rlt_dec a b); split; intros; try discriminate; lra. Qed.
Lemma Reqb_false a b : Reqb a b = false <-> a <> b.
Proof. unfold Reqb; destruct (Req_EM_T a b); split; intros; try discriminate; congruence. Qed.

(* destruct every boolean comparison in the goal / hypotheses, turning it into a Prop fact *)
Ltac rbool :=
  repeat match goal with
  | H : context [Rleb ?a ?b] |- _ =>
      let E := fresh "E" in destruct (Rleb a b) eqn:E;
      [apply Rleb_spec in E | apply Rleb_false in E]
  | |- context [Rleb ?a ?b] =>
      let E := fresh "E" in destruct (Rleb a b) eqn:E;
      [apply Rleb_spec in E | apply Rleb_false in E]
  | H : context [Rltb ?a ?b] |- _ =>
      let E := fresh "E" in destruct (Rltb a b) eqn:E;
      [apply Rltb_spec in E | apply Rltb_false in E]
  | |- context [Rltb ?a ?b] =>
      let E := fresh "E" in destruct (Rltb a b) eqn:E;
      [apply Rltb_spec in E | apply Rltb_false in E]
  | H : context [Reqb ?a ?b] |- _ =>
      let E := fresh "E" in destruct (Reqb a b) eqn:E;
      [apply Reqb_spec in E | apply Reqb_false in E]
  | |- context [Reqb ?a ?b] =>
      let E := fresh "E" in destruct (Reqb a b) eqn:E;
      [apply Reqb_spec in E | apply Reqb_false in E]
  end.

Lemma Rabs_spec a : (0 <= a /\ Rabs a = a) \/ (a < 0 /\ Rabs a = - a).
Proof.
  destruct (Rle_dec 0 a); [left|right]; split; try lra.
  - apply Rabs_pos_eq; lra.
  - apply Rabs_left; lra.
Qed.

Lemma Rmin_cases a b : (a <= b /\ Rmin a b = a) \/ (b < a /\ Rmin a b = b).
Proof. unfold Rmin; destruct (Rle_dec a b); [left|right]; split; lra. Qed.
Lemma Rmax_cases a b : (a <= b /\ Rmax a b = b) \/ (b < a /\ Rmax a b = a).
Proof. unfold Rmax; destruct (Rle_dec a b); [left|right]; split; lra. Qed.

(* case-split every Rmin / Rmax / Rabs *)
Ltac rminmax :=
  repeat match goal with
  | |- context [Rmin ?a ?b] =>
      let H := fresh "Hmin" in
      destruct (Rmin_cases a b) as [[? H]|[? H]]; rewrite H in *
  | H0 : context [Rmin ?a ?b] |- _ =>
      let H := fresh "Hmin" in
      destruct (Rmin_cases a b) as [[? H]|[? H]]; rewrite H in *
  | |- context [Rmax ?a ?b] =>
      let H := fresh "Hmax" in
      destruct (Rmax_cases a b) as [[? H]|[? H]]; rewrite H in *
  | H0 : context [Rmax ?a ?b] |- _ =>
      let H := fresh "Hmax" in
      destruct (Rmax_cases a b) as [[? H]|[? H]]; rewrite H in *
  | |- context [Rabs ?a] =>
      let H := fresh "Habs" in
      destruct (Rabs_spec a) as [[? H]|[? H]]; rewrite H in *
  | H0 : context [Rabs ?a] |- _ =>
      let H := fresh "Habs" in
      destruct (Rabs_spec a) as [[? H]|[? H]]; rewrite H in *
  end.
