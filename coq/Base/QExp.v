(* Base/QExp.v — a faster evaluation of Num.qexp (same value).
   Num.qexp_taylor adds terms with denominator 2^90 without reducing the sum, so the accumulator
   reaches a 2^2250 denominator and the first squaring costs a 4500-bit long division (0.3 s in
   vm_compute).  qexp_fast rounds the accumulator to the same 2^-90 grid after every addition —
   an exact operation, since both summands are on that grid.  No axioms. *)
From Coq Require Import ZArith QArith Qround Lia.
From ACN Require Import Base.Num.
Open Scope Q_scope.

Fixpoint qexp_taylor_r (n : nat) (x : Q) (k : Z) (term acc : Q) : Q :=
  match n with
  | O => acc
  | S n' =>
      let term' := qround 90 (term * x / inject_Z k) in
      qexp_taylor_r n' x (k + 1)%Z term' (qround 90 (acc + term'))
  end.

Definition qexp_fast (x : Q) : Q :=
  qsquare_n 10 (qexp_taylor_r 24 (x / inject_Z 1024) 1 1 1).

(* qround gives Leibniz-equal results on ==-equal arguments *)
Lemma qround_comp bits a b : a == b -> qround bits a = qround bits b.
Proof.
  intro H. unfold qround. f_equal. apply Qfloor_comp. rewrite H. reflexivity.
Qed.

(* a value on the 2^-bits grid is a fixed point of qround (up to ==) *)
Lemma qround_grid bits (m : Z) : qround bits (m # (2 ^ bits)) == m # (2 ^ bits).
Proof.
  unfold qround.
  assert (E : Qfloor ((m # 2 ^ bits) * inject_Z (Z.pos (2 ^ bits))) = m).
  { unfold Qfloor, Qmult, inject_Z. cbn [Qnum Qden].
    rewrite Pos.mul_1_r. apply Z.div_mul. discriminate. }
  rewrite E. reflexivity.
Qed.

Definition on_grid (bits : positive) (q : Q) : Prop := exists m : Z, q == m # (2 ^ bits).

Lemma qround_on_grid bits q : on_grid bits (qround bits q).
Proof. unfold qround. eexists. reflexivity. Qed.

Lemma on_grid_plus bits a b : on_grid bits a -> on_grid bits b -> on_grid bits (a + b).
Proof.
  intros [m Hm] [n Hn]. exists (m + n)%Z. rewrite Hm, Hn.
  unfold Qeq, Qplus. cbn [Qnum Qden]. rewrite Pos2Z.inj_mul. ring.
Qed.

Lemma on_grid_comp bits a b : a == b -> on_grid bits a -> on_grid bits b.
Proof. intros H [m Hm]. exists m. rewrite <- H. exact Hm. Qed.

Lemma qround_fix bits q : on_grid bits q -> qround bits q == q.
Proof.
  intros [m Hm]. rewrite (qround_comp bits q (m # 2 ^ bits) Hm). rewrite qround_grid. symmetry. exact Hm.
Qed.

Lemma qexp_taylor_r_eq n : forall x k term acc acc',
  acc' == acc -> on_grid 90 acc ->
  qexp_taylor_r n x k term acc' == qexp_taylor n x k term acc.
Proof.
  induction n as [|n IH]; intros x k term acc acc' H G; cbn [qexp_taylor_r qexp_taylor].
  - exact H.
  - cbv zeta. apply IH.
    + assert (G2 : on_grid 90 (acc + qround 90 (term * x / inject_Z k))).
      { apply on_grid_plus; [exact G | apply qround_on_grid]. }
      rewrite (qround_comp 90 _ (acc + qround 90 (term * x / inject_Z k))).
      * apply qround_fix. exact G2.
      * rewrite H. reflexivity.
    + apply on_grid_plus; [exact G | apply qround_on_grid].
Qed.

Lemma qsquare_n_comp n : forall a b, a == b -> (0 < n)%nat -> qsquare_n n a = qsquare_n n b.
Proof.
  destruct n as [|n]; [lia|]. intros a b H _. cbn [qsquare_n].
  f_equal. apply qround_comp. rewrite H. reflexivity.
Qed.

Theorem qexp_fast_eq x : qexp_fast x = qexp x.
Proof.
  unfold qexp_fast, qexp. cbv zeta. apply qsquare_n_comp; [|lia].
  apply qexp_taylor_r_eq; [reflexivity|].
  exists (2 ^ 90)%Z. reflexivity.
Qed.
