(* Base/ListX.v — list utilities shared by models: duplicate-free sorted insertion
   (Python's sorted(set(l))), update-at-index, etc.  Polymorphic; no axioms. *)
From Coq Require Import List Bool Arith Lia.
Import ListNotations.

Section SortDedup.
  Variable A : Type.
  Variable leb eqb : A -> A -> bool.

  Fixpoint insert_dedup (x : A) (l : list A) : list A :=
    match l with
    | [] => [x]
    | y :: r => if eqb x y then y :: r
                else if leb x y then x :: y :: r
                else y :: insert_dedup x r
    end.

  Definition sort_dedup (l : list A) : list A := fold_right insert_dedup [] l.

  Definition mem (x : A) (l : list A) : bool := existsb (eqb x) l.

  Hypothesis eqb_refl : forall x, eqb x x = true.
  Hypothesis eqb_sym : forall x y, eqb x y = eqb y x.
  Hypothesis eqb_trans : forall x y z, eqb x y = true -> eqb y z = true -> eqb x z = true.

  Lemma mem_insert_dedup x y l :
    mem y (insert_dedup x l) = eqb y x || mem y l.
  Proof.
    induction l as [|a l IH]; simpl.
    - now rewrite orb_false_r.
    - destruct (eqb x a) eqn:Exa.
      + simpl. destruct (eqb y x) eqn:Eyx; simpl; auto.
        rewrite (eqb_trans y x a Eyx Exa). reflexivity.
      + destruct (leb x a); simpl.
        * reflexivity.
        * rewrite IH. destruct (eqb y a), (eqb y x); reflexivity.
  Qed.

  Lemma mem_sort_dedup y l : mem y (sort_dedup l) = mem y l.
  Proof.
    induction l as [|a l IH]; simpl; auto.
    rewrite mem_insert_dedup, IH. reflexivity.
  Qed.
End SortDedup.
Arguments insert_dedup {A}.
Arguments sort_dedup {A}.
Arguments mem {A}.

Fixpoint upd {A} (n : nat) (x : A) (l : list A) : list A :=
  match l, n with
  | [], _ => []
  | _ :: r, O => x :: r
  | y :: r, S n' => y :: upd n' x r
  end.

Lemma upd_length {A} n (x : A) l : length (upd n x l) = length l.
Proof. revert n; induction l; destruct n; simpl; auto. Qed.

Lemma nth_upd_same {A} n (x d : A) l : n < length l -> nth n (upd n x l) d = x.
Proof. revert n; induction l; destruct n; simpl; intros; try lia; auto. apply IHl; lia. Qed.

Lemma nth_upd_other {A} n m (x d : A) l : n <> m -> nth m (upd n x l) d = nth m l d.
Proof. revert n m; induction l; destruct n, m; simpl; intros; try lia; auto. Qed.
