(* finite check 2 of Base/Calendar.v: every valid date of a 400-year cycle encodes into the era and decodes back *)
From Coq Require Import ZArith List Bool Lia.
From ACN Require Import Base.CalendarDefs.
Open Scope Z_scope.

Definition era_date_ok (y0 m d : Z) : bool :=
  implb (d <=? days_in_month y0 m)
    (let yoe := (if m <=? 2 then y0 - 1 else y0) mod 400 in
     let doe := doe_of yoe m d in
     (0 <=? doe) && (doe <? 146097) &&
     (let '(yoe', m', d') := civil_of_doe doe in (yoe' =? yoe) && (m' =? m) && (d' =? d))).

Lemma era_dates_ok :
  Zforall_range 0 400 (fun y0 => Zforall_range 1 12 (fun m => Zforall_range 1 31 (era_date_ok y0 m))) = true.
Proof. vm_compute. reflexivity. Qed.
