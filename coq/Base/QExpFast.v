(* Base/QExpFast.v — a fast executable rational approximation of exp on arguments <= 0,
   in fixed point (integers scaled by 2^120, shifts instead of divisions).  Used by the Q twins
   of kernels that are evaluated many times per correspondence case (C15: bisection of the
   capacity fit, charging a battery for a whole stay).  Like Num.qexp its accuracy (absolute
   error < 1e-28 for x <= 0) is validated against math.exp by the correspondence streams and no
   theorem relies on it: theorems about exp are proved over R.  No axioms. *)
From Coq Require Import ZArith QArith Qround.
From ACN Require Import Base.Num.
Open Scope Z_scope.

Definition fx_bits : Z := 120.
Definition fx_one : Z := Z.shiftl 1 fx_bits.
Definition fx_mul (a b : Z) : Z := Z.shiftr (a * b) fx_bits.

(* 1 + x + x^2/2 + ... + x^7/7!  in fixed point (|x| < 2^-13 after reduction) *)
Definition fx_taylor (x : Z) : Z :=
  let t1 := x in
  let t2 := fx_mul t1 x / 2 in
  let t3 := fx_mul t2 x / 3 in
  let t4 := fx_mul t3 x / 4 in
  let t5 := fx_mul t4 x / 5 in
  let t6 := fx_mul t5 x / 6 in
  let t7 := fx_mul t6 x / 7 in
  fx_one + t1 + t2 + t3 + t4 + t5 + t6 + t7.

Fixpoint fx_square_n (n : nat) (y : Z) : Z :=
  match n with O => y | S k => fx_square_n k (fx_mul y y) end.

Definition fx_exp_neg (x : Z) : Z :=           (* x <= 0, fixed point; exp(x) = exp(x/2^20)^(2^20) *)
  fx_square_n 20 (fx_taylor (Z.shiftr x 20)).

Open Scope Q_scope.
Definition qexpf (x : Q) : Q :=
  if Qleb x 0 then
    if Qleb x (-(85)) then 0
    else
      let X := Qfloor (x * inject_Z fx_one) in
      Qmake (fx_exp_neg X) (Z.to_pos fx_one)
  else qexp x.
