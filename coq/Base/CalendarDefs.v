(* Base/CalendarDefs.v — definitions of Base/Calendar.v (split so that the three era-wide
   finite checks compile in parallel).
   Base/Calendar.v — proleptic Gregorian calendar over Z, as used by Python's datetime:
   ordinal y m d  = date(y,m,d).toordinal()   (0001-01-01 -> 1)
   civil n        = date.fromordinal(n)       as (year, month, day)
   weekday n      = date.weekday()            (Monday = 0)
   Instants are integer counts of seconds (or microseconds) of *wall-clock* time since the
   fictitious midnight of ordinal 0:  t = ordinal * 86400 + second_of_day.
   The algorithm is the era-based one (400-year eras of 146097 days).  Round trips are proved by
   evaluating the era-relative parts over one whole era (a genuinely finite domain) and lifting
   to all Z by the definitional periodicity.  No axioms. *)
From Coq Require Import ZArith List Bool Lia.
Import ListNotations.
Open Scope Z_scope.

(* ------------------------------------------------------------------ finite universal checks *)
(* all i in [lo, lo + n) satisfy p — iteration on a binary positive, no unary numbers *)
Definition range_step (p : Z -> bool) (st : Z * bool) : Z * bool :=
  (fst st + 1, snd st && p (fst st)).
Definition Zforall_range (lo : Z) (n : positive) (p : Z -> bool) : bool :=
  snd (Pos.iter (range_step p) (lo, true) n).

Lemma Zforall_range_iter lo n p :
  fst (Pos.iter (range_step p) (lo, true) n) = lo + Zpos n /\
  (snd (Pos.iter (range_step p) (lo, true) n) = true ->
   forall i, lo <= i < lo + Zpos n -> p i = true).
Proof.
  induction n using Pos.peano_ind.
  - simpl. split; [lia|]. intros H i Hi. assert (i = lo) by lia. subst. exact H.
  - rewrite Pos.iter_succ. destruct IHn as [Hf Hs].
    destruct (Pos.iter (range_step p) (lo, true) n) as [k b] eqn:E.
    simpl in *. subst k. split; [lia|].
    intros H i Hi. apply andb_true_iff in H. destruct H as [Hb Hp].
    destruct (Z.eq_dec i (lo + Z.pos n)) as [->|Hne]; auto.
    apply Hs; auto. lia.
Qed.

Lemma Zforall_range_spec lo n p :
  Zforall_range lo n p = true -> forall i, lo <= i < lo + Zpos n -> p i = true.
Proof. unfold Zforall_range. apply Zforall_range_iter. Qed.

(* ------------------------------------------------------------------ definitions *)
Definition is_leap (y : Z) : bool :=
  ((y mod 4 =? 0) && negb (y mod 100 =? 0)) || (y mod 400 =? 0).

(* most days a month can have in any year (February 29 included) *)
Definition max_days_in_month (m : Z) : Z :=
  if m =? 2 then 29
  else if (m =? 4) || (m =? 6) || (m =? 9) || (m =? 11) then 30 else 31.

Definition days_in_month (y m : Z) : Z :=
  if (m =? 2) && negb (is_leap y) then 28 else max_days_in_month m.

Definition valid_date (y m d : Z) : bool :=
  (1 <=? m) && (m <=? 12) && (1 <=? d) && (d <=? days_in_month y m).

(* day of era from (March-based year of era in [0,400), month, day) *)
Definition doe_of (yoe m d : Z) : Z :=
  let mp := if 2 <? m then m - 3 else m + 9 in
  let doy := (153 * mp + 2) / 5 + d - 1 in
  yoe * 365 + yoe / 4 - yoe / 100 + doy.

Definition ordinal (y m d : Z) : Z :=
  let y' := if m <=? 2 then y - 1 else y in
  (y' / 400) * 146097 + doe_of (y' mod 400) m d - 305.

(* (March-based year of era, month, day) from day of era in [0,146097) *)
Definition civil_of_doe (doe : Z) : Z * Z * Z :=
  let yoe := (doe - doe / 1460 + doe / 36524 - doe / 146096) / 365 in
  let doy := doe - (365 * yoe + yoe / 4 - yoe / 100) in
  let mp := (5 * doy + 2) / 153 in
  let d := doy - (153 * mp + 2) / 5 + 1 in
  let m := if mp <? 10 then mp + 3 else mp - 9 in
  (yoe, m, d).

Definition civil (n : Z) : Z * Z * Z :=
  let z := n + 305 in
  let '(yoe, m, d) := civil_of_doe (z mod 146097) in
  ((if m <=? 2 then yoe + 1 else yoe) + (z / 146097) * 400, m, d).

Definition weekday (n : Z) : Z := (n + 6) mod 7.

Definition year_of (n : Z) : Z := fst (fst (civil n)).
Definition month_of (n : Z) : Z := snd (fst (civil n)).
Definition day_of (n : Z) : Z := snd (civil n).

