(* Base/ResumeBase.v — vocabulary shared by the generated Gen/Serial.v and Model/Resume.v (C09).
   Definitions only. *)
From Coq Require Import ZArith List Bool String.
Import ListNotations.

(* The statements that may occur in a branch of Simulator._process_event, as data.
   tools/serial_gen.py maps each statement of the if/elif chain to one constructor
   (and refuses anything else); Model/Resume.v interprets them.
     PE_plugin             self.network.plugin(event.ev)
     PE_unplug             self.network.unplug(event.ev.station_id, event.ev.session_id)
     PE_record_ev          self.ev_history[event.ev.session_id] = event.ev
     PE_push_unplug        self.event_queue.add_event(UnplugEvent(event.ev.departure, event.ev))
     PE_set_resolve b      self._resolve = b
     PE_set_last_update_ts self._last_schedule_update = event.timestamp                      *)
Inductive pe_effect : Type :=
| PE_plugin
| PE_unplug
| PE_record_ev
| PE_push_unplug
| PE_set_resolve (b : bool)
| PE_set_last_update_ts.

Definition pe_effect_eqb (a b : pe_effect) : bool :=
  match a, b with
  | PE_plugin, PE_plugin | PE_unplug, PE_unplug | PE_record_ev, PE_record_ev
  | PE_push_unplug, PE_push_unplug | PE_set_last_update_ts, PE_set_last_update_ts => true
  | PE_set_resolve x, PE_set_resolve y => Bool.eqb x y
  | _, _ => false
  end.

(* association list keyed by strings: first match wins (an if/elif chain, a dict literal) *)
Fixpoint sassoc {A} (k : string) (l : list (string * A)) : option A :=
  match l with
  | [] => None
  | (k', v) :: r => if String.eqb k k' then Some v else sassoc k r
  end.

Definition smem (k : string) (l : list string) : bool := existsb (String.eqb k) l.
