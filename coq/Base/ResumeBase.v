(* Base/ResumeBase.v — vocabulary shared by the generated Gen/Serial.v and Model/Resume.v (C09).
   Definitions only. *)
From Coq Require Import ZArith List Bool String.
Import ListNotations.

(* The statements that may occur in a branch of Simulator._process_event, as data.
   tools/serial_gen.py maps each statement of the if/elif chain to one constructor
   (and refuses anything else); Model/Resume.v interprets them.
     PE_plugin             self.network.plugin(event.ev)
     PE_unplug             self.network.unplug(event.ev.station_id, event.ev.session_id)
     PE_record_ev          self.ev_history[event.ev.session_id] = event.ev
     PE_push_unplug        self.event_queue.add_event(UnplugEvent(event.ev.departure, event.ev))
     PE_set_resolve b      self._resolve = b
     PE_set_last_update_ts self._last_schedule_update = event.timestamp                      *)
Inductive pe_effect : Type :=
| PE_plugin
| PE_unplug
| PE_record_ev
| PE_push_unplug
| PE_set_resolve (b : bool)
| PE_set_last_update_ts.

Definition pe_effect_eqb (a b : pe_effect) : bool :=
  match a, b with
  | PE_plugin, PE_plugin | PE_unplug, PE_unplug | PE_record_ev, PE_record_ev
  | PE_push_unplug, PE_push_unplug | PE_set_last_update_ts, PE_set_last_update_ts => true
  | PE_set_resolve x, PE_set_resolve y => Bool.eqb x y
  | _, _ => false
  end.

(* association list keyed by strings: first match wins (an if/elif chain, a dict literal) *)
Fixpoint sassoc {A} (k : string) (l : list (string * A)) : option A :=
  match l with
  | [] => None
  | (k', v) :: r => if String.eqb k k' then Some v else sassoc k r
  end.

Definition smem (k : string) (l : list string) : bool := existsb (String.eqb k) l.

(* The statements of the `while` body of Simulator.run, as data (tools/serial_gen.py); the flag
   paired with each statement in Gen/Serial.run_loop_prog says whether it stands inside the
   `if <recompute condition>:` block.
     RS_pop            current_events = self.event_queue.get_current_events(self._iteration)
     RS_process        for e in current_events: self.event_history.append(e); self._process_event(e)
     RS_test_due       evaluation of the recompute condition (Gen/ResumeZ_Z.Run_recompute)
     RS_call           new_schedule = self.scheduler.run()          (may raise)
     RS_set_last_iter  self._last_schedule_update = self._iteration
     RS_set_resolve b  self._resolve = b
     RS_rest text      any other statement; it must not write _iteration/_resolve/_last_schedule_update,
                       the queue, event_history or call the scheduler (checked by the generator)
     RS_inc_iter       self._iteration = self._iteration + 1                                        *)
Inductive run_stmt : Type :=
| RS_pop
| RS_process
| RS_test_due
| RS_call
| RS_set_last_iter
| RS_set_resolve (b : bool)
| RS_rest (text : string)
| RS_inc_iter.
