(* Base/Sort.v — stable insertion sort by a boolean preorder (the model of Python's list.sort /
   sorted(), which are stable: the result is determined by the order alone), with the facts the
   tariff proofs need: permutation, sortedness, first match of a sorted list.  No axioms. *)
From Coq Require Import List Bool Sorting.Permutation Sorting.Sorted.
Import ListNotations.

Section Isort.
  Variable A : Type.
  Variable leb : A -> A -> bool.

  Fixpoint insert_sorted (x : A) (l : list A) : list A :=
    match l with
    | [] => [x]
    | y :: r => if leb x y then x :: y :: r else y :: insert_sorted x r
    end.

  Definition isort (l : list A) : list A := fold_right insert_sorted [] l.

  Lemma insert_sorted_perm x l : Permutation (x :: l) (insert_sorted x l).
  Proof.
    induction l as [|y r IH]; simpl; auto.
    destruct (leb x y); auto.
    eapply perm_trans; [apply perm_swap|]. now constructor.
  Qed.

  Lemma isort_perm l : Permutation l (isort l).
  Proof.
    induction l as [|x l IH]; simpl; auto.
    eapply perm_trans; [|apply insert_sorted_perm]. now constructor.
  Qed.

  Lemma isort_in x l : In x (isort l) <-> In x l.
  Proof.
    split; apply Permutation_in; [apply Permutation_sym|]; apply isort_perm.
  Qed.

  Lemma isort_length l : length (isort l) = length l.
  Proof. symmetry. apply Permutation_length, isort_perm. Qed.

  Hypothesis leb_total : forall x y, leb x y = true \/ leb y x = true.
  Hypothesis leb_trans : forall x y z, leb x y = true -> leb y z = true -> leb x z = true.

  Definition le (x y : A) : Prop := leb x y = true.

  Lemma insert_sorted_sorted x l : StronglySorted le l -> StronglySorted le (insert_sorted x l).
  Proof.
    induction 1 as [|y r Hs IH Hall]; simpl.
    - constructor; constructor.
    - destruct (leb x y) eqn:E.
      + constructor; [constructor; assumption|].
        constructor; [exact E|].
        rewrite Forall_forall in *. intros z Hz. eapply leb_trans; [exact E|]. now apply Hall.
      + constructor; [assumption|].
        rewrite Forall_forall in *. intros z Hz.
        apply (Permutation_in _ (Permutation_sym (insert_sorted_perm x r))) in Hz.
        destruct Hz as [<-|Hz]; [|now apply Hall].
        destruct (leb_total x y) as [H|H]; [congruence|exact H].
  Qed.

  Lemma isort_sorted l : StronglySorted le (isort l).
  Proof. induction l; simpl; [constructor|now apply insert_sorted_sorted]. Qed.
End Isort.
Arguments insert_sorted {A}.
Arguments isort {A}.

(* the first element of a sorted list that satisfies p dominates... nothing: it is the SMALLEST match *)
Lemma find_sorted_first {A} (le : A -> A -> Prop) (p : A -> bool) (l : list A) x :
  StronglySorted le l -> find p l = Some x ->
  In x l /\ p x = true /\ forall y, In y l -> p y = true -> x = y \/ le x y.
Proof.
  induction 1 as [|a r Hs IH Hall]; simpl; [discriminate|].
  destruct (p a) eqn:E.
  - intros [= <-]. split; [now left|]. split; [assumption|].
    intros y [<-|Hy] _; [now left|]. right. rewrite Forall_forall in Hall. now apply Hall.
  - intros Hf. destruct (IH Hf) as (Hin & Hp & Hmin). split; [now right|]. split; [assumption|].
    intros y [<-|Hy] Hpy; [congruence|]. now apply Hmin.
Qed.

Lemma find_none_iff {A} (p : A -> bool) (l : list A) :
  find p l = None <-> forall y, In y l -> p y = false.
Proof.
  induction l as [|a r IH]; simpl.
  - split; [intros _ y []|reflexivity].
  - destruct (p a) eqn:E.
    + split; [discriminate|]. intros H. specialize (H a (or_introl eq_refl)). congruence.
    + rewrite IH. split.
      * intros H y [<-|Hy]; auto.
      * intros H y Hy. apply H. now right.
Qed.

Lemma Permutation_filter {A} (f : A -> bool) (l l' : list A) :
  Permutation l l' -> Permutation (filter f l) (filter f l').
Proof.
  induction 1; simpl; auto.
  - destruct (f x); auto.
  - destruct (f x), (f y); auto. apply perm_swap.
  - eapply perm_trans; eauto.
Qed.
