(* Base/TariffRaw.v — shape of one entry of a tariff JSON file's "schedule" array, as dumped by
   tools/dump_tariffs.py into Gen/Tariffs.v (JSON tree level: strings stay strings where the
   constructor interprets them; numbers are exact rationals). *)
From Coq Require Import ZArith QArith List String.

Record raw_schedule := {
  rs_id      : string;
  rs_start   : list Z;        (* "effective_start".split("-") as integers *)
  rs_end     : list Z;        (* "effective_end".split("-") as integers *)
  rs_mask    : string;        (* "dow_mask" verbatim *)
  rs_times   : list Q;        (* "times": hours since midnight (exact value of the JSON number) *)
  rs_tariffs : list Q;        (* "tariffs": float(x) exactly *)
  rs_demand  : Q              (* "demand_charge" *)
}.
