(* Base/Lex.v — Python tuple comparison on tuples of integers (lexicographic, a proper prefix is
   smaller) and list indexing by an integer, used by the translated tariff predicates. No axioms. *)
From Coq Require Import ZArith List Bool Lia.
Import ListNotations.
Open Scope Z_scope.

Fixpoint lex_leb (a b : list Z) : bool :=
  match a, b with
  | [], _ => true
  | _ :: _, [] => false
  | x :: a', y :: b' => if x =? y then lex_leb a' b' else x <? y
  end.

Fixpoint lex_ltb (a b : list Z) : bool :=
  match a, b with
  | _, [] => false
  | [], _ :: _ => true
  | x :: a', y :: b' => if x =? y then lex_ltb a' b' else x <? y
  end.

(* l[i] for 0 <= i < len l (Python would raise IndexError outside; the models only index
   weekday masks of length 7 by a weekday) *)
Definition nth_bool (l : list bool) (i : Z) : bool := nth (Z.to_nat i) l false.

Lemma lex_ltb_negb_leb a b : lex_ltb a b = negb (lex_leb b a).
Proof.
  revert b; induction a as [|x a IH]; destruct b as [|y b]; simpl; auto.
  rewrite (Z.eqb_sym y x). destruct (x =? y) eqn:E; [apply IH|].
  apply Z.eqb_neq in E. rewrite Z.ltb_antisym. f_equal.
  destruct (y <? x) eqn:E1, (y <=? x) eqn:E2; auto; lia.
Qed.

Lemma lex_leb_refl a : lex_leb a a = true.
Proof. induction a; simpl; auto. now rewrite Z.eqb_refl. Qed.

Lemma lex_leb_pair a1 a2 b1 b2 :
  lex_leb [a1; a2] [b1; b2] = (a1 <? b1) || ((a1 =? b1) && (a2 <=? b2)).
Proof.
  simpl. destruct (a1 =? b1) eqn:E.
  - apply Z.eqb_eq in E. subst. rewrite Z.ltb_irrefl. simpl.
    destruct (a2 =? b2) eqn:E2.
    + apply Z.eqb_eq in E2. subst. now rewrite Z.leb_refl.
    + apply Z.eqb_neq in E2. destruct (a2 <? b2) eqn:L, (a2 <=? b2) eqn:L2; auto; lia.
  - now rewrite andb_false_l, orb_false_r.
Qed.

Lemma lex_leb_trans a b c : lex_leb a b = true -> lex_leb b c = true -> lex_leb a c = true.
Proof.
  revert b c; induction a as [|x a IH]; intros [|y b] [|z c]; simpl; auto; try discriminate.
  destruct (Z.eqb_spec x y), (Z.eqb_spec y z), (Z.eqb_spec x z); subst;
    intros H1 H2; try (apply Z.ltb_lt in H1); try (apply Z.ltb_lt in H2);
    try (apply Z.ltb_lt); try lia; eauto.
Qed.

Lemma lex_leb_total a b : lex_leb a b = true \/ lex_leb b a = true.
Proof.
  revert b; induction a as [|x a IH]; destruct b as [|y b]; simpl; auto.
  rewrite (Z.eqb_sym y x). destruct (x =? y) eqn:E; [apply IH|].
  apply Z.eqb_neq in E. destruct (x <? y) eqn:L; auto. right. apply Z.ltb_lt. apply Z.ltb_ge in L. lia.
Qed.
