(* finite check 3 of Base/Calendar.v: every date of a year lies between Jan 1 of that year and of the next *)
From Coq Require Import ZArith List Bool Lia.
From ACN Require Import Base.CalendarDefs.
Open Scope Z_scope.

Definition year_span_ok (y0 m d : Z) : bool :=
  implb (d <=? days_in_month y0 m)
    (let j := ordinal (y0 + 400) 1 1 in
     let n := ordinal (y0 + 400) m d in
     (j <=? n) && (n <? ordinal (y0 + 401) 1 1)).

Lemma year_spans_ok :
  Zforall_range 0 400 (fun y0 => Zforall_range 1 12 (fun m => Zforall_range 1 31 (year_span_ok y0 m))) = true.
Proof. vm_compute. reflexivity. Qed.
