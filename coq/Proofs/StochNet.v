(* Proofs/StochNet.v — invariants of the StochasticNetwork model (Model/StochNet.v) along every
   well-formed history and for every choice function.  No axioms. *)
From Coq Require Import ZArith List Bool String Arith Lia Sorted Permutation.
From ACN Require Import Base.Num Gen.EvseZ_Z Model.StochNet.
Import ListNotations.
Open Scope Z_scope.
Open Scope list_scope.

Notation cnt := (count_occ Z.eq_dec).

(* ------------------------------------------------------------------------------------------ *)
(* lists of integers                                                                          *)
(* ------------------------------------------------------------------------------------------ *)
Lemma zmem_In x l : zmem x l = true <-> In x l.
Proof.
  unfold zmem. rewrite existsb_exists. split.
  - intros [y [Hy E]]. apply Z.eqb_eq in E. now subst.
  - intro H. exists x. split; auto. apply Z.eqb_refl.
Qed.

Lemma zmem_false x l : zmem x l = false <-> ~ In x l.
Proof.
  rewrite <- zmem_In. destruct (zmem x l); split; intro H; try congruence; auto.
Qed.

Lemma In_zremove y x l : In y (zremove x l) <-> In y l /\ y <> x.
Proof.
  unfold zremove. rewrite filter_In. rewrite negb_true_iff, Z.eqb_neq. intuition.
Qed.

Lemma cnt_zremove x l y :
  cnt (zremove x l) y = if Z.eq_dec x y then O else cnt l y.
Proof.
  induction l as [|a l IH]; simpl.
  - now destruct (Z.eq_dec x y).
  - destruct (Z.eqb x a) eqn:E; simpl.
    + apply Z.eqb_eq in E. subst a. rewrite IH.
      destruct (Z.eq_dec x y); auto.
    + apply Z.eqb_neq in E. rewrite IH.
      destruct (Z.eq_dec a y), (Z.eq_dec x y); subst; try congruence; auto.
Qed.

Lemma zremove_notin x l : ~ In x l -> zremove x l = l.
Proof.
  induction l as [|a l IH]; simpl; auto. intro H.
  destruct (Z.eqb x a) eqn:E; simpl.
  - apply Z.eqb_eq in E. subst. exfalso. apply H. now left.
  - f_equal. apply IH. intro. apply H. now right.
Qed.

Lemma cnt_pos_In l x : (cnt l x > 0)%nat <-> In x l.
Proof. symmetry. apply count_occ_In. Qed.

Lemma cnt_zero_notin l x : cnt l x = O <-> ~ In x l.
Proof. symmetry. apply count_occ_not_In. Qed.

Lemma all_zero_nil (l : list Z) : (forall x, cnt l x = O) -> l = [].
Proof.
  destruct l as [|a l]; auto. intro H. specialize (H a). simpl in H.
  destruct (Z.eq_dec a a); congruence.
Qed.

(* position in the arrival order *)
Lemma pos_lt_In A x : In x A -> (pos A x < List.length A)%nat.
Proof.
  induction A as [|a A IH]; simpl; [tauto|]. intro H.
  destruct (Z.eqb x a) eqn:E; [lia|].
  apply Z.eqb_neq in E. destruct H as [H|H]; [congruence|]. specialize (IH H). lia.
Qed.

Lemma pos_notin A x : ~ In x A -> pos A x = List.length A.
Proof.
  induction A as [|a A IH]; simpl; auto. intro H.
  destruct (Z.eqb x a) eqn:E.
  - apply Z.eqb_eq in E. subst. exfalso. apply H. now left.
  - f_equal. apply IH. intro. apply H. now right.
Qed.

Lemma pos_app_In A B x : In x A -> pos (A ++ B) x = pos A x.
Proof.
  induction A as [|a A IH]; simpl; [tauto|]. intro H.
  destruct (Z.eqb x a) eqn:E; auto.
  apply Z.eqb_neq in E. destruct H as [H|H]; [congruence|]. now rewrite IH.
Qed.

Lemma pos_snoc_new A x : ~ In x A -> pos (A ++ [x]) x = List.length A.
Proof.
  induction A as [|a A IH]; simpl; intro H.
  - now rewrite Z.eqb_refl.
  - destruct (Z.eqb x a) eqn:E.
    + apply Z.eqb_eq in E. subst. exfalso. apply H. now left.
    + f_equal. apply IH. intro. apply H. now right.
Qed.

(* sortedness *)
Lemma SS_filter {A} (R : A -> A -> Prop) f l :
  StronglySorted R l -> StronglySorted R (filter f l).
Proof.
  induction 1 as [|a l Hs IH Hf]; simpl; [constructor|].
  destruct (f a); auto. constructor; auto.
  rewrite Forall_forall in *. intros y Hy. apply filter_In in Hy. apply Hf. tauto.
Qed.

Lemma SS_snoc {A} (R : A -> A -> Prop) l x :
  StronglySorted R l -> (forall a, In a l -> R a x) -> StronglySorted R (l ++ [x]).
Proof.
  induction 1 as [|a l Hs IH Hf]; simpl; intro H.
  - constructor; constructor.
  - constructor.
    + apply IH. intros. apply H. now right.
    + rewrite Forall_forall in *. intros y Hy. apply in_app_or in Hy.
      destruct Hy as [Hy|[Hy|[]]]; auto. subst. apply H. now left.
Qed.

Lemma SS_mono_In {A} (R R' : A -> A -> Prop) l :
  StronglySorted R l -> (forall a b, In a l -> In b l -> R a b -> R' a b) -> StronglySorted R' l.
Proof.
  induction 1 as [|a l Hs IH Hf]; intro H; constructor.
  - apply IH. intros. apply H; auto; now right.
  - rewrite Forall_forall in *. intros y Hy. apply H; auto; [now left|now right].
Qed.

Lemma SS_head {A} (R : A -> A -> Prop) h t :
  StronglySorted R (h :: t) -> StronglySorted R t /\ forall z, In z t -> R h z.
Proof.
  intro H. apply StronglySorted_inv in H. destruct H as [H1 H2]. split; auto.
  now rewrite Forall_forall in H2.
Qed.

(* ------------------------------------------------------------------------------------------ *)
(* the station dictionary                                                                     *)
(* ------------------------------------------------------------------------------------------ *)
Lemma set_occ_keys s v l : map fst (set_occ s v l) = map fst l.
Proof.
  unfold set_occ. rewrite map_map. apply map_ext. intros [k o]. simpl.
  now destruct (Z.eqb k s).
Qed.

Lemma set_occ_fresh s v l : ~ In s (map fst l) -> set_occ s v l = l.
Proof.
  induction l as [|[k o] l IH]; simpl; auto. intro H.
  destruct (Z.eqb k s) eqn:E.
  - apply Z.eqb_eq in E. subst. exfalso. apply H. now left.
  - f_equal. apply IH. intro. apply H. now right.
Qed.

Lemma set_occ_split s v o l1 l2 :
  ~ In s (map fst l1) -> ~ In s (map fst l2) ->
  set_occ s v (l1 ++ (s, o) :: l2) = l1 ++ (s, v) :: l2.
Proof.
  intros H1 H2. unfold set_occ. rewrite map_app. simpl. rewrite Z.eqb_refl.
  fold (set_occ s v l1). fold (set_occ s v l2).
  now rewrite !set_occ_fresh.
Qed.

Lemma in_split_keys (l : list (Z * option Z)) s o :
  In (s, o) l -> NoDup (map fst l) ->
  exists l1 l2, l = l1 ++ (s, o) :: l2 /\ ~ In s (map fst l1) /\ ~ In s (map fst l2).
Proof.
  intros Hin Hnd. apply in_split in Hin. destruct Hin as [l1 [l2 E]]. subst.
  exists l1, l2. split; auto.
  rewrite map_app in Hnd. simpl in Hnd. apply NoDup_remove_2 in Hnd.
  split; intro; apply Hnd; apply in_or_app; auto.
Qed.

Lemma zassoc_split {A} s (o : A) l1 l2 :
  ~ In s (map fst l1) -> zassoc s (l1 ++ (s, o) :: l2) = Some o.
Proof.
  induction l1 as [|[k a] l1 IH]; simpl; intro H.
  - now rewrite Z.eqb_refl.
  - destruct (Z.eqb s k) eqn:E.
    + apply Z.eqb_eq in E. subst. exfalso. apply H. now left.
    + apply IH. intro. apply H. now right.
Qed.

Lemma zassoc_In {A} s (o : A) l : NoDup (map fst l) -> In (s, o) l -> zassoc s l = Some o.
Proof.
  induction l as [|[k a] l IH]; simpl; intros Hnd H; [contradiction|]. destruct H as [H|H].
  - inversion H; subst. now rewrite Z.eqb_refl.
  - inversion Hnd; subst. destruct (Z.eqb s k) eqn:E.
    + apply Z.eqb_eq in E. subst. exfalso. apply H2.
      change k with (fst (k, o)). now apply in_map.
    + now apply IH.
Qed.

Lemma zassoc_Some_In {A} s (o : A) l : zassoc s l = Some o -> In (s, o) l.
Proof.
  induction l as [|[k a] l IH]; simpl; [congruence|].
  destruct (Z.eqb s k) eqn:E.
  - apply Z.eqb_eq in E. intro H. inversion H; subst. now left.
  - intro. right. auto.
Qed.

Lemma zassoc_None_notin {A} s (l : list (Z * A)) : zassoc s l = None -> ~ In s (map fst l).
Proof.
  induction l as [|[k a] l IH]; simpl; [tauto|].
  destruct (Z.eqb s k) eqn:E; [congruence|]. apply Z.eqb_neq in E.
  intros H [H1|H1]; [congruence|]. now apply IH.
Qed.

Lemma occupants_app l1 l2 : occupants (l1 ++ l2) = occupants l1 ++ occupants l2.
Proof. unfold occupants. apply flat_map_app. Qed.

Lemma available_app l1 l2 : available (l1 ++ l2) = available l1 ++ available l2.
Proof. unfold available. now rewrite filter_app, map_app. Qed.

Lemma available_cons_some s x l : available ((s, Some x) :: l) = available l.
Proof. reflexivity. Qed.
Lemma available_cons_none s l : available ((s, None) :: l) = s :: available l.
Proof. reflexivity. Qed.

Lemma In_occupants x l : In x (occupants l) <-> exists s, In (s, Some x) l.
Proof.
  unfold occupants. rewrite in_flat_map. split.
  - intros [[s o] [H1 H2]]. simpl in H2. destruct o as [y|]; [|contradiction].
    destruct H2 as [H2|[]]. subst. now exists s.
  - intros [s H]. exists (s, Some x). split; auto. simpl. now left.
Qed.

Lemma In_available s l : In s (available l) <-> In (s, None) l.
Proof.
  unfold available. rewrite in_map_iff. split.
  - intros [[k o] [E H]]. simpl in E. subst. apply filter_In in H. destruct H as [H1 H2].
    simpl in H2. destruct o; [discriminate|]. auto.
  - intro H. exists (s, None). split; auto. apply filter_In. split; auto.
Qed.

Lemma available_keys l s : In s (available l) -> In s (map fst l).
Proof. intro H. apply In_available in H. change s with (fst (s, @None Z)). now apply in_map. Qed.

(* ------------------------------------------------------------------------------------------ *)
(* ev.station_id                                                                              *)
(* ------------------------------------------------------------------------------------------ *)
Lemma ev_station_cons st' st x v y :
  station_of st' = (x, v) :: station_of st ->
  ev_station st' y = if Z.eqb y x then v else ev_station st y.
Proof. unfold ev_station. intros ->. simpl. now destruct (Z.eqb y x). Qed.

Lemma ev_station_same st' st y :
  station_of st' = station_of st -> ev_station st' y = ev_station st y.
Proof. unfold ev_station. now intros ->. Qed.

Ltac es_cons st x := erewrite (ev_station_cons _ st x) by reflexivity.
Ltac es_same st := rewrite (ev_station_same _ st) by reflexivity.

(* ------------------------------------------------------------------------------------------ *)
(* the invariant                                                                              *)
(* ------------------------------------------------------------------------------------------ *)
Definition ltA (A : list Z) (a b : Z) : Prop := (pos A a < pos A b)%nat.

Record Inv (ss A D : list Z) (st : net) : Prop := {
  i_keys : map fst (evses st) = ss;
  i_count : forall x, (cnt (occupants (evses st)) x + cnt (queue st) x + cnt (gone st) x
                       = if zmem x A then 1 else 0)%nat;
  i_starve : queue st <> [] -> available (evses st) = [];
  i_st_conn : forall s x, In (s, Some x) (evses st) -> ev_station st x = Some s;
  i_st_wait : forall x, In x (queue st) -> ev_station st x = None;
  i_st_reg : forall x s, ev_station st x = Some s -> In s ss;
  i_sorted : StronglySorted (ltA A) (queue st);
  i_conn_first : forall y x, In y (occupants (evses st)) -> In x (queue st) -> ltA A y x;
  i_never : never_charged st = Z.of_nat (List.length (never_assigned st));
  i_dep_gone : forall x, In x D -> In x (gone st);
  i_gone_dep : forall x, In x (gone st) -> ev_station st x = None -> In x D
}.

Lemma occupants_init ss : occupants (map (fun s => (s, @None Z)) ss) = [].
Proof. induction ss; simpl; auto. Qed.

Lemma inv_init ss e : Inv ss [] [] (init ss e).
Proof.
  constructor; simpl.
  - rewrite map_map. simpl. apply map_id.
  - intro x. now rewrite occupants_init.
  - congruence.
  - intros s x H. apply in_map_iff in H. destruct H as [k [H _]]. discriminate.
  - tauto.
  - discriminate.
  - constructor.
  - tauto.
  - reflexivity.
  - tauto.
  - tauto.
Qed.

(* consequences of the counting invariant *)
Section InvFacts.
  Variables (ss A D : list Z) (st : net).
  Hypothesis H : Inv ss A D st.

  Lemma inv_places x :
    (cnt (occupants (evses st)) x <= 1 /\ cnt (queue st) x <= 1 /\ cnt (gone st) x <= 1)%nat.
  Proof. pose proof (i_count _ _ _ _ H x) as C. destruct (zmem x A); lia. Qed.

  Lemma inv_occ_arrived x : In x (occupants (evses st)) -> In x A.
  Proof.
    intro Hx. apply cnt_pos_In in Hx. pose proof (i_count _ _ _ _ H x) as C.
    destruct (zmem x A) eqn:E; [now apply zmem_In|lia].
  Qed.
  Lemma inv_queue_arrived x : In x (queue st) -> In x A.
  Proof.
    intro Hx. apply cnt_pos_In in Hx. pose proof (i_count _ _ _ _ H x) as C.
    destruct (zmem x A) eqn:E; [now apply zmem_In|lia].
  Qed.
  Lemma inv_gone_arrived x : In x (gone st) -> In x A.
  Proof.
    intro Hx. apply cnt_pos_In in Hx. pose proof (i_count _ _ _ _ H x) as C.
    destruct (zmem x A) eqn:E; [now apply zmem_In|lia].
  Qed.
  Lemma inv_occ_not_queue x : In x (occupants (evses st)) -> ~ In x (queue st).
  Proof.
    intros H1 H2. apply cnt_pos_In in H1, H2. pose proof (i_count _ _ _ _ H x) as C.
    destruct (zmem x A); lia.
  Qed.
  Lemma inv_occ_not_gone x : In x (occupants (evses st)) -> ~ In x (gone st).
  Proof.
    intros H1 H2. apply cnt_pos_In in H1, H2. pose proof (i_count _ _ _ _ H x) as C.
    destruct (zmem x A); lia.
  Qed.
  Lemma inv_queue_not_gone x : In x (queue st) -> ~ In x (gone st).
  Proof.
    intros H1 H2. apply cnt_pos_In in H1, H2. pose proof (i_count _ _ _ _ H x) as C.
    destruct (zmem x A); lia.
  Qed.
  Lemma inv_new_nowhere x : ~ In x A ->
    ~ In x (occupants (evses st)) /\ ~ In x (queue st) /\ ~ In x (gone st).
  Proof.
    intro Hx. apply zmem_false in Hx. pose proof (i_count _ _ _ _ H x) as C. rewrite Hx in C.
    repeat split; intro K; apply cnt_pos_In in K; lia.
  Qed.
  Lemma inv_arrived_somewhere x : In x A ->
    In x (occupants (evses st)) \/ In x (queue st) \/ In x (gone st).
  Proof.
    intro Hx. apply zmem_In in Hx. pose proof (i_count _ _ _ _ H x) as C. rewrite Hx in C.
    destruct (cnt (occupants (evses st)) x) eqn:E1.
    - destruct (cnt (queue st) x) eqn:E2.
      + right; right. apply cnt_pos_In. lia.
      + right; left. apply cnt_pos_In. lia.
    - left. apply cnt_pos_In. lia.
  Qed.
  Lemma inv_nodup_keys : NoDup ss -> NoDup (map fst (evses st)).
  Proof. now rewrite (i_keys _ _ _ _ H). Qed.
End InvFacts.

(* never_assigned only looks at ev.station_id of the sessions that are gone *)
Lemma never_assigned_ext st st' :
  gone st' = gone st -> (forall x, In x (gone st) -> ev_station st' x = ev_station st x) ->
  never_assigned st' = never_assigned st.
Proof.
  intros Hg He. unfold never_assigned. rewrite Hg. apply filter_ext_in.
  intros a Ha. now rewrite He.
Qed.

Lemma never_assigned_cons st' st x :
  gone st' = x :: gone st -> (forall z, In z (gone st) -> ev_station st' z = ev_station st z) ->
  ev_station st' x = ev_station st x ->
  never_assigned st' = if is_none (ev_station st x) then x :: never_assigned st else never_assigned st.
Proof.
  intros Hg He Hx. unfold never_assigned. rewrite Hg. simpl. rewrite Hx.
  replace (filter (fun x0 => is_none (ev_station st' x0)) (gone st))
    with (filter (fun x0 => is_none (ev_station st x0)) (gone st)); auto.
  apply filter_ext_in. intros a Ha. now rewrite He.
Qed.

(* ------------------------------------------------------------------------------------------ *)
(* plugin                                                                                     *)
(* ------------------------------------------------------------------------------------------ *)
Lemma plugin_inv ch ss A D st x :
  NoDup ss -> Inv ss A D st -> ~ In x A ->
  exists st', net_plugin ch st x = Ok st' /\ Inv ss (A ++ [x]) D st'
              /\ never_charged st' = never_charged st.
Proof.
  intros Hnd H Hx.
  destruct (inv_new_nowhere _ _ _ _ H x Hx) as [Hxo [Hxq Hxg]].
  assert (HposA : forall z, In z A -> pos (A ++ [x]) z = pos A z) by (intros; now apply pos_app_In).
  assert (Hposx : pos (A ++ [x]) x = List.length A) by (now apply pos_snoc_new).
  assert (Hmem : forall z, zmem z (A ++ [x]) = if Z.eq_dec x z then true else zmem z A).
  { intro z. destruct (Z.eq_dec x z) as [E|E].
    - subst. apply zmem_In. apply in_or_app. right. now left.
    - destruct (zmem z A) eqn:M.
      + apply zmem_In. apply in_or_app. left. now apply zmem_In.
      + apply zmem_false. apply zmem_false in M. intro K. apply in_app_or in K.
        destruct K as [K|[K|[]]]; auto. }
  unfold net_plugin.
  destruct (available (evses st)) as [|a0 av0] eqn:Eav.
  - (* no free station: enqueue *)
    simpl. rewrite zremove_notin by exact Hxq.
    eexists. split; [reflexivity|]. split; [|reflexivity].
    constructor; simpl.
    + apply (i_keys _ _ _ _ H).
    + intro z. rewrite count_occ_app. simpl. rewrite Hmem.
      pose proof (i_count _ _ _ _ H z) as C.
      destruct (Z.eq_dec x z) as [E|E].
      * subst z. apply zmem_false in Hx. rewrite Hx in C. lia.
      * lia.
    + intros _. exact Eav.
    + intros s z Hz. es_cons st x.
      destruct (Z.eqb z x) eqn:E.
      * apply Z.eqb_eq in E. subst z. exfalso. apply Hxo. apply In_occupants. now exists s.
      * apply (i_st_conn _ _ _ _ H). exact Hz.
    + intros z Hz. es_cons st x. destruct (Z.eqb z x) eqn:E; auto.
      apply in_app_or in Hz. destruct Hz as [Hz|[Hz|[]]].
      * now apply (i_st_wait _ _ _ _ H).
      * subst. now rewrite Z.eqb_refl in E.
    + intros z s. es_cons st x. destruct (Z.eqb z x); [discriminate|].
      apply (i_st_reg _ _ _ _ H).
    + apply SS_snoc.
      * eapply SS_mono_In; [apply (i_sorted _ _ _ _ H)|].
        intros a b Ha Hb Hab. unfold ltA in *.
        rewrite !HposA; auto; eapply inv_queue_arrived; eauto.
      * intros a Ha. unfold ltA. rewrite Hposx, HposA by (eapply inv_queue_arrived; eauto).
        apply pos_lt_In. eapply inv_queue_arrived; eauto.
    + intros y z Hy Hz. unfold ltA.
      assert (HyA : In y A) by (eapply inv_occ_arrived; eauto).
      rewrite (HposA y HyA).
      apply in_app_or in Hz. destruct Hz as [Hz|[Hz|[]]].
      * rewrite HposA by (eapply inv_queue_arrived; eauto).
        now apply (i_conn_first _ _ _ _ H).
      * subst z. rewrite Hposx. now apply pos_lt_In.
    + rewrite (i_never _ _ _ _ H). do 2 f_equal. symmetry. apply never_assigned_ext; auto.
      intros z Hz. es_cons st x. destruct (Z.eqb z x) eqn:E; auto.
      apply Z.eqb_eq in E. subst. contradiction.
    + apply (i_dep_gone _ _ _ _ H).
    + intros z Hz. es_cons st x. destruct (Z.eqb z x) eqn:E.
      * apply Z.eqb_eq in E. subst. contradiction.
      * now apply (i_gone_dep _ _ _ _ H).
  - (* a free station exists: the queue is empty, draw one *)
    assert (Hq : queue st = []).
    { destruct (queue st) eqn:Eq; auto. exfalso.
      assert (K : available (evses st) = []) by (apply (i_starve _ _ _ _ H); rewrite Eq; discriminate).
      rewrite Eav in K. discriminate. }
    rewrite <- Eav.
    set (av := available (evses st)).
    assert (Hlen : (0 < List.length av)%nat) by (unfold av; rewrite Eav; simpl; lia).
    replace (0 <? Z.of_nat (List.length av)) with true by (symmetry; apply Z.ltb_lt; lia).
    set (chosen := nth (ch (draws st) mod List.length av)%nat av 0).
    assert (Hch : In chosen av).
    { unfold chosen. apply nth_In. apply Nat.mod_upper_bound. lia. }
    assert (Hfree : In (chosen, None) (evses st)) by (now apply In_available).
    pose proof (inv_nodup_keys _ _ _ _ H Hnd) as Hk.
    destruct (in_split_keys _ _ _ Hfree Hk) as [l1 [l2 [El [Hn1 Hn2]]]].
    unfold base_plugin. es_cons st x. rewrite Z.eqb_refl. simpl evses.
    rewrite (zassoc_In _ _ _ Hk Hfree). simpl.
    eexists. split; [reflexivity|]. split; [|reflexivity].
    rewrite El, (set_occ_split _ _ _ _ _ Hn1 Hn2).
    constructor; simpl.
    + rewrite <- (i_keys _ _ _ _ H), El, !map_app. reflexivity.
    + intro z. pose proof (i_count _ _ _ _ H z) as C. rewrite El in C.
      rewrite occupants_app, count_occ_app in *. simpl in *. rewrite Hmem.
      destruct (Z.eq_dec x z) as [E|E].
      * subst z. apply zmem_false in Hx. rewrite Hx in C. lia.
      * lia.
    + rewrite Hq. congruence.
    + intros s z Hz. es_cons st x.
      apply in_app_or in Hz. simpl in Hz.
      destruct (Z.eqb z x) eqn:E.
      * apply Z.eqb_eq in E. subst z.
        destruct Hz as [Hz|[Hz|Hz]].
        -- exfalso. apply Hxo. apply In_occupants. exists s. rewrite El. apply in_or_app. now left.
        -- now inversion Hz.
        -- exfalso. apply Hxo. apply In_occupants. exists s. rewrite El. apply in_or_app. right. now right.
      * apply (i_st_conn _ _ _ _ H). rewrite El. apply in_or_app.
        destruct Hz as [Hz|[Hz|Hz]]; [now left| |right; now right].
        inversion Hz; subst. now rewrite Z.eqb_refl in E.
    + rewrite Hq. simpl. tauto.
    + intros z s. es_cons st x. destruct (Z.eqb z x).
      * intro K. inversion K; subst. rewrite <- (i_keys _ _ _ _ H). now apply available_keys.
      * apply (i_st_reg _ _ _ _ H).
    + rewrite Hq. constructor.
    + rewrite Hq. simpl. tauto.
    + rewrite (i_never _ _ _ _ H). do 2 f_equal. symmetry. apply never_assigned_ext; auto.
      intros z Hz. es_cons st x. destruct (Z.eqb z x) eqn:E; auto.
      apply Z.eqb_eq in E. subst. contradiction.
    + apply (i_dep_gone _ _ _ _ H).
    + intros z Hz. es_cons st x. destruct (Z.eqb z x) eqn:E.
      * apply Z.eqb_eq in E. subst. contradiction.
      * now apply (i_gone_dep _ _ _ _ H).
Qed.

(* ------------------------------------------------------------------------------------------ *)
(* unplug                                                                                     *)
(* ------------------------------------------------------------------------------------------ *)
Lemma base_plugin_free st h s l1 l2 :
  evses st = l1 ++ (s, None) :: l2 -> ~ In s (map fst l1) -> ~ In s (map fst l2) ->
  ev_station st h = Some s ->
  base_plugin st h = Ok (set_evses st (l1 ++ (s, Some h) :: l2)).
Proof.
  intros He H1 H2 Hs. unfold base_plugin. rewrite Hs, He, (zassoc_split _ _ _ _ H1). simpl.
  now rewrite (set_occ_split _ _ _ _ _ H1 H2).
Qed.

(* the session is waiting: it is dropped from the queue and counted as never charged *)
Lemma unplug_wait ss A D st sid x :
  Inv ss A D st -> In x (queue st) ->
  exists st', net_unplug st sid x = Ok st'
    /\ (forall D', (forall z, In z D' <-> In z D \/ z = x) -> Inv ss A D' st')
    /\ never_charged st' = never_charged st + 1
    /\ early_unplug st' = early_unplug st /\ draws st' = draws st
    /\ evses st' = evses st /\ queue st' = zremove x (queue st) /\ gone st' = x :: gone st.
Proof.
  intros H Hq. unfold net_unplug.
  replace (zmem x (queue st)) with true by (symmetry; now apply zmem_In).
  eexists. split; [reflexivity|]. simpl. split; [|repeat split; auto].
  intros D' HD'. constructor; simpl.
  - apply (i_keys _ _ _ _ H).
  - intro z. rewrite cnt_zremove. pose proof (i_count _ _ _ _ H z) as C.
    destruct (Z.eq_dec x z) as [E|E]; [|lia]. subst z.
    apply cnt_pos_In in Hq. destruct (zmem x A); lia.
  - intro K. apply (i_starve _ _ _ _ H). intro K2. rewrite K2 in K. now apply K.
  - intros s z Hz. es_same st. now apply (i_st_conn _ _ _ _ H).
  - intros z Hz. es_same st. apply In_zremove in Hz. now apply (i_st_wait _ _ _ _ H).
  - intros z s. es_same st. apply (i_st_reg _ _ _ _ H).
  - apply SS_filter. apply (i_sorted _ _ _ _ H).
  - intros y z Hy Hz. apply In_zremove in Hz. now apply (i_conn_first _ _ _ _ H).
  - erewrite never_assigned_cons; [|reflexivity|intros; apply ev_station_same; reflexivity
                                     |apply ev_station_same; reflexivity].
    rewrite (i_st_wait _ _ _ _ H x Hq). simpl is_none. cbv iota. simpl List.length.
    rewrite (i_never _ _ _ _ H). lia.
  - intros z Hz. apply HD' in Hz. destruct Hz as [Hz|Hz]; [right; now apply (i_dep_gone _ _ _ _ H)|now left].
  - intros z [Hz|Hz]; [intros _; apply HD'; now right|].
    es_same st. intro K. apply HD'. left. now apply (i_gone_dep _ _ _ _ H).
Qed.

(* the session is connected at station s (and the Unplug call names s): the station is freed and,
   if somebody waits, handed to the head of the queue *)
Lemma unplug_conn ss A D st s x :
  NoDup ss -> Inv ss A D st -> In (s, Some x) (evses st) ->
  exists st', net_unplug st (Some s) x = Ok st'
    /\ (forall D', incl D D' -> (forall z, In z D' -> In z D \/ z = x) -> Inv ss A D' st')
    /\ never_charged st' = never_charged st
    /\ early_unplug st' = early_unplug st /\ draws st' = draws st /\ early st' = early st
    /\ gone st' = x :: gone st
    /\ (forall z, z <> x -> In z (occupants (evses st)) -> In z (occupants (evses st')))
    /\ (queue st = [] -> queue st' = [] /\ swaps st' = swaps st /\ In (s, None) (evses st'))
    /\ (forall h t, queue st = h :: t ->
          In (s, Some h) (evses st') /\ queue st' = t /\ swaps st' = swaps st + 1
          /\ ev_station st' h = Some s).
Proof.
  intros Hnd H Hin.
  pose proof (inv_nodup_keys _ _ _ _ H Hnd) as Hk.
  destruct (in_split_keys _ _ _ Hin Hk) as [l1 [l2 [El [Hn1 Hn2]]]].
  assert (Hxo : In x (occupants (evses st))) by (apply In_occupants; now exists s).
  assert (Hxq : ~ In x (queue st)) by (eapply inv_occ_not_queue; eauto).
  assert (Hxg : ~ In x (gone st)) by (eapply inv_occ_not_gone; eauto).
  assert (Hxs : ev_station st x = Some s) by (now apply (i_st_conn _ _ _ _ H)).
  unfold net_unplug.
  replace (zmem x (queue st)) with false by (symmetry; now apply zmem_false).
  rewrite (zassoc_In _ _ _ Hk Hin), Z.eqb_refl.
  change (BaseEVSE_unplug__ev BaseEVSE_unplug) with (@None Z).
  assert (Hso : set_occ s None (evses st) = l1 ++ (s, None) :: l2)
    by (rewrite El; now apply set_occ_split).
  rewrite Hso.
  assert (Hcnt1 : forall z, cnt (occupants (l1 ++ (s, None) :: l2)) z
                            = if Z.eq_dec x z then O else cnt (occupants (evses st)) z).
  { intro z. pose proof (inv_places _ _ _ _ H z) as [P _]. rewrite El in *.
    rewrite !occupants_app, !count_occ_app in *. simpl in *.
    destruct (Z.eq_dec x z); lia. }
  cbn [queue set_gone set_evses].
  destruct (queue st) as [|h t] eqn:Eq.
  - (* nobody waits *)
    simpl. eexists. split; [reflexivity|]. simpl.
    split; [|repeat apply conj; auto].
    + intros D' HD1 HD2. constructor; simpl.
      * rewrite <- (i_keys _ _ _ _ H), El, !map_app. reflexivity.
      * intro z. rewrite Hcnt1, Eq. pose proof (i_count _ _ _ _ H z) as C. rewrite Eq in C.
        pose proof (inv_places _ _ _ _ H z) as [P _].
        destruct (Z.eq_dec x z) as [E|E]; [|lia]. subst z.
        apply cnt_pos_In in Hxo. destruct (zmem x A); simpl in *; lia.
      * rewrite Eq. congruence.
      * intros s' z Hz. es_same st. apply (i_st_conn _ _ _ _ H). rewrite El.
        apply in_app_or in Hz. apply in_or_app. destruct Hz as [Hz|[Hz|Hz]]; [now left|discriminate|right; now right].
      * rewrite Eq. simpl. tauto.
      * intros z s'. es_same st. apply (i_st_reg _ _ _ _ H).
      * rewrite Eq. constructor.
      * rewrite Eq. simpl. tauto.
      * erewrite never_assigned_cons; [|reflexivity|intros; apply ev_station_same; reflexivity
                                         |apply ev_station_same; reflexivity].
        rewrite Hxs. simpl is_none. cbv iota. apply (i_never _ _ _ _ H).
      * intros z Hz. apply HD2 in Hz. destruct Hz as [Hz|Hz]; [right; now apply (i_dep_gone _ _ _ _ H)|now left].
      * intros z [Hz|Hz]; es_same st; intro K; [subst; congruence|].
        apply HD1. now apply (i_gone_dep _ _ _ _ H).
    + intros z Hz Hzo. apply cnt_pos_In. rewrite Hcnt1. apply cnt_pos_In in Hzo.
      destruct (Z.eq_dec x z); [congruence|lia].
    + intros _. repeat split; auto. apply in_or_app. right. now left.
    + intros h t E. discriminate.
  - (* hand the station to the head of the queue *)
    simpl queue. simpl List.length.
    replace (0 <? Z.of_nat (S (List.length t))) with true by (symmetry; apply Z.ltb_lt; lia).
    assert (Hhq : In h (queue st)) by (rewrite Eq; now left).
    assert (Hhx : h <> x) by (intro; subst; apply Hxq; now left).
    rewrite (base_plugin_free _ h s l1 l2); auto;
      [|es_cons (set_gone (set_evses st (l1 ++ (s, None) :: l2)) (x :: gone st)) h; now rewrite Z.eqb_refl].
    eexists. split; [reflexivity|]. simpl.
    assert (Hcnt2 : forall z, cnt (occupants (l1 ++ (s, Some h) :: l2)) z
                              = ((if Z.eq_dec h z then 1 else 0) + cnt (occupants (l1 ++ (s, None) :: l2)) z)%nat).
    { intro z. rewrite !occupants_app, !count_occ_app. simpl. destruct (Z.eq_dec h z); lia. }
    split; [|repeat apply conj; auto].
    + intros D' HD1 HD2. constructor; simpl.
      * rewrite <- (i_keys _ _ _ _ H), El, !map_app. reflexivity.
      * intro z. rewrite Hcnt2, Hcnt1. pose proof (i_count _ _ _ _ H z) as C. rewrite Eq in C.
        simpl in C. destruct (Z.eq_dec x z) as [E|E].
        -- subst z. apply cnt_pos_In in Hxo. destruct (Z.eq_dec h x); [congruence|].
           destruct (Z.eq_dec x x); [|congruence]. destruct (zmem x A); lia.
        -- destruct (Z.eq_dec h z); destruct (Z.eq_dec x z); try congruence; lia.
      * intros _. assert (K : available (evses st) = []) by (apply (i_starve _ _ _ _ H); rewrite Eq; discriminate).
        rewrite El, available_app, available_cons_some in K. apply app_eq_nil in K. destruct K as [K1 K2].
        now rewrite available_app, available_cons_some, K1, K2.
      * intros s' z Hz. es_cons st h.
        apply in_app_or in Hz. simpl in Hz.
        destruct (Z.eqb z h) eqn:E.
        -- apply Z.eqb_eq in E. subst z.
           assert (Hno : ~ In h (occupants (evses st))).
           { intro K. eapply inv_occ_not_queue in K; eauto. }
           destruct Hz as [Hz|[Hz|Hz]].
           ++ exfalso. apply Hno. apply In_occupants. exists s'. rewrite El. apply in_or_app. now left.
           ++ now inversion Hz.
           ++ exfalso. apply Hno. apply In_occupants. exists s'. rewrite El. apply in_or_app. right. now right.
        -- apply (i_st_conn _ _ _ _ H). rewrite El. apply in_or_app.
           destruct Hz as [Hz|[Hz|Hz]]; [now left| |right; now right].
           inversion Hz; subst. now rewrite Z.eqb_refl in E.
      * intros z Hz. es_cons st h.
        pose proof (inv_places _ _ _ _ H h) as [_ [P _]]. rewrite Eq in P. simpl in P.
        destruct (Z.eqb z h) eqn:E.
        -- apply Z.eqb_eq in E. subst z. apply cnt_pos_In in Hz.
           destruct (Z.eq_dec h h); [lia|congruence].
        -- apply (i_st_wait _ _ _ _ H). rewrite Eq. now right.
      * intros z s'. es_cons st h. destruct (Z.eqb z h).
        -- intro K. inversion K; subst. rewrite <- (i_keys _ _ _ _ H).
           change s' with (fst (s', Some x)). now apply in_map.
        -- apply (i_st_reg _ _ _ _ H).
      * pose proof (i_sorted _ _ _ _ H) as S. rewrite Eq in S. now apply SS_head in S.
      * intros y z Hy Hz.
        pose proof (i_sorted _ _ _ _ H) as S. rewrite Eq in S. apply SS_head in S. destruct S as [_ S].
        apply cnt_pos_In in Hy. rewrite Hcnt2, Hcnt1 in Hy.
        destruct (Z.eq_dec h y) as [E|E].
        -- subst y. now apply S.
        -- apply (i_conn_first _ _ _ _ H); [|rewrite Eq; now right].
           apply cnt_pos_In. destruct (Z.eq_dec x y); lia.
      * erewrite never_assigned_cons with (st := st) (x := x); [|reflexivity| |].
        -- rewrite Hxs. simpl is_none. cbv iota. apply (i_never _ _ _ _ H).
        -- intros z Hz. es_cons st h. destruct (Z.eqb z h) eqn:E; auto.
           apply Z.eqb_eq in E. subst z. exfalso. eapply inv_queue_not_gone; eauto.
        -- es_cons st h. destruct (Z.eqb x h) eqn:E; auto.
      * intros z Hz. apply HD2 in Hz. destruct Hz as [Hz|Hz]; [right; now apply (i_dep_gone _ _ _ _ H)|now left].
      * intros z Hz. es_cons st h. destruct (Z.eqb z h) eqn:E; [discriminate|].
        destruct Hz as [Hz|Hz]; intro K; [subst; congruence|].
        apply HD1. now apply (i_gone_dep _ _ _ _ H).
    + intros z Hz Hzo. apply cnt_pos_In. rewrite Hcnt2, Hcnt1. apply cnt_pos_In in Hzo.
      destruct (Z.eq_dec x z); [congruence|lia].
    + intros E. discriminate.
    + intros h0 t0 E. inversion E; subst. repeat split; auto.
      * apply in_or_app. right. now left.
      * es_cons st h0. now rewrite Z.eqb_refl.
Qed.

Lemma zassoc_key_Some {A} s (l : list (Z * A)) : In s (map fst l) -> exists o, zassoc s l = Some o.
Proof.
  intro H. destruct (zassoc s l) eqn:E; [eauto|]. apply zassoc_None_notin in E. contradiction.
Qed.

(* the session already left (early departure) and the stale station id is passed: nothing happens *)
Lemma unplug_gone ss A D st x :
  NoDup ss -> Inv ss A D st -> In x (gone st) -> ~ In x D ->
  net_unplug st (ev_station st x) x = Ok st.
Proof.
  intros Hnd H Hg HD.
  assert (Hq : ~ In x (queue st)) by (intro K; eapply inv_queue_not_gone; eauto).
  unfold net_unplug. replace (zmem x (queue st)) with false by (symmetry; now apply zmem_false).
  destruct (ev_station st x) as [s|] eqn:Es.
  - assert (Hs : In s (map fst (evses st))).
    { rewrite (i_keys _ _ _ _ H). eapply i_st_reg; eauto. }
    destruct (zassoc_key_Some _ _ Hs) as [o Eo]. rewrite Eo.
    destruct o as [y|]; auto.
    destruct (Z.eqb x y) eqn:E; auto. apply Z.eqb_eq in E. subst y.
    apply zassoc_Some_In in Eo. exfalso.
    eapply inv_occ_not_gone; eauto. apply In_occupants. now exists s.
  - exfalso. apply HD. eapply i_gone_dep; eauto.
Qed.

Lemma inv_add_dep ss A D D' st x :
  Inv ss A D st -> In x (gone st) -> (forall z, In z D' <-> In z D \/ z = x) -> Inv ss A D' st.
Proof.
  intros H Hg HD'. destruct H. constructor; auto.
  - intros z Hz. apply HD' in Hz. destruct Hz as [Hz|Hz]; [auto|now subst].
  - intros z Hz Hn. apply HD'. left. auto.
Qed.

Lemma inv_set_early_unplug ss A D st v :
  Inv ss A D st -> Inv ss A D (set_early_unplug st v).
Proof.
  intro H. destruct H. constructor; simpl; auto.
Qed.

Lemma nodup_occupants ss A D st : Inv ss A D st -> NoDup (occupants (evses st)).
Proof.
  intro H. apply (NoDup_count_occ Z.eq_dec). intro x.
  pose proof (inv_places _ _ _ _ H x). tauto.
Qed.

(* ------------------------------------------------------------------------------------------ *)
(* post_charging_update                                                                       *)
(* ------------------------------------------------------------------------------------------ *)
Lemma post_fold ss A D :
  NoDup ss -> forall L st, Inv ss A D st -> NoDup L ->
  (forall y, In y L -> In y (occupants (evses st))) ->
  exists st', fold_left post_one L (Ok st) = Ok st' /\ Inv ss A D st'
    /\ never_charged st' = never_charged st /\ draws st' = draws st /\ early st' = early st
    /\ (forall z, In z (gone st) -> In z (gone st'))
    /\ (queue st' <> [] -> forall y, In y L -> In y (gone st'))
    /\ (queue st = [] -> st' = st)
    /\ (early_unplug st' - early_unplug st = swaps st' - swaps st
        /\ Z.of_nat (List.length (queue st)) = Z.of_nat (List.length (queue st')) + (swaps st' - swaps st)
        /\ Z.of_nat (List.length (gone st')) = Z.of_nat (List.length (gone st)) + (swaps st' - swaps st)
        /\ swaps st <= swaps st').
Proof.
  intros Hnd. induction L as [|y L IH]; intros st H HL Hocc.
  - exists st. simpl. repeat apply conj; auto; try lia.
  - simpl. destruct (queue st) as [|h t] eqn:Eq.
    + simpl. destruct (IH st H) as [st' [R [I [N [Dr [Ea [G [Q [E _]]]]]]]]].
      * now inversion HL.
      * intros. apply Hocc. now right.
      * assert (st' = st) by (now apply E). subst st'.
        exists st. repeat apply conj; auto; try lia; try (rewrite Eq; simpl; lia).
        intros K. now rewrite Eq in K.
    + simpl List.length.
      replace (0 <? Z.of_nat (S (List.length t))) with true by (symmetry; apply Z.ltb_lt; lia).
      assert (Hy : In y (occupants (evses st))) by (apply Hocc; now left).
      apply In_occupants in Hy. destruct Hy as [s Hs].
      rewrite (i_st_conn _ _ _ _ H s y Hs).
      destruct (unplug_conn ss A D st s y Hnd H Hs)
        as [st1 [R1 [I1 [N1 [E1 [Dr1 [Ea1 [G1 [O1 [_ Hh]]]]]]]]]].
      destruct (Hh h t Eq) as [_ [Hq1 [Hsw1 _]]].
      rewrite R1.
      assert (I1' : Inv ss A D (set_early_unplug st1 (early_unplug st1 + 1))).
      { apply inv_set_early_unplug. apply I1; [apply incl_refl|]. intros; now left. }
      destruct (IH _ I1') as [st' [R [I [N [Dr [Ea [G [Q [E [F1 [F2 [F3 F4]]]]]]]]]]]].
      * now inversion HL.
      * intros z Hz. simpl. apply O1.
        -- inversion HL; subst. intro; subst; contradiction.
        -- apply Hocc. now right.
      * exists st'. simpl in *. split; [exact R|]. split; [exact I|].
        split; [congruence|]. split; [congruence|]. split; [congruence|]. split; [|split; [|split]].
        -- intros z Hz. apply G. rewrite G1. now right.
        -- intros K z [Hz|Hz]; [subst; apply G; rewrite G1; now left|now apply Q].
        -- discriminate.
        -- rewrite G1, Hq1 in *. simpl List.length in *. lia.
Qed.

Lemma post_inv ss A D st full :
  NoDup ss -> Inv ss A D st ->
  exists st', net_post st full = Ok st' /\ Inv ss A D st'
    /\ never_charged st' = never_charged st /\ draws st' = draws st
    /\ (forall z, In z (gone st) -> In z (gone st'))
    /\ (early st = true -> queue st' <> [] ->
        forall y, In y (occupants (evses st)) -> In y full -> In y (gone st'))
    /\ (early_unplug st' - early_unplug st = swaps st' - swaps st
        /\ Z.of_nat (List.length (queue st)) = Z.of_nat (List.length (queue st')) + (swaps st' - swaps st)
        /\ Z.of_nat (List.length (gone st')) = Z.of_nat (List.length (gone st)) + (swaps st' - swaps st)
        /\ swaps st <= swaps st').
Proof.
  intros Hnd H. unfold net_post. destruct (early st) eqn:Ee.
  - destruct (post_fold ss A D Hnd (filter (fun y => zmem y full) (occupants (evses st))) st H)
      as [st' [R [I [N [Dr [Ea [G [Q [E F]]]]]]]]].
    + apply NoDup_filter. eapply nodup_occupants; eauto.
    + intros y Hy. apply filter_In in Hy. tauto.
    + exists st'. repeat apply conj; auto; try tauto. intros _ K y Hy Hf. apply Q; auto.
      apply filter_In. split; auto. now apply zmem_In.
  - exists st. repeat apply conj; auto; try lia; try discriminate.
Qed.

(* ------------------------------------------------------------------------------------------ *)
(* histories                                                                                  *)
(* ------------------------------------------------------------------------------------------ *)
Lemma arrivals_app a b : arrivals (a ++ b) = arrivals a ++ arrivals b.
Proof. induction a as [|[x|x|f] a IH]; simpl; auto. now rewrite IH. Qed.
Lemma departures_app a b : departures (a ++ b) = departures a ++ departures b.
Proof. induction a as [|[x|x|f] a IH]; simpl; auto. now rewrite IH. Qed.

Definition ok_next (evs1 : list event) (e : event) : Prop :=
  match e with
  | Arrive x => ~ In x (arrivals evs1)
  | Depart x => In x (arrivals evs1) /\ ~ In x (departures evs1)
  | PostCharge _ => True
  end.

Lemma wf_next evs1 e r : wf (evs1 ++ e :: r) -> ok_next evs1 e.
Proof.
  intros [Ha [Hd Hp]]. destruct e as [x|x|f]; simpl; auto.
  - rewrite arrivals_app in Ha. simpl in Ha. apply NoDup_remove_2 in Ha.
    intro K. apply Ha. apply in_or_app. now left.
  - split.
    + eapply Hp. reflexivity.
    + rewrite departures_app in Hd. simpl in Hd. apply NoDup_remove_2 in Hd.
      intro K. apply Hd. apply in_or_app. now left.
Qed.

Lemma NoDup_app_l {A} (a b : list A) : NoDup (a ++ b) -> NoDup a.
Proof.
  induction b as [|x b IH]; intro H.
  - now rewrite app_nil_r in H.
  - apply IH. eapply NoDup_remove_1; eauto.
Qed.

Lemma wf_prefix a b : wf (a ++ b) -> wf a.
Proof.
  intros [Ha [Hd Hp]]. rewrite arrivals_app in Ha. rewrite departures_app in Hd.
  repeat split.
  - eapply NoDup_app_l; eauto.
  - eapply NoDup_app_l; eauto.
  - intros pre x post E. apply (Hp pre x (post ++ b)). rewrite E, <- app_assoc. reflexivity.
Qed.

Definition never_delta (st : net) (e : event) : Z :=
  match e with Depart x => if zmem x (queue st) then 1 else 0 | _ => 0 end.

Lemma step_inv ch ss evs1 e st :
  NoDup ss -> Inv ss (arrivals evs1) (departures evs1) st -> ok_next evs1 e ->
  exists st', step ch st e = Ok st'
    /\ Inv ss (arrivals (evs1 ++ [e])) (departures (evs1 ++ [e])) st'
    /\ never_charged st' = never_charged st + never_delta st e
    /\ (forall z, In z (gone st) -> In z (gone st')).
Proof.
  intros Hnd H Hok. rewrite arrivals_app, departures_app.
  destruct e as [x|x|f]; simpl in *.
  - destruct (plugin_inv ch ss _ _ st x Hnd H Hok) as [st' [R [I N]]].
    exists st'. rewrite app_nil_r. repeat apply conj; auto; try lia.
    (* gone is untouched by plugin *)
    intros z Hz. unfold net_plugin in R.
    destruct (0 <? Z.of_nat (List.length (available (evses st)))).
    + unfold base_plugin in R.
      destruct (ev_station _ x); [|discriminate].
      destruct (zassoc _ _); [|discriminate].
      destruct (BaseEVSE_plugin _ _); inversion R; subst; exact Hz.
    + inversion R; subst; exact Hz.
  - destruct Hok as [HxA HxD]. rewrite app_nil_r.
    destruct (inv_arrived_somewhere _ _ _ _ H x HxA) as [Ho|[Hq|Hg]].
    + apply In_occupants in Ho. destruct Ho as [s Hs].
      rewrite (i_st_conn _ _ _ _ H s x Hs).
      destruct (unplug_conn ss _ _ st s x Hnd H Hs)
        as [st1 [R1 [I1 [N1 [E1 [Dr1 [Ea1 [G1 _]]]]]]]].
      exists st1. split; [exact R1|]. split; [|split].
      * apply I1.
        -- intros z Hz. apply in_or_app. now left.
        -- intros z Hz. apply in_app_or in Hz. destruct Hz as [Hz|[Hz|[]]]; auto.
      * assert (Hnq : ~ In x (queue st)).
        { eapply inv_occ_not_queue; eauto. apply In_occupants. now exists s. }
        apply zmem_false in Hnq. rewrite Hnq. lia.
      * intros z Hz. rewrite G1. now right.
    + destruct (unplug_wait ss _ _ st (ev_station st x) x H Hq)
        as [st1 [R1 [I1 [N1 [E1 [Dr1 [Ev1 [Q1 G1]]]]]]]].
      exists st1. split; [exact R1|]. split; [|split].
      * apply I1. intro z. rewrite in_app_iff. simpl. intuition.
      * apply zmem_In in Hq. rewrite Hq. exact N1.
      * intros z Hz. rewrite G1. now right.
    + exists st. split; [now apply (unplug_gone ss _ _ st x Hnd H Hg)|]. split; [|split; auto].
      * eapply inv_add_dep; eauto. intro z. rewrite in_app_iff. simpl. intuition.
      * assert (Hnq : ~ In x (queue st)) by (intro K; eapply inv_queue_not_gone; eauto).
        apply zmem_false in Hnq. rewrite Hnq. lia.
  - rewrite !app_nil_r.
    destruct (post_inv ss _ _ st f Hnd H) as [st' [R [I [N [Dr [G _]]]]]].
    exists st'. repeat apply conj; auto. lia.
Qed.

Lemma run_inv ch ss :
  NoDup ss -> forall evs2 evs1 st,
  Inv ss (arrivals evs1) (departures evs1) st -> wf (evs1 ++ evs2) ->
  exists st', run ch st evs2 = Ok st'
    /\ Inv ss (arrivals (evs1 ++ evs2)) (departures (evs1 ++ evs2)) st'
    /\ never_charged st' = never_charged st + waiting_departures ch st evs2
    /\ (forall z, In z (gone st) -> In z (gone st')).
Proof.
  intro Hnd. induction evs2 as [|e r IH]; intros evs1 st H Hwf.
  - exists st. rewrite app_nil_r. simpl. repeat apply conj; auto. lia.
  - destruct (step_inv ch ss evs1 e st Hnd H (wf_next _ _ _ Hwf)) as [st1 [R1 [I1 [N1 G1]]]].
    replace (evs1 ++ e :: r) with ((evs1 ++ [e]) ++ r) in * by (rewrite <- app_assoc; reflexivity).
    destruct (IH _ _ I1 Hwf) as [st' [R [I [N G]]]].
    exists st'. simpl. rewrite R1. split; [exact R|]. split; [exact I|]. split; [|auto].
    rewrite N, N1. unfold never_delta. destruct e; lia.
Qed.

(* every well-formed history from the initial network *)
Lemma reach ch ss e evs :
  NoDup ss -> wf evs ->
  exists st, run ch (init ss e) evs = Ok st
    /\ Inv ss (arrivals evs) (departures evs) st
    /\ never_charged st = waiting_departures ch (init ss e) evs.
Proof.
  intros Hnd Hwf.
  destruct (run_inv ch ss Hnd evs [] (init ss e) (inv_init ss e) Hwf) as [st [R [I [N _]]]].
  exists st. simpl in *. repeat apply conj; auto.
Qed.

(* ------------------------------------------------------------------------------------------ *)
(* frame facts (no invariant needed): what each call can touch                                *)
(* ------------------------------------------------------------------------------------------ *)
Lemma base_plugin_frame st x st' :
  base_plugin st x = Ok st' ->
  gone st' = gone st /\ early st' = early st /\ draws st' = draws st /\ queue st' = queue st
  /\ never_charged st' = never_charged st.
Proof.
  unfold base_plugin. destruct (ev_station st x); [|discriminate].
  destruct (zassoc _ _); [|discriminate].
  destruct (BaseEVSE_plugin _ _); intro R; inversion R; subst; simpl; auto.
Qed.

Lemma net_plugin_frame ch st x st' :
  net_plugin ch st x = Ok st' ->
  gone st' = gone st /\ early st' = early st /\ (draws st <= draws st')%nat.
Proof.
  unfold net_plugin. destruct (0 <? _).
  - intro R. apply base_plugin_frame in R. simpl in R. destruct R as [G [E [Dr _]]].
    repeat split; auto. lia.
  - intro R. inversion R; subst; simpl; auto.
Qed.

Lemma net_unplug_frame st sid x st' :
  net_unplug st sid x = Ok st' ->
  early st' = early st /\ draws st' = draws st
  /\ (forall z, In z (gone st') -> z = x \/ In z (gone st)).
Proof.
  unfold net_unplug. destruct (zmem x (queue st)).
  - intro R; inversion R; subst; simpl. repeat split; auto. intros z [Hz|Hz]; auto.
  - destruct sid as [s|]; [|discriminate].
    destruct (zassoc s (evses st)) as [[y|]|]; try discriminate.
    + destruct (Z.eqb x y).
      * cbn [queue set_gone set_evses]. destruct (0 <? _).
        -- destruct (queue st) as [|h t].
           ++ intro R; inversion R; subst; simpl. repeat split; auto. intros z [Hz|Hz]; auto.
           ++ destruct (base_plugin _ h) as [st3|] eqn:B; [|discriminate].
              apply base_plugin_frame in B. simpl in B. destruct B as [G [E [Dr _]]].
              intro R; inversion R; subst; simpl. rewrite G, E, Dr. repeat split; auto.
              intros z [Hz|Hz]; auto.
        -- intro R; inversion R; subst; simpl. repeat split; auto. intros z [Hz|Hz]; auto.
      * intro R; inversion R; subst. auto.
    + intro R; inversion R; subst. auto.
Qed.

Lemma post_fold_frame full : forall L st st',
  (forall y, In y L -> In y full) ->
  fold_left post_one L (Ok st) = Ok st' ->
  early st' = early st /\ draws st' = draws st
  /\ (forall z, In z (gone st') -> In z (gone st) \/ In z full).
Proof.
  induction L as [|y L IH]; intros st st' HL; simpl.
  - intro R; inversion R; subst. auto.
  - destruct (0 <? _).
    + destruct (net_unplug st (ev_station st y) y) as [st1|m] eqn:U.
      * intro R. apply IH in R; [|intros; apply HL; now right]. simpl in R.
        apply net_unplug_frame in U. destruct U as [E1 [D1 G1]]. destruct R as [E [Dr G]].
        repeat split; try congruence. intros z Hz. apply G in Hz.
        destruct Hz as [Hz|Hz]; auto. apply G1 in Hz. destruct Hz as [Hz|Hz]; auto.
        subst. right. apply HL. now left.
      * intro R. exfalso. clear -R. induction L; simpl in R; [discriminate|auto].
    + intro R. apply IH in R; auto. intros; apply HL; now right.
Qed.

Lemma net_post_frame st full st' :
  net_post st full = Ok st' ->
  early st' = early st /\ draws st' = draws st
  /\ (forall z, In z (gone st') -> In z (gone st) \/ (early st = true /\ In z full)).
Proof.
  unfold net_post. destruct (early st) eqn:Ee.
  - intro R. apply (post_fold_frame full) in R.
    + destruct R as [E [Dr G]]. repeat split; try congruence.
      intros z Hz. apply G in Hz. tauto.
    + intros y Hy. apply filter_In in Hy. now apply zmem_In.
  - intro R; inversion R; subst. auto.
Qed.

Lemma step_frame ch st e st' :
  step ch st e = Ok st' -> early st' = early st /\ (draws st <= draws st')%nat.
Proof.
  destruct e as [x|x|f]; simpl; intro R.
  - apply net_plugin_frame in R. tauto.
  - apply net_unplug_frame in R. destruct R as [E [Dr _]]. split; auto. lia.
  - apply net_post_frame in R. destruct R as [E [Dr _]]. split; auto. lia.
Qed.

(* sessions declared fully charged at some post_charging_update of the history *)
Fixpoint satisfied (evs : list event) : list Z :=
  match evs with
  | [] => []
  | PostCharge f :: r => f ++ satisfied r
  | _ :: r => satisfied r
  end.

Lemma satisfied_app a b : satisfied (a ++ b) = satisfied a ++ satisfied b.
Proof. induction a as [|[x|x|f] a IH]; simpl; auto. now rewrite IH, app_assoc. Qed.

Lemma gone_source ch : forall evs2 evs1 st st',
  (forall z, In z (gone st) -> In z (departures evs1) \/ (early st = true /\ In z (satisfied evs1))) ->
  run ch st evs2 = Ok st' ->
  early st' = early st /\
  forall z, In z (gone st') ->
    In z (departures (evs1 ++ evs2)) \/ (early st = true /\ In z (satisfied (evs1 ++ evs2))).
Proof.
  induction evs2 as [|e r IH]; intros evs1 st st' H0; simpl.
  - intro R; inversion R; subst. rewrite app_nil_r. auto.
  - destruct (step ch st e) as [st1|] eqn:S; [|discriminate]. intro R.
    replace (evs1 ++ e :: r) with ((evs1 ++ [e]) ++ r) by (rewrite <- app_assoc; reflexivity).
    pose proof (step_frame _ _ _ _ S) as [E1 _].
    assert (H1 : forall z, In z (gone st1) ->
               In z (departures (evs1 ++ [e])) \/ (early st1 = true /\ In z (satisfied (evs1 ++ [e])))).
    { intros z Hz. rewrite departures_app, satisfied_app, E1.
      destruct e as [x|x|f]; simpl in S.
      - apply net_plugin_frame in S. destruct S as [G _]. rewrite G in Hz. apply H0 in Hz.
        simpl. rewrite !app_nil_r. exact Hz.
      - apply net_unplug_frame in S. destruct S as [_ [_ G]]. apply G in Hz. simpl.
        rewrite app_nil_r, in_app_iff. simpl. destruct Hz as [Hz|Hz]; [auto|].
        apply H0 in Hz. tauto.
      - apply net_post_frame in S. destruct S as [_ [_ G]]. apply G in Hz. simpl.
        rewrite !app_nil_r, in_app_iff. destruct Hz as [Hz|Hz]; [apply H0 in Hz|]; tauto. }
    destruct (IH _ _ _ H1 R) as [E G]. split; [congruence|].
    intros z Hz. apply G in Hz. rewrite E1 in Hz. exact Hz.
Qed.

(* ------------------------------------------------------------------------------------------ *)
(* the C19 statements                                                                         *)
(* ------------------------------------------------------------------------------------------ *)
Section Statements.
  Variables (ch : nat -> nat) (ss : list Z) (e : bool) (evs : list event) (st : net).
  Hypothesis Hnd : NoDup ss.
  Hypothesis Hwf : wf evs.
  Hypothesis Hrun : run ch (init ss e) evs = Ok st.

  Lemma reached_inv : Inv ss (arrivals evs) (departures evs) st
                      /\ never_charged st = waiting_departures ch (init ss e) evs.
  Proof.
    destruct (reach ch ss e evs Hnd Hwf) as [st' [R [I N]]].
    rewrite Hrun in R. inversion R; subst. auto.
  Qed.

  Lemma thm_stations_fixed : map fst (evses st) = ss.
  Proof. destruct reached_inv as [I _]. apply (i_keys _ _ _ _ I). Qed.

  Lemma at_station_unique s1 s2 x : at_station st s1 x -> at_station st s2 x -> s1 = s2.
  Proof.
    destruct reached_inv as [I _]. unfold at_station. intros H1 H2.
    pose proof (i_st_conn _ _ _ _ I _ _ H2) as K. pose proof (i_st_conn _ _ _ _ I _ _ H1) as K1.
    congruence.
  Qed.

  Lemma connected_occ x : connected st x <-> In x (occupants (evses st)).
  Proof. unfold connected, at_station. symmetry. apply In_occupants. Qed.

  Lemma thm_one_place x :
    In x (arrivals evs) ->
    ((connected st x /\ ~ waiting st x /\ ~ departed st x)
     \/ (~ connected st x /\ waiting st x /\ ~ departed st x)
     \/ (~ connected st x /\ ~ waiting st x /\ departed st x))
    /\ (forall s1 s2, at_station st s1 x -> at_station st s2 x -> s1 = s2)
    /\ (count_occ Z.eq_dec (queue st) x <= 1)%nat
    /\ (count_occ Z.eq_dec (occupants (evses st)) x <= 1)%nat.
  Proof.
    destruct reached_inv as [I _]. intro Hx.
    refine (conj _ (conj (fun s1 s2 => at_station_unique s1 s2 x) _)).
    - unfold waiting, departed. rewrite connected_occ.
      pose proof (i_count _ _ _ _ I x) as C. apply zmem_In in Hx. rewrite Hx in C.
      rewrite <- !cnt_pos_In.
      destruct (cnt (occupants (evses st)) x) as [|[|n]], (cnt (queue st) x) as [|[|m]],
               (cnt (gone st) x) as [|[|k]]; lia.
    - pose proof (inv_places _ _ _ _ I x). tauto.
  Qed.

  Lemma thm_not_arrived x :
    ~ In x (arrivals evs) -> ~ connected st x /\ ~ waiting st x /\ ~ departed st x.
  Proof.
    destruct reached_inv as [I _]. intro Hx. rewrite connected_occ.
    now apply (inv_new_nowhere _ _ _ _ I).
  Qed.

  Lemma thm_no_double : NoDup (occupants (evses st)).
  Proof. destruct reached_inv as [I _]. eapply nodup_occupants; eauto. Qed.

  Lemma thm_no_starvation x : waiting st x -> forall s, ~ In (s, None) (evses st).
  Proof.
    destruct reached_inv as [I _]. unfold waiting. intros Hx s Hs.
    apply In_available in Hs. rewrite (i_starve _ _ _ _ I) in Hs; auto.
    intro K. rewrite K in Hx. contradiction.
  Qed.

  Lemma thm_fcfs :
    StronglySorted (fun a b => (arrival_index evs a < arrival_index evs b)%nat) (queue st)
    /\ forall y x, connected st y -> waiting st x -> (arrival_index evs y < arrival_index evs x)%nat.
  Proof.
    destruct reached_inv as [I _]. split.
    - apply (i_sorted _ _ _ _ I).
    - intros y x Hy Hx. apply connected_occ in Hy. now apply (i_conn_first _ _ _ _ I).
  Qed.

  Lemma thm_station_id :
    (forall s x, at_station st s x -> ev_station st x = Some s)
    /\ (forall x, waiting st x -> ev_station st x = None).
  Proof.
    destruct reached_inv as [I _]. split.
    - apply (i_st_conn _ _ _ _ I).
    - apply (i_st_wait _ _ _ _ I).
  Qed.

  Lemma thm_never_charged :
    never_charged st = waiting_departures ch (init ss e) evs
    /\ never_charged st = Z.of_nat (List.length (never_assigned st)).
  Proof. destruct reached_inv as [I N]. split; auto. apply (i_never _ _ _ _ I). Qed.

  Lemma thm_departed_gone x : In x (departures evs) -> departed st x.
  Proof. destruct reached_inv as [I _]. apply (i_dep_gone _ _ _ _ I). Qed.

  Lemma thm_all_gone :
    complete evs ->
    occupants (evses st) = [] /\ queue st = [] /\ (forall s o, In (s, o) (evses st) -> o = None)
    /\ forall x, In x (arrivals evs) -> departed st x.
  Proof.
    destruct reached_inv as [I _]. intro Hc.
    assert (G : forall x, In x (arrivals evs) -> In x (gone st)).
    { intros x Hx. apply (i_dep_gone _ _ _ _ I). now apply Hc. }
    assert (Z0 : forall x, cnt (occupants (evses st)) x = O /\ cnt (queue st) x = O).
    { intro x. pose proof (i_count _ _ _ _ I x) as C.
      destruct (zmem x (arrivals evs)) eqn:M; [|lia].
      apply zmem_In in M. apply G in M. apply cnt_pos_In in M. lia. }
    assert (O : occupants (evses st) = []) by (apply all_zero_nil; intro x; apply Z0).
    repeat apply conj; auto.
    - apply all_zero_nil. intro x. apply Z0.
    - intros s [x|] Hs; auto. exfalso.
      assert (K : In x (occupants (evses st))) by (apply In_occupants; now exists s).
      rewrite O in K. contradiction.
  Qed.

  Lemma thm_never_lost x :
    In x (arrivals evs) -> ~ In x (departures evs) ->
    connected st x \/ waiting st x \/ (e = true /\ In x (satisfied evs)).
  Proof.
    destruct reached_inv as [I _]. intros Hx Hd.
    destruct (inv_arrived_somewhere _ _ _ _ I x Hx) as [H|[H|H]].
    - left. now apply connected_occ.
    - right. now left.
    - right. right.
      destruct (gone_source ch evs [] (init ss e) st) as [_ G]; auto; try (simpl; tauto).
      apply G in H. simpl in H. destruct H as [H|H]; [contradiction|exact H].
  Qed.
End Statements.

Lemma thm_no_error ch ss e evs :
  NoDup ss -> wf evs -> exists st, run ch (init ss e) evs = Ok st.
Proof. intros Hnd Hwf. destruct (reach ch ss e evs Hnd Hwf) as [st [R _]]. eauto. Qed.

Lemma run_app ch : forall a b st,
  run ch st (a ++ b) = match run ch st a with Ok st1 => run ch st1 b | Err m => Err m end.
Proof.
  induction a as [|x a IH]; intros b st; simpl; auto.
  destruct (step ch st x); auto.
Qed.

(* a Depart event that finds its session connected while somebody waits: the head of the queue
   gets exactly that station *)
Lemma thm_admit_head ch ss e evs st x s h t :
  NoDup ss -> wf (evs ++ [Depart x]) -> run ch (init ss e) evs = Ok st ->
  at_station st s x -> queue st = h :: t ->
  exists st', step ch st (Depart x) = Ok st'
    /\ at_station st' s h /\ queue st' = t /\ swaps st' = swaps st + 1
    /\ ev_station st' h = Some s /\ departed st' x.
Proof.
  intros Hnd Hwf Hrun Hs Hq.
  destruct (reached_inv ch ss e evs st Hnd (wf_prefix _ _ Hwf) Hrun) as [I _].
  simpl. rewrite (i_st_conn _ _ _ _ I s x Hs).
  destruct (unplug_conn ss _ _ st s x Hnd I Hs)
    as [st1 [R1 [_ [_ [_ [_ [_ [G1 [_ [_ Hh]]]]]]]]]].
  destruct (Hh h t Hq) as [A1 [A2 [A3 A4]]].
  exists st1. unfold at_station, departed. rewrite G1. repeat split; auto. now left.
Qed.

(* early departure: after post_charging_update nobody waits while an EV that was connected and
   fully charged still holds its station *)
Lemma thm_early_departure ch ss evs st full st' x y :
  NoDup ss -> wf evs -> run ch (init ss true) evs = Ok st ->
  step ch st (PostCharge full) = Ok st' ->
  waiting st' x -> connected st y -> In y full -> departed st' y /\ ~ connected st' y.
Proof.
  intros Hnd Hwf Hrun Hstep Hx Hy Hf.
  destruct (reached_inv ch ss true evs st Hnd Hwf Hrun) as [I _].
  assert (Ee : early st = true).
  { assert (K : forall evs st0 st1, run ch st0 evs = Ok st1 -> early st1 = early st0).
    { induction evs0 as [|a r IH]; simpl; intros st0 st1 R; [now inversion R|].
      destruct (step ch st0 a) eqn:S; [|discriminate].
      apply step_frame in S. rewrite (IH _ _ R). tauto. }
    now rewrite (K _ _ _ Hrun). }
  destruct (post_inv ss _ _ st full Hnd I) as [st2 [R [I2 [_ [_ [_ [Q _]]]]]]].
  simpl in Hstep. rewrite Hstep in R. inversion R; subst st2.
  assert (G : In y (gone st')).
  { apply Q; auto.
    - intro K. unfold waiting in Hx. rewrite K in Hx. contradiction.
    - apply In_occupants. exact Hy. }
  split; auto. intro K. destruct K as [s K].
  eapply inv_occ_not_gone; eauto. apply In_occupants. now exists s.
Qed.

(* every early departure hands its station to a waiting EV at once: in one post_charging_update
   the number of early unplugs = admissions from the queue = sessions that left = queue shrinkage *)
Lemma thm_early_handover ch ss e evs st full st' :
  NoDup ss -> wf evs -> run ch (init ss e) evs = Ok st ->
  step ch st (PostCharge full) = Ok st' ->
  early_unplug st' - early_unplug st = swaps st' - swaps st
  /\ Z.of_nat (List.length (queue st)) = Z.of_nat (List.length (queue st')) + (swaps st' - swaps st)
  /\ Z.of_nat (List.length (gone st')) = Z.of_nat (List.length (gone st)) + (swaps st' - swaps st)
  /\ 0 <= swaps st' - swaps st.
Proof.
  intros Hnd Hwf Hrun Hstep.
  destruct (reached_inv ch ss e evs st Hnd Hwf Hrun) as [I _].
  destruct (post_inv ss _ _ st full Hnd I) as [st2 [R [_ [_ [_ [_ [_ [F1 [F2 [F3 F4]]]]]]]]]].
  simpl in Hstep. rewrite Hstep in R. inversion R; subst st2. repeat split; auto. lia.
Qed.

(* determinism: the outcome depends on the events and on the choices actually drawn only *)
Lemma step_ext ch ch' st e st' :
  step ch st e = Ok st' -> ((draws st < draws st')%nat -> ch (draws st) = ch' (draws st)) ->
  step ch' st e = Ok st'.
Proof.
  destruct e as [x|x|f]; simpl; auto.
  unfold net_plugin. destruct (0 <? _); auto.
  intros R H. rewrite <- H; auto.
  apply base_plugin_frame in R. simpl in R. destruct R as [_ [_ [Dr _]]]. lia.
Qed.

Lemma thm_deterministic ch ch' : forall evs st st',
  run ch st evs = Ok st' ->
  (forall k, (draws st <= k < draws st')%nat -> ch k = ch' k) ->
  run ch' st evs = Ok st'.
Proof.
  induction evs as [|a r IH]; simpl; intros st st' R H; auto.
  destruct (step ch st a) as [st1|] eqn:S; [|discriminate].
  pose proof (step_frame _ _ _ _ S) as [_ D1].
  assert (D2 : (draws st1 <= draws st')%nat).
  { clear -R. revert st1 R. induction r as [|b r IH]; simpl; intros st1 R.
    - inversion R; subst; lia.
    - destruct (step ch st1 b) eqn:S; [|discriminate]. apply step_frame in S. apply IH in R. lia. }
  rewrite (step_ext ch ch' _ _ _ S).
  - apply IH; auto. intros k Hk. apply H. lia.
  - intro K. apply H. lia.
Qed.

(* the value drawn only matters modulo the number of free stations *)
Lemma thm_choice_mod ch st x :
  net_plugin ch st x
  = net_plugin (fun k => (ch k mod List.length (available (evses st)))%nat) st x.
Proof.
  unfold net_plugin. destruct (0 <? _) eqn:E; auto.
  rewrite Nat.mod_mod; auto. apply Z.ltb_lt in E. lia.
Qed.

(* ------------------------------------------------------------------------------------------ *)
(* executable well-formedness                                                                 *)
(* ------------------------------------------------------------------------------------------ *)
Lemma nodupb_sound l : nodupb l = true -> NoDup l.
Proof.
  induction l as [|a l IH]; simpl; intro H; constructor;
    apply andb_prop in H; destruct H as [H1 H2].
  - apply negb_true_iff in H1. now apply zmem_false.
  - auto.
Qed.

Lemma dep_after_sound : forall evs seen, dep_after evs seen = true ->
  forall pre x post, evs = pre ++ Depart x :: post -> In x seen \/ In x (arrivals pre).
Proof.
  induction evs as [|a r IH]; intros seen H pre x post E.
  - destruct pre; discriminate.
  - destruct pre as [|b pre]; simpl in E; inversion E; subst.
    + simpl in H. apply andb_prop in H. destruct H as [H _]. left. now apply zmem_In.
    + destruct b as [y|y|f]; simpl in H |- *.
      * destruct (IH _ H pre x post eq_refl) as [[K|K]|K]; auto.
      * apply andb_prop in H. destruct H as [_ H]. eapply IH; eauto.
      * eapply IH; eauto.
Qed.

Lemma wfb_sound evs : wfb evs = true -> wf evs.
Proof.
  unfold wfb. intro H. apply andb_prop in H. destruct H as [H H3].
  apply andb_prop in H. destruct H as [H1 H2].
  split; [now apply nodupb_sound|]. split; [now apply nodupb_sound|].
  intros pre x post E. destruct (dep_after_sound _ _ H3 _ _ _ E) as [[]|K]; auto.
Qed.

Lemma completeb_sound evs : completeb evs = true -> complete evs.
Proof.
  unfold completeb, complete. rewrite forallb_forall. intros H x Hx. apply zmem_In. auto.
Qed.
