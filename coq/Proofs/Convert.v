(* Proofs/Convert.v — lemmas about Model/Convert.v (C15), Z / Q part: period indices, order,
   max_len, requested energy, default battery sizing, sample clipping, the row loop.
   Everything here is axiom-free (Q, Z, lists). *)
From Coq Require Import ZArith QArith Qminmax Qabs Qround List Bool String Lia Lqa.
From ACN Require Import Base.Num Base.QExpFast Gen.Convert_Q Gen.Fit_Q Gen.FitConst Model.Convert.
Import ListNotations.
Open Scope Q_scope.

(* ------------------------------------------------------------------------------------------ *)
(* int() / period index                                                                       *)
(* ------------------------------------------------------------------------------------------ *)
Lemma Qtrunc_nonneg q : 0 <= q -> Qtrunc q = Qfloor q.
Proof. intro H. unfold Qtrunc. apply Qleb_spec in H. now rewrite H. Qed.

Lemma Qtrunc_neg q : q < 0 -> Qtrunc q = Qceiling q.
Proof.
  intro H. unfold Qtrunc. destruct (Qleb 0 q) eqn:E; auto.
  apply Qleb_spec in E. exfalso. apply (Qlt_irrefl 0). eapply Qle_lt_trans; eauto.
Qed.

Lemma Qceiling_neg_le0 q : q < 0 -> (Qceiling q <= 0)%Z.
Proof.
  intro H. change 0%Z with (Qceiling 0). apply Qceiling_resp_le. now apply Qlt_le_weak.
Qed.

Lemma Qfloor_nonneg q : 0 <= q -> (0 <= Qfloor q)%Z.
Proof. intro H. change 0%Z with (Qfloor 0). now apply Qfloor_resp_le. Qed.

(* Python's int() is monotone (truncation toward zero) *)
Lemma Qtrunc_le a b : a <= b -> (Qtrunc a <= Qtrunc b)%Z.
Proof.
  intro H.
  destruct (Qlt_le_dec a 0) as [Ha|Ha]; destruct (Qlt_le_dec b 0) as [Hb|Hb].
  - rewrite !Qtrunc_neg by assumption. now apply Qceiling_resp_le.
  - rewrite (Qtrunc_neg a Ha), (Qtrunc_nonneg b Hb).
    pose proof (Qceiling_neg_le0 a Ha). pose proof (Qfloor_nonneg b Hb). lia.
  - exfalso. apply (Qlt_irrefl 0). eapply Qle_lt_trans; [exact Ha|]. eapply Qle_lt_trans; eauto.
  - rewrite !Qtrunc_nonneg by assumption. now apply Qfloor_resp_le.
Qed.

Lemma period_pos T : 0 < T -> 0 < 60 * T.
Proof. intro H. apply Qmult_lt_0_compat; [reflexivity|assumption]. Qed.

Lemma div_period_le a b T : 0 < T -> a <= b -> a / (60 * T) <= b / (60 * T).
Proof.
  intros HT H. unfold Qdiv. apply Qmult_le_compat_r; auto.
  apply Qinv_le_0_compat. apply Qlt_le_weak. now apply period_pos.
Qed.

Lemma div_period_nonneg a T : 0 < T -> 0 <= a -> 0 <= a / (60 * T).
Proof.
  intros HT H. unfold Qdiv. apply Qmult_le_0_compat; auto.
  apply Qinv_le_0_compat. apply Qlt_le_weak. now apply period_pos.
Qed.

(* _datetime_to_timestamp, round_up=False: the period index of an instant at/after the epoch *)
Lemma DT_index ts T : 0 < T -> 0 <= ts -> DT_timestamp T false ts = Qfloor (ts / (60 * T)).
Proof.
  intros HT H. unfold DT_timestamp. apply Qtrunc_nonneg.
  change (60 # 1) with 60. now apply div_period_nonneg.
Qed.

(* before the epoch int() rounds toward zero, i.e. up *)
Lemma DT_index_pre_epoch ts T : 0 < T -> ts < 0 -> DT_timestamp T false ts = Qceiling (ts / (60 * T)).
Proof.
  intros HT H. unfold DT_timestamp. apply Qtrunc_neg. change (60 # 1) with 60.
  unfold Qdiv. setoid_replace 0 with (0 * / (60 * T)) by ring.
  apply Qmult_lt_compat_r; auto. apply Qinv_lt_0_compat. now apply period_pos.
Qed.

Lemma DT_index_round_up ts T : DT_timestamp T true ts = Qceiling (ts / (60 * T)).
Proof. reflexivity. Qed.

Lemma DT_mono a b T : 0 < T -> a <= b -> (DT_timestamp T false a <= DT_timestamp T false b)%Z.
Proof.
  intros HT H. unfold DT_timestamp. apply Qtrunc_le. change (60 # 1) with 60. now apply div_period_le.
Qed.

(* ------------------------------------------------------------------------------------------ *)
(* _convert_to_ev: what the generated statement run computes                                  *)
(* ------------------------------------------------------------------------------------------ *)
Definition cap_stay (max_len : option Z) (arr dep : Z) : Z :=
  match max_len with
  | Some L => if (L <? dep - arr)%Z then (arr + L)%Z else dep
  | None => dep
  end.

Lemma Conv_session_spec kwh off T maxP max_len ff i1 i2 :
  Conv_session kwh off T maxP max_len ff i1 i2 =
  let arr := (i1 - off)%Z in
  let dep := cap_stay max_len arr (i2 - off)%Z in
  (arr, dep, if ff then Qmin kwh (maxP * inject_Z (dep - arr) * (T / 60)) else kwh).
Proof.
  unfold Conv_session, cap_stay. destruct max_len as [L|]; cbn.
  - destruct (L <? i2 - off - (i1 - off))%Z; destruct ff; reflexivity.
  - destruct ff; reflexivity.
Qed.

Lemma cap_stay_le L arr dep : (cap_stay (Some L) arr dep - arr <= L)%Z.
Proof. unfold cap_stay. destruct (L <? dep - arr)%Z eqn:E; [lia|]. apply Z.ltb_ge in E. lia. Qed.

Lemma cap_stay_min L arr dep : (cap_stay (Some L) arr dep - arr = Z.min (dep - arr) L)%Z.
Proof. unfold cap_stay. destruct (L <? dep - arr)%Z eqn:E; [apply Z.ltb_lt in E|apply Z.ltb_ge in E]; lia. Qed.

Lemma cap_stay_ge max_len arr dep :
  (arr <= dep)%Z -> match max_len with Some L => (0 <= L)%Z | None => True end ->
  (arr <= cap_stay max_len arr dep)%Z.
Proof.
  intros H HL. unfold cap_stay. destruct max_len as [L|]; auto. destruct (L <? dep - arr)%Z; lia.
Qed.

(* size_battery with the default battery *)
Lemma size_default_ok e cap init stay V T dflt :
  size_battery BP_default dflt e stay V T = Ok (cap, init) ->
  dflt = (cap, init) /\ init <= cap.
Proof.
  unfold size_battery. destruct dflt as [c i]. unfold Battery_init_bad.
  destruct (Qltb c i) eqn:E; [discriminate|]. intro H. inversion H; subst. split; auto.
  destruct (Qlt_le_dec cap init) as [Hlt|Hle]; auto. apply Qltb_spec in Hlt. congruence.
Qed.

Lemma size_default_err e stay V T c i s :
  size_battery BP_default (c, i) e stay V T = Err s -> c < i /\ s = E_INIT.
Proof.
  unfold size_battery, Battery_init_bad. destruct (Qltb c i) eqn:E; [|discriminate].
  intro H. inversion H. split; auto. now apply Qltb_spec.
Qed.

(* the observable fields of a successful conversion *)
Lemma convert_to_ev_ok off T V maxP max_len bp ff conn disc kwh o :
  convert_to_ev off T V maxP max_len bp ff (conn, disc, kwh) = Ok o ->
  let arr := (DT_timestamp T false conn - off)%Z in
  let dep := cap_stay max_len arr (DT_timestamp T false disc - off)%Z in
  let e := if ff then Qmin kwh (maxP * inject_Z (dep - arr) * (T / 60)) else kwh in
  ev_arrival o = arr /\ ev_departure o = dep /\ ev_requested o = e /\
  size_battery bp (e, 0) e (dep - arr)%Z V T = Ok (ev_cap o, ev_init o).
Proof.
  unfold convert_to_ev. rewrite Conv_session_spec. cbv zeta.
  set (arr := (DT_timestamp T false conn - off)%Z).
  set (dep := cap_stay max_len arr (DT_timestamp T false disc - off)%Z).
  set (e := if ff then _ else _).
  unfold Conv_default_cap, Conv_default_init. change (0 # 1) with 0.
  destruct (size_battery bp (e, 0) e (dep - arr)%Z V T) as [[cap init]|s] eqn:Es; [|discriminate].
  intro H. inversion H; subst; cbn. auto.
Qed.

(* res_all = all-or-first-error map *)
Lemma res_all_Forall2 {A B} (f : A -> res B) l ys :
  res_all f l = Ok ys -> Forall2 (fun x y => f x = Ok y) l ys.
Proof.
  revert ys. induction l as [|x r IH]; cbn; intros ys H.
  - inversion H. constructor.
  - destruct (f x) eqn:Ex; [|discriminate]. destruct (res_all f r) eqn:Er; [|discriminate].
    inversion H; subst. constructor; auto.
Qed.

Lemma get_evs_Forall2 start T V maxP max_len bp ff docs evs :
  get_evs start T V maxP max_len bp ff docs = Ok evs ->
  Forall2 (fun d o => convert_to_ev (DT_timestamp T false start) T V maxP max_len bp ff d = Ok o) docs evs.
Proof. unfold get_evs. apply res_all_Forall2. Qed.

(* ------------------------------------------------------------------------------------------ *)
(* the per-session statements                                                                 *)
(* ------------------------------------------------------------------------------------------ *)
Definition raw_dep (start T disc : Q) : Z := (Qfloor (disc / (60 * T)) - Qfloor (start / (60 * T)))%Z.
Definition raw_arr (start T conn : Q) : Z := (Qfloor (conn / (60 * T)) - Qfloor (start / (60 * T)))%Z.

Lemma session_index start T V maxP max_len bp ff conn disc kwh o :
  0 < T -> 0 <= start -> 0 <= conn -> 0 <= disc ->
  convert_to_ev (DT_timestamp T false start) T V maxP max_len bp ff (conn, disc, kwh) = Ok o ->
  ev_arrival o = raw_arr start T conn /\
  ev_departure o = cap_stay max_len (raw_arr start T conn) (raw_dep start T disc).
Proof.
  intros HT Hs Hc Hd H. apply convert_to_ev_ok in H. cbv zeta in H.
  destruct H as (Ha & Hdep & _ & _). rewrite Ha, Hdep. unfold raw_arr, raw_dep.
  rewrite !DT_index by assumption. auto.
Qed.

Lemma session_monotone off T V maxP max_len bp ff conn disc kwh o :
  0 < T -> conn <= disc -> match max_len with Some L => (0 <= L)%Z | None => True end ->
  convert_to_ev off T V maxP max_len bp ff (conn, disc, kwh) = Ok o ->
  (ev_arrival o <= ev_departure o)%Z.
Proof.
  intros HT Hcd HL H. apply convert_to_ev_ok in H. cbv zeta in H.
  destruct H as (Ha & Hdep & _ & _). rewrite Ha, Hdep. apply cap_stay_ge; auto.
  pose proof (DT_mono conn disc T HT Hcd). lia.
Qed.

Lemma session_order off T V maxP max_len bp ff c1 d1 k1 o1 c2 d2 k2 o2 :
  0 < T -> c1 <= c2 ->
  convert_to_ev off T V maxP max_len bp ff (c1, d1, k1) = Ok o1 ->
  convert_to_ev off T V maxP max_len bp ff (c2, d2, k2) = Ok o2 ->
  (ev_arrival o1 <= ev_arrival o2)%Z.
Proof.
  intros HT Hc H1 H2. apply convert_to_ev_ok in H1. apply convert_to_ev_ok in H2. cbv zeta in *.
  destruct H1 as (Ha1 & _). destruct H2 as (Ha2 & _). rewrite Ha1, Ha2.
  pose proof (DT_mono c1 c2 T HT Hc). lia.
Qed.

Lemma session_max_len off T V maxP L bp ff conn disc kwh o :
  convert_to_ev off T V maxP (Some L) bp ff (conn, disc, kwh) = Ok o ->
  (ev_departure o - ev_arrival o <= L)%Z /\
  (ev_departure o - ev_arrival o =
   Z.min (DT_timestamp T false disc - DT_timestamp T false conn) L)%Z.
Proof.
  intro H. apply convert_to_ev_ok in H. cbv zeta in H. destruct H as (Ha & Hdep & _ & _).
  rewrite Ha, Hdep. split; [apply cap_stay_le|]. rewrite cap_stay_min. f_equal. lia.
Qed.

Lemma session_energy off T V maxP max_len bp ff conn disc kwh o :
  convert_to_ev off T V maxP max_len bp ff (conn, disc, kwh) = Ok o ->
  ev_requested o =
  if ff then Qmin kwh (maxP * inject_Z (ev_departure o - ev_arrival o) * (T / 60)) else kwh.
Proof.
  intro H. apply convert_to_ev_ok in H. cbv zeta in H. destruct H as (Ha & Hdep & He & _).
  now rewrite Ha, Hdep, He.
Qed.

Lemma session_energy_feasible off T V maxP max_len bp conn disc kwh o :
  convert_to_ev off T V maxP max_len bp true (conn, disc, kwh) = Ok o ->
  ev_requested o <= kwh /\
  ev_requested o <= maxP * inject_Z (ev_departure o - ev_arrival o) * (T / 60) /\
  (kwh <= maxP * inject_Z (ev_departure o - ev_arrival o) * (T / 60) -> ev_requested o == kwh).
Proof.
  intro H. rewrite (session_energy _ _ _ _ _ _ _ _ _ _ _ H).
  split; [apply Q.le_min_l|]. split; [apply Q.le_min_r|]. intro Hle. now apply Q.min_l.
Qed.

Lemma session_default_battery off T V maxP max_len ff conn disc kwh o :
  convert_to_ev off T V maxP max_len BP_default ff (conn, disc, kwh) = Ok o ->
  ev_cap o = ev_requested o /\ ev_init o = 0 /\ ev_cap o - ev_init o == ev_requested o /\
  0 <= ev_requested o.
Proof.
  intro H. apply convert_to_ev_ok in H. cbv zeta in H. destruct H as (_ & _ & He & Hs).
  apply size_default_ok in Hs. destruct Hs as [Hp Hle]. injection Hp as Hc Hi.
  assert (C : ev_cap o = ev_requested o) by (rewrite He; symmetry; exact Hc).
  assert (I : ev_init o = 0) by (symmetry; exact Hi).
  rewrite C, I in *. repeat split; auto; ring.
Qed.

(* the default battery is refused exactly for negative energies *)
Lemma session_default_error off T V maxP max_len ff conn disc kwh s :
  convert_to_ev off T V maxP max_len BP_default ff (conn, disc, kwh) = Err s ->
  s = E_INIT /\
  (if ff then Qmin kwh (maxP * inject_Z (cap_stay max_len (DT_timestamp T false conn - off)
                                          (DT_timestamp T false disc - off)
                                        - (DT_timestamp T false conn - off)) * (T / 60)) else kwh) < 0.
Proof.
  unfold convert_to_ev. rewrite Conv_session_spec. cbv zeta.
  unfold Conv_default_cap, Conv_default_init. change (0 # 1) with 0.
  match goal with |- context [size_battery BP_default (?e, 0) ?e ?st V T] =>
    destruct (size_battery BP_default (e, 0) e st V T) as [[c i]|s'] eqn:Es end; [discriminate|].
  intro H. inversion H; subst. apply size_default_err in Es. destruct Es; auto.
Qed.

(* with the capacity fit: the battery is the fit's result, accepted by the constructor *)
Lemma session_fit_battery off T V maxP max_len ff conn disc kwh o :
  convert_to_ev off T V maxP max_len BP_fit ff (conn, disc, kwh) = Ok o ->
  batt_cap_fn_Q (ev_requested o) (inject_Z (ev_departure o - ev_arrival o)) V T
  = FitOk (ev_cap o) (ev_init o) /\ ev_init o <= ev_cap o.
Proof.
  intro H. apply convert_to_ev_ok in H. cbv zeta in H. destruct H as (Ha & Hdep & He & Hs).
  rewrite Ha, Hdep, He. unfold size_battery in Hs.
  destruct (batt_cap_fn_Q _ _ V T) as [cap init| | |]; try discriminate.
  unfold Battery_init_bad in Hs. destruct (Qltb cap init) eqn:E; [discriminate|].
  inversion Hs; subst. split; auto.
  destruct (Qlt_le_dec (ev_cap o) (ev_init o)) as [Hlt|Hle]; auto. apply Qltb_spec in Hlt. congruence.
Qed.

(* ------------------------------------------------------------------------------------------ *)
(* stochastic path                                                                            *)
(* ------------------------------------------------------------------------------------------ *)
Definition cap_dur (max_len : option Q) (d : Q) : Q :=
  match max_len with Some L => if Qltb L d then L else d | None => d end.

Lemma Stoch_row_spec a d e pph maxP max_len ff :
  Stoch_row a d e pph maxP max_len ff =
  let d' := cap_dur max_len d in
  let arr := Qtrunc (a * pph) in
  let dep := Qtrunc ((a + d') * pph) in
  (arr, dep, (if ff then Qmin (maxP * inject_Z (dep - arr) / pph) e else e), d').
Proof.
  unfold Stoch_row, cap_dur. destruct max_len as [L|]; cbn.
  - destruct (Qltb L d); destruct ff; reflexivity.
  - destruct ff; reflexivity.
Qed.

Lemma Stoch_invalid_false a d e : Stoch_invalid a d e = false <-> 0 <= a /\ 0 < d /\ 0 < e.
Proof.
  unfold Stoch_invalid. change (0 # 1) with 0. rewrite !orb_false_iff. split.
  - intros (Ha & Hd & He). repeat split.
    + destruct (Qlt_le_dec a 0) as [H|H]; auto. apply Qltb_spec in H. congruence.
    + destruct (Qlt_le_dec 0 d) as [H|H]; auto. apply Qleb_spec in H. congruence.
    + destruct (Qlt_le_dec 0 e) as [H|H]; auto. apply Qleb_spec in H. congruence.
  - intros (Ha & Hd & He). repeat split.
    + destruct (Qltb a 0) eqn:E; auto. apply Qltb_spec in E. lra.
    + destruct (Qleb d 0) eqn:E; auto. apply Qleb_spec in E. lra.
    + destruct (Qleb e 0) eqn:E; auto. apply Qleb_spec in E. lra.
Qed.

Lemma pph_pos T : 0 < T -> 0 < Stoch_pph T.
Proof.
  intro H. unfold Stoch_pph. change (60 # 1) with 60. unfold Qdiv.
  apply Qmult_lt_0_compat; [reflexivity|]. now apply Qinv_lt_0_compat.
Qed.

Lemma cap_dur_le L d : cap_dur (Some L) d <= L.
Proof.
  unfold cap_dur. destruct (Qltb L d) eqn:E; [apply Qle_refl|].
  destruct (Qlt_le_dec L d) as [H|H]; auto. apply Qltb_spec in H. congruence.
Qed.

Lemma cap_dur_le_d max_len d : cap_dur max_len d <= d.
Proof.
  unfold cap_dur. destruct max_len as [L|]; [|apply Qle_refl].
  destruct (Qltb L d) eqn:E; [|apply Qle_refl]. apply Qltb_spec in E. now apply Qlt_le_weak.
Qed.

Lemma cap_dur_nonneg max_len d :
  0 <= d -> match max_len with Some L => 0 <= L | None => True end -> 0 <= cap_dur max_len d.
Proof. intros Hd HL. unfold cap_dur. destruct max_len as [L|]; auto. destruct (Qltb L d); auto. Qed.

Lemma stoch_row_ok T V maxP max_len bp ff a d e o :
  stoch_convert_row T V maxP max_len bp ff (a, d, e) = Ok o ->
  let d' := cap_dur max_len d in
  let arr := Qtrunc (a * Stoch_pph T) in
  let dep := Qtrunc ((a + d') * Stoch_pph T) in
  let en := if ff then Qmin (maxP * inject_Z (dep - arr) / Stoch_pph T) e else e in
  ev_arrival o = arr /\
  ev_departure o = dep /\
  ev_requested o = en /\
  size_battery bp (en, 0) en (dep - arr)%Z V T = Ok (ev_cap o, ev_init o).
Proof.
  unfold stoch_convert_row. rewrite Stoch_row_spec. cbv zeta.
  set (d' := cap_dur max_len d). set (arr := Qtrunc (a * Stoch_pph T)).
  set (dep := Qtrunc ((a + d') * Stoch_pph T)). set (en := if ff then _ else _).
  unfold Stoch_default_cap, Stoch_default_init. change (0 # 1) with 0.
  destruct (size_battery bp (en, 0) en (dep - arr)%Z V T) as [[cap init]|s] eqn:Es; [|discriminate].
  intro H. inversion H; subst; cbn. auto.
Qed.

(* floor(x + y) - floor(x) <= floor(y) + 1 *)
Lemma Qfloor_add_le x y : (Qfloor (x + y) - Qfloor x <= Qfloor y + 1)%Z.
Proof.
  pose proof (Qfloor_le x) as Hx. pose proof (Qlt_floor x) as Hx'.
  pose proof (Qfloor_le y) as Hy. pose proof (Qlt_floor y) as Hy'.
  pose proof (Qfloor_le (x + y)) as Hs.
  assert (H : inject_Z (Qfloor (x + y)) < inject_Z (Qfloor x + Qfloor y + 2)).
  { rewrite !inject_Z_plus in *. change (inject_Z 2) with 2. change (inject_Z 1) with 1 in *. lra. }
  rewrite <- Zlt_Qlt in H. lia.
Qed.

Lemma stoch_row_index T V maxP max_len bp ff a d e o :
  0 < T -> 0 <= a -> 0 < d -> match max_len with Some L => 0 <= L | None => True end ->
  stoch_convert_row T V maxP max_len bp ff (a, d, e) = Ok o ->
  let d' := cap_dur max_len d in
  ev_arrival o = Qfloor (a * (60 / T)) /\
  ev_departure o = Qfloor ((a + d') * (60 / T)) /\
  (ev_arrival o <= ev_departure o)%Z /\
  (ev_departure o - ev_arrival o <= Qfloor (d' * (60 / T)) + 1)%Z.
Proof.
  intros HT Ha Hd HL H. apply stoch_row_ok in H. cbv zeta in H. destruct H as (Har & Hdep & _ & _).
  pose proof (pph_pos T HT) as Hp. unfold Stoch_pph in *. change (60 # 1) with 60 in *.
  assert (Hd' : 0 <= cap_dur max_len d) by (apply cap_dur_nonneg; auto; now apply Qlt_le_weak).
  assert (H1 : 0 <= a * (60 / T)) by (apply Qmult_le_0_compat; auto; now apply Qlt_le_weak).
  assert (H2 : 0 <= (a + cap_dur max_len d) * (60 / T)).
  { apply Qmult_le_0_compat; [|now apply Qlt_le_weak]. lra. }
  rewrite Qtrunc_nonneg in Har, Hdep by assumption. cbv zeta.
  rewrite Har, Hdep. repeat split; auto.
  - apply Qfloor_resp_le. apply Qmult_le_compat_r; [|now apply Qlt_le_weak]. lra.
  - setoid_replace ((a + cap_dur max_len d) * (60 / T))
      with (a * (60 / T) + cap_dur max_len d * (60 / T)) by ring.
    apply Qfloor_add_le.
Qed.

Lemma stoch_row_energy T V maxP max_len bp ff a d e o :
  stoch_convert_row T V maxP max_len bp ff (a, d, e) = Ok o ->
  ev_requested o =
  if ff then Qmin (maxP * inject_Z (ev_departure o - ev_arrival o) / Stoch_pph T) e else e.
Proof.
  intro H. apply stoch_row_ok in H. cbv zeta in H. destruct H as (Ha & Hd & He & _).
  now rewrite Ha, Hd, He.
Qed.

(* force_feasible on this path: capped by what max_battery_power delivers during the discretised
   stay [arrival, departure) of the EV that is returned (code as of the fix ebdc3a4) *)
Lemma stoch_row_energy_feasible T V maxP max_len bp a d e o :
  0 < T ->
  stoch_convert_row T V maxP max_len bp true (a, d, e) = Ok o ->
  ev_requested o <= e /\
  ev_requested o <= maxP * inject_Z (ev_departure o - ev_arrival o) * (T / 60) /\
  (e <= maxP * inject_Z (ev_departure o - ev_arrival o) * (T / 60) -> ev_requested o == e).
Proof.
  intros HT H. rewrite (stoch_row_energy _ _ _ _ _ _ _ _ _ _ H).
  assert (HTne : ~ T == 0) by (intro E; rewrite E in HT; discriminate).
  assert (Heq : maxP * inject_Z (ev_departure o - ev_arrival o) / Stoch_pph T
                == maxP * inject_Z (ev_departure o - ev_arrival o) * (T / 60)).
  { unfold Stoch_pph. change (60 # 1) with 60. field. exact HTne. }
  split; [apply Q.le_min_r|]. split.
  - rewrite <- Heq. apply Q.le_min_l.
  - intro Hle. apply Q.min_r. now rewrite Heq.
Qed.

(* clip_samples *)
Lemma clip_in_bounds lo hi x : lo <= hi -> lo <= Qmin (Qmax x lo) hi /\ Qmin (Qmax x lo) hi <= hi.
Proof.
  intro H. split; [|apply Q.le_min_r]. apply Q.min_glb; auto. apply Q.le_max_r.
Qed.

Lemma clip_id lo hi x : lo <= x -> x <= hi -> Qmin (Qmax x lo) hi == x.
Proof. intros H1 H2. rewrite Q.max_l by assumption. now apply Q.min_l. Qed.

Lemma clip_row_bounds b a d e :
  a_min b <= a_max b -> d_min b <= d_max b -> e_min b <= e_max b ->
  let '(a', d', e') := clip_row b (a, d, e) in
  a_min b <= a' <= a_max b /\ d_min b <= d' <= d_max b /\ e_min b <= e' <= e_max b.
Proof.
  intros Ha Hd He. unfold clip_row, Clip_arrival, Clip_duration, Clip_energy.
  repeat split; try (apply clip_in_bounds; assumption).
Qed.

(* with positive lower bounds on duration and energy and a non-negative one on arrival (the
   defaults 0 / 0.0833 / 0.5) a clipped sample is never an "Invalid session" *)
Lemma clip_row_valid b a d e :
  a_min b <= a_max b -> d_min b <= d_max b -> e_min b <= e_max b ->
  0 <= a_min b -> 0 < d_min b -> 0 < e_min b ->
  let '(a', d', e') := clip_row b (a, d, e) in Stoch_invalid a' d' e' = false.
Proof.
  intros Ha Hd He H0a H0d H0e.
  pose proof (clip_row_bounds b a d e Ha Hd He) as H.
  destruct (clip_row b (a, d, e)) as [[a' d'] e']. destruct H as ((A1 & _) & (D1 & _) & (E1 & _)).
  apply Stoch_invalid_false. repeat split; lra.
Qed.

(* generate_events: the rows of day d are the clipped draws with arrival shifted by 24*d hours *)
Lemma day_rows_cons b d raw rest :
  day_rows b d (raw :: rest) =
  (map (fun r => let '(a, du, e) := clip_row b r in (a + 24 * inject_Z d, du, e)) raw
   ++ day_rows b (d + 1) rest)%list.
Proof. reflexivity. Qed.

(* the row loop: exactly the valid rows are converted, in order, and carry their row index *)
Definition row_valid (r : row) : bool := let '(a, d, e) := r in negb (Stoch_invalid a d e).

Fixpoint valid_indices (i : Z) (rows : list row) : list Z :=
  match rows with
  | [] => []
  | r :: rest => if row_valid r then i :: valid_indices (i + 1) rest else valid_indices (i + 1) rest
  end.

Lemma convert_ev_matrix_from_spec i T V maxP max_len bp ff rows os :
  convert_ev_matrix_from i T V maxP max_len bp ff rows = Ok os ->
  map fst os = valid_indices i rows /\
  Forall2 (fun r io => stoch_convert_row T V maxP max_len bp ff r = Ok (snd io))
          (filter row_valid rows) os.
Proof.
  revert i os.
  induction rows as [|[[a d] e] rest IH];
    cbn [convert_ev_matrix_from valid_indices filter row_valid map fst]; intros i os H.
  - inversion H. split; constructor.
  - destruct (Stoch_invalid a d e) eqn:Ei; cbn [negb].
    + apply IH in H. exact H.
    + destruct (stoch_convert_row T V maxP max_len bp ff (a, d, e)) as [o|s] eqn:Er; [|discriminate H].
      destruct (convert_ev_matrix_from (i + 1) T V maxP max_len bp ff rest) as [os'|s] eqn:Em; [|discriminate H].
      inversion H; subst. apply IH in Em. destruct Em as [E1 E2]. cbn. split.
      * now rewrite E1.
      * constructor; auto.
Qed.

(* ------------------------------------------------------------------------------------------ *)
(* the executable fit: the lazy call of binsearch is the generated function's own value       *)
(* ------------------------------------------------------------------------------------------ *)
Lemma ladder_Q_ok caps E n V T cap init :
  ladder_Q caps E n V T = FitOk cap init ->
  exists pre post, caps = (pre ++ cap :: post)%list /\
    Fit_skip_cap cap E = false /\ get_init_cap_Q E n V T cap = FV init /\ Fit_accept_init init = true /\
    Forall (fun c => Fit_skip_cap c E = true \/
                     exists i, get_init_cap_Q E n V T c = FV i /\ Fit_accept_init i = false) pre.
Proof.
  induction caps as [|c rest IH]; cbn; [discriminate|].
  destruct (Fit_skip_cap c E) eqn:Es.
  - intro H. destruct (IH H) as (pre & post & -> & H1 & H2 & H3 & H4).
    exists (c :: pre), post. repeat split; auto.
  - destruct (get_init_cap_Q E n V T c) as [i| |] eqn:Eg; try discriminate.
    destruct (Fit_accept_init i) eqn:Ea.
    + intro H. inversion H; subst. exists [], rest. cbn. repeat split; auto.
    + intro H. destruct (IH H) as (pre & post & -> & H1 & H2 & H3 & H4).
      exists (c :: pre), post. repeat split; auto. constructor; auto. right. exists i. split; assumption.
Qed.

(* ------------------------------------------------------------------------------------------ *)
(* get_evs: the per-session statements lifted to the whole list of documents                  *)
(* ------------------------------------------------------------------------------------------ *)
Definition conn_of (d : doc) : Q := fst (fst d).
Definition disc_of (d : doc) : Q := snd (fst d).
Definition kwh_of (d : doc) : Q := snd d.

Lemma Forall2_with_Forall {A B} (P : A -> Prop) (R S : A -> B -> Prop) l l' :
  (forall a b, P a -> R a b -> S a b) -> Forall P l -> Forall2 R l l' -> Forall2 S l l'.
Proof.
  intros HI HP HR. induction HR; constructor; inversion HP; subst; auto.
Qed.

Lemma Forall2_impl' {A B} (R S : A -> B -> Prop) l l' :
  (forall a b, R a b -> S a b) -> Forall2 R l l' -> Forall2 S l l'.
Proof. intros HI H. induction H; constructor; auto. Qed.

Lemma Forall2_nth {A B} (R : A -> B -> Prop) l l' i a b :
  Forall2 R l l' -> nth_error l i = Some a -> nth_error l' i = Some b -> R a b.
Proof.
  intro H. revert i. induction H; intros [|i] Ha Hb; cbn in *; try discriminate.
  - inversion Ha; inversion Hb; subst; auto.
  - eauto.
Qed.

Lemma Forall2_right {A B} (R : A -> B -> Prop) (S : B -> Prop) l l' :
  (forall a b, R a b -> S b) -> Forall2 R l l' -> Forall S l'.
Proof. intros HI H. induction H; constructor; eauto. Qed.

Lemma get_evs_length start T V maxP max_len bp ff docs evs :
  get_evs start T V maxP max_len bp ff docs = Ok evs -> List.length evs = List.length docs.
Proof.
  intro H. apply get_evs_Forall2 in H. induction H; cbn; [reflexivity|]. now f_equal.
Qed.

Lemma get_evs_index start T V maxP max_len bp ff docs evs :
  0 < T -> 0 <= start -> Forall (fun d => 0 <= conn_of d /\ 0 <= disc_of d) docs ->
  get_evs start T V maxP max_len bp ff docs = Ok evs ->
  Forall2 (fun d o =>
             ev_arrival o = (Qfloor (conn_of d / (60 * T)) - Qfloor (start / (60 * T)))%Z /\
             ev_departure o = cap_stay max_len (ev_arrival o)
                                (Qfloor (disc_of d / (60 * T)) - Qfloor (start / (60 * T)))%Z)
          docs evs.
Proof.
  intros HT Hs Hd H. apply get_evs_Forall2 in H.
  eapply Forall2_with_Forall; [|exact Hd|exact H].
  intros [[conn disc] kwh] o [Hc Hdi] Hconv. cbn in Hc, Hdi.
  destruct (session_index _ _ _ _ _ _ _ _ _ _ _ HT Hs Hc Hdi Hconv) as [Ha Hdep].
  cbn. rewrite Hdep, Ha. auto.
Qed.

Lemma get_evs_monotone start T V maxP max_len bp ff docs evs :
  0 < T -> match max_len with Some L => (0 <= L)%Z | None => True end ->
  get_evs start T V maxP max_len bp ff docs = Ok evs ->
  Forall2 (fun d o => conn_of d <= disc_of d -> (ev_arrival o <= ev_departure o)%Z) docs evs.
Proof.
  intros HT HL H. apply get_evs_Forall2 in H. eapply Forall2_impl'; [|exact H].
  intros [[conn disc] kwh] o Hconv Hcd. cbn in Hcd. eapply session_monotone; eauto.
Qed.

Lemma get_evs_order start T V maxP max_len bp ff docs evs i j d1 d2 o1 o2 :
  0 < T -> get_evs start T V maxP max_len bp ff docs = Ok evs ->
  nth_error docs i = Some d1 -> nth_error evs i = Some o1 ->
  nth_error docs j = Some d2 -> nth_error evs j = Some o2 ->
  conn_of d1 <= conn_of d2 -> (ev_arrival o1 <= ev_arrival o2)%Z.
Proof.
  intros HT H Hd1 Ho1 Hd2 Ho2 Hc. apply get_evs_Forall2 in H.
  pose proof (Forall2_nth _ _ _ _ _ _ H Hd1 Ho1) as C1.
  pose proof (Forall2_nth _ _ _ _ _ _ H Hd2 Ho2) as C2.
  destruct d1 as [[c1 x1] k1]. destruct d2 as [[c2 x2] k2]. cbn in Hc.
  eapply session_order; eauto.
Qed.

Lemma get_evs_max_len start T V maxP L bp ff docs evs :
  get_evs start T V maxP (Some L) bp ff docs = Ok evs ->
  Forall (fun o => (ev_departure o - ev_arrival o <= L)%Z) evs.
Proof.
  intro H. apply get_evs_Forall2 in H. eapply Forall2_right; [|exact H].
  intros [[conn disc] kwh] o Hconv. cbv beta. eapply session_max_len; eauto.
Qed.

Lemma get_evs_energy start T V maxP max_len bp ff docs evs :
  get_evs start T V maxP max_len bp ff docs = Ok evs ->
  Forall2 (fun d o =>
             ev_requested o =
             if ff then Qmin (kwh_of d) (maxP * inject_Z (ev_departure o - ev_arrival o) * (T / 60))
             else kwh_of d) docs evs.
Proof.
  intro H. apply get_evs_Forall2 in H. eapply Forall2_impl'; [|exact H].
  intros [[conn disc] kwh] o Hconv. cbn. eapply session_energy; eauto.
Qed.

Lemma get_evs_default_battery start T V maxP max_len ff docs evs :
  get_evs start T V maxP max_len BP_default ff docs = Ok evs ->
  Forall (fun o => ev_cap o - ev_init o == ev_requested o /\ ev_init o = 0 /\ 0 <= ev_requested o) evs.
Proof.
  intro H. apply get_evs_Forall2 in H. eapply Forall2_right; [|exact H].
  intros [[conn disc] kwh] o Hconv. cbv beta.
  destruct (session_default_battery _ _ _ _ _ _ _ _ _ _ Hconv) as (_ & H2 & H3 & H4). auto.
Qed.

Lemma get_evs_fit_battery start T V maxP max_len ff docs evs :
  get_evs start T V maxP max_len BP_fit ff docs = Ok evs ->
  Forall (fun o => batt_cap_fn_Q (ev_requested o) (inject_Z (ev_departure o - ev_arrival o)) V T
                   = FitOk (ev_cap o) (ev_init o) /\ ev_init o <= ev_cap o) evs.
Proof.
  intro H. apply get_evs_Forall2 in H. eapply Forall2_right; [|exact H].
  intros [[conn disc] kwh] o Hconv. cbv beta. eapply session_fit_battery; eauto.
Qed.
