(* Proofs/LedgerResume.v — carrier-independent structural facts about the ledger state machine:
   a run can be cut at ANY point and continued from the state reached there (check-point / interruption /
   resumption does not matter); an aborting prefix aborts the whole run.  No arithmetic, no axioms. *)
From Coq Require Import ZArith List Bool.
From ACN Require Import Base.Num Base.ListX Model.Ledger.
Import ListNotations.

Section Resume.
  Context {F B : Type}.
  Variable O : fops F.
  Variable K : kern F B.

  Lemma run_app (T : F) net (a b : list (@op F B)) : forall st,
    run O K T net st (a ++ b)
    = match run O K T net st a with Some st1 => run O K T net st1 b | None => None end.
  Proof.
    induction a as [|o a IH]; intro st; cbn [app run]; [reflexivity|].
    destruct (apply_op O K T net st o); [apply IH|reflexivity].
  Qed.

  Theorem simulate_resume (T : F) net (a b : list (@op F B)) st :
    simulate O K T net (a ++ b) = Some st
    <-> exists st1, simulate O K T net a = Some st1 /\ run O K T net st1 b = Some st.
  Proof.
    unfold simulate. rewrite run_app. split.
    - destruct (run O K T net (init_state K net) a) as [st1|]; [|discriminate]. eauto.
    - intros [st1 [H1 H2]]. now rewrite H1.
  Qed.

  Theorem simulate_prefix_abort (T : F) net (a b : list (@op F B)) :
    simulate O K T net a = None -> simulate O K T net (a ++ b) = None.
  Proof. unfold simulate. intro H. now rewrite run_app, H. Qed.
End Resume.
