(* Proofs/EVSE.v — lemmas about the generated EVSE kernels (R twin) and the hand-written
   constructor normalisation. *)
From Coq Require Import ZArith Reals Lra List Bool String Lia.
From ACN Require Import Base.Num Base.NumR Base.ListX Gen.Evse_R Gen.EvseZ_Z.
Import ListNotations.
Open Scope R_scope.

(* ---------- acceptance predicates ---------- *)
Lemma evse_accept_iff mx mn p :
  EVSE_valid_rate mx mn p = true <-> mn <= p + 1/1000 /\ p - 1/1000 <= mx.
Proof.
  unfold EVSE_valid_rate. rewrite andb_true_iff, !Rleb_spec. tauto.
Qed.

Lemma isclose0 p a : Risclose p 0 a 0 = true <-> Rabs p <= a.
Proof.
  unfold Risclose. rewrite Rleb_spec. rewrite Rminus_0_r, Rabs_R0. split; intro; lra.
Qed.

Lemma isclose_atol p r a : Risclose p r a 0 = true <-> Rabs (p - r) <= a.
Proof. unfold Risclose. rewrite Rleb_spec. split; intro; lra. Qed.

Lemma deadband_accept_iff de mx p :
  DeadbandEVSE_valid_rate de mx p = true <->
  Rabs p <= 1/1000 \/ (de <= p + 1/1000 /\ p - 1/1000 <= mx).
Proof.
  unfold DeadbandEVSE_valid_rate.
  rewrite orb_true_iff, andb_true_iff, !Rleb_spec, isclose0. tauto.
Qed.

Lemma finite_accept_iff rates p :
  FiniteRatesEVSE_valid_rate rates p = true <->
  exists r, In r rates /\ Rabs (p - r) <= 1/1000.
Proof.
  unfold FiniteRatesEVSE_valid_rate. rewrite existsb_exists. split.
  - intros [b [Hin Hb]]. subst b. apply in_map_iff in Hin. destruct Hin as [r [Hr Hin]].
    exists r. split; auto. now apply isclose_atol.
  - intros [r [Hin Hr]]. exists true. split; auto. apply in_map_iff.
    exists r. split; auto. now apply isclose_atol.
Qed.

(* ---------- constructor normalisation of FiniteRatesEVSE (R instance of sort_dedup) ---------- *)
Definition finite_init_R (l : list R) : list R := sort_dedup Rleb Reqb (0 :: l).

Lemma Reqb_refl x : Reqb x x = true. Proof. now apply Reqb_spec. Qed.
Lemma Reqb_sym x y : Reqb x y = Reqb y x.
Proof. destruct (Reqb x y) eqn:E1, (Reqb y x) eqn:E2; auto.
  - apply Reqb_spec in E1. apply Reqb_false in E2. congruence.
  - apply Reqb_spec in E2. apply Reqb_false in E1. congruence. Qed.
Lemma Reqb_trans x y z : Reqb x y = true -> Reqb y z = true -> Reqb x z = true.
Proof. rewrite !Reqb_spec. congruence. Qed.

Lemma mem_R_In x l : mem Reqb x l = true <-> In x l.
Proof.
  unfold mem. rewrite existsb_exists. split.
  - intros [y [Hin E]]. apply Reqb_spec in E. now subst.
  - intro H. exists x. split; auto. apply Reqb_refl.
Qed.

Lemma finite_init_In l x : In x (finite_init_R l) <-> x = 0 \/ In x l.
Proof.
  unfold finite_init_R. rewrite <- !mem_R_In.
  rewrite (mem_sort_dedup R Rleb Reqb Reqb_trans). simpl.
  rewrite orb_true_iff, Reqb_spec. tauto.
Qed.

Lemma finite_init_has_zero l : In 0 (finite_init_R l).
Proof. apply finite_init_In. now left. Qed.

Lemma finite_zero_accepted l : FiniteRatesEVSE_valid_rate (finite_init_R l) 0 = true.
Proof.
  apply finite_accept_iff. exists 0. split. apply finite_init_has_zero.
  rewrite Rminus_0_r, Rabs_R0. lra.
Qed.

Lemma finite_accept_iff_input l p :
  FiniteRatesEVSE_valid_rate (finite_init_R l) p = true <->
  Rabs p <= 1/1000 \/ exists r, In r l /\ Rabs (p - r) <= 1/1000.
Proof.
  rewrite finite_accept_iff. split.
  - intros [r [Hin Hr]]. apply finite_init_In in Hin. destruct Hin as [->|Hin].
    + left. now rewrite Rminus_0_r in Hr.
    + right. eauto.
  - intros [H|[r [Hin Hr]]].
    + exists 0. split. apply finite_init_has_zero. now rewrite Rminus_0_r.
    + exists r. split; auto. apply finite_init_In. now right.
Qed.

(* ---------- advertised values are accepted ---------- *)
Lemma evse_advertised mn mx : mn <= mx ->
  EVSE_valid_rate mx mn mn = true /\ EVSE_valid_rate mx mn mx = true.
Proof. intro H. split; apply evse_accept_iff; lra. Qed.

Lemma deadband_advertised de mx : de <= mx ->
  DeadbandEVSE_valid_rate de mx de = true /\ DeadbandEVSE_valid_rate de mx mx = true
  /\ DeadbandEVSE_valid_rate de mx 0 = true.
Proof.
  intro H. repeat split; apply deadband_accept_iff.
  - right; lra.
  - right; lra.
  - left. rewrite Rabs_R0. lra.
Qed.

Lemma finite_member_accepted rates r : In r rates -> FiniteRatesEVSE_valid_rate rates r = true.
Proof.
  intro H. apply finite_accept_iff. exists r. split; auto.
  replace (r - r) with 0 by lra. rewrite Rabs_R0. lra.
Qed.

(* max(self.allowable_rates) and the smallest positive rate are members *)
Lemma fold_Rmax_In d l : fold_left Rmax l d = d \/ In (fold_left Rmax l d) l.
Proof.
  revert d; induction l as [|a l IH]; intro d; simpl; auto.
  destruct (IH (Rmax d a)) as [H|H].
  - rewrite H. unfold Rmax. destruct (Rle_dec d a); auto.
  - auto.
Qed.
Lemma fold_Rmin_In d l : fold_left Rmin l d = d \/ In (fold_left Rmin l d) l.
Proof.
  revert d; induction l as [|a l IH]; intro d; simpl; auto.
  destruct (IH (Rmin d a)) as [H|H].
  - rewrite H. unfold Rmin. destruct (Rle_dec d a); auto.
  - auto.
Qed.

Definition finite_max_R (rates : list R) : R := fold_left Rmax rates 0.
Definition finite_min_R (rates : list R) : R :=
  match filter (fun r => Rltb 0 r) rates with
  | [] => 0
  | x :: r => fold_left Rmin r x
  end.

Lemma finite_max_member l : In (finite_max_R (finite_init_R l)) (finite_init_R l).
Proof.
  unfold finite_max_R. destruct (fold_Rmax_In 0 (finite_init_R l)) as [H|H]; auto.
  rewrite H. apply finite_init_has_zero.
Qed.

Lemma finite_min_member l : In (finite_min_R (finite_init_R l)) (finite_init_R l).
Proof.
  unfold finite_min_R. destruct (filter _ _) as [|x r] eqn:E.
  - apply finite_init_has_zero.
  - assert (Hsub : forall y, In y (x :: r) -> In y (finite_init_R l)).
    { intros y Hy. rewrite <- E in Hy. apply filter_In in Hy. tauto. }
    destruct (fold_Rmin_In x r) as [H|H].
    + rewrite H. apply Hsub. now left.
    + apply Hsub. now right.
Qed.

(* ---------- set_pilot: atomic rejection ---------- *)
Lemma set_pilot_reject cur ev p v t :
  BaseEVSE_set_pilot cur ev p v t false =
  ErrS "InvalidRateError"
       {| BaseEVSE_set_pilot_ret := tt; BaseEVSE_set_pilot__current_pilot := cur;
          BaseEVSE_set_pilot_effects := [] |}.
Proof. reflexivity. Qed.

Lemma set_pilot_accept cur ev p v t :
  exists st, BaseEVSE_set_pilot cur ev p v t true = OkS st
  /\ BaseEVSE_set_pilot__current_pilot st = p
  /\ BaseEVSE_set_pilot_effects st =
     match ev with None => [] | Some _ => [("self._ev.charge"%string, [p; v; t])] end.
Proof. unfold BaseEVSE_set_pilot. destruct ev; eexists; repeat split. Qed.

(* ---------- plugin ---------- *)
Lemma plugin_occupied (x y : Z) :
  BaseEVSE_plugin (Some x) y =
  ErrS "StationOccupiedError" {| BaseEVSE_plugin_ret := tt; BaseEVSE_plugin__ev := Some x |}.
Proof. reflexivity. Qed.

Lemma plugin_free (y : Z) :
  BaseEVSE_plugin None y = OkS {| BaseEVSE_plugin_ret := tt; BaseEVSE_plugin__ev := Some y |}.
Proof. reflexivity. Qed.

Lemma unplug_clears :
  BaseEVSE_unplug__ev BaseEVSE_unplug = None /\ BaseEVSE_unplug__current_pilot BaseEVSE_unplug = 0%Z.
Proof. split; reflexivity. Qed.
