(* Proofs/SimShift.v — shifting every event by k periods shifts the run by k periods
   (Model/SimPerm.v).  No axioms. *)
From Coq Require Import ZArith QArith Qminmax Qabs List Bool String Arith Lia Permutation.
From ACN Require Import Base.Num Base.ListX Gen.Evse_Q Gen.EvseZ_Z Gen.Battery_Q Model.EVSE Model.SimPerm
                        Proofs.SimPerm.
Import ListNotations.
Open Scope Q_scope.
Open Scope list_scope.

Section Shift.
  Variable k : nat.

  Definition shift_session (x : session) : session :=
    {| se_id := se_id x; se_station := se_station x; se_arr := se_arr x + k; se_dep := se_dep x + k;
       se_req := se_req x; se_cap := se_cap x; se_init := se_init x; se_maxp := se_maxp x |}.
  Definition shift_ev (e : evst) : evst :=
    {| ev_se := shift_session (ev_se e); ev_delivered := ev_delivered e; ev_charge := ev_charge e;
       ev_power := ev_power e; ev_rate := ev_rate e |}.
  Definition shift_slot (sl : slot) : slot :=
    {| sl_st := sl_st sl; sl_ev := option_map shift_ev (sl_ev sl); sl_cur_pilot := sl_cur_pilot sl;
       sl_pilots := zeros k ++ sl_pilots sl; sl_rates := zeros k ++ sl_rates sl; sl_done := sl_done sl |}.
  Definition shift_slots (l : slots) : slots := map (fun p => (fst p, shift_slot (snd p))) l.
  Definition shift_info (a : sinfo) : sinfo :=
    {| si_station := si_station a; si_session := si_session a; si_req := si_req a;
       si_delivered := si_delivered a; si_arr := si_arr a + k; si_dep := si_dep a + k; si_max := si_max a |}.
  Definition shift_state (st : simstate) : simstate :=
    {| ss_slots := shift_slots (ss_slots st); ss_last := option_map (fun t => t + k)%nat (ss_last st);
       ss_warn := map (fun p => (fst p + k, snd p)%nat) (ss_warn st) |}.
  Definition shift_config (cf : config) : config := with_sessions cf (map shift_session (cf_sessions cf)).

  (* ---- rows ---- *)
  Lemma zeros_length n : List.length (zeros n) = n.
  Proof. apply repeat_length. Qed.

  Lemma zeros_app a b : zeros (a + b) = zeros a ++ zeros b.
  Proof. unfold zeros. apply repeat_app. Qed.

  Lemma firstn_zeros_app n row : firstn (k + n) (zeros k ++ row) = zeros k ++ firstn n row.
  Proof.
    rewrite firstn_app, zeros_length. replace (k + n - k)%nat with n by lia.
    rewrite firstn_all2 by (rewrite zeros_length; lia). reflexivity.
  Qed.

  Lemma skipn_zeros_app n row : skipn (k + n) (zeros k ++ row) = skipn n row.
  Proof.
    rewrite skipn_app, zeros_length.
    replace (k + n - k)%nat with n by lia.
    rewrite skipn_all2 by (rewrite zeros_length; lia). reflexivity.
  Qed.

  Lemma write_block_shift t blk row :
    write_block (t + k) blk (zeros k ++ row) = zeros k ++ write_block t blk row.
  Proof.
    unfold write_block. rewrite app_length, zeros_length.
    replace (t + k - (k + List.length row))%nat with (t - List.length row)%nat by lia.
    rewrite <- app_assoc.
    replace (t + k)%nat with (k + t)%nat by lia.
    rewrite firstn_zeros_app.
    replace (k + t + List.length blk)%nat with (k + (t + List.length blk))%nat by lia.
    rewrite skipn_zeros_app. now rewrite <- app_assoc.
  Qed.

  Lemma widen_shift t row : widen (S (t + k)) (zeros k ++ row) = zeros k ++ widen (S t) row.
  Proof.
    unfold widen. rewrite app_length, zeros_length, <- app_assoc. do 3 f_equal. lia.
  Qed.

  Lemma nth_shift t row : nth (t + k) (zeros k ++ row) 0 = nth t row 0.
  Proof. rewrite app_nth2; rewrite zeros_length; [f_equal; lia|lia]. Qed.

  (* ---- association lists ---- *)
  Lemma zassoc_shift s l : zassoc s (shift_slots l) = option_map shift_slot (zassoc s l).
  Proof.
    induction l as [|[k0 v] l IH]; simpl; auto. destruct (Z.eqb s k0); auto.
  Qed.

  Lemma keys_shift l : map fst (shift_slots l) = map fst l.
  Proof. unfold shift_slots. rewrite map_map. reflexivity. Qed.

  Lemma slot_upd_shift s f g l :
    (forall sl, g (shift_slot sl) = shift_slot (f sl)) ->
    slot_upd s g (shift_slots l) = shift_slots (slot_upd s f l).
  Proof.
    intro H. unfold slot_upd, shift_slots. rewrite !map_map. apply map_ext. intros [k0 v]. simpl.
    destruct (Z.eqb k0 s); simpl; auto. now rewrite H.
  Qed.

  (* ---- events ---- *)
  Lemma occ_id_shift sl : occ_id (shift_slot sl) = occ_id sl.
  Proof. unfold occ_id. simpl. now destruct (sl_ev sl). Qed.

  Lemma plugin_shift l x :
    plugin (shift_slots l) (shift_session x) = option_map shift_slots (plugin l x).
  Proof.
    unfold plugin. simpl. rewrite zassoc_shift.
    destruct (zassoc (se_station x) l) as [sl|]; simpl; auto.
    rewrite occ_id_shift. destruct (BaseEVSE_plugin (occ_id sl) (se_id x)); simpl; auto.
    f_equal. apply slot_upd_shift. intro s0. reflexivity.
  Qed.

  Lemma unplug_shift l x :
    unplug (shift_slots l) (shift_session x) = option_map shift_slots (unplug l x).
  Proof.
    unfold unplug. simpl. rewrite zassoc_shift.
    destruct (zassoc (se_station x) l) as [sl|]; simpl; auto.
    f_equal. apply slot_upd_shift. intro s0. unfold unplug_slot, shift_slot. simpl.
    destruct (sl_ev s0) as [e|] eqn:E; simpl; [|now rewrite E].
    destruct (Z.eqb (se_id (ev_se e)) (se_id x)); simpl; auto. now rewrite E.
  Qed.

  Lemma fold_opt_shift f :
    (forall l x, f (shift_slots l) (shift_session x) = option_map shift_slots (f l x)) ->
    forall xs l, fold_opt f (map shift_session xs) (shift_slots l) = option_map shift_slots (fold_opt f xs l).
  Proof.
    intro H. induction xs as [|x xs IH]; intro l; simpl; auto.
    rewrite H. destruct (f l x); simpl; auto.
  Qed.

  Lemma departing_shift t ses :
    departing (t + k) (map shift_session ses) = map shift_session (departing t ses).
  Proof.
    unfold departing. induction ses as [|x ses IH]; simpl; auto.
    replace (Nat.eqb (se_dep x + k) (t + k)) with (Nat.eqb (se_dep x) t).
    - destruct (Nat.eqb (se_dep x) t); simpl; now rewrite IH.
    - destruct (Nat.eqb (se_dep x) t) eqn:E; symmetry.
      + apply Nat.eqb_eq in E. apply Nat.eqb_eq. lia.
      + apply Nat.eqb_neq in E. apply Nat.eqb_neq. lia.
  Qed.

  Lemma arriving_shift t ses :
    arriving (t + k) (map shift_session ses) = map shift_session (arriving t ses).
  Proof.
    unfold arriving. induction ses as [|x ses IH]; simpl; auto.
    replace (Nat.eqb (se_arr x + k) (t + k)) with (Nat.eqb (se_arr x) t).
    - destruct (Nat.eqb (se_arr x) t); simpl; now rewrite IH.
    - destruct (Nat.eqb (se_arr x) t) eqn:E; symmetry.
      + apply Nat.eqb_eq in E. apply Nat.eqb_eq. lia.
      + apply Nat.eqb_neq in E. apply Nat.eqb_neq. lia.
  Qed.

  Lemma process_events_shift t ses l :
    process_events (t + k) (map shift_session ses) (shift_slots l)
    = option_map shift_slots (process_events t ses l).
  Proof.
    unfold process_events. rewrite departing_shift, arriving_shift.
    rewrite (fold_opt_shift unplug unplug_shift).
    destruct (fold_opt unplug (departing t ses) l); simpl; auto.
    apply (fold_opt_shift plugin plugin_shift).
  Qed.

  (* ---- scheduler view, schedule, feasibility, charging ---- *)
  Lemma active_shift l : active (shift_slots l) = map shift_info (active l).
  Proof.
    unfold active. induction l as [|[k0 sl] l IH]; simpl; auto.
    rewrite map_app. f_equal; auto.
    destruct (sl_ev sl) as [e|]; simpl; auto.
    destruct (EV_fully_charged (ev_delivered e) (se_req (ev_se e))); reflexivity.
  Qed.

  Lemma apply_schedule_shift t sch l :
    apply_schedule (t + k) sch (shift_slots l) = option_map shift_slots (apply_schedule t sch l).
  Proof.
    unfold apply_schedule. destruct sch as [|[k0 r0] sch]; auto.
    rewrite keys_shift. destruct (_ && _); simpl; auto.
    f_equal. unfold shift_slots. rewrite !map_map. apply map_ext. intros [s sl]. simpl.
    f_equal. unfold with_pilots, shift_slot. simpl. f_equal. apply write_block_shift.
  Qed.

  Lemma feasible_shift a r cs sch l : feasible a r cs sch (shift_slots l) = feasible a r cs sch l.
  Proof.
    unfold feasible. destruct sch as [|[k0 r0] sch]; auto.
    apply forallb_ext_in. intros j _. apply forallb_ext_in. intros c _.
    unfold within, agg_re, agg_im, shift_slots. rewrite !map_map. reflexivity.
  Qed.

  Lemma charge_slot_shift t p sl :
    charge_slot (t + k) p (shift_slot sl) = option_map shift_slot (charge_slot t p sl).
  Proof.
    unfold charge_slot. cbn [sl_pilots sl_st sl_ev sl_rates sl_done shift_slot].
    rewrite widen_shift, nth_shift.
    destruct (valid_rate (st_kind (sl_st sl)) (nth t (widen (S t) (sl_pilots sl)) 0)); auto.
    destruct (sl_ev sl) as [e|]; cbn.
    - destruct (Battery_charge _ _ _ _ _ _ _); cbn; auto.
      unfold shift_slot. cbn. now rewrite <- app_assoc.
    - unfold shift_slot. cbn. now rewrite <- app_assoc.
  Qed.

  Lemma update_pilots_shift t p l :
    update_pilots (t + k) p (shift_slots l) = option_map shift_slots (update_pilots t p l).
  Proof.
    unfold update_pilots. induction l as [|[s sl] l IH]; simpl; auto.
    rewrite charge_slot_shift. destruct (charge_slot t p sl); simpl; auto.
    rewrite IH. destruct (map_opt _ l); reflexivity.
  Qed.

  (* ---- one step, the loop ---- *)
  Variables sched sched' : scheduler.
  Hypothesis Hinv : forall t v, sched' (t + k)%nat (map shift_info v) = sched t v.

  Lemma sim_step_shift cf t st :
    sim_step sched' (shift_config cf) (t + k) (shift_state st)
    = option_map shift_state (sim_step sched cf t st).
  Proof.
    unfold sim_step. cbn [cf_sessions shift_config with_sessions cf_max_recompute cf_period
                          cf_constraints cf_abs_tol cf_rel_tol ss_slots ss_last ss_warn shift_state].
    rewrite process_events_shift, departing_shift, arriving_shift.
    destruct (process_events t (cf_sessions cf) (ss_slots st)) as [l1|]; simpl; auto.
    set (had := negb (match departing t (cf_sessions cf), arriving t (cf_sessions cf) with [], [] => true | _, _ => false end)).
    assert (Hhad : negb (match map shift_session (departing t (cf_sessions cf)),
                               map shift_session (arriving t (cf_sessions cf)) with [], [] => true | _, _ => false end) = had).
    { unfold had. destruct (departing t (cf_sessions cf)), (arriving t (cf_sessions cf)); reflexivity. }
    rewrite Hhad.
    assert (Hlast : (if had then Some (t + k)%nat else option_map (fun t0 => (t0 + k)%nat) (ss_last st))
                    = option_map (fun t0 => (t0 + k)%nat) (if had then Some t else ss_last st))
      by (destruct had; reflexivity).
    rewrite Hlast.
    set (last1 := if had then Some t else ss_last st).
    assert (Hdue : (had || match cf_max_recompute cf with
                           | Some m => match option_map (fun t0 => (t0 + k)%nat) last1 with
                                       | Some l0 => Nat.leb m (t + k - l0) | None => true end
                           | None => false end)
                   = (had || match cf_max_recompute cf with
                             | Some m => match last1 with Some l0 => Nat.leb m (t - l0) | None => true end
                             | None => false end)).
    { f_equal. destruct (cf_max_recompute cf); auto. destruct last1; simpl; auto. f_equal. lia. }
    rewrite Hdue.
    remember (had || match cf_max_recompute cf with
                     | Some m => match last1 with Some l0 => Nat.leb m (t - l0) | None => true end
                     | None => false end) as due.
    clear Heqdue Hdue. destruct due.
    - rewrite active_shift, Hinv, apply_schedule_shift.
      destruct (apply_schedule t (sched t (active l1)) l1) as [l2|]; simpl; auto.
      rewrite update_pilots_shift.
      destruct (update_pilots t (cf_period cf) l2) as [l3|]; simpl; auto.
      unfold shift_state. simpl. f_equal. f_equal.
      destruct (sched t (active l1)); auto.
      rewrite map_app, feasible_shift. reflexivity.
    - rewrite update_pilots_shift.
      destruct (update_pilots t (cf_period cf) l1) as [l3|]; simpl; auto.
  Qed.

  Lemma sim_loop_shift cf : forall fuel t st,
    sim_loop sched' (shift_config cf) (t + k) fuel (shift_state st)
    = option_map shift_state (sim_loop sched cf t fuel st).
  Proof.
    induction fuel as [|f IH]; intros t st; simpl; auto.
    rewrite sim_step_shift. destruct (sim_step sched cf t st) as [s1|]; simpl; auto.
    apply (IH (S t)).
  Qed.
End Shift.

(* ------------------------------------------------------------------------------------------ *)
(* the idle prefix of the shifted run and the final statement                                 *)
(* ------------------------------------------------------------------------------------------ *)
Lemma sim_loop_app sched cf : forall a b t st,
  sim_loop sched cf t (a + b) st
  = match sim_loop sched cf t a st with Some s => sim_loop sched cf (t + a) b s | None => None end.
Proof.
  induction a as [|a IH]; intros b t st; simpl.
  - now rewrite Nat.add_0_r.
  - destruct (sim_step sched cf t st) as [s1|]; auto.
    rewrite IH. replace (S t + a)%nat with (t + S a)%nat by lia. reflexivity.
Qed.

Lemma horizon_shift k ses : ses <> [] -> horizon (map (shift_session k) ses) = (horizon ses + k)%nat.
Proof.
  intro N. unfold horizon. destruct ses as [|x ses]; [congruence|]. simpl map. cbv iota. simpl.
  f_equal. clear N. revert x. induction ses as [|y ses IH]; intro x; simpl.
  - lia.
  - specialize (IH y). simpl in IH. lia.
Qed.

Definition idle_slot (st0 : station) (t : nat) : slot :=
  {| sl_st := st0; sl_ev := None; sl_cur_pilot := 0; sl_pilots := zeros t; sl_rates := zeros t; sl_done := [] |}.
Definition idle_state (sts : list (Z * station)) (t : nat) (last : option nat) : simstate :=
  {| ss_slots := map (fun p => (fst p, idle_slot (snd p) t)) sts; ss_last := last; ss_warn := [] |}.

Lemma nth_zeros j n : nth j (zeros n) 0 = 0.
Proof. unfold zeros. revert j. induction n; destruct j; simpl; auto. Qed.

Lemma zeros_snoc t : zeros t ++ [0] = zeros (S t).
Proof. unfold zeros. induction t; simpl; auto. now rewrite IHt. Qed.

Lemma widen_zeros t : widen (S t) (zeros t) = zeros (S t).
Proof.
  unfold widen. rewrite zeros_length. replace (S t - t)%nat with 1%nat by lia. apply zeros_snoc.
Qed.

Lemma active_idle sts t : active (map (fun p => (fst p, idle_slot (snd p) t)) sts) = [].
Proof. induction sts as [|p sts IH]; simpl; auto. Qed.

Lemma update_pilots_idle sts t p :
  (forall q, In q sts -> valid_rate (st_kind (snd q)) 0 = true) ->
  update_pilots t p (map (fun q => (fst q, idle_slot (snd q) t)) sts)
  = Some (map (fun q => (fst q, idle_slot (snd q) (S t))) sts).
Proof.
  unfold update_pilots. induction sts as [|q sts IH]; intro H; simpl; auto.
  unfold charge_slot at 1. cbn [idle_slot sl_pilots sl_st sl_ev sl_rates sl_done].
  rewrite widen_zeros, nth_zeros, (H q) by now left.
  rewrite IH by (intros; apply H; now right).
  unfold idle_slot. now rewrite zeros_snoc.
Qed.

Definition no_event_before (c : config) (T : nat) : Prop :=
  forall t, (t < T)%nat -> departing t (cf_sessions c) = [] /\ arriving t (cf_sessions c) = [].

Lemma filter_none {A} (f : A -> bool) l : (forall x, In x l -> f x = false) -> filter f l = [].
Proof.
  induction l as [|a l IH]; simpl; intro H; auto.
  rewrite H by now left. apply IH. intros. apply H. now right.
Qed.

Section Idle.
  Variables (sc : scheduler) (c : config) (sts : list (Z * station)) (T : nat).
  Hypothesis Hnone : no_event_before c T.
  Hypothesis Hidle : forall t, (t < T)%nat -> sc t [] = [].
  Hypothesis Hzero : forall q, In q sts -> valid_rate (st_kind (snd q)) 0 = true.

  Lemma idle_step t last : (t < T)%nat ->
    exists last', sim_step sc c t (idle_state sts t last) = Some (idle_state sts (S t) last').
  Proof.
    intro L. unfold sim_step. cbn [ss_slots ss_last ss_warn idle_state].
    unfold process_events. destruct (Hnone t L) as [D A]. rewrite D, A. simpl.
    destruct (match cf_max_recompute c with
              | Some m => match last with Some l0 => Nat.leb m (t - l0) | None => true end
              | None => false end).
    - rewrite active_idle, Hidle by exact L. simpl. rewrite update_pilots_idle by exact Hzero.
      eexists. reflexivity.
    - rewrite update_pilots_idle by exact Hzero. eexists. reflexivity.
  Qed.

  Lemma idle_phase : forall j t last, (t + j <= T)%nat ->
    exists last', sim_loop sc c t j (idle_state sts t last) = Some (idle_state sts (t + j) last').
  Proof.
    induction j as [|j IH]; intros t last L; simpl.
    - exists last. now rewrite Nat.add_0_r.
    - destruct (idle_step t last) as [l1 E]; [lia|]. rewrite E.
      destruct (IH (S t) l1) as [l2 E2]; [lia|]. exists l2. rewrite E2. f_equal. f_equal. lia.
  Qed.
End Idle.

(* a step in which an arrival is due does not look at the previous value of _last_schedule_update *)
Lemma step_ignores_last sc c t st l :
  arriving t (cf_sessions c) <> [] ->
  sim_step sc c t st = sim_step sc c t {| ss_slots := ss_slots st; ss_last := l; ss_warn := ss_warn st |}.
Proof.
  intro A. unfold sim_step. simpl.
  destruct (process_events t (cf_sessions c) (ss_slots st)); auto.
  destruct (departing t (cf_sessions c)); destruct (arriving t (cf_sessions c)); try congruence; reflexivity.
Qed.

Lemma horizon_ge ses x : In x ses -> (se_dep x < horizon ses)%nat.
Proof.
  intro H. unfold horizon. destruct ses as [|y ses]; [contradiction|].
  assert (K : (se_dep x <= fold_right (fun x m => Nat.max (se_dep x) m) O (y :: ses))%nat).
  { induction (y :: ses) as [|z l IH]; [contradiction|]. simpl. destruct H as [H|H]; [subst; lia|].
    specialize (IH H). lia. }
  lia.
Qed.

Section Final.
  Variables (k a0 : nat) (sched sched' : scheduler) (sts : list (Z * station)) (cf : config).
  (* the scheduler is time-invariant ... *)
  Hypothesis Hinv : forall t v, sched' (t + k)%nat (map (shift_info k) v) = sched t v.
  (* ... submits nothing while nobody has arrived yet ... *)
  Hypothesis Hidle : forall t, (t < a0)%nat -> sched t [] = [].
  Hypothesis Hidle' : forall t, (t < a0 + k)%nat -> sched' t [] = [].
  (* ... every EVSE accepts a zero pilot (otherwise an idle period raises InvalidRateError) ... *)
  Hypothesis Hzero : forall q, In q sts -> valid_rate (st_kind (snd q)) 0 = true.
  (* ... sessions are well-formed and a0 is the first arrival *)
  Hypothesis Hvalid : forall x, In x (cf_sessions cf) -> (a0 <= se_arr x /\ se_arr x < se_dep x)%nat.
  Hypothesis Hfirst : arriving a0 (cf_sessions cf) <> [].

  Lemma none_orig : no_event_before cf a0.
  Proof.
    intros t L. unfold departing, arriving. split; apply filter_none; intros x Hx;
      destruct (Hvalid x Hx); apply Nat.eqb_neq; lia.
  Qed.

  Lemma none_shifted : no_event_before (shift_config k cf) (a0 + k).
  Proof.
    intros t L. unfold departing, arriving. cbn [cf_sessions shift_config with_sessions].
    split; apply filter_none; intros x Hx; apply in_map_iff in Hx; destruct Hx as [y [E Hy]]; subst x;
      destruct (Hvalid y Hy); simpl; apply Nat.eqb_neq; lia.
  Qed.

  Lemma thm_shift :
    simulate sched' sts (shift_config k cf) = option_map (shift_state k) (simulate sched sts cf).
  Proof.
    unfold simulate. cbn [cf_sessions shift_config with_sessions].
    assert (Hne : cf_sessions cf <> []).
    { intro E. apply Hfirst. now rewrite E. }
    rewrite (horizon_shift k _ Hne).
    (* the horizon lies beyond the first arrival *)
    assert (Hh : exists r, horizon (cf_sessions cf) = (a0 + S r)%nat).
    { destruct (arriving a0 (cf_sessions cf)) as [|x l] eqn:A; [congruence|].
      assert (Hx : In x (arriving a0 (cf_sessions cf))) by (rewrite A; now left).
      unfold arriving in Hx. apply filter_In in Hx. destruct Hx as [Hx Ex]. apply Nat.eqb_eq in Ex.
      pose proof (horizon_ge _ _ Hx). destruct (Hvalid x Hx).
      exists (horizon (cf_sessions cf) - a0 - 1)%nat. lia. }
    destruct Hh as [r Hr]. rewrite Hr.
    change {| ss_slots := init_slots sts; ss_last := None; ss_warn := [] |} with (idle_state sts 0 None).
    (* both runs idle until the first arrival *)
    replace (a0 + S r + k)%nat with ((a0 + k) + S r)%nat by lia.
    rewrite (sim_loop_app sched' (shift_config k cf) (a0 + k) (S r)).
    rewrite (sim_loop_app sched cf a0 (S r)).
    destruct (idle_phase sched cf sts a0 none_orig Hidle Hzero a0 0 None) as [la Ea]; [lia|].
    destruct (idle_phase sched' (shift_config k cf) sts (a0 + k) none_shifted Hidle' Hzero (a0 + k) 0 None)
      as [lb Eb]; [lia|].
    rewrite Ea, Eb. simpl plus.
    (* first real step: an arrival is due, so the value of last left by the idle prefixes is irrelevant *)
    assert (S0 : idle_state sts (a0 + k) (option_map (fun t => (t + k)%nat) la)
                 = shift_state k (idle_state sts a0 la)).
    { unfold idle_state, shift_state, shift_slots. simpl. f_equal. rewrite map_map. apply map_ext.
      intros [s st0]. simpl. unfold shift_slot, idle_slot. simpl.
      replace (a0 + k)%nat with (k + a0)%nat by lia. now rewrite zeros_app. }
    simpl sim_loop at 1.
    rewrite (step_ignores_last sched' (shift_config k cf) (a0 + k) (idle_state sts (a0 + k) lb)
                               (option_map (fun t => (t + k)%nat) la)).
    - change {| ss_slots := ss_slots (idle_state sts (a0 + k) lb);
                ss_last := option_map (fun t => (t + k)%nat) la;
                ss_warn := ss_warn (idle_state sts (a0 + k) lb) |}
        with (idle_state sts (a0 + k) (option_map (fun t => (t + k)%nat) la)).
      rewrite S0.
      pose proof (sim_loop_shift k sched sched' Hinv cf (S r) a0 (idle_state sts a0 la)) as M.
      simpl sim_loop at 1 in M. exact M.
    - cbn [cf_sessions shift_config with_sessions]. rewrite arriving_shift.
      intro K. apply map_eq_nil in K. contradiction.
  Qed.
End Final.

(* the two scheduler families of the model are time-invariant and idle on an empty network *)
Lemma uncontrolled_shift k t v : sched_uncontrolled (t + k)%nat (map (shift_info k) v) = sched_uncontrolled t v.
Proof. unfold sched_uncontrolled. rewrite map_map. reflexivity. Qed.

Definition shift_script (k : nat) (script : list (nat * list (Z * list Q))) :=
  map (fun p => ((fst p + k)%nat, snd p)) script.

Lemma script_shift k script t v v' :
  sched_script (shift_script k script) (t + k)%nat v' = sched_script script t v.
Proof.
  unfold sched_script, shift_script. induction script as [|[t0 d] sc IH]; simpl; auto.
  replace (Nat.eqb (t0 + k) (t + k)) with (Nat.eqb t0 t).
  - destruct (Nat.eqb t0 t); auto.
  - destruct (Nat.eqb t0 t) eqn:E; symmetry.
    + apply Nat.eqb_eq in E. apply Nat.eqb_eq. lia.
    + apply Nat.eqb_neq in E. apply Nat.eqb_neq. lia.
Qed.

Lemma script_idle_before k script t v : (t < k)%nat -> sched_script (shift_script k script) t v = [].
Proof.
  intro L. unfold sched_script, shift_script. induction script as [|[t0 d] sc IH]; simpl; auto.
  replace (Nat.eqb (t0 + k) t) with false; auto. symmetry. apply Nat.eqb_neq. lia.
Qed.
