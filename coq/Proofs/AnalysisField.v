(* Proofs/AnalysisField.v — C18 for ANY numeric carrier that is a commutative ring (Leibniz equality) with
   x / y = x * inv y, and ANY scalar-kernel record satisfying `akern_laws`: the implementation-shaped
   analysis functions equal their first-principles definitions.  `osqrt`, `omax`, `oltb`, `oeqb` are
   uninterpreted (both sides use the same functions).  Only `ring`; no axioms.
   Instances: canonical rationals (Proofs/AnalysisQc.v).  (Proofs/Analysis.v proves the same over R
   directly, with the real square root.) *)
From Coq Require Import ZArith List Bool Lia Permutation Ring.
From ACN Require Import Base.Num Base.ListX Model.Ledger Model.Analysis Proofs.LedgerField Proofs.AnalysisStruct.
Import ListNotations.

Lemma list_eq_map_seq_F {A} (d : A) (l : list A) (w : nat) (f : nat -> A) :
  length l = w -> (forall t, (t < w)%nat -> nth t l d = f t) -> l = map f (seq 0 w).
Proof.
  intros Hl Hn. apply (nth_ext _ _ d (f 0%nat)).
  - rewrite map_length, seq_length. exact Hl.
  - intros t Ht. rewrite Hl in Ht. rewrite Hn by exact Ht.
    rewrite (nth_indep _ (f 0%nat) (f t)) by (rewrite map_length, seq_length; exact Ht).
    rewrite map_nth. rewrite seq_nth by exact Ht. reflexivity.
Qed.

Lemma nth_map_seq_F {A} (f : nat -> A) w t d : (t < w)%nat -> nth t (map f (seq 0 w)) d = f t.
Proof.
  intro H. rewrite (nth_indep _ d (f 0%nat)) by (rewrite map_length, seq_length; exact H).
  rewrite map_nth, seq_nth by exact H. reflexivity.
Qed.

Lemma Forall_combine_snd_F {A C} (P : C -> Prop) (a : list A) (b : list C) :
  Forall P b -> Forall (fun p => P (snd p)) (combine a b).
Proof.
  intro H. revert a. induction H as [|y b Hy _ IH]; intros [|x a]; cbn; constructor; auto.
Qed.

Lemma combine_map_combine_F {A C D E} (f : C * D -> E) (a : list A) (b : list C) (c : list D) :
  combine a (map f (combine b c))
  = map (fun p => (fst (fst p), f (snd (fst p), snd p))) (combine (combine a b) c).
Proof.
  revert b c. induction a as [|x a IH]; intros [|y b] [|z c]; cbn; auto. now rewrite IH.
Qed.

Lemma combine_map_same_F {A C D} (f : A -> C) (g : A -> D) (l : list A) :
  combine (map f l) (map g l) = map (fun x => (f x, g x)) l.
Proof. induction l; cbn; congruence. Qed.

Lemma all_some_none_F {V} (l : list (option V)) : In None l -> all_some l = None.
Proof.
  induction l as [|o l IH]; intro H; [destruct H|].
  destruct o as [v|]; cbn; [|reflexivity].
  destruct H as [H|H]; [discriminate|]. now rewrite IH.
Qed.

Lemma map_snd_combine_F {A C} (a : list A) (b : list C) : length b = length a -> map snd (combine a b) = b.
Proof.
  revert b. induction a as [|x a IH]; intros [|y b] H; cbn in *; try discriminate; auto. f_equal. apply IH. congruence.
Qed.

Lemma zmem_in_F c l : In c l -> zmem c l = true.
Proof. intro H. unfold zmem. apply existsb_exists. exists c. split; auto. apply Z.eqb_refl. Qed.

Section AField.
  Variable F : Type.
  Variable O : fops F.
  Variable oinv : F -> F.

  Notation z0 := (o0 O).
  Notation z1 := (o1 O).
  Infix "+'" := (oadd O) (at level 50, left associativity).
  Infix "*'" := (omul O) (at level 40, left associativity).
  Infix "-'" := (osub O) (at level 50, left associativity).
  Infix "/'" := (odiv O) (at level 40, left associativity).

  Hypothesis Oring : ring_theory z0 z1 (oadd O) (omul O) (osub O) (fopp F O) (@eq F).
  Hypothesis Odiv : forall a b, a /' b = a *' oinv b.
  Add Ring Fring2 : Oring.

  Variable A : akern F.
  (* what the theorems need from the regenerated scalar expressions of analysis/__init__.py *)
  Record akern_laws : Prop := {
    al_power : forall d, a_power_scale A d = d /' oofZ O 1000;
    al_prop : forall a b, a_proportion A a b = a /' b;
    al_rem : forall del req, a_remaining A del req = req -' del;
    al_met : forall r t, a_demand_met A r t = oltb O r t;
    al_ratio : forall a b, a_demands_ratio A a b = a /' b;
    al_nema : forall m m2 mx, a_nema A m m2 mx = (mx -' m) /' m2;
    al_minutes : forall i p, a_minutes A i p = p *' i;
    al_energy_cost : forall t d, a_energy_cost A t d = d *' (t /' oofZ O 60);
    al_demand_charge : forall dc m, a_demand_charge A dc m = dc *' m;
    al_abs_default : a_abs_applied A false = true
  }.
  Hypothesis AL : akern_laws.

  Notation Fsum := (fsumA O).
  Notation traj := (@Analysis.traj F).

  Lemma Fsum_cons2 x l : Fsum (x :: l) = x +' Fsum l.
  Proof. reflexivity. Qed.

  (* ---------------- vectors ---------------- *)
  Lemma map_nth0 (f : F -> F) l t : f z0 = z0 -> nth t (map f l) z0 = f (nth t l z0).
  Proof. intro H. rewrite <- H at 1. apply map_nth. Qed.

  Lemma vadd_length a b : length (vadd O a b) = Nat.min (length a) (length b).
  Proof. unfold vadd. rewrite map_length, combine_length. reflexivity. Qed.
  Lemma vadd_nth a b t : (t < length a)%nat -> (t < length b)%nat ->
    nth t (vadd O a b) z0 = nth t a z0 +' nth t b z0.
  Proof.
    revert b t. induction a as [|x a IH]; intros [|y b] t Ha Hb; cbn in *; try lia.
    destruct t; [reflexivity|]. apply IH; lia.
  Qed.
  Lemma vscale_length k v : length (vscale O k v) = length v.
  Proof. unfold vscale. apply map_length. Qed.
  Lemma vscale_nth k v t : nth t (vscale O k v) z0 = k *' nth t v z0.
  Proof.
    unfold vscale. revert t. induction v as [|x v IH]; intros [|t]; cbn [map nth]; try ring. apply IH.
  Qed.
  Lemma vmax_length a b : length (vmax O a b) = Nat.min (length a) (length b).
  Proof. unfold vmax. rewrite map_length, combine_length. reflexivity. Qed.
  Lemma vmax_nth a b t : (t < length a)%nat -> (t < length b)%nat ->
    nth t (vmax O a b) z0 = omax O (nth t a z0) (nth t b z0).
  Proof.
    revert b t. induction a as [|x a IH]; intros [|y b] t Ha Hb; cbn in *; try lia.
    destruct t; [reflexivity|]. apply IH; lia.
  Qed.
  Lemma zeros_length w : length (zeros O w) = w.
  Proof. apply repeat_length. Qed.
  Lemma zeros_nth w t : nth t (zeros O w) z0 = z0.
  Proof. unfold zeros. revert t. induction w; intros [|t]; cbn; auto. Qed.

  Lemma fold_vadd_spec w rows : Forall (fun r => length r = w) rows ->
    forall acc, length acc = w ->
      length (fold_left (vadd O) rows acc) = w
      /\ forall t, (t < w)%nat ->
           nth t (fold_left (vadd O) rows acc) z0 = nth t acc z0 +' Fsum (map (fun r => nth t r z0) rows).
  Proof.
    induction 1 as [|r rows Hr _ IH]; intros acc Hacc; cbn [fold_left map].
    - split; auto. intros. cbn [fsumA fold_right]. ring.
    - assert (Hlen : length (vadd O acc r) = w) by (rewrite vadd_length, Hacc, Hr; apply Nat.min_id).
      destruct (IH _ Hlen) as [H1 H2]. split; auto.
      intros t Ht. rewrite H2 by exact Ht. rewrite vadd_nth by lia. rewrite Fsum_cons2. ring.
  Qed.

  Lemma colsum_spec w rows : Forall (fun r => length r = w) rows ->
    length (colsum O w rows) = w
    /\ forall t, (t < w)%nat -> nth t (colsum O w rows) z0 = Fsum (map (fun r => nth t r z0) rows).
  Proof.
    intro H. unfold colsum. destruct (fold_vadd_spec w rows H (zeros O w) (zeros_length w)) as [H1 H2].
    split; auto. intros t Ht. rewrite H2 by exact Ht. rewrite zeros_nth. ring.
  Qed.

  Lemma lincomb_spec w coefs rows : Forall (fun r => length r = w) rows ->
    length (lincomb O w coefs rows) = w
    /\ forall t, (t < w)%nat ->
         nth t (lincomb O w coefs rows) z0 = Fsum (map (fun p => fst p *' nth t (snd p) z0) (combine coefs rows)).
  Proof.
    intro H. unfold lincomb.
    assert (H' : Forall (fun r => length r = w) (map (fun p => vscale O (fst p) (snd p)) (combine coefs rows))).
    { apply Forall_map. eapply Forall_impl; [|apply (Forall_combine_snd_F _ coefs rows H)].
      intros p Hp. cbn in Hp. rewrite vscale_length. exact Hp. }
    destruct (colsum_spec w _ H') as [H1 H2]. split; auto.
    intros t Ht. rewrite H2 by exact Ht. rewrite map_map. f_equal.
    apply map_ext. intro p. apply vscale_nth.
  Qed.

  (* ---------------- aggregate_current / aggregate_power ---------------- *)
  Theorem aggregate_F (tr : traj) :
    Forall (fun row => length row = t_width tr) (t_rates tr) ->
    length (aggregate_current O tr) = t_width tr
    /\ length (aggregate_power O A tr) = t_width tr
    /\ forall t, (t < t_width tr)%nat ->
         nth t (aggregate_current O tr) z0 = aggregate_current_spec O tr t
         /\ nth t (aggregate_power O A tr) z0 = aggregate_power_spec O tr t.
  Proof.
    intro H. unfold aggregate_current, aggregate_power.
    destruct (colsum_spec (t_width tr) (t_rates tr) H) as [C1 C2].
    destruct (lincomb_spec (t_width tr) (t_volts tr) (t_rates tr) H) as [H1 H2].
    split; [exact C1|]. split; [rewrite map_length; exact H1|].
    intros t Ht. split; [apply C2; exact Ht|].
    rewrite map_nth0.
    - rewrite (al_power AL), (H2 t Ht). reflexivity.
    - rewrite (al_power AL), Odiv. ring.
  Qed.

  (* ---------------- energy_cost / demand_charge ---------------- *)
  Theorem costs_F (tr : traj) prices dc :
    Forall (fun row => length row = t_width tr) (t_rates tr) ->
    energy_cost O A tr prices = energy_cost_spec O tr prices
    /\ demand_charge O A tr dc = demand_charge_spec O tr dc.
  Proof.
    intro H. destruct (aggregate_F tr H) as (_ & L2 & Hn).
    assert (Hp : aggregate_power O A tr = map (aggregate_power_spec O tr) (periods tr)).
    { unfold periods. apply (list_eq_map_seq_F z0); [exact L2|]. intros t Ht. now destruct (Hn t Ht). }
    unfold energy_cost, energy_cost_spec, demand_charge, demand_charge_spec. rewrite Hp, (al_energy_cost AL).
    split; [reflexivity|].
    destruct (vec_max O (map (aggregate_power_spec O tr) (periods tr))); cbn [option_map]; [|reflexivity].
    now rewrite (al_demand_charge AL).
  Qed.

  (* ---------------- the aggregates do not depend on the order (labelling) of the stations ---------------- *)
  Theorem aggregate_relabel_F (tr tr' : traj) :
    Forall (fun row => length row = t_width tr) (t_rates tr) ->
    Forall (fun row => length row = t_width tr') (t_rates tr') ->
    t_width tr = t_width tr' ->
    Permutation (combine (t_volts tr) (t_rates tr)) (combine (t_volts tr') (t_rates tr')) ->
    length (t_volts tr) = length (t_rates tr) -> length (t_volts tr') = length (t_rates tr') ->
    aggregate_current O tr = aggregate_current O tr' /\ aggregate_power O A tr = aggregate_power O A tr'.
  Proof.
    intros H H' HW HP HL HL'.
    destruct (aggregate_F tr H) as (L1 & L2 & Hn). destruct (aggregate_F tr' H') as (L1' & L2' & Hn').
    assert (Hrows : Permutation (t_rates tr) (t_rates tr')).
    { apply (Permutation_map snd) in HP. rewrite !map_snd_combine_F in HP by (symmetry; assumption). exact HP. }
    split; apply (nth_ext _ _ z0 z0); try congruence; intros t Ht.
    - rewrite L1 in Ht. destruct (Hn t Ht) as [E _]. destruct (Hn' t ltac:(congruence)) as [E' _].
      rewrite E, E'. unfold aggregate_current_spec. apply (Fsum_perm F O Oring). now apply Permutation_map.
    - rewrite L2 in Ht. destruct (Hn t Ht) as [_ E]. destruct (Hn' t ltac:(congruence)) as [_ E'].
      rewrite E, E'. unfold aggregate_power_spec. f_equal. apply (Fsum_perm F O Oring). now apply Permutation_map.
  Qed.

  (* ---------------- value of one series ---------------- *)
  Lemma phasor_rows_length (tr : traj) : wf tr ->
    Forall (fun r => length r = t_width tr) (phasor_re O tr)
    /\ Forall (fun r => length r = t_width tr) (phasor_im O tr).
  Proof.
    intros (H & _). unfold phasor_re, phasor_im. split; apply Forall_map;
      (eapply Forall_impl; [|apply (Forall_combine_snd_F _ (t_phasor tr) (t_rates tr) H)]);
      intros p Hp; cbn in Hp; rewrite vscale_length; exact Hp.
  Qed.

  Lemma lincomb_re_spec (tr : traj) j : wf tr ->
    lincomb O (t_width tr) (nth j (t_cmat tr) []) (phasor_re O tr) = map (cc_re_spec O tr j) (periods tr).
  Proof.
    intro Hwf. destruct (phasor_rows_length tr Hwf) as [Hre _].
    destruct (lincomb_spec (t_width tr) (nth j (t_cmat tr) []) _ Hre) as [H1 H2].
    unfold periods. apply (list_eq_map_seq_F z0); [exact H1|].
    intros t Ht. rewrite (H2 t Ht). unfold cc_re_spec, phasor_re.
    rewrite (combine_map_combine_F (fun p => vscale O (fst (fst p)) (snd p))), map_map.
    f_equal. apply map_ext. intros [[k [c s]] r]. cbn [fst snd].
    rewrite vscale_nth. reflexivity.
  Qed.

  Lemma lincomb_im_spec (tr : traj) j : wf tr ->
    lincomb O (t_width tr) (nth j (t_cmat tr) []) (phasor_im O tr) = map (cc_im_spec O tr j) (periods tr).
  Proof.
    intro Hwf. destruct (phasor_rows_length tr Hwf) as [_ Him].
    destruct (lincomb_spec (t_width tr) (nth j (t_cmat tr) []) _ Him) as [H1 H2].
    unfold periods. apply (list_eq_map_seq_F z0); [exact H1|].
    intros t Ht. rewrite (H2 t Ht). unfold cc_im_spec, phasor_im.
    rewrite (combine_map_combine_F (fun p => vscale O (snd (fst p)) (snd p))), map_map.
    f_equal. apply map_ext. intros [[k [c s]] r]. cbn [fst snd].
    rewrite vscale_nth. reflexivity.
  Qed.

  Lemma series_row_spec (tr : traj) flag j : wf tr ->
    series_row O A tr flag (nth j (t_cmat tr) []) = series_spec_of O A tr flag j.
  Proof.
    intro Hwf. unfold series_row, series_spec_of. rewrite lincomb_re_spec, lincomb_im_spec by exact Hwf.
    destruct (a_abs_applied A flag); [|reflexivity].
    rewrite combine_map_same_F, map_map. reflexivity.
  Qed.

  Theorem constraint_currents_F (tr : traj) flag ids :
    wf tr -> NoDup (t_cindex tr) ->
    map fst (constraint_currents O A tr flag ids) = filter (requested ids) (t_cindex tr)
    /\ (forall j c, nth_error (t_cindex tr) j = Some c -> requested ids c = true ->
          dict_get c (constraint_currents O A tr flag ids) = Some (series_spec_of O A tr flag j))
    /\ (forall c, requested ids c = false \/ ~ In c (t_cindex tr) ->
          dict_get c (constraint_currents O A tr flag ids) = None).
  Proof.
    intros Hwf Hnd. pose proof Hwf as (_ & _ & _ & Hlen & _).
    destruct (constraint_currents_structure O A tr flag ids Hlen Hnd) as (Hk & Hg & Hm).
    split; [exact Hk|]. split; [|exact Hm].
    intros j c Hj Hreq. rewrite (Hg j c Hj Hreq). f_equal. now apply series_row_spec.
  Qed.

  (* ---------------- energy metrics ---------------- *)
  Lemma fold_left_add l a : fold_left (oadd O) l a = a +' Fsum l.
  Proof.
    revert a. induction l as [|x l IH]; intro a; cbn [fold_left]; [cbn [fsumA fold_right]; ring|].
    rewrite IH, Fsum_cons2. ring.
  Qed.

  Theorem metrics_F (tr : traj) threshold :
    total_energy_requested O tr = Fsum (map fst (t_evh tr))
    /\ total_energy_delivered O tr = Fsum (map snd (t_evh tr))
    /\ proportion_of_energy_delivered O A tr
       = (if oeqb O (Fsum (map fst (t_evh tr))) z0 then None
          else Some (Fsum (map snd (t_evh tr)) /' Fsum (map fst (t_evh tr))))
    /\ proportion_of_demands_met O A tr threshold
       = match t_evh tr with
         | [] => None
         | _ => Some (oofZ O (Z.of_nat (length (filter (fun e => oltb O (fst e -' snd e) threshold) (t_evh tr))))
                      /' oofZ O (Z.of_nat (length (t_evh tr))))
         end.
  Proof.
    assert (Hr : total_energy_requested O tr = Fsum (map fst (t_evh tr)))
      by (unfold total_energy_requested; rewrite fold_left_add; ring).
    assert (Hd : total_energy_delivered O tr = Fsum (map snd (t_evh tr)))
      by (unfold total_energy_delivered; rewrite fold_left_add; ring).
    split; [exact Hr|]. split; [exact Hd|]. split.
    - unfold proportion_of_energy_delivered. rewrite Hr, Hd, (al_prop AL). reflexivity.
    - unfold proportion_of_demands_met, n_finished. destruct (t_evh tr) as [|e l]; [reflexivity|].
      rewrite (al_ratio AL).
      rewrite (filter_ext (fun e0 => a_demand_met A (a_remaining A (snd e0) (fst e0)) threshold)
                          (fun e0 => oltb O (fst e0 -' snd e0) threshold)); [reflexivity|].
      intro x. rewrite (al_met AL), (al_rem AL). reflexivity.
  Qed.

  (* ---------------- datetimes_array ---------------- *)
  Theorem datetimes_F (tr : traj) :
    length (datetimes_minutes O A tr) = t_iter tr
    /\ forall k, (k < t_iter tr)%nat -> nth k (datetimes_minutes O A tr) z0 = t_period tr *' oofZ O (Z.of_nat k).
  Proof.
    unfold datetimes_minutes. split; [now rewrite map_length, seq_length|].
    intros k Hk. rewrite nth_map_seq_F by exact Hk. apply (al_minutes AL).
  Qed.

  (* ---------------- NEMA ---------------- *)
  Theorem nema_F (tr : traj) a b c ja jb jc :
    wf tr -> NoDup (t_cindex tr) ->
    nth_error (t_cindex tr) ja = Some a -> nth_error (t_cindex tr) jb = Some b -> nth_error (t_cindex tr) jc = Some c ->
    current_unbalance O A tr [a; b; c]
    = Some (map (fun t => nema_spec O (cc_mag_spec O tr ja t) (cc_mag_spec O tr jb t) (cc_mag_spec O tr jc t))
                (periods tr)).
  Proof.
    intros Hwf Hnd Ha Hb Hc.
    destruct (constraint_currents_F tr false (Some [a; b; c]) Hwf Hnd) as (_ & Hget & _).
    unfold current_unbalance. cbn [map all_some].
    rewrite (Hget ja a Ha) by (apply zmem_in_F; cbn; auto).
    rewrite (Hget jb b Hb) by (apply zmem_in_F; cbn; auto).
    rewrite (Hget jc c Hc) by (apply zmem_in_F; cbn; auto).
    unfold series_spec_of. rewrite (al_abs_default AL). cbn [mags_of map fold_left length].
    set (W := t_width tr). unfold periods. fold W.
    set (Av := map (cc_mag_spec O tr ja) (seq 0 W)). set (Bv := map (cc_mag_spec O tr jb) (seq 0 W)).
    set (Cv := map (cc_mag_spec O tr jc) (seq 0 W)).
    assert (LA : length Av = W) by (unfold Av; now rewrite map_length, seq_length).
    assert (LB : length Bv = W) by (unfold Bv; now rewrite map_length, seq_length).
    assert (LC : length Cv = W) by (unfold Cv; now rewrite map_length, seq_length).
    assert (Hmx : vmax O (vmax O Av Bv) Cv
                  = map (fun t => omax O (omax O (cc_mag_spec O tr ja t) (cc_mag_spec O tr jb t)) (cc_mag_spec O tr jc t))
                        (seq 0 W)).
    { apply (list_eq_map_seq_F z0).
      - rewrite !vmax_length, LA, LB, LC. rewrite !Nat.min_id. reflexivity.
      - intros t Ht. rewrite vmax_nth by (rewrite ?vmax_length, ?LA, ?LB, ?LC, ?Nat.min_id; lia).
        rewrite vmax_nth by lia. unfold Av, Bv, Cv. rewrite !nth_map_seq_F by exact Ht. reflexivity. }
    assert (Hrows : Forall (fun r => length r = W) [Av; Bv; Cv]) by (repeat constructor; auto).
    destruct (colsum_spec W _ Hrows) as [Hl Hn].
    assert (Hmean : map (fun s => s /' oofZ O (Z.of_nat 3)) (colsum O W [Av; Bv; Cv])
                    = map (fun t => (cc_mag_spec O tr ja t +' (cc_mag_spec O tr jb t +' cc_mag_spec O tr jc t)) /' oofZ O 3)
                          (seq 0 W)).
    { apply (list_eq_map_seq_F z0).
      - now rewrite map_length.
      - intros t Ht. rewrite map_nth0 by (rewrite Odiv; ring). rewrite (Hn t Ht).
        unfold Av, Bv, Cv. cbn [map fsumA fold_right]. rewrite !nth_map_seq_F by exact Ht.
        change (Z.of_nat 3) with 3%Z. rewrite !Odiv. ring. }
    rewrite Hmx, Hmean, combine_map_same_F, map_map.
    f_equal. apply map_ext. intro t. cbn [fst snd]. unfold nema_spec. rewrite (al_nema AL). reflexivity.
  Qed.

  Theorem nema_unknown_id_F (tr : traj) ids x :
    wf tr -> NoDup (t_cindex tr) -> In x ids -> ~ In x (t_cindex tr) -> current_unbalance O A tr ids = None.
  Proof.
    intros Hwf Hnd Hin Hx.
    destruct (constraint_currents_F tr false (Some ids) Hwf Hnd) as (_ & _ & Hmiss).
    unfold current_unbalance. rewrite all_some_none_F; [reflexivity|].
    apply in_map_iff. exists x. split; auto.
  Qed.

  (* ---------------- consistency with the ledger (C02) ---------------- *)
  Variable B : Type.
  Variable K : kern F B.
  Variable bwf : B -> Prop.
  Hypothesis L : kern_laws_F F O K bwf.
  Notation stn := (@Ledger.stn F).

  Lemma Fsum_is_fsum l : Fsum l = fsum O l.
  Proof. reflexivity. Qed.

  Lemma nth_nil_F n : nth n (@nil F) z0 = z0.
  Proof. destruct n; reflexivity. Qed.

  Lemma skipn_cons_nth (l : list F) k : (k < length l)%nat -> skipn k l = nth k l z0 :: skipn (S k) l.
  Proof.
    revert k. induction l as [|x l IH]; intros k H; cbn in H; [lia|].
    destruct k; [reflexivity|]. cbn [skipn nth]. apply IH. lia.
  Qed.

  (* energy of one column = (voltage-weighted sum / 1000) * (T / 60) *)
  Lemma column_energy_seq (T : F) (net : list stn) : forall k col, length col = (k + length net)%nat ->
    (Fsum (map (fun p => fst p *' snd p) (combine (map s_volt net) (map (fun s => nth s col z0) (seq k (length net)))))
     /' oofZ O 1000) *' (T /' oofZ O 60)
    = column_energy O T net (skipn k col).
  Proof.
    induction net as [|s net IH]; intros k col Hlen; cbn [length seq map combine].
    - cbn [fsumA fold_right column_energy]. rewrite !Odiv. ring.
    - rewrite (skipn_cons_nth col k) by (cbn in Hlen; lia).
      cbn [column_energy]. rewrite <- (IH (S k) col) by (cbn in Hlen; lia).
      rewrite Fsum_cons2. cbn [fst snd]. unfold energy_of. rewrite !Odiv. ring.
  Qed.

  Lemma column_energy_nil T (net : list stn) : column_energy O T net [] = z0.
  Proof. destruct net; reflexivity. Qed.

  Theorem consistent_with_ledger_F (T : F) net ops st (tr : traj) :
    Forall bwf (plugged_batts ops) -> simulate O K T net ops = Some st ->
    t_width tr = length (rates_by_period st) ->
    t_rates tr = station_major_of O (rates_by_period st) (length net) ->
    t_volts tr = map s_volt net ->
    Permutation (map snd (t_evh tr)) (map e_energy (all_evs st)) ->
    total_energy_delivered O tr = Fsum (map (fun p => p *' (T /' oofZ O 60)) (aggregate_power O A tr)).
  Proof.
    intros Hb Hrun HW Hr Hv Hperm.
    destruct (metrics_F tr z0) as (_ & Hd & _). rewrite Hd.
    rewrite Fsum_is_fsum, (Fsum_perm F O Oring _ _ Hperm).
    rewrite (total_field F O oinv Oring Odiv B K bwf L T net ops st Hb Hrun).
    set (chrono := rates_by_period st) in *.
    assert (Hcols : Forall (fun col => length col = length net) chrono).
    { apply Forall_forall. intros col Hin. apply In_nth_error in Hin. destruct Hin as [t Ht].
      destruct (shape_field F O oinv Oring Odiv B K bwf L T net ops st Hrun) as (S1 & S2 & _).
      assert (Ho : exists occ, nth_error (occupancy_by_period st) t = Some occ).
      { destruct (nth_error (occupancy_by_period st) t) eqn:E; [eauto|].
        apply nth_error_None in E. assert (t < length chrono)%nat by (apply nth_error_Some; congruence).
        unfold chrono in *. lia. }
      destruct Ho as [occ Ho].
      destruct (vacant_zero_field F O oinv Oring Odiv B K bwf L T net ops st Hrun t col occ Ht Ho) as (H1 & _). exact H1. }
    assert (Hrows : Forall (fun row => length row = t_width tr) (t_rates tr)).
    { rewrite Hr, HW. unfold station_major_of. apply Forall_map. apply Forall_forall. intros s _. apply map_length. }
    destruct (aggregate_F tr Hrows) as (_ & Hl & Hn).
    assert (Hagg : map (fun p => p *' (T /' oofZ O 60)) (aggregate_power O A tr) = map (column_energy O T net) chrono).
    { apply (nth_ext _ _ z0 z0); [rewrite !map_length, Hl; exact HW|].
      intros t Ht. rewrite map_length, Hl in Ht.
      rewrite (map_nth0 (fun p => p *' (T /' oofZ O 60))) by ring.
      destruct (Hn t Ht) as [_ Hp]. rewrite Hp. unfold aggregate_power_spec. rewrite Hr, Hv.
      transitivity (column_energy O T net (nth t chrono [])).
      2:{ transitivity (nth t (map (column_energy O T net) chrono) (column_energy O T net [])).
          - symmetry. apply map_nth.
          - f_equal. apply column_energy_nil. }
      assert (Hcol : length (nth t chrono []) = (0 + length net)%nat).
      { rewrite Forall_forall in Hcols. apply Hcols. apply nth_In. lia. }
      replace (column_energy O T net (nth t chrono [])) with (column_energy O T net (skipn 0 (nth t chrono []))) by reflexivity.
      rewrite <- (column_energy_seq T net 0 (nth t chrono []) Hcol).
      f_equal. f_equal. f_equal. unfold station_major_of. rewrite !combine_map_r, !map_map.
      apply map_ext. intros [v s]. cbn [fst snd]. f_equal.
      transitivity (nth t (map (fun col => nth s col z0) chrono) (nth s [] z0)).
      - f_equal. symmetry. apply nth_nil_F.
      - apply (map_nth (fun col => nth s col z0)). }
    rewrite Hagg. unfold chrono, rates_by_period. apply (Fsum_perm F O Oring).
    apply Permutation_map. apply Permutation_rev.
  Qed.
End AField.
