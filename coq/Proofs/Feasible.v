(* Proofs/Feasible.v — lemmas about the feasibility checkers (R instance of Model/Feasible.v;
   the two refutation witnesses are evaluated on the Q instance). *)
From Coq Require Import String Reals Lra Lia List Bool Arith Psatz QArith.
From ACN Require Import Base.Num Base.NumR Model.Feasible.
From ACN Require Gen.Feas_R Gen.Feas_Q.
Import ListNotations.
Open Scope R_scope.

(* ------------------------------------------------------------------ list plumbing *)
Lemma forallb_map {A B} (p : B -> bool) (f : A -> B) l :
  forallb p (map f l) = forallb (fun x => p (f x)) l.
Proof. induction l; simpl; congruence. Qed.

Lemma forallb_eq_in {A} (p q : A -> bool) l :
  (forall x, In x l -> p x = q x) -> forallb p l = forallb q l.
Proof.
  induction l as [|a l IH]; simpl; intros H; auto.
  rewrite (H a) by auto. rewrite IH; auto.
Qed.

Lemma forallb_seq (p : nat -> bool) T :
  forallb p (seq 0 T) = true <-> forall t, (t < T)%nat -> p t = true.
Proof.
  rewrite forallb_forall. split; intros H t Ht.
  - apply H. apply in_seq. lia.
  - apply in_seq in Ht. apply H. lia.
Qed.

(* forallb over combine (map h L) (map f A), index-wise *)
Lemma forallb_combine_nth {A B C D} (g : C * D -> bool) (h : A -> C) (f : B -> D) (dA : A) (dB : B) :
  forall (L : list A) (M : list B),
  forallb g (combine (map h L) (map f M)) = true <->
  forall j, (j < length L)%nat -> (j < length M)%nat -> g (h (nth j L dA), f (nth j M dB)) = true.
Proof.
  induction L as [|l L IH]; intros M; simpl.
  - split; auto. intros _ j Hj; lia.
  - destruct M as [|m M]; simpl.
    + split; auto. intros _ j _ Hj; lia.
    + rewrite andb_true_iff, IH. split.
      * intros [H0 H] j Hj1 Hj2. destruct j; auto. apply H; lia.
      * intros H. split.
        -- apply (H O); lia.
        -- intros j Hj1 Hj2. apply (H (S j)); lia.
Qed.

Lemma forallb_combine_eq {A B C D} (g1 : C * D -> bool) (g2 : B * A -> bool) (h : A -> C) (f : B -> D) :
  (forall l m, g1 (h l, f m) = g2 (m, l)) ->
  forall (L : list A) (M : list B),
  forallb g1 (combine (map h L) (map f M)) = forallb g2 (combine M L).
Proof.
  intros E. induction L as [|l L IH]; intros M; simpl.
  - destruct M; reflexivity.
  - destruct M as [|m M]; simpl; auto. rewrite E, IH. reflexivity.
Qed.

(* ------------------------------------------------------------------ sums *)
Lemma nth_scale t r wi : nth t (map (fun x => x * wi) r) 0 = nth t r 0 * wi.
Proof. revert t; induction r; destruct t; simpl; try ring; auto. Qed.

(* network-side order: scale the schedule rows by the phasor component, then A @ *)
Lemma net_sum a X w t : dot RF a (col RF t (scale_rows RF X w)) = wsum a X w t.
Proof.
  revert X w; induction a as [|ai a IH]; intros X w; simpl; auto.
  destruct X as [|r X]; simpl; auto.
  destruct w as [|wi w]; simpl; auto.
  rewrite nth_scale. specialize (IH X w). unfold scale_rows, col in *. simpl in *.
  rewrite IH. ring.
Qed.

(* algorithm-side order: scale the constraint row by the phasor component, then @ rates *)
Lemma alg_sum a X w t : dot RF (vmul RF a w) (col RF t X) = wsum a X w t.
Proof.
  revert X w; induction a as [|ai a IH]; intros X w; simpl; auto.
  destruct w as [|wi w]; simpl.
  - destruct X; reflexivity.
  - destruct X as [|r X]; simpl; auto.
    specialize (IH X w). unfold vmul, col in *. simpl in *. rewrite IH. ring.
Qed.

Lemma orders_agree a (cis : list (R * R)) X t :
  (dot RF a (col RF t (scale_rows RF X (map fst cis))), dot RF a (col RF t (scale_rows RF X (map snd cis))))
  = (dot RF (vmul RF a (map fst cis)) (col RF t X), dot RF (vmul RF a (map snd cis)) (col RF t X)).
Proof. now rewrite !net_sum, !alg_sum. Qed.

(* ------------------------------------------------------------------ magnitude test *)
Lemma sq_le_iff_sqrt_le v rhs : 0 <= v -> (0 <= rhs /\ v <= rhs * rhs) <-> sqrt v <= rhs.
Proof.
  intros Hv. split.
  - intros [H0 H]. rewrite <- (sqrt_square rhs) by assumption. apply sqrt_le_1_alt; assumption.
  - intros H. pose proof (sqrt_pos v) as Hs. pose proof (sqrt_sqrt v Hv) as E.
    split; [lra|]. rewrite <- E. nra.
Qed.

Lemma mag_le_spec re im rhs :
  mag_le RF (re, im) rhs = true <-> sqrt (re * re + im * im) <= rhs.
Proof.
  unfold mag_le; cbn. rewrite andb_true_iff, !Rleb_spec.
  apply sq_le_iff_sqrt_le. nra.
Qed.

Lemma net_rhs_eq vt rt L : net_rhs RF vt rt L = L + Rmax vt (rt * L).
Proof.
  unfold net_rhs; cbn. unfold Feas_R.Net_rhs, Feas_R.Net_rel_tol.
  now rewrite (Rmult_comm L rt).
Qed.

Lemma utils_tol_eq L vt rt : g_utils_tol RF L vt rt = Rmax vt (rt * L).
Proof. reflexivity. Qed.

Lemma utils_tol_default_eq L :
  g_utils_tol_default RF L = g_utils_tol RF L (g_utils_default_vt RF) (g_utils_default_rt RF).
Proof. reflexivity. Qed.

(* a default-constructed network has exactly the tolerances hard-coded on the algorithm side *)
Lemma defaults_coincide :
  g_net_default_vt RF = g_utils_default_vt RF /\ g_net_default_rt RF = g_utils_default_rt RF.
Proof. cbn. unfold Feas_R.Net_default_vt, Feas_R.Utils_default_vt, Feas_R.Net_default_rt, Feas_R.Utils_default_rt. split; lra. Qed.

(* the algorithm-side comparison `line_currents <= limits[j] + tol[j]`, read on a magnitude *)
Lemma utils_ok_phasor_sqrt L tol re im :
  Feas_R.Utils_ok_phasor L (sqrt (re * re + im * im)) tol = mag_le RF (re, im) (L + tol).
Proof.
  unfold Feas_R.Utils_ok_phasor.
  destruct (mag_le RF (re, im) (L + tol)) eqn:E.
  - apply Rleb_spec. now apply mag_le_spec.
  - apply Rleb_false. destruct (Rlt_dec (L + tol) (sqrt (re * re + im * im))) as [H|H]; auto.
    exfalso. assert (mag_le RF (re, im) (L + tol) = true) by (apply mag_le_spec; lra). congruence.
Qed.

(* ------------------------------------------------------------------ C06_definition *)
Definition cur_re (n : network RF) X j t := wsum (nth j (n_rows RF n) []) X (map fst (n_cis n)) t.
Definition cur_im (n : network RF) X j t := wsum (nth j (n_rows RF n) []) X (map snd (n_cis n)) t.

Lemma opt_or_none d : opt_or RF None d = d. Proof. reflexivity. Qed.

Lemma net_feasible_iff (n : network RF) X T ovt ort :
  net_is_feasible RF n X T false ovt ort = true <->
  forall j t, (j < length (n_limits n))%nat -> (j < length (n_rows RF n))%nat -> (t < T)%nat ->
    sqrt (cur_re n X j t * cur_re n X j t + cur_im n X j t * cur_im n X j t)
    <= nth j (n_limits n) 0 + Rmax (opt_or RF ovt (n_vt n)) (opt_or RF ort (n_rt n) * nth j (n_limits n) 0).
Proof.
  unfold net_is_feasible.
  set (vt := opt_or RF ovt (n_vt n)). set (rt := opt_or RF ort (n_rt n)).
  assert (G : forallb (fun p => forallb (fun z => mag_le RF z (fst p)) (snd p))
                (combine (map (net_rhs RF vt rt) (n_limits n)) (constraint_current RF n X T false)) = true <->
              forall j t, (j < length (n_limits n))%nat -> (j < length (n_rows RF n))%nat -> (t < T)%nat ->
                sqrt (cur_re n X j t * cur_re n X j t + cur_im n X j t * cur_im n X j t)
                <= nth j (n_limits n) 0 + Rmax vt (rt * nth j (n_limits n) 0)).
  { unfold constraint_current.
    rewrite (forallb_combine_nth _ (net_rhs RF vt rt) _ 0 []).
    split; intros H j.
    - intros t Hj1 Hj2 Ht. specialize (H j Hj1 Hj2). cbn [fst snd] in H.
      rewrite forallb_map in H. rewrite forallb_seq in H. specialize (H t Ht).
      rewrite !net_sum in H. apply mag_le_spec in H. rewrite net_rhs_eq in H. exact H.
    - intros Hj1 Hj2. cbn [fst snd]. rewrite forallb_map. apply forallb_seq. intros t Ht.
      rewrite !net_sum. apply mag_le_spec. rewrite net_rhs_eq. apply H; assumption. }
  destruct (n_limits n) eqn:EL.
  - split; auto. intros _ j t Hj; simpl in Hj; lia.
  - rewrite <- EL in *. exact G.
Qed.

(* with phases given in degrees *)
Definition net_of (A : list (list R)) (L phi : list R) (vt rt : R) : network RF :=
  Build_network RF (Some A) L (map cis_deg phi) vt rt.

Lemma definition_deg A L phi vt rt X T :
  length A = length L ->
  net_is_feasible RF (net_of A L phi vt rt) X T false None None = true <->
  forall j t, (j < length L)%nat -> (t < T)%nat ->
    sqrt (phasor_re A X phi j t * phasor_re A X phi j t + phasor_im A X phi j t * phasor_im A X phi j t)
    <= nth j L 0 + Rmax vt (rt * nth j L 0).
Proof.
  intros HL. rewrite net_feasible_iff.
  unfold cur_re, cur_im, phasor_re, phasor_im, net_of, n_rows; cbn [n_matrix n_limits n_cis n_vt n_rt].
  rewrite !map_map. cbn [cis_deg fst snd]. rewrite !opt_or_none.
  split.
  - intros H j t Hj Ht. apply H; auto. change (j < @Datatypes.length (list R) A)%nat. rewrite HL. exact Hj.
  - intros H j t Hj _ Ht. apply H; auto.
Qed.

(* linear mode: |sum_i |A_ji| X_it| <= L_j + max(abs_tol, rel_tol L_j) *)
Lemma lin_sum a X t : dot RF (map Rabs a) (col RF t X) = lsum a X t.
Proof.
  revert X; induction a as [|ai a IH]; intros X; simpl; auto.
  destruct X as [|r X]; simpl; auto. specialize (IH X). unfold col in *. simpl in *. now rewrite IH.
Qed.

Lemma mag_le_real S rhs : mag_le RF (S, 0) rhs = true <-> Rabs S <= rhs.
Proof.
  rewrite mag_le_spec. replace (S * S + 0 * 0) with (Rsqr S) by (unfold Rsqr; ring).
  now rewrite sqrt_Rsqr_abs.
Qed.

Lemma definition_linear A L phi vt rt X T :
  length A = length L ->
  net_is_feasible RF (net_of A L phi vt rt) X T true None None = true <->
  forall j t, (j < length L)%nat -> (t < T)%nat ->
    Rabs (lsum (nth j A []) X t) <= nth j L 0 + Rmax vt (rt * nth j L 0).
Proof.
  intros HL. unfold net_is_feasible, net_of; cbn [n_limits n_vt n_rt]. rewrite !opt_or_none.
  assert (G : forallb (fun p => forallb (fun z => mag_le RF z (fst p)) (snd p))
                (combine (map (net_rhs RF vt rt) L)
                   (constraint_current RF (Build_network RF (Some A) L (map cis_deg phi) vt rt) X T true)) = true <->
              forall j t, (j < length L)%nat -> (t < T)%nat ->
                Rabs (lsum (nth j A []) X t) <= nth j L 0 + Rmax vt (rt * nth j L 0)).
  { unfold constraint_current, n_rows; cbn [n_matrix].
    rewrite (forallb_combine_nth _ (net_rhs RF vt rt) _ 0 []).
    split; intros H j.
    - intros t Hj Ht.
      assert (Hj2 : (j < length A)%nat) by (change (j < @Datatypes.length (list R) A)%nat; rewrite HL; exact Hj).
      specialize (H j Hj Hj2). cbn [fst snd] in H.
      rewrite forallb_map in H. rewrite forallb_seq in H. specialize (H t Ht).
      cbn [fabs RF] in H. rewrite lin_sum in H. apply mag_le_real in H. now rewrite net_rhs_eq in H.
    - intros Hj1 Hj2. cbn [fst snd]. rewrite forallb_map. apply forallb_seq. intros t Ht.
      cbn [fabs RF]. rewrite lin_sum. apply mag_le_real. rewrite net_rhs_eq. now apply H. }
  destruct L; [|exact G].
  split; auto. intros _ j t Hj; simpl in Hj; lia.
Qed.

(* ------------------------------------------------------------------ agreement *)
Lemma info_ok_fields (n : network RF) inf :
  infrastructure_info RF n = Ok inf ->
  i_matrix inf = n_rows RF n /\ i_limits inf = n_limits n /\ i_cis inf = n_cis n
  /\ i_ncols inf = n_stations RF n /\ length (n_rows RF n) = length (n_limits n)
  /\ (forall r, In r (n_rows RF n) -> length r = n_stations RF n).
Proof.
  unfold infrastructure_info.
  destruct (_ && _ && _) eqn:E; [|discriminate].
  intros H; inversion H; subst; clear H. cbn.
  apply andb_true_iff in E; destruct E as [E E3]. apply andb_true_iff in E; destruct E as [E1 E2].
  apply Nat.eqb_eq in E1, E3. rewrite forallb_forall in E2.
  repeat split; auto. intros r Hr. apply Nat.eqb_eq. auto.
Qed.

(* phasor mode: algorithm-side check with tolerances (vt, rt) = network-side check *)
Lemma alg_net_agree_phasor (n : network RF) inf X T ovt ort :
  infrastructure_info RF n = Ok inf ->
  alg_is_feasible RF inf X T false (opt_or RF ovt (n_vt n)) (opt_or RF ort (n_rt n))
  = net_is_feasible RF n X T false ovt ort.
Proof.
  intros Hinf. destruct (info_ok_fields n inf Hinf) as (EA & EL & EC & _ & Hlen & _).
  unfold alg_is_feasible, alg_is_feasible_tol, net_is_feasible. rewrite EA, EL, EC.
  set (vt := opt_or RF ovt (n_vt n)). set (rt := opt_or RF ort (n_rt n)).
  assert (G : forallb (fun p => alg_row_ok RF (n_cis n) X T false (fst p) (snd p) (g_utils_tol RF (snd p) vt rt))
                (combine (n_rows RF n) (n_limits n))
              = forallb (fun p => forallb (fun z => mag_le RF z (fst p)) (snd p))
                  (combine (map (net_rhs RF vt rt) (n_limits n)) (constraint_current RF n X T false))).
  { unfold constraint_current. symmetry. apply forallb_combine_eq.
    intros l a. cbn [fst snd]. unfold alg_row_ok. rewrite forallb_map.
    apply forallb_eq_in. intros t _. rewrite orders_agree.
    rewrite net_rhs_eq, utils_tol_eq. reflexivity. }
  rewrite G. destruct (n_limits n) eqn:E; auto.
Qed.

Lemma nth_nonneg t r : forallb (fun x => Rleb 0 x) r = true -> 0 <= nth t r 0.
Proof.
  revert t; induction r as [|x r IH]; intros t H; destruct t; simpl in *; try lra.
  - apply andb_true_iff in H. destruct H as [H _]. now apply Rleb_spec.
  - apply andb_true_iff in H. destruct H as [_ H]. auto.
Qed.

Lemma dot_abs_nonneg a X t : all_nonneg RF X = true -> 0 <= dot RF (map Rabs a) (col RF t X).
Proof.
  unfold all_nonneg. revert X; induction a as [|ai a IH]; intros X H; simpl; try lra.
  destruct X as [|r X]; simpl in *; try lra.
  apply andb_true_iff in H; destruct H as [Hr HX].
  pose proof (nth_nonneg t r Hr). pose proof (Rabs_pos ai). specialize (IH X HX).
  nra.
Qed.

Lemma lin_cmp S rhs : Rleb 0 rhs && Rleb (S * S + 0 * 0) (rhs * rhs) = Rleb (Rabs S) rhs.
Proof.
  assert (Hsq : Rabs S * Rabs S = S * S) by (destruct (Rabs_spec S) as [[_ E]|[_ E]]; rewrite E; ring).
  pose proof (Rabs_pos S) as Hp.
  destruct (Rleb (Rabs S) rhs) eqn:E1; [apply Rleb_spec in E1 | apply Rleb_false in E1].
  - apply andb_true_iff; split; apply Rleb_spec; nra.
  - apply andb_false_iff. destruct (Rle_dec 0 rhs).
    + right. apply Rleb_false. nra.
    + left. apply Rleb_false. lra.
Qed.

(* linear mode: both sides compare |sum_i |A_ji| X_it| with the limit (since fix 1df0c97 the
   algorithm side takes the magnitude as the network side does), on every schedule *)
Lemma alg_net_agree_linear (n : network RF) inf X T ovt ort :
  infrastructure_info RF n = Ok inf ->
  alg_is_feasible RF inf X T true (opt_or RF ovt (n_vt n)) (opt_or RF ort (n_rt n))
  = net_is_feasible RF n X T true ovt ort.
Proof.
  intros Hinf. destruct (info_ok_fields n inf Hinf) as (EA & EL & EC & _ & Hlen & _).
  unfold alg_is_feasible, alg_is_feasible_tol, net_is_feasible. rewrite EA, EL, EC.
  set (vt := opt_or RF ovt (n_vt n)). set (rt := opt_or RF ort (n_rt n)).
  assert (G : forallb (fun p => alg_row_ok RF (n_cis n) X T true (fst p) (snd p) (g_utils_tol RF (snd p) vt rt))
                (combine (n_rows RF n) (n_limits n))
              = forallb (fun p => forallb (fun z => mag_le RF z (fst p)) (snd p))
                  (combine (map (net_rhs RF vt rt) (n_limits n)) (constraint_current RF n X T true))).
  { unfold constraint_current. symmetry. apply forallb_combine_eq.
    intros l a. cbn [fst snd]. unfold alg_row_ok. rewrite forallb_map.
    apply forallb_eq_in. intros t _.
    rewrite net_rhs_eq, utils_tol_eq. cbn [g_utils_ok_linear RF fabs].
    unfold Feas_R.Utils_ok_linear, mag_le. cbn [fst snd fleb f0 fadd fmul RF].
    apply lin_cmp. }
  rewrite G. destruct (n_limits n) eqn:E; auto.
Qed.

Lemma default_is_explicit inf X T lin :
  alg_is_feasible_default RF inf X T lin
  = alg_is_feasible RF inf X T lin (g_utils_default_vt RF) (g_utils_default_rt RF).
Proof. reflexivity. Qed.

(* ------------------------------------------------------------------ interface *)
Lemma iface_empty (n : network RF) lin ovt ort : iface_is_feasible RF n [] lin ovt ort = Ok true.
Proof. reflexivity. Qed.

Lemma iface_ragged (n : network RF) m lin ovt ort :
  uniform_lengths RF m = false -> iface_is_feasible RF n m lin ovt ort = Err "InvalidScheduleError"%string.
Proof.
  intros H. unfold iface_is_feasible. destruct m; [discriminate|]. now rewrite H.
Qed.

Lemma net_feasible_some (n : network RF) X T lin ovt ort :
  net_is_feasible RF n X T lin (Some (opt_or RF ovt (n_vt n))) (Some (opt_or RF ort (n_rt n)))
  = net_is_feasible RF n X T lin ovt ort.
Proof. reflexivity. Qed.

Lemma iface_dense (n : network RF) m lin ovt ort :
  m <> [] -> uniform_lengths RF m = true ->
  iface_is_feasible RF n m lin ovt ort
  = Ok (net_is_feasible RF n (dense RF (n_stations RF n) (mapping_T RF m) m) (mapping_T RF m) lin ovt ort).
Proof.
  intros Hne Hu. unfold iface_is_feasible. destruct m; [congruence|]. rewrite Hu.
  now rewrite net_feasible_some.
Qed.

Lemma dense_length N T (m : mapping RF) : length (dense RF N T m) = N.
Proof. unfold dense. now rewrite map_length, seq_length. Qed.

Lemma nth_map_seq {A} (f : nat -> A) N i d : (i < N)%nat -> nth i (map f (seq 0 N)) d = f i.
Proof.
  intros Hi. rewrite (nth_indep _ d (f O)) by (rewrite map_length, seq_length; lia).
  rewrite (map_nth f (seq 0 N) O i). now rewrite seq_nth.
Qed.

Lemma dense_nth N T (m : mapping RF) i :
  (i < N)%nat ->
  nth i (dense RF N T m) [] = match nassoc i m with Some r => r | None => repeat 0 T end.
Proof. intros Hi. unfold dense. now rewrite nth_map_seq. Qed.

Lemma uniform_all_T (m : mapping RF) k r :
  uniform_lengths RF m = true -> In (k, r) m -> length r = mapping_T RF m.
Proof.
  unfold uniform_lengths, mapping_T. destruct m as [|[k0 r0] m']; [intros _ []|].
  intros H Hin. rewrite forallb_forall in H. specialize (H _ Hin). now apply Nat.eqb_eq in H.
Qed.

(* ------------------------------------------------------------------ unconstrained network *)
Definition unconstrained (cis : list (R * R)) (vt rt : R) : network RF :=
  Build_network RF None [] cis vt rt.

Lemma unconstrained_info cis vt rt :
  infrastructure_info RF (unconstrained cis vt rt)
  = Ok (Build_infra RF [] (length cis) [] cis).
Proof.
  unfold infrastructure_info, unconstrained, n_stations, n_rows; cbn.
  now rewrite Nat.eqb_refl.
Qed.

Lemma unconstrained_all cis vt rt X T lin ovt ort (m : mapping RF) :
  net_is_feasible RF (unconstrained cis vt rt) X T lin ovt ort = true
  /\ (forall inf, infrastructure_info RF (unconstrained cis vt rt) = Ok inf ->
        alg_is_feasible_default RF inf X T lin = true
        /\ forall vt' rt', alg_is_feasible RF inf X T lin vt' rt' = true)
  /\ iface_is_feasible RF (unconstrained cis vt rt) m lin ovt ort
     = (if uniform_lengths RF m then Ok true else Err "InvalidScheduleError"%string).
Proof.
  split; [reflexivity|]. split.
  - intros inf H. rewrite unconstrained_info in H. inversion H; subst. split; [|intros]; reflexivity.
  - unfold iface_is_feasible. destruct m as [|p m]; [reflexivity|].
    destruct (uniform_lengths RF (p :: m)); reflexivity.
Qed.

(* ------------------------------------------------------------------ linear relaxation *)
Definition unit_cis (cis : list (R * R)) : Prop :=
  forall c s, In (c, s) cis -> c * c + s * s <= 1.

Lemma unit_cis_deg phi : unit_cis (map cis_deg phi).
Proof.
  intros c s H. apply in_map_iff in H. destruct H as (p & E & _). unfold cis_deg in E.
  inversion E; subst. pose proof (sin2_cos2 (p * PI / 180)) as H. unfold Rsqr in H. lra.
Qed.

Lemma tri_sq u v p q m s :
  0 <= m -> 0 <= s -> p * p + q * q <= m * m -> u * u + v * v <= s * s ->
  (u + p) * (u + p) + (v + q) * (v + q) <= (m + s) * (m + s).
Proof.
  intros Hm Hs Hp Hu.
  assert (Hcs : (u * p + v * q) * (u * p + v * q) <= (u * u + v * v) * (p * p + q * q)).
  { assert (E : (u * u + v * v) * (p * p + q * q) - (u * p + v * q) * (u * p + v * q)
                = (u * q - v * p) * (u * q - v * p)) by ring.
    pose proof (Rle_0_sqr (u * q - v * p)) as H0. unfold Rsqr in H0. lra. }
  assert (Hms : (u * u + v * v) * (p * p + q * q) <= (s * s) * (m * m)) by (apply Rmult_le_compat; nra).
  assert (H : u * p + v * q <= m * s).
  { destruct (Rle_dec (u * p + v * q) 0) as [Hn|Hn]; [nra|].
    apply Rnot_lt_le. intro Hlt. assert (0 <= m * s) by nra. nra. }
  nra.
Qed.

(* triangle inequality, by induction over the stations *)
Lemma phasor_le_linear a X (cis : list (R * R)) t :
  unit_cis cis -> all_nonneg RF X = true ->
  let S := dot RF (map Rabs a) (col RF t X) in
  0 <= S /\
  wsum a X (map fst cis) t * wsum a X (map fst cis) t + wsum a X (map snd cis) t * wsum a X (map snd cis) t
  <= S * S.
Proof.
  intros Hu Hnn. split; [now apply dot_abs_nonneg|].
  revert X cis Hu Hnn; induction a as [|ai a IH]; intros X cis Hu Hnn; simpl; try nra.
  destruct X as [|r X]; simpl; try nra.
  assert (Hr : forallb (fun x => Rleb 0 x) r = true /\ all_nonneg RF X = true).
  { unfold all_nonneg in *. simpl in Hnn. now apply andb_true_iff in Hnn. }
  destruct Hr as [Hr HX].
  pose proof (nth_nonneg t r Hr) as Hx. pose proof (dot_abs_nonneg a X t HX) as HS.
  destruct cis as [|[c s] cis]; simpl; change (F RF) with R in *; change (f0 RF) with 0 in *.
  - pose proof (Rabs_pos ai) as Ha. set (S' := dot RF (map Rabs a) (col RF t X)) in *.
    set (x := nth t r 0) in *. assert (0 <= Rabs ai * x + S') by nra. nra.
  - assert (Hcs : c * c + s * s <= 1) by (apply Hu; left; reflexivity).
    assert (Hu' : unit_cis cis) by (intros c' s' H'; apply Hu; right; exact H').
    specialize (IH X cis Hu' HX).
    set (x := nth t r 0) in *.
    set (u := wsum a X (map fst cis) t) in *. set (v := wsum a X (map snd cis) t) in *.
    set (S' := dot RF (map Rabs a) (col RF t X)) in *.
    assert (Hm : 0 <= Rabs ai * x) by (pose proof (Rabs_pos ai); nra).
    assert (Hp : (ai * x * c) * (ai * x * c) + (ai * x * s) * (ai * x * s) <= (Rabs ai * x) * (Rabs ai * x)).
    { assert (E : Rabs ai * Rabs ai = ai * ai) by (destruct (Rabs_spec ai) as [[_ E]|[_ E]]; rewrite E; ring).
      assert (E2 : (Rabs ai * x) * (Rabs ai * x) = ai * ai * (x * x)) by (rewrite <- E; ring).
      rewrite E2.
      assert (0 <= ai * ai * (x * x)) by nra.
      replace (ai * x * c * (ai * x * c) + ai * x * s * (ai * x * s)) with (ai * ai * (x * x) * (c * c + s * s)) by ring.
      nra. }
    pose proof (tri_sq u v (ai * x * c) (ai * x * s) (Rabs ai * x) S' Hm HS Hp IH) as Htri.
    cbn [fadd fmul RF]. nra.
Qed.

Lemma mag_le_mono re im S rhs :
  0 <= S -> re * re + im * im <= S * S -> mag_le RF (S, 0) rhs = true -> mag_le RF (re, im) rhs = true.
Proof.
  intros HS H. unfold mag_le; cbn. rewrite !andb_true_iff, !Rleb_spec. intros [H0 H1]. split; nra.
Qed.

Lemma net_linear_conservative (n : network RF) X T ovt ort :
  unit_cis (n_cis n) -> all_nonneg RF X = true ->
  net_is_feasible RF n X T true ovt ort = true -> net_is_feasible RF n X T false ovt ort = true.
Proof.
  intros Hu Hnn. unfold net_is_feasible.
  destruct (n_limits n) eqn:EL; auto. rewrite <- EL. clear EL.
  set (vt := opt_or RF ovt (n_vt n)). set (rt := opt_or RF ort (n_rt n)).
  unfold constraint_current.
  rewrite !(forallb_combine_nth _ (net_rhs RF vt rt) _ 0 []).
  intros H j Hj1 Hj2. specialize (H j Hj1 Hj2). cbn [fst snd] in *.
  rewrite forallb_map in *. rewrite forallb_seq in *. intros t Ht. specialize (H t Ht).
  rewrite !net_sum.
  destruct (phasor_le_linear (nth j (n_rows RF n) []) X (n_cis n) t Hu Hnn) as [HS Hle].
  eapply mag_le_mono; eauto.
Qed.

Lemma alg_linear_conservative tolf (inf : infra RF) X T :
  unit_cis (i_cis inf) -> all_nonneg RF X = true ->
  alg_is_feasible_tol RF tolf inf X T true = true -> alg_is_feasible_tol RF tolf inf X T false = true.
Proof.
  intros Hu Hnn. unfold alg_is_feasible_tol. rewrite !forallb_forall.
  intros H p Hp. specialize (H p Hp). unfold alg_row_ok in *.
  rewrite forallb_seq in *. intros t Ht. specialize (H t Ht).
  rewrite !alg_sum.
  destruct (phasor_le_linear (fst p) X (i_cis inf) t Hu Hnn) as [HS Hle].
  cbn [g_utils_ok_linear RF fabs] in H. unfold Feas_R.Utils_ok_linear in H. apply Rleb_spec in H.
  unfold mag_le; cbn [fst snd fleb f0 fadd fmul RF]. cbn [fadd RF] in H.
  change (F RF) with R in *.
  set (S := dot RF (map Rabs (fst p)) (col RF t X)) in *.
  set (rhs := snd p + tolf (snd p)) in *.
  set (u := wsum (fst p) X (map fst (i_cis inf)) t) in *.
  set (v := wsum (fst p) X (map snd (i_cis inf)) t) in *.
  clearbody S rhs u v.
  assert (HS' : S <= rhs) by (rewrite Rabs_pos_eq in H by assumption; exact H).
  assert (S * S <= rhs * rhs) by nra.
  apply andb_true_iff; split; apply Rleb_spec; lra.
Qed.

(* ------------------------------------------------------------------ refutation witnesses (Q) *)
Open Scope Q_scope.

(* one station (phase 0), one constraint "x <= 40", network tolerances 1e-9 / 1e-12 *)
Definition witness_tol_net : network QF :=
  Build_network QF (Some [[1]]) [40] [(1, 0)] (1 # 1000000000) (1 # 1000000000000).
Definition witness_tol_X : list (list Q) := [[40000005 # 1000000]].

Lemma witness_tol_disagree :
  exists inf, infrastructure_info QF witness_tol_net = Ok inf
  /\ net_is_feasible QF witness_tol_net witness_tol_X 1 false None None = false
  /\ iface_is_feasible QF witness_tol_net [(O, [40000005 # 1000000])] false None None = Ok false
  /\ alg_is_feasible_default QF inf witness_tol_X 1 false = true.
Proof. eexists. repeat split; vm_compute; reflexivity. Qed.

(* regression witness of the fixed finding 1df0c97: default tolerances, linear mode, x = -50 on
   "x <= 40": all three reject *)
Definition witness_neg_net : network QF :=
  Build_network QF (Some [[1]]) [40] [(1, 0)] (g_net_default_vt QF) (g_net_default_rt QF).

Lemma witness_neg_agree :
  exists inf, infrastructure_info QF witness_neg_net = Ok inf
  /\ net_is_feasible QF witness_neg_net [[-50]] 1 true None None = false
  /\ iface_is_feasible QF witness_neg_net [(O, [-50])] true None None = Ok false
  /\ alg_is_feasible_default QF inf [[-50]] 1 true = false.
Proof. eexists. repeat split; vm_compute; reflexivity. Qed.
