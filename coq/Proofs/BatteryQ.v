(* Proofs/BatteryQ.v — axiom-free versions of the C03 bounds for the two kernels that do not use exp,
   stated about the EXECUTABLE Q twin (Gen/Battery_Q.v: the same functions the correspondence runs). *)
From Coq Require Import ZArith QArith Qminmax Qabs Lqa List Bool String.
From ACN Require Import Base.Num Gen.Battery_Q.
Import ListNotations.
Open Scope Q_scope.
Set Default Timeout 60.

Lemma Qleb_false a b : Qleb a b = false <-> b < a.
Proof.
  unfold Qleb. split; intro H.
  - apply Qnot_le_lt. intro Hle. apply Qle_bool_iff in Hle. congruence.
  - destruct (Qle_bool a b) eqn:E; auto. apply Qle_bool_iff in E. exfalso. eapply Qlt_not_le; eauto.
Qed.

Lemma Qltb_false a b : Qltb a b = false <-> b <= a.
Proof.
  unfold Qltb. rewrite negb_false_iff. apply Qle_bool_iff.
Qed.

Lemma Qmin_cases a b : (a <= b /\ Qmin a b == a) \/ (b <= a /\ Qmin a b == b).
Proof.
  destruct (Q.min_spec a b) as [[H E]|[H E]]; [left|right]; split; auto. apply Qlt_le_weak; auto.
Qed.
Lemma Qmax_cases a b : (a <= b /\ Qmax a b == b) \/ (b <= a /\ Qmax a b == a).
Proof.
  destruct (Q.max_spec a b) as [[H E]|[H E]]; [left|right]; split; auto. apply Qlt_le_weak; auto.
Qed.

Lemma Qmin3_spec a b c :
  Qmin (Qmin a b) c <= a /\ Qmin (Qmin a b) c <= b /\ Qmin (Qmin a b) c <= c
  /\ (0 <= a -> 0 <= b -> 0 <= c -> 0 <= Qmin (Qmin a b) c).
Proof.
  destruct (Qmin_cases a b) as [[H1 E1]|[H1 E1]];
  destruct (Qmin_cases (Qmin a b) c) as [[H2 E2]|[H2 E2]];
  rewrite E1 in *; rewrite E2; repeat split; intros; lra.
Qed.

(* a power P within the three limits meets the physical bounds *)
Lemma power_bounds_suffice_Q cap c maxP pilot V T P :
  0 < V -> 0 < T -> 0 <= P -> P <= pilot * V / 1000 -> P <= maxP -> P <= (cap - c) / (T / 60) ->
  (0 <= P * 1000 / V /\ P * 1000 / V <= pilot) /\ (0 <= P /\ P <= maxP)
  /\ (c <= c + P * (T / 60) /\ c + P * (T / 60) <= cap)
  /\ c + P * (T / 60) - c == P * 1000 / V * V / 1000 * (T / 60).
Proof.
  intros HV HT HP0 HPp HPm HPf.
  set (h := T / 60) in *.
  assert (Hh : h * 60 == T) by (unfold h; field).
  assert (Hh0 : 0 < h) by nra.
  assert (Hf : P * h <= cap - c).
  { assert (E : (cap - c) / h * h == cap - c) by (field; lra).
    rewrite <- E. apply Qmult_le_compat_r; lra. }
  assert (EV : P * 1000 / V * V == P * 1000) by (field; lra).
  set (r := P * 1000 / V) in *.
  assert (Hr0 : 0 <= r) by nra.
  assert (Hrp : r <= pilot).
  { assert (E2 : pilot * V / 1000 * 1000 == pilot * V) by field.
    assert (r * V <= pilot * V) by nra. nra. }
  repeat split; try lra; try nra.
  assert (E3 : r * V / 1000 == P) by (rewrite EV; field). 
  rewrite E3. ring.
Qed.

Theorem c03_ideal_Q cap c p0 maxP pilot V T :
  0 <= maxP -> c <= cap -> 0 < V -> 0 < T -> 0 <= pilot ->
  exists o, Battery_charge cap c p0 maxP pilot V T = OkS o
    /\ (0 <= Battery_charge_ret o /\ Battery_charge_ret o <= pilot)
    /\ (0 <= Battery_charge__current_charging_power o /\ Battery_charge__current_charging_power o <= maxP)
    /\ (c <= Battery_charge__current_charge o /\ Battery_charge__current_charge o <= cap)
    /\ Battery_charge__current_charge o - c == Battery_charge_ret o * V / 1000 * (T / 60).
Proof.
  intros HmaxP Hc HV HT Hp. unfold Battery_charge.
  replace (Qleb V (0 # 1)) with false by (symmetry; apply Qleb_false; exact HV).
  replace (Qleb T (0 # 1)) with false by (symmetry; apply Qleb_false; exact HT).
  cbv zeta. eexists; split; [reflexivity|]. cbn [Battery_charge_ret Battery_charge__current_charge Battery_charge__current_charging_power].
  assert (Hpv : 0 <= pilot * V / (1000 # 1)) by (apply Qle_shift_div_l; [reflexivity|nra]).
  assert (Hh0 : 0 < T / (60#1)) by (apply Qlt_shift_div_l; [reflexivity|lra]).
  assert (Hrtf : 0 <= (cap - c) / (T / (60 # 1))).
  { apply Qle_shift_div_l; lra. }
  destruct (Qmin3_spec (pilot * V / (1000 # 1)) maxP ((cap - c) / (T / (60 # 1)))) as (M1 & M2 & M3 & M0).
  specialize (M0 Hpv HmaxP Hrtf).
  apply (power_bounds_suffice_Q cap c maxP pilot V T); assumption.
Qed.

Lemma Qmin4_spec a b c d :
  Qmin (Qmin (Qmin a b) c) d <= a /\ Qmin (Qmin (Qmin a b) c) d <= b
  /\ Qmin (Qmin (Qmin a b) c) d <= c /\ Qmin (Qmin (Qmin a b) c) d <= d
  /\ (0 <= a -> 0 <= b -> 0 <= c -> 0 <= d -> 0 <= Qmin (Qmin (Qmin a b) c) d).
Proof.
  destruct (Qmin3_spec a b c) as (A1 & A2 & A3 & A0).
  destruct (Qmin_cases (Qmin (Qmin a b) c) d) as [[H E]|[H E]]; rewrite E; repeat split; intros; try lra;
    try (apply A0; assumption).
Qed.

Definition stepwise_power_Q (cap c maxP nl ts pilot V T noise noise2 : Q) : Q :=
  let rtf := (cap - c) / (T / (60 # 1)) in
  if Qltb (c / cap) ts then
    let p1 := Qmin (Qmin (pilot * V / (1000 # 1)) maxP) rtf in
    if Qltb (0 # 1) nl then Qmax (p1 - Qabs noise) (0 # 1) else p1
  else
    let p4 := Qmin (Qmin (pilot * V / (1000 # 1)) (((1 # 1) - c / cap) / ((1 # 1) - ts) * maxP)) rtf in
    if Qltb (0 # 1) nl then
      let p5 := Qmin (Qmin (Qmin (Qmax (p4 + noise2) (0 # 1)) (pilot * V / (1000 # 1))) maxP) rtf in
      Qmin (Qmin (Qmin p5 (pilot * V / (1000 # 1))) maxP) rtf
    else p4.

Lemma L2_charge_stepwise_ok_Q cap c p0 maxP nl ts pilot V T noise noise2 : 0 < V -> 0 < T ->
  L2_charge_stepwise cap c p0 maxP nl ts pilot V T noise noise2 =
  let P := stepwise_power_Q cap c maxP nl ts pilot V T noise noise2 in
  OkS {| L2_charge_stepwise_ret := P * (1000 # 1) / V;
         L2_charge_stepwise__current_charge := c + P * (T / (60 # 1));
         L2_charge_stepwise__current_charging_power := P |}.
Proof.
  intros HV HT. unfold L2_charge_stepwise.
  replace (Qleb V (0 # 1)) with false by (symmetry; apply Qleb_false; exact HV).
  replace (Qleb T (0 # 1)) with false by (symmetry; apply Qleb_false; exact HT).
  reflexivity.
Qed.

Lemma stepwise_power_bounds_Q cap c maxP nl ts pilot V T noise noise2 :
  0 < cap -> 0 <= maxP -> ts < 1 -> c <= cap -> 0 < V -> 0 < T -> 0 <= pilot ->
  let P := stepwise_power_Q cap c maxP nl ts pilot V T noise noise2 in
  0 <= P /\ P <= pilot * V / 1000 /\ P <= maxP /\ P <= (cap - c) / (T / 60).
Proof.
  intros Hcap HmaxP Hts Hc HV HT Hp.
  assert (Hpv : 0 <= pilot * V / 1000) by (apply Qle_shift_div_l; [reflexivity|nra]).
  assert (Hh0 : 0 < T / 60) by (apply Qlt_shift_div_l; [reflexivity|lra]).
  assert (Hrtf : 0 <= (cap - c) / (T / 60)) by (apply Qle_shift_div_l; lra).
  assert (Hs1 : c / cap <= 1) by (apply Qle_shift_div_r; lra).
  unfold stepwise_power_Q. cbv zeta.
  set (pv := pilot * V / 1000) in *. set (rtf := (cap - c) / (T / 60)) in *.
  destruct (Qltb (c / cap) ts) eqn:E1.
  - destruct (Qmin3_spec pv maxP rtf) as (M1 & M2 & M3 & M0). specialize (M0 Hpv HmaxP Hrtf).
    set (p1 := Qmin (Qmin pv maxP) rtf) in *.
    destruct (Qltb 0 nl); [|repeat split; lra].
    pose proof (Qabs_nonneg noise).
    destruct (Qmax_cases (p1 - Qabs noise) 0) as [[H1 E]|[H1 E]]; rewrite E; repeat split; lra.
  - apply Qltb_false in E1.
    assert (Hramp : 0 <= (1 - c / cap) / (1 - ts) * maxP /\ (1 - c / cap) / (1 - ts) * maxP <= maxP).
    { assert (H0 : 0 <= (1 - c / cap) / (1 - ts)) by (apply Qle_shift_div_l; lra).
      assert (H1 : (1 - c / cap) / (1 - ts) <= 1) by (apply Qle_shift_div_r; lra).
      split; nra. }
    set (ramp := (1 - c / cap) / (1 - ts) * maxP) in *.
    destruct (Qmin3_spec pv ramp rtf) as (M1 & M2 & M3 & M0). specialize (M0 Hpv (proj1 Hramp) Hrtf).
    set (p4 := Qmin (Qmin pv ramp) rtf) in *.
    destruct (Qltb 0 nl); [|repeat split; lra].
    assert (Hx : 0 <= Qmax (p4 + noise2) 0) by apply Q.le_max_r.
    set (x := Qmax (p4 + noise2) 0) in *.
    destruct (Qmin4_spec x pv maxP rtf) as (N1 & N2 & N3 & N4 & N0). specialize (N0 Hx Hpv HmaxP Hrtf).
    set (p5 := Qmin (Qmin (Qmin x pv) maxP) rtf) in *.
    destruct (Qmin4_spec p5 pv maxP rtf) as (O1 & O2 & O3 & O4 & O0). specialize (O0 N0 Hpv HmaxP Hrtf).
    repeat split; lra.
Qed.

Theorem c03_stepwise_Q cap c p0 maxP nl ts pilot V T noise noise2 :
  0 < cap -> 0 <= maxP -> ts < 1 -> c <= cap -> 0 < V -> 0 < T -> 0 <= pilot ->
  exists o, L2_charge_stepwise cap c p0 maxP nl ts pilot V T noise noise2 = OkS o
    /\ (0 <= L2_charge_stepwise_ret o /\ L2_charge_stepwise_ret o <= pilot)
    /\ (0 <= L2_charge_stepwise__current_charging_power o /\ L2_charge_stepwise__current_charging_power o <= maxP)
    /\ (c <= L2_charge_stepwise__current_charge o /\ L2_charge_stepwise__current_charge o <= cap)
    /\ L2_charge_stepwise__current_charge o - c == L2_charge_stepwise_ret o * V / 1000 * (T / 60).
Proof.
  intros Hcap HmaxP Hts Hc HV HT Hp. rewrite L2_charge_stepwise_ok_Q by assumption. cbv zeta.
  eexists; split; [reflexivity|].
  cbn [L2_charge_stepwise_ret L2_charge_stepwise__current_charge L2_charge_stepwise__current_charging_power].
  destruct (stepwise_power_bounds_Q cap c maxP nl ts pilot V T noise noise2 Hcap HmaxP Hts Hc HV HT Hp)
    as (B0 & B1 & B2 & B3).
  apply (power_bounds_suffice_Q cap c maxP pilot V T); assumption.
Qed.
