(* Proofs/NetworkPhase.v — the default (phase-aware) constraint_current: subset law, closed form when every
   station was registered once, and the failure after a repeated registration. *)
From Coq Require Import List Bool Arith Lia ZArith QArith Qabs String Permutation.
From ACN Require Import Base.Num Base.ListX Model.Current Model.Network Proofs.Current Proofs.Network Proofs.NetworkMore.
Import ListNotations.
Open Scope nat_scope.
Set Default Proof Using "Type".

Section Phase.
  Context {A : Type}.
  Variables (zero : A) (add mul : A -> A -> A).

  Notation ccp := (constraint_current_phase zero add mul).
  Notation matmul_w := (matmul_w zero add mul).
  Notation dotw := (dotw zero add mul).
  Notation run := (run zero).
  Notation lin_sum_w := (lin_sum_w zero add mul).

  Lemma matmul_w_take_cols : forall M (Y : sched A) js w,
    matmul_w M (take_cols zero Y js) w = map (fun row => map (fun j => dotw row (column zero Y j) w) js) M.
  Proof.
    intros M Y js w. unfold Network.matmul_w. apply map_ext. intros row. simpl xw.
    rewrite <- (map_nth_seq (fun j => dotw row (column zero Y j) w) js 0).
    apply map_ext_in. intros jj Hjj. apply in_seq in Hjj.
    rewrite column_take_cols by lia. reflexivity.
  Qed.

  Lemma map_repeat : forall {B C} (f : B -> C) x n, map f (repeat x n) = repeat (f x) n.
  Proof. intros B C f x n. induction n; simpl; auto. f_equal; auto. Qed.

  Lemma bcast_take_cols : forall (X : sched A) js a,
    bcast (take_cols zero X js) a =
    match bcast X a with Some Y => Some (take_cols zero Y js) | None => None end.
  Proof.
    intros X js a. unfold bcast. simpl xrows. rewrite map_length.
    destruct (Nat.eqb (List.length (xrows X)) a); [reflexivity|].
    destruct (Nat.eqb (List.length (xrows X)) 1) eqn:E1.
    - apply Nat.eqb_eq in E1. destruct (xrows X) as [|x [|y r]] eqn:Ex; simpl in E1; try discriminate.
      unfold take_cols. simpl. rewrite map_repeat. reflexivity.
    - destruct (Nat.eqb a 1); reflexivity.
  Qed.

  Lemma bcast_rows_length : forall (X Y : sched A) js a,
    bcast X a = Some Y -> List.length (xrows (take_cols zero Y js)) = List.length (xrows Y).
  Proof. intros. simpl. apply map_length. Qed.

  (* closed form on any network *)
  Theorem ccp_closed_form : forall (n : net A) X C T trig,
    ccp X C T trig n =
    match sel_cols (xw X) T with
    | None => Err "IndexError"%string
    | Some js =>
        let a := List.length (angles n) in
        match bcast X a with
        | None => Err "ValueError"%string
        | Some Y =>
            let w := bweights zero (List.length (xrows X)) a trig in
            match cmat n with
            | None => Err "TypeError"%string
            | Some m =>
                if negb (Nat.eqb (List.length (xrows Y)) (List.length (stations n))) then Err "ValueError"%string
                else
                  let idx := constraint_indices C (cnames n) in
                  Ok (map (fun i => map (fun j => dotw (nth i m []) (column zero Y j) (map fst w)) js) idx,
                      map (fun i => map (fun j => dotw (nth i m []) (column zero Y j) (map snd w)) js) idx)
            end
        end
    end.
  Proof.
    intros n X C T trig. unfold Network.constraint_current_phase.
    destruct T as [ts|]; simpl sel_cols.
    - destruct (norm_indices (xw X) ts) as [js|] eqn:Ej; auto.
      rewrite bcast_take_cols. cbv zeta.
      destruct (bcast X (List.length (angles n))) as [Y|] eqn:EY; auto.
      simpl xrows at 1. rewrite map_length.
      destruct (cmat n) as [m|]; auto.
      simpl xrows. rewrite map_length.
      destruct (negb _); auto.
      rewrite !matmul_w_take_cols, !map_map. reflexivity.
    - cbv zeta. destruct (bcast X (List.length (angles n))) as [Y|] eqn:EY; auto.
      destruct (cmat n) as [m|]; auto.
      destruct (negb _); auto.
      unfold Network.matmul_w. rewrite !map_map.
      assert (Hw : xw Y = xw X).
      { unfold bcast in EY.
        destruct (Nat.eqb _ _); [inversion EY; reflexivity|].
        destruct (Nat.eqb _ 1); [inversion EY; reflexivity|].
        destruct (Nat.eqb _ 1); [inversion EY; reflexivity | discriminate]. }
      rewrite Hw. reflexivity.
  Qed.

  (* the subset law for the phase-aware query, on every reachable network *)
  Theorem subset_phase_of_full : forall ops X C T trig,
    let n := run ops net0 in
    ccp X C T trig n =
    match sel_cols (xw X) T with
    | None => Err "IndexError"%string
    | Some js =>
        match ccp X None None trig n with
        | Err e => Err e
        | Ok (fre, fim) =>
            let pick full := map (fun i => map (fun j => nth j (nth i full []) None) js)
                                 (constraint_indices C (cnames n)) in
            Ok (pick fre, pick fim)
        end
    end.
  Proof.
    intros ops X C T trig n. subst n.
    rewrite (ccp_closed_form _ X C T), (ccp_closed_form _ X None None).
    set (n := run ops net0).
    destruct (sel_cols (xw X) T) as [js|] eqn:Ej; auto. simpl sel_cols. cbv iota zeta.
    destruct (bcast X (List.length (angles n))) as [Y|] eqn:EY; auto.
    destruct (cmat n) as [m|] eqn:Em; auto.
    destruct (negb _); auto.
    destruct (aligned_lengths zero ops) as (_ & Hlen & _). fold n in Hlen.
    destruct (Hlen m Em) as [Hm _].
    pose proof (sel_cols_lt _ _ _ Ej) as Hlt. rewrite Forall_forall in Hlt.
    assert (P : forall w,
      map (fun i => map (fun j => dotw (nth i m []) (column zero Y j) w) js) (constraint_indices C (cnames n)) =
      map (fun i => map (fun j => nth j (nth i
             (map (fun i0 => map (fun j0 => dotw (nth i0 m []) (column zero Y j0) w) (seq 0 (xw X)))
                  (constraint_indices None (cnames n))) []) None) js) (constraint_indices C (cnames n))).
    { intros w. apply map_ext_in. intros i Hi. apply constraint_indices_lt in Hi.
      simpl constraint_indices.
      set (F := fun i0 => map (fun j0 => dotw (nth i0 m []) (column zero Y j0) w) (seq 0 (xw X))).
      assert (Hrow : nth i (map F (seq 0 (List.length (cnames n)))) [] = F i).
      { rewrite (nth_indep _ [] (F 0)) by (rewrite map_length, seq_length; exact Hi).
        rewrite (map_nth F). rewrite seq_nth by exact Hi. reflexivity. }
      rewrite Hrow. unfold F.
      apply map_ext_in. intros j Hj. specialize (Hlt j Hj).
      set (G := fun j0 => dotw (nth i m []) (column zero Y j0) w).
      rewrite (nth_indep _ None (G 0)) by (rewrite map_length, seq_length; exact Hlt).
      rewrite (map_nth G). rewrite seq_nth by exact Hlt. reflexivity. }
    rewrite (P (map fst _)), (P (map snd _)). reflexivity.
  Qed.

  Lemma dotw_all_some : forall (r : list A) col w, dotw (map Some r) col w = Some (lin_sum_w r col w).
  Proof.
    induction r as [|u r IH]; intros col w; simpl; auto.
    destruct col as [|v col]; simpl; auto. destruct w as [|z w]; simpl; auto. rewrite IH. reflexivity.
  Qed.

  (* on EVERY reachable network (any registration sequence, repeated ids included): a schedule with one row per
     station is never refused with ValueError, and every entry is
     sum_k coeff(current_i, s_k) * X[k][j] * (cos_k, sin_k) *)
  Theorem ccp_values : forall (ops : list (op A)) X C T trig,
    let n := run ops net0 in
    let g := grun ops (ghost0 (A := A)) in
    List.length (xrows X) = List.length (stations n) ->
    ccp X C T trig n =
    match sel_cols (xw X) T with
    | None => Err "IndexError"%string
    | Some js =>
        if g_ever g then
          let entry part i j :=
            match nth_error (g_live g) i with
            | Some x => Some (lin_sum_w (map (fun s => coeff zero (l_cur x) s) (stations n))
                                        (column zero X j) (map part trig))
            | None => Some zero
            end in
          Ok (map (fun i => map (entry fst i) js) (constraint_indices C (cnames n)),
              map (fun i => map (entry snd i) js) (constraint_indices C (cnames n)))
        else Err "TypeError"%string
    end.
  Proof.
    intros ops X C T trig n g HX.
    subst n. rewrite (ccp_closed_form _ X C T). set (n := run ops net0) in *.
    destruct (sel_cols (xw X) T) as [js|]; auto. cbv zeta.
    destruct (arrays_aligned zero ops) as [_ Ha]. fold n in Ha.
    unfold bcast. rewrite Ha, HX, Nat.eqb_refl.
    unfold bweights.
    assert (Hb : Nat.eqb (List.length (stations n)) 1 && negb (Nat.eqb (List.length (stations n)) 1) = false)
      by (destruct (Nat.eqb (List.length (stations n)) 1); reflexivity).
    rewrite Hb.
    destruct (aligned zero ops) as (As & _ & Am & _ & Ac). fold n g in As, Am, Ac.
    rewrite Am. destruct (g_ever g); auto.
    rewrite ?HX, Nat.eqb_refl. simpl negb. cbv iota.
    f_equal. f_equal.
    - apply map_ext_in. intros i Hi. apply constraint_indices_lt in Hi. rewrite Ac, map_length in Hi.
      apply map_ext. intros j.
      destruct (nth_error (g_live g) i) as [x|] eqn:Ex; [|apply nth_error_None in Ex; lia].
      rewrite (nth_indep _ [] ((fun y => map (fun s => Some (coeff zero (l_cur y) s)) (stations n)) x))
        by (rewrite map_length; exact Hi).
      rewrite (map_nth (fun y => map (fun s => Some (coeff zero (l_cur y) s)) (stations n))).
      rewrite (nth_error_nth _ _ x Ex).
      rewrite <- (map_map (fun s => coeff zero (l_cur x) s) Some).
      apply dotw_all_some.
    - apply map_ext_in. intros i Hi. apply constraint_indices_lt in Hi. rewrite Ac, map_length in Hi.
      apply map_ext. intros j.
      destruct (nth_error (g_live g) i) as [x|] eqn:Ex; [|apply nth_error_None in Ex; lia].
      rewrite (nth_indep _ [] ((fun y => map (fun s => Some (coeff zero (l_cur y) s)) (stations n)) x))
        by (rewrite map_length; exact Hi).
      rewrite (map_nth (fun y => map (fun s => Some (coeff zero (l_cur y) s)) (stations n))).
      rewrite (nth_error_nth _ _ x Ex).
      rewrite <- (map_map (fun s => coeff zero (l_cur x) s) Some).
      apply dotw_all_some.
  Qed.
End Phase.

(* ------------------------------------------------------------------------------------------ *)
(* the history that used to fail (a station id registered twice, 76013ed): the arrays stay aligned, the station
   keeps its first position and takes the voltage / angle of its last registration, and the default query answers *)
Open Scope Q_scope.

Definition rereg_ops : list (op Q) :=
  [ ORegister 1%nat 208 30; ORegister 2%nat 208 (-30); ORegister 1%nat 240 150;
    OAdd [(1%nat, 1); (2%nat, 1)] 32 (Some "pod"%string) ].
Definition rereg_X : sched Q := mkSched 2 [[10; 10]; [5; 5]].
(* (cos, sin) of 150 and -30 degrees to 3 digits *)
Definition rereg_trig : list (Q * Q) := [(-866 # 1000, 1 # 2); (866 # 1000, -1 # 2)].

Lemma rereg_example :
  let n := run 0 rereg_ops net0 in
  stations n = [1; 2]%nat /\
  list_eqb Qeq_bool (volts n) [240; 208] = true /\ list_eqb Qeq_bool (angles n) [150; -30] = true /\
  qcc rereg_X None None n = Ok [[Some (1 * 10 + (1 * 5 + 0)); Some (1 * 10 + (1 * 5 + 0))]] /\
  (exists re im, qccp rereg_X None None rereg_trig n = Ok (re, im) /\
     qmatrix_eqb re [[Some (-433 # 100); Some (-433 # 100)]] = true /\
     qmatrix_eqb im [[Some (5 # 2); Some (5 # 2)]] = true).
Proof.
  vm_compute. repeat split; try reflexivity.
  eexists; eexists. repeat split; reflexivity.
Qed.
