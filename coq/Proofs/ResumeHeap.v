(* Proofs/ResumeHeap.v — the heapq-based EventQueue of C11 satisfies queue_laws (C09), and the
   resume theorem for it, stated from the initial event list. *)
From Coq Require Import ZArith List Bool String Lia Permutation.
From ACN Require Import Base.Num Base.ListX Base.ResumeBase Gen.ResumeZ_Z Gen.Serial
  Model.Resume Model.ResumeHeap Proofs.Resume.
From ACN Require Model.HeapQ Model.Events Proofs.HeapQ Proofs.Events.
Import ListNotations.
Open Scope Z_scope.
Open Scope list_scope.

Module ME := ACN.Model.Events.
Module PE := ACN.Proofs.Events.

(* ---- _timestep is written before it is read: the C11 operations ignore its old value ---- *)
Lemma gce_timestep_irrelevant arr x y t :
  ME.get_current_events {| ME.q_queue := arr; ME.q_timestep := x |} t
  = ME.get_current_events {| ME.q_queue := arr; ME.q_timestep := y |} t.
Proof. reflexivity. Qed.
Lemma add_event_timestep_irrelevant arr x y it :
  ME.q_queue (ME.add_event {| ME.q_queue := arr; ME.q_timestep := x |} it)
  = ME.q_queue (ME.add_event {| ME.q_queue := arr; ME.q_timestep := y |} it).
Proof. reflexivity. Qed.

(* ---- representation invariant ---- *)
Definition entry_ok (tbl : list (nat * event)) (x : ME.item) : Prop :=
  exists e, nlookup (item_id x) tbl = Some e /\ x = item_of (item_id x) e.
Definition hq_inv (h : hq) : Prop :=
  PE.heap_ok (h_arr h)
  /\ Forall (entry_ok (h_tbl h)) (h_arr h)
  /\ (forall n e, nlookup n (h_tbl h) = Some e -> (n < h_next h)%nat).

Lemma entry_ts tbl x : entry_ok tbl x -> e_ts (ev_of tbl x) = fst x.
Proof.
  intros (e & Hl & Hx). unfold ev_of. rewrite Hl. rewrite Hx. reflexivity.
Qed.

Lemma cq_wf h : hq_inv h -> PE.wf (cq (h_arr h)).
Proof. intros [H _]. exact H. Qed.

(* ---- the two array-equality facts about get_current_events ---- *)
Lemma current_loop_prefix fuel : forall q acc q' r,
  ME.current_loop fuel q acc = (q', r) -> exists l, r = acc ++ l.
Proof.
  induction fuel as [|f IH]; intros q acc q' r H; simpl in H.
  - inversion H; subst. exists []. now rewrite app_nil_r.
  - destruct (ACN.Gen.Events_Z.EventQueue_current_guard _ _ _).
    + destruct (ME.get_event q) as [[x q1]|].
      * apply IH in H. destruct H as [l ->]. exists (x :: l). now rewrite <- app_assoc.
      * inversion H; subst. exists []. now rewrite app_nil_r.
    + inversion H; subst. exists []. now rewrite app_nil_r.
Qed.

(* nothing returned: the array is untouched *)
Lemma gce_nil arr t q' : ME.get_current_events (cq arr) t = (q', []) -> ME.q_queue q' = arr.
Proof.
  unfold ME.get_current_events. simpl.
  destruct arr as [|a arr]; simpl; [intro H; inversion H; reflexivity|].
  destruct (ACN.Gen.Events_Z.EventQueue_current_guard _ _ _).
  - destruct (ME.get_event _) as [[x q1]|].
    + intro H. apply current_loop_prefix in H. destruct H as [l H]. simpl in H. discriminate H.
    + intro H; inversion H; reflexivity.
  - intro H; inversion H; reflexivity.
Qed.

(* nothing due: nothing returned *)
Lemma gce_none arr t : Forall (fun x => t < fst x) arr ->
  exists q', ME.get_current_events (cq arr) t = (q', []) /\ ME.q_queue q' = arr.
Proof.
  intro H. unfold ME.get_current_events. simpl.
  destruct arr as [|a arr]; simpl; [eexists; split; reflexivity|].
  inversion H; subst.
  destruct (ACN.Gen.Events_Z.EventQueue_current_guard _ _ _) eqn:G.
  - unfold ACN.Gen.Events_Z.EventQueue_current_guard in G. apply andb_true_iff in G.
    destruct G as [_ G]. apply Z.leb_le in G. simpl in G. lia.
  - eexists; split; reflexivity.
Qed.

(* ---- membership bookkeeping ---- *)
Lemma ev_of_old tbl n e x : entry_ok tbl x -> (forall m v, nlookup m tbl = Some v -> (m < n)%nat) ->
  ev_of ((n, e) :: tbl) x = ev_of tbl x /\ entry_ok ((n, e) :: tbl) x.
Proof.
  intros (v & Hl & Hx) Hb. pose proof (Hb _ _ Hl) as Hlt.
  assert (E : Nat.eqb (item_id x) n = false) by (apply Nat.eqb_neq; lia).
  split.
  - unfold ev_of. simpl. rewrite E. reflexivity.
  - exists v. simpl. rewrite E. split; assumption.
Qed.

Theorem HeapEQ_laws : queue_laws HeapEQ hq_inv.
Proof.
  constructor; unfold HeapEQ; cbn [Qt q_empty q_pop q_push q_last q_elems].
  - (* pop keeps the invariant *)
    intros t h evs h' Hinv Hp. unfold hq_pop in Hp.
    destruct (PE.get_current_events_spec (cq (h_arr h)) t (cq_wf h Hinv))
      as (l & q' & Hg & Hwf & _ & Hperm & _ & _ & _ & _).
    rewrite Hg in Hp. inversion Hp; subst. destruct Hinv as (_ & Hent & Hb).
    split; [exact Hwf|]. split; [|exact Hb]. simpl.
    apply Forall_forall. intros x Hx. rewrite Forall_forall in Hent. apply Hent.
    eapply Permutation_in; [apply Permutation_sym, Hperm|]. apply in_or_app; right; exact Hx.
  - (* push keeps the invariant *)
    intros e h Hinv. destruct Hinv as (Hh & Hent & Hb). unfold hq_push. split; [|split]; simpl.
    + apply (PE.add_event_wf (cq (h_arr h))). exact Hh.
    + apply Forall_forall. intros x Hx.
      apply (Permutation_in _ (PE.add_event_perm (cq (h_arr h)) _)) in Hx. simpl in Hx.
      destruct Hx as [<-|Hx].
      * exists e. unfold item_id, item_of. simpl. rewrite Nat.eqb_refl. split; reflexivity.
      * rewrite Forall_forall in Hent. apply (ev_of_old _ _ e _ (Hent x Hx) Hb).
    + intros n v Hl. destruct (Nat.eqb n (h_next h)) eqn:E.
      * apply Nat.eqb_eq in E. lia.
      * pose proof (Hb _ _ Hl). lia.
  - (* the remaining events are later and come from the queue *)
    intros t h evs h' Hinv Hp. unfold hq_pop in Hp.
    destruct (PE.get_current_events_spec (cq (h_arr h)) t (cq_wf h Hinv))
      as (l & q' & Hg & Hwf & _ & Hperm & _ & Hrest & _ & _).
    rewrite Hg in Hp. inversion Hp; subst. simpl. destruct Hinv as (_ & Hent & _).
    rewrite Forall_forall in Hent.
    assert (Hin : forall x, In x (ME.q_queue q') -> In x (h_arr h)).
    { intros x Hx. eapply Permutation_in; [apply Permutation_sym, Hperm|]. apply in_or_app; right; exact Hx. }
    split.
    + apply Forall_forall. intros e He. apply in_map_iff in He. destruct He as (x & <- & Hx).
      rewrite (entry_ts _ _ (Hent x (Hin x Hx))).
      apply (Permutation_in _ Hrest) in Hx. apply filter_In in Hx. destruct Hx as [_ Hx].
      apply Z.ltb_lt in Hx. exact Hx.
    + intros e He. apply in_map_iff in He. destruct He as (x & <- & Hx).
      apply in_map. apply Hin; exact Hx.
  - (* the returned events are due and come from the queue *)
    intros t h evs h' Hinv Hp. unfold hq_pop in Hp.
    destruct (PE.get_current_events_spec (cq (h_arr h)) t (cq_wf h Hinv))
      as (l & q' & Hg & Hwf & _ & Hperm & Hdue & _ & _ & _).
    rewrite Hg in Hp. inversion Hp; subst. simpl. destruct Hinv as (_ & Hent & _).
    rewrite Forall_forall in Hent.
    apply Forall_forall. intros e He. apply in_map_iff in He. destruct He as (x & <- & Hx).
    assert (Hxin : In x (h_arr h)).
    { eapply Permutation_in; [apply Permutation_sym, Hperm|]. apply in_or_app; left; exact Hx. }
    split.
    + rewrite (entry_ts _ _ (Hent x Hxin)).
      apply (Permutation_in _ Hdue) in Hx. apply filter_In in Hx. destruct Hx as [_ Hx].
      apply Z.leb_le in Hx. exact Hx.
    + apply in_map. exact Hxin.
  - (* nothing due: nothing returned, queue untouched *)
    intros t h Hinv Hall. unfold hq_pop. destruct Hinv as (_ & Hent & _).
    assert (Hts : Forall (fun x => t < fst x) (h_arr h)).
    { rewrite Forall_forall in *. intros x Hx. rewrite <- (entry_ts _ _ (Hent x Hx)).
      apply Hall. apply in_map. exact Hx. }
    destruct (gce_none _ _ Hts) as (q' & Hg & Ha). rewrite Hg, Ha. destruct h; reflexivity.
  - (* nothing returned: queue untouched *)
    intros t h h' Hinv Hp. unfold hq_pop in Hp.
    destruct (ME.get_current_events (cq (h_arr h)) t) as [q' l] eqn:Hg.
    inversion Hp as [[Hl Hh]]. destruct l; [|discriminate Hl].
    rewrite (gce_nil _ _ _ Hg). destruct h; reflexivity.
  - (* add_event adds one event *)
    intros e h Hinv x Hx. destruct Hinv as (_ & Hent & Hb). unfold hq_push in Hx; simpl in Hx.
    apply in_map_iff in Hx. destruct Hx as (y & <- & Hy).
    apply (Permutation_in _ (PE.add_event_perm (cq (h_arr h)) _)) in Hy. simpl in Hy.
    destruct Hy as [<-|Hy].
    + left. unfold ev_of, item_id, item_of. simpl. rewrite Nat.eqb_refl. reflexivity.
    + right. rewrite Forall_forall in Hent.
      rewrite (proj1 (ev_of_old _ _ e _ (Hent y Hy) Hb)). apply in_map. exact Hy.
  - (* and the result is not empty *)
    intros e h _. unfold hq_push; simpl.
    destruct (ME.eq_empty _) eqn:E; [|reflexivity].
    apply PE.eq_empty_spec in E.
    assert (X : ME.q_queue (ME.add_event (cq (h_arr h)) (item_of (h_next h) e)) = []) by exact E.
    pose proof (PE.add_event_perm (cq (h_arr h)) (item_of (h_next h) e)) as Hp.
    rewrite X in Hp. apply Permutation_nil in Hp. discriminate Hp.
Qed.

(* ---- the initial queue EventQueue(events) ---- *)
Lemma hq_new_inv : hq_inv hq_new.
Proof.
  split; [apply PE.heap_ok_nil|]. split; [constructor|]. intros n e H; discriminate H.
Qed.

Lemma hq_init_spec evs : forall h, hq_inv h ->
  hq_inv (fold_left (fun h e => hq_push e h) evs h)
  /\ incl (q_elems HeapEQ (fold_left (fun h e => hq_push e h) evs h)) (evs ++ q_elems HeapEQ h).
Proof.
  induction evs as [|e evs IH]; intros h Hinv; simpl.
  - split; [exact Hinv|apply incl_refl].
  - destruct (IH (hq_push e h) (ql_push_inv HeapEQ hq_inv HeapEQ_laws e h Hinv)) as [A B].
    split; [exact A|]. intros x Hx. apply B in Hx. apply in_app_or in Hx. destruct Hx as [Hx|Hx].
    + right. apply in_or_app; left; exact Hx.
    + apply (ql_push_elems HeapEQ hq_inv HeapEQ_laws e h Hinv) in Hx.
      destruct Hx as [<-|Hx]; [left; reflexivity|right; apply in_or_app; right; exact Hx].
Qed.

Lemma event_ok_spec e : event_ok e = true -> 0 <= e_ts e /\ ev_ok e.
Proof.
  unfold event_ok, ev_ok. rewrite !andb_true_iff, orb_true_iff, negb_true_iff, Z.leb_le, Z.ltb_lt.
  intros [H1 H3]. split; [exact H1|].
  intro Hp. destruct H3 as [H3|H3]; [congruence|exact H3].
Qed.

(* a simulator built from a history satisfying the decidable input condition is well formed *)
Lemma initial_ok St evs mr (rest : St) : history_ok evs = true ->
  hq_inv (s_queue (initial_sim St evs mr rest)) /\ queue_ok HeapEQ St (initial_sim St evs mr rest).
Proof.
  intro H. destruct (hq_init_spec evs hq_new hq_new_inv) as [A B].
  split; [exact A|]. unfold queue_ok, initial_sim. cbn [s_queue s_iter].
  apply Forall_forall. intros x Hx. apply B in Hx. simpl in Hx. rewrite app_nil_r in Hx.
  unfold history_ok in H. rewrite forallb_forall in H. apply event_ok_spec. apply H. exact Hx.
Qed.

Section HeapResume.
  Variables St Sched : Type.
  Variable R : rest_ops St Sched.
  Variable sched : sim HeapEQ St -> Sched.
  Notation run := (run HeapEQ St Sched R sched).

  (* resume theorem for the real heap queue, from any well-formed state *)
  Theorem resume_heap fuel k (s sc sref : sim HeapEQ St) :
    hq_inv (s_queue s) /\ queue_ok HeapEQ St s ->
    run fuel (Some k) s = Raised sc -> run fuel None s = Done sref -> run fuel None sc = Done sref.
  Proof.
    intros Hq Hc Hr.
    exact (proj1 (resume_one HeapEQ hq_inv HeapEQ_laws St Sched R sched fuel k s sc sref Hq Hc Hr)).
  Qed.

  (* the headline theorem: from the initial events *)
  Theorem resume_from_history evs mr (rest : St) fuel k (sc sref : sim HeapEQ St) :
    history_ok evs = true ->
    run fuel (Some k) (initial_sim St evs mr rest) = Raised sc ->
    run fuel None (initial_sim St evs mr rest) = Done sref ->
    run fuel None sc = Done sref.
  Proof. intros H. apply resume_heap. apply initial_ok. exact H. Qed.

  Theorem resume_repeatedly_from_history evs mr (rest : St) ks fuel (sref : sim HeapEQ St) :
    history_ok evs = true ->
    run fuel None (initial_sim St evs mr rest) = Done sref ->
    run_chain HeapEQ St Sched R sched fuel ks (initial_sim St evs mr rest) = Done sref.
  Proof.
    intros H. apply (resume_chain HeapEQ hq_inv HeapEQ_laws). apply initial_ok. exact H.
  Qed.

  Theorem resume_after_load_from_history evs mr (rest rest0 : St) (queue0 : hq) fuel k
          (sc sref : sim HeapEQ St) :
    history_ok evs = true ->
    run fuel (Some k) (initial_sim St evs mr rest) = Raised sc ->
    run fuel None (initial_sim St evs mr rest) = Done sref ->
    run fuel None (reload HeapEQ St rest0 queue0 sc) = Done sref.
  Proof.
    intros H. apply (resume_after_load HeapEQ hq_inv HeapEQ_laws). apply initial_ok. exact H.
  Qed.
End HeapResume.

(* the condition is satisfiable and excludes the input of the open finding (zero-stay session) *)
Lemma history_ok_example : history_ok ex_events = true.
Proof. vm_compute. reflexivity. Qed.
Lemma history_ok_rejects_zero_stay : history_ok [plug 1 0 0 1; plug 0 1 1 4] = false.
Proof. vm_compute. reflexivity. Qed.
(* untyped base events are allowed *)
Lemma history_ok_accepts_untyped : history_ok [plug 0 0 0 2; mk_event "Event" 4 (-1) (-1) (-1)] = true.
Proof. vm_compute. reflexivity. Qed.

(* a concrete run on the C11 queue: two sessions and a RecomputeEvent, raise at the third call *)
Definition exE_ref := Eval vm_compute in drunE 10 None (init_simE ex_events (Some 2)).
Definition exE_crash := Eval vm_compute in drunE 10 (Some 2%nat) (init_simE ex_events (Some 2)).
Lemma heap_resume_example :
  drunE 10 None (init_simE ex_events (Some 2)) = Done (state_of exE_ref)
  /\ drunE 10 (Some 2%nat) (init_simE ex_events (Some 2)) = Raised (state_of exE_crash)
  /\ drunE 10 None (state_of exE_crash) = Done (state_of exE_ref)
  /\ s_iter (state_of exE_ref) = 6.
Proof. repeat split; vm_compute; reflexivity. Qed.
