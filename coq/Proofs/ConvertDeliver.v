(* Proofs/ConvertDeliver.v — with force_feasible and the default battery the request is
   deliverable: n flat-out periods of the generated Battery.charge fill the battery exactly (C15).
   Axiom-free (Q). *)
From Coq Require Import ZArith QArith Qminmax Qabs Qround List Bool String Lia Lqa.
From ACN Require Import Base.Num Base.QExpFast Gen.Battery_Q Gen.Convert_Q Model.Convert Model.ConvertDeliver
     Proofs.Convert.
Open Scope Q_scope.

(* one period: the charge grows by min(maxP * T/60, cap - c) when the pilot does not bind *)
Lemma batt_step_spec cap maxP pilot V T c :
  0 < V -> 0 < T -> maxP <= pilot * V / 1000 ->
  batt_step_Q cap maxP pilot V T c == c + Qmin (maxP * (T / 60)) (cap - c).
Proof.
  intros HV HT Hp. unfold batt_step_Q, Battery_charge.
  change (0 # 1) with 0. change (60 # 1) with 60. change (1000 # 1) with 1000.
  assert (E1 : Qleb V 0 = false).
  { destruct (Qleb V 0) eqn:E; auto. apply Qleb_spec in E. lra. }
  assert (E2 : Qleb T 0 = false).
  { destruct (Qleb T 0) eqn:E; auto. apply Qleb_spec in E. lra. }
  rewrite E1, E2. cbn [stateS Battery_charge__current_charge].
  assert (Hh : 0 < T / 60) by (unfold Qdiv; apply Qmult_lt_0_compat; [assumption|reflexivity]).
  set (h := T / 60) in *.
  rewrite (Q.min_r (pilot * V / 1000) maxP) by assumption.
  assert (Hne : ~ h == 0) by (intro E; rewrite E in Hh; discriminate).
  apply Qplus_inj_l.
  destruct (Q.min_spec maxP ((cap - c) / h)) as [[Hlt ->]|[Hle ->]].
  - assert (maxP * h < cap - c).
    { apply (Qmult_lt_compat_r _ _ h) in Hlt; [|exact Hh].
      setoid_replace ((cap - c) / h * h) with (cap - c) in Hlt by (field; exact Hne). exact Hlt. }
    rewrite Q.min_l by lra. reflexivity.
  - assert (cap - c <= maxP * h).
    { apply (Qmult_le_compat_r _ _ h) in Hle; [|lra].
      setoid_replace ((cap - c) / h * h) with (cap - c) in Hle by (field; exact Hne). exact Hle. }
    rewrite Q.min_r by assumption. field. exact Hne.
Qed.

Lemma batt_step_compat cap maxP pilot V T c c' :
  0 < V -> 0 < T -> maxP <= pilot * V / 1000 -> c == c' ->
  batt_step_Q cap maxP pilot V T c == batt_step_Q cap maxP pilot V T c'.
Proof. intros HV HT Hp E. rewrite !batt_step_spec by assumption. now rewrite E. Qed.

(* n periods from an empty battery: min(cap, n * maxP * T/60) *)
Lemma batt_run_from cap maxP pilot V T n c k :
  0 < V -> 0 < T -> 0 <= maxP -> 0 <= cap -> maxP <= pilot * V / 1000 ->
  c == Qmin cap (inject_Z (Z.of_nat k) * (maxP * (T / 60))) ->
  batt_run_Q n cap maxP pilot V T c == Qmin cap (inject_Z (Z.of_nat (k + n)) * (maxP * (T / 60))).
Proof.
  intros HV HT HP Hc Hp. revert c k. induction n as [|n IH]; intros c k Hck.
  - cbn. now rewrite Nat.add_0_r.
  - cbn [batt_run_Q]. replace (k + S n)%nat with (S k + n)%nat by lia. apply IH.
    rewrite batt_step_spec by assumption. rewrite Hck.
    assert (Hh : 0 <= maxP * (T / 60)).
    { apply Qmult_le_0_compat; auto. unfold Qdiv. apply Qmult_le_0_compat; [lra|discriminate]. }
    set (h := maxP * (T / 60)) in *.
    rewrite Nat2Z.inj_succ, <- Z.add_1_r, inject_Z_plus. change (inject_Z 1) with 1.
    set (kk := inject_Z (Z.of_nat k)).
    assert (Hk : 0 <= kk) by (unfold kk; rewrite <- (Zle_Qle 0); lia).
    destruct (Q.min_spec cap (kk * h)) as [[H1 E1]|[H1 E1]]; rewrite E1.
    + (* already full *)
      rewrite Q.min_r by lra. rewrite Q.min_l; [ring|]. nra.
    + destruct (Q.min_spec h (cap - kk * h)) as [[H2 E2]|[H2 E2]]; rewrite E2.
      * rewrite Q.min_r by nra. ring.
      * rewrite Q.min_l by nra. ring.
Qed.

Lemma batt_run_spec cap maxP pilot V T n :
  0 < V -> 0 < T -> 0 <= maxP -> 0 <= cap -> maxP <= pilot * V / 1000 ->
  batt_run_Q n cap maxP pilot V T 0 == Qmin cap (inject_Z (Z.of_nat n) * (maxP * (T / 60))).
Proof.
  intros. apply (batt_run_from cap maxP pilot V T n 0 0%nat); auto.
  cbn. rewrite Qmult_0_l. symmetry. apply Q.min_r. assumption.
Qed.

(* the session-level statement: force_feasible + default battery => charging flat out for the
   stay delivers exactly the requested energy *)
Theorem session_deliverable off T V maxP max_len conn disc kwh o pilot :
  0 < T -> 0 < V -> 0 <= maxP -> maxP <= pilot * V / 1000 ->
  convert_to_ev off T V maxP max_len BP_default true (conn, disc, kwh) = Ok o ->
  (0 <= ev_departure o - ev_arrival o)%Z ->
  batt_run_Q (Z.to_nat (ev_departure o - ev_arrival o)) (ev_cap o) maxP pilot V T (ev_init o)
  == ev_requested o.
Proof.
  intros HT HV HP Hp H Hstay.
  destruct (session_default_battery _ _ _ _ _ _ _ _ _ _ H) as (Hc & Hi & _ & Hreq).
  destruct (session_energy_feasible _ _ _ _ _ _ _ _ _ _ H) as (_ & Hfe & _).
  rewrite Hc, Hi. rewrite batt_run_spec by assumption.
  rewrite Z2Nat.id by assumption. apply Q.min_l.
  setoid_replace (inject_Z (ev_departure o - ev_arrival o) * (maxP * (T / 60)))
    with (maxP * inject_Z (ev_departure o - ev_arrival o) * (T / 60)) by ring.
  exact Hfe.
Qed.

(* the same on the stochastic path (code as of ebdc3a4: capped by the discretised stay) *)
Theorem stoch_deliverable T V maxP max_len a d e o pilot :
  0 < T -> 0 < V -> 0 <= maxP -> maxP <= pilot * V / 1000 ->
  stoch_convert_row T V maxP max_len BP_default true (a, d, e) = Ok o ->
  (0 <= ev_departure o - ev_arrival o)%Z ->
  batt_run_Q (Z.to_nat (ev_departure o - ev_arrival o)) (ev_cap o) maxP pilot V T (ev_init o)
  == ev_requested o.
Proof.
  intros HT HV HP Hp H Hstay.
  destruct (stoch_row_energy_feasible _ _ _ _ _ _ _ _ _ HT H) as (_ & Hfe & _).
  apply stoch_row_ok in H. cbv zeta in H. destruct H as (Ha & Hd & He & Hs).
  apply size_default_ok in Hs. destruct Hs as [Hpair Hle]. injection Hpair as Hc Hi.
  assert (C : ev_cap o = ev_requested o) by (rewrite He; symmetry; exact Hc).
  assert (I : ev_init o = 0) by (symmetry; exact Hi).
  rewrite C, I in *. rewrite batt_run_spec by assumption.
  rewrite Z2Nat.id by assumption. apply Q.min_l.
  setoid_replace (inject_Z (ev_departure o - ev_arrival o) * (maxP * (T / 60)))
    with (maxP * inject_Z (ev_departure o - ev_arrival o) * (T / 60)) by ring.
  exact Hfe.
Qed.
