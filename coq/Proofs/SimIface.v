(* Proofs/SimIface.v — what the Interface shows (C05): the view is the projection of the state. *)
From Coq Require Import ZArith QArith Qminmax Qabs List Bool String Lia.
From ACN Require Import Base.Num Gen.Battery_Q Gen.Sim_Z Gen.SimParams Model.EVSE Model.SimSkel Model.SimIface
     Proofs.SimSkel.
Import ListNotations.
Open Scope string_scope.
Open Scope Z_scope.
Open Scope list_scope.

Lemma flat_map_if {A B} (f : A -> bool) (g : A -> B) l :
  flat_map (fun a => if f a then [g a] else []) l = map g (filter f l).
Proof. induction l as [|a r IH]; simpl; auto. destruct (f a); simpl; rewrite IH; reflexivity. Qed.

(* ---- the pilot matrix: past columns are never rewritten ---- *)
Lemma zassoc_zset_other {A} k k' (v : A) m : k' <> k -> zassoc k' (zset k v m) = zassoc k' m.
Proof.
  intro D. unfold zset. simpl. destruct (k' =? k) eqn:E; [apply Z.eqb_eq in E; congruence|].
  induction m as [|[a b] r IH]; simpl; auto.
  destruct (a =? k) eqn:F; simpl.
  - apply Z.eqb_eq in F. subst a. rewrite E. exact IH.
  - destruct (k' =? a); auto.
Qed.

Lemma apply_past_columns cfg t ns sch ns' :
  num_apply cfg t ns sch = Ok ns' ->
  ns_ev ns' = ns_ev ns /\ ns_rates ns' = ns_rates ns /\ ns_peak ns' = ns_peak ns /\
  forall c, c < t -> col_at (ns_pilots ns') c = col_at (ns_pilots ns) c.
Proof.
  unfold num_apply. destruct sch as [|[s0 r0] rest]; [intro H; inversion H; auto|].
  destruct (existsb _ _); [discriminate|]. destruct (forallb _ _); [|discriminate].
  intro H; inversion H; subst ns'; clear H. cbn [ns_ev ns_rates ns_peak ns_pilots].
  repeat split; auto. intros c Lc. unfold col_at.
  generalize (ns_pilots ns). generalize (seq 0 (List.length r0)).
  induction l as [|k ks IH]; intro m; simpl; auto.
  rewrite IH. rewrite zassoc_zset_other; auto. lia.
Qed.

Lemma charge_ev_pilots cfg x p v ns ns' :
  charge_ev cfg x p v ns = Ok ns' -> ns_pilots ns' = ns_pilots ns /\ ns_peak ns' = ns_peak ns /\ ns_rates ns' = ns_rates ns.
Proof.
  unfold charge_ev. destruct (Gen.Battery_Q.Battery_charge _ _ _ _ _ _ _); [|discriminate].
  intro H; inversion H; subst; auto.
Qed.

Lemma charge_stations_pilots cfg t o sts : forall i ns ns',
  charge_stations cfg t o sts i ns = Ok ns' -> ns_pilots ns' = ns_pilots ns.
Proof.
  induction sts as [|st r IH]; intros i ns ns' H; [simpl in H; inversion H; auto|].
  cbn [charge_stations] in H.
  set (sp := set_pilot _ _ _ _ _ _) in H.
  destruct (sp_error sp); [discriminate|].
  destruct (occ_get (st_id st) o) as [x|]; [|eapply IH; eauto].
  destruct (sp_charge_calls sp) as [|c cs]; [eapply IH; eauto|].
  destruct c as [|a [|b [|d [|? ?]]]]; try (eapply IH; eauto; fail).
  destruct (charge_ev cfg x a b ns) as [ns1|e] eqn:C; [|discriminate].
  apply charge_ev_pilots in C. destruct C as (C & _). rewrite <- C. eapply IH; eauto.
Qed.

(* what the scheduler is shown at t as "last applied pilot" of a station is column t-1 of the matrix,
   which the charging step of t-1 read and which nothing has rewritten since: applying a schedule at
   period t only writes columns >= t; charging and storing rates never write the pilot matrix *)
Lemma pilots_immutable cfg t o ns sch :
  (forall ns', num_apply cfg t ns sch = Ok ns' ->
     forall c idx, c < t -> pilot_at ns' idx c = pilot_at ns idx c) /\
  (forall ns', num_charge cfg t o ns = Ok ns' -> ns_pilots ns' = ns_pilots ns) /\
  ns_pilots (num_store cfg t o ns) = ns_pilots ns.
Proof.
  split; [|split].
  - intros ns' H c idx Lc. unfold pilot_at. destruct (apply_past_columns _ _ _ _ _ H) as (_ & _ & _ & P).
    rewrite P; auto.
  - intros ns' H. eapply charge_stations_pilots; eauto.
  - reflexivity.
Qed.

Section View.
  Variable cfg : netcfg.

  Lemma active_from_spec o ns sts : forall i,
    active_from o ns sts i = filter (fun p => unsatisfied ns (snd p)) (connected_from o sts i).
  Proof.
    induction sts as [|st r IH]; intro i; simpl; auto.
    destruct (occ_get (st_id st) o) as [x|]; [|apply IH].
    simpl. unfold EV_fully_charged, unsatisfied.
    destruct (Qltb (1 # 1000) (s_req x - en_energy (ev_get x ns))); simpl; rewrite IH; reflexivity.
  Qed.

  Lemma active_evs_spec o ns :
    active_evs cfg o ns = filter (fun p => unsatisfied ns (snd p)) (connected cfg o).
  Proof. apply active_from_spec. Qed.

  Lemma lap_guard_spec t : Interface_lap_guard (Interface_lap_index t) = (2 <=? t).
  Proof.
    unfold Interface_lap_guard, Interface_lap_index.
    destruct (0 <? t - 1) eqn:A, (2 <=? t) eqn:B; auto;
      rewrite ?Z.ltb_lt, ?Z.ltb_ge, ?Z.leb_le, ?Z.leb_gt in *; lia.
  Qed.

  (* the view is a projection of (period, occupancy, numeric state) *)
  Lemma view_true t o ns v :
    num_view cfg t o ns = Ok v ->
    let act := filter (fun p => unsatisfied ns (snd p)) (connected cfg o) in
    v_time v = t /\
    v_minutes v = (n_period cfg * inject_Z t)%Q /\
    v_sessions v = map (fun p => mk_sinfo t ns (snd p)) act /\
    v_last_rates v = map (fun p => (sid (snd p), en_rate (ev_get (snd p) ns))) act /\
    v_last_pilots v =
      (if 2 <=? t
       then map (fun p => (sid (snd p), pilot_at ns (fst p) (t - 1)))
                (filter (fun p => s_arrival (snd p) <=? t - 1) act)
       else []) /\
    v_peak v = ns_peak ns /\
    v_infra v = infra_at cfg t /\
    (forall p, In p act -> s_arrival (snd p) < s_departure (snd p) /\ s_arrival (snd p) < s_est (snd p)).
  Proof.
    unfold num_view. rewrite active_evs_spec. intro H. cbv zeta.
    set (act := filter (fun p => unsatisfied ns (snd p)) (connected cfg o)) in *.
    destruct (existsb (fun p => session_rejected (snd p)) act) eqn:E; [discriminate|].
    inversion H; subst v; clear H. cbn [v_time v_minutes v_sessions v_last_rates v_last_pilots v_peak v_infra].
    repeat split; auto.
    - unfold last_pilots. rewrite lap_guard_spec. destruct (2 <=? t); auto.
      unfold Interface_lap_filter, Interface_lap_index. apply flat_map_if.
    - destruct (s_arrival (snd p) <? s_departure (snd p)) eqn:A; [apply Z.ltb_lt; auto|].
      exfalso. assert (X : existsb (fun p => session_rejected (snd p)) act = true).
      { apply existsb_exists. exists p. split; auto. unfold session_rejected, SessionInfo_bad_departure.
        apply orb_true_iff. left. apply Z.leb_le. apply Z.ltb_ge in A. lia. }
      congruence.
    - destruct (s_arrival (snd p) <? s_est (snd p)) eqn:A; [apply Z.ltb_lt; auto|].
      exfalso. assert (X : existsb (fun p => session_rejected (snd p)) act = true).
      { apply existsb_exists. exists p. split; auto. unfold session_rejected, SessionInfo_bad_estimate.
        apply orb_true_iff. right. apply Z.leb_le. apply Z.ltb_ge in A. lia. }
      congruence.
  Qed.

  (* the Interface refuses to build a view only because of a session with departure <= arrival or
     estimated_departure <= arrival among the active ones (SessionInfo.__init__) *)
  Lemma view_rejected t o ns e :
    num_view cfg t o ns = Err e ->
    e = "ValueError" /\
    exists p, In p (connected cfg o) /\ unsatisfied ns (snd p) = true /\
              (s_departure (snd p) <= s_arrival (snd p) \/ s_est (snd p) <= s_arrival (snd p)).
  Proof.
    unfold num_view. rewrite active_evs_spec.
    destruct (existsb _ _) eqn:E; [|discriminate]. intro H. inversion H. split; auto.
    apply existsb_exists in E. destruct E as (p & I & R). apply filter_In in I. destruct I as (I & U).
    exists p. repeat split; auto.
    unfold session_rejected, SessionInfo_bad_departure, SessionInfo_bad_estimate in R.
    apply orb_true_iff in R. destruct R as [R|R]; apply Z.leb_le in R; auto.
  Qed.

  (* constraints in force at an invocation: the last in-place change made strictly before it *)
  Lemma infra_at_static t : n_updates cfg = [] -> infra_at cfg t = infra_of cfg.
  Proof. unfold infra_at, cons_at, infra_of. intros ->. reflexivity. Qed.

  Lemma cons_at_spec t :
    (forall u c, In (u, c) (n_updates cfg) -> t <= u) -> cons_at cfg t = (n_cmat cfg, n_limits cfg, n_cids cfg).
  Proof.
    unfold cons_at. generalize (n_cmat cfg, n_limits cfg, n_cids cfg).
    induction (n_updates cfg) as [|[u c] r IH]; intros acc H; simpl; auto.
    assert (L : t <= u) by (apply (H u c); left; auto).
    destruct (u <? t) eqn:E; [apply Z.ltb_lt in E; lia|]. apply IH. intros; eapply H; right; eauto.
  Qed.

  Lemma sinfo_fields t ns x :
    let s := mk_sinfo t ns x in
    si_station s = s_station x /\ si_session s = sid x /\ si_req s = s_req x /\
    si_deliv s = en_energy (ev_get x ns) /\ si_arr s = s_arrival x /\ si_dep s = s_departure x /\
    si_est s = s_est x /\ si_time s = t /\
    si_remaining s = Z.max (Z.min (s_departure x - s_arrival x) (s_departure x - t)) 0 /\
    si_offset s = Z.max (s_arrival x - t) 0.
  Proof. cbv zeta. repeat split; reflexivity. Qed.

  (* membership in the connected list = the station at that index holds that session *)
  Lemma in_connected_from o sts : forall k i y,
    In (i, y) (connected_from o sts k) <->
    exists st, (k <= i)%nat /\ nth_error sts (i - k) = Some st /\ occ_get (st_id st) o = Some y.
  Proof.
    induction sts as [|st r IH]; intros k i y; simpl.
    - split; [intros []|]. intros (st & _ & H & _). destruct (i - k)%nat; discriminate.
    - assert (REST : In (i, y) (connected_from o r (S k)) <->
                     exists st', (S k <= i)%nat /\ nth_error r (i - S k) = Some st' /\ occ_get (st_id st') o = Some y)
        by apply IH.
      assert (SHIFT : (S k <= i)%nat -> nth_error (st :: r) (i - k) = nth_error r (i - S k)).
      { intros L. replace (i - k)%nat with (S (i - S k)) by lia. reflexivity. }
      split.
      + intro H. assert (H' : (i = k /\ occ_get (st_id st) o = Some y) \/ In (i, y) (connected_from o r (S k))).
        { destruct (occ_get (st_id st) o) as [x|] eqn:O; auto.
          destruct H as [H|H]; auto. inversion H; subst. auto. }
        destruct H' as [(-> & O)|H'].
        * exists st. rewrite Nat.sub_diag. simpl. auto.
        * apply REST in H'. destruct H' as (st' & L & Nn & O). exists st'.
          rewrite (SHIFT L). repeat split; auto. lia.
      + intros (st' & L & Nn & O).
        destruct (Nat.eq_dec i k) as [->|D].
        * rewrite Nat.sub_diag in Nn. simpl in Nn. inversion Nn; subst st'. rewrite O. left; auto.
        * assert (L' : (S k <= i)%nat) by lia. rewrite (SHIFT L') in Nn.
          assert (R : In (i, y) (connected_from o r (S k))) by (apply REST; eauto).
          destruct (occ_get (st_id st) o); [right|]; auto.
  Qed.

  Lemma in_connected o i y :
    In (i, y) (connected cfg o) <->
    exists st, nth_error (n_stations cfg) i = Some st /\ occ_get (st_id st) o = Some y.
  Proof.
    unfold connected. rewrite in_connected_from. rewrite Nat.sub_0_r.
    split; intros (st & H); exists st; intuition lia.
  Qed.
End View.

(* ---- valid inputs: at every invocation the scheduler is shown exactly the sessions whose
        interval contains the current period (and that are not yet satisfied) ---- *)
Section ValidView.
  Variable cfg : netcfg.
  Variable maxrec : option Z.
  Variable sched : view -> schedule.
  Variable evs : list event.
  Hypothesis VALID : valid (station_ids cfg) evs.

  Lemma c05_view_valid fuel st :
    sim_run cfg maxrec sched fuel (sim_init evs) = Done st ->
    forall t v, In (t, v) (calls st) ->
    exists s1 : sim_state,
      num_view cfg t (occ s1) (num s1) = Ok v /\ iter s1 = t /\
      (forall e, In (t, e) (hist st) <-> In (t, e) (hist s1)) /\
      forall i y, In (i, y) (connected cfg (occ s1)) <->
        (exists stn, nth_error (n_stations cfg) i = Some stn /\ st_id stn = s_station y) /\
        In y (sessions_of evs) /\ s_arrival y <= t < s_departure y.
  Proof.
    intros R t v Iv.
    destruct (call_occupancy numst view schedule (station_ids cfg) maxrec (num_view cfg) (num_apply cfg)
                (num_charge cfg) (num_store cfg) sched evs VALID num0 fuel st R t v Iv)
      as (s1 & NV & It & HH & OC).
    exists s1. split; [exact NV|]. split; [exact It|]. split; [exact HH|].
    intros i y. rewrite in_connected. split.
    - intros (stn & Nn & O). apply OC in O. destruct O as (Iy & Sy & Ry).
      split; [exists stn; auto|auto].
    - intros ((stn & Nn & Sy) & Iy & Ry). exists stn. split; auto. apply OC. auto.
  Qed.
End ValidView.
