(* Proofs/Resume.v — lemmas for C09 part (a) (Model/Resume.v). *)
From Coq Require Import ZArith List Bool String Lia.
From ACN Require Import Base.Num Base.ListX Base.ResumeBase Gen.ResumeZ_Z Gen.Serial Model.Resume.
Import ListNotations.
Open Scope Z_scope.

(* ------------------------------------------------------------------------------------------ *)
(* facts about the generated _process_event table and event constructors                       *)
(* ------------------------------------------------------------------------------------------ *)
(* the UnplugEvent queued while a plugin is processed queues nothing itself *)
Lemma unplug_pushes_nothing e : pushes_unplug (e_type (mk_unplug e)) = false.
Proof. reflexivity. Qed.
Lemma unplug_ts e : e_ts (mk_unplug e) = e_dep e.
Proof. reflexivity. Qed.

Section ResumeProofs.
  Variable QI : queue_impl.
  Variable inv : Qt QI -> Prop.
  Variable QL : queue_laws QI inv.
  Variables St Sched : Type.
  Variable R : rest_ops St Sched.
  Variable sched : sim QI St -> Sched.

  Notation simT := (sim QI St).
  Notation runG := (run_gen QI St Sched R sched).
  Notation pend := (pending_resolve QI St).
  Notation run := (run QI St Sched R sched).
  Notation popp := (pop_and_process QI St Sched R).
  Notation handle := (handle_event QI St Sched R).
  Notation due := (recompute_due QI St).
  Notation adv := (advance QI St Sched R).
  Notation aft := (after_sched QI St Sched R).
  Notation qok0 := (queue_ok QI St).
  (* well-formed pending events + the representation invariant of the queue *)
  Definition qok (s : sim QI St) : Prop := inv (s_queue s) /\ queue_ok QI St s.
  Notation elems s := (q_elems QI (s_queue s)).

  Lemma with_queue_self (s : simT) : with_queue QI St (s_queue s) s = s.
  Proof. destruct s; reflexivity. Qed.

  (* ---- effect of processing one event on the individual fields ---- *)
  Lemma effects_iter e effs : forall s : simT,
    s_iter (fold_left (apply_effect QI St Sched R e) effs s) = s_iter s.
  Proof. induction effs as [|a l IH]; intro s; simpl; auto. rewrite IH. destruct a; reflexivity. Qed.

  Lemma effects_res e effs : forall s : simT,
    s_resolve (fold_left (apply_effect QI St Sched R e) effs s) = effects_resolve (s_resolve s) effs.
  Proof. induction effs as [|a l IH]; intro s; simpl; auto. rewrite IH. destruct a; reflexivity. Qed.

  Lemma effect_inv e (s : simT) a : inv (s_queue s) -> inv (s_queue (apply_effect QI St Sched R e s a)).
  Proof. intro H. destruct a; simpl; try exact H. apply (ql_push_inv QI inv QL); exact H. Qed.

  Lemma effects_inv e effs : forall s : simT,
    inv (s_queue s) -> inv (s_queue (fold_left (apply_effect QI St Sched R e) effs s)).
  Proof. induction effs as [|a l IH]; intros s H; simpl; auto. apply IH. apply effect_inv; exact H. Qed.

  Lemma effects_elems e effs : forall (s : simT) x,
    inv (s_queue s) ->
    In x (elems (fold_left (apply_effect QI St Sched R e) effs s)) ->
    In x (elems s) \/ (x = mk_unplug e /\ existsb (pe_effect_eqb PE_push_unplug) effs = true).
  Proof.
    induction effs as [|a l IH]; intros s x Hinv H; simpl in *.
    - left; exact H.
    - apply IH in H; [|apply effect_inv; exact Hinv]. destruct H as [H | [H1 H2]].
      + destruct a; simpl in H; try (left; exact H).
        apply (ql_push_elems QI inv QL _ _ Hinv) in H. destruct H as [H | H].
        * right. split; [symmetry; exact H | reflexivity].
        * left; exact H.
      + right. split; [exact H1 | rewrite H2; apply orb_true_r].
  Qed.

  Lemma handle_iter (s : simT) e : s_iter (handle s e) = s_iter s.
  Proof. unfold handle_event, process_event. rewrite effects_iter. reflexivity. Qed.

  Lemma handle_inv (s : simT) e : inv (s_queue s) -> inv (s_queue (handle s e)).
  Proof. intro H. unfold handle_event, process_event. apply effects_inv. exact H. Qed.

  Lemma handle_elems (s : simT) e x :
    inv (s_queue s) ->
    In x (elems (handle s e)) ->
    In x (elems s) \/ (x = mk_unplug e /\ pushes_unplug (e_type e) = true).
  Proof.
    unfold handle_event, process_event. intros Hinv H. apply effects_elems in H; [exact H|exact Hinv].
  Qed.

  (* pending events strictly after period t, all well formed; queue representation invariant *)
  Definition later (t : Z) (s : simT) : Prop :=
    inv (s_queue s) /\ Forall (fun e => t < e_ts e /\ ev_ok e) (elems s).

  Lemma fold_handle (t : Z) evs : forall s : simT,
    s_iter s = t -> later t s ->
    Forall (fun e => e_ts e = t /\ ev_ok e) evs ->
    let s' := fold_left handle evs s in
    s_iter s' = t /\ later t s'.
  Proof.
    induction evs as [|e evs IH]; intros s Hi Hl Hev; simpl.
    - split; auto.
    - inversion Hev as [|? ? [Hts Hok] Hev']; subst.
      destruct Hl as [Hinv Hl].
      assert (Hi' : s_iter (handle s e) = s_iter s) by apply handle_iter.
      assert (Hl' : later (s_iter s) (handle s e)).
      { split; [apply handle_inv; exact Hinv|].
        apply Forall_forall. intros x Hx. apply handle_elems in Hx; [|exact Hinv].
        destruct Hx as [Hx | [Hx Hp]].
        - rewrite Forall_forall in Hl. apply Hl; exact Hx.
        - subst x. specialize (Hok Hp).
          split.
          + rewrite unplug_ts. lia.
          + intro Hp'. rewrite unplug_pushes_nothing in Hp'. discriminate Hp'. }
      apply (IH (handle s e) Hi' Hl' Hev').
  Qed.

  (* after the current events have been popped and processed: iteration unchanged, every pending
     event is strictly later *)
  Lemma popp_spec (s : simT) :
    qok s ->
    let s1 := popp s in
    s_iter s1 = s_iter s /\ later (s_iter s) s1.
  Proof.
    intros [Hinv Hq]. unfold pop_and_process.
    destruct (q_pop QI (s_iter s) (s_queue s)) as [evs q'] eqn:Ep.
    destruct (ql_pop_rest QI inv QL _ _ _ _ Hinv Ep) as [Hrest Hincl].
    pose proof (ql_pop_evs QI inv QL _ _ _ _ Hinv Ep) as Hevs.
    pose proof (ql_pop_inv QI inv QL _ _ _ _ Hinv Ep) as Hinv'.
    unfold queue_ok in Hq. rewrite Forall_forall in Hq.
    assert (Hl : later (s_iter s) (with_queue QI St q' s)).
    { split; [exact Hinv'|]. apply Forall_forall. intros x Hx. simpl in Hx. split.
      - rewrite Forall_forall in Hrest. apply Hrest; exact Hx.
      - apply Hq. apply Hincl. exact Hx. }
    assert (Hev : Forall (fun e => e_ts e = s_iter s /\ ev_ok e) evs).
    { apply Forall_forall. intros x Hx. rewrite Forall_forall in Hevs.
      destruct (Hevs x Hx) as [Hle Hin]. destruct (Hq x Hin) as [Hge Hok]. split; [lia | exact Hok]. }
    exact (fold_handle (s_iter s) evs (with_queue QI St q' s) eq_refl Hl Hev).
  Qed.

  Lemma later_popp_id (s : simT) : later (s_iter s) s -> popp s = s.
  Proof.
    intros [Hinv Hl]. unfold pop_and_process.
    assert (H : Forall (fun e => s_iter s < e_ts e) (elems s)).
    { rewrite Forall_forall in *. intros x Hx. apply Hl; exact Hx. }
    rewrite (ql_pop_none QI inv QL _ _ Hinv H). simpl. apply with_queue_self.
  Qed.

  Lemma later_qok (t : Z) (s : simT) : later t s -> s_iter s <= t + 1 -> qok s.
  Proof.
    unfold later, qok, queue_ok. intros [Hinv H] Hi. split; [exact Hinv|].
    rewrite Forall_forall in *. intros x Hx.
    destruct (H x Hx). split; [lia | assumption].
  Qed.

  (* ---- the re-entry lemma: the state left behind by a raising scheduler (events processed,
     `_resolve = True` pending), entered at the loop head, passes the loop test, pops nothing, is
     due for a recomputation again, and setting the pending resolve again changes nothing ---- *)
  Lemma reentry (s : simT) :
    qok s ->
    let sc := pend (popp s) in
    Run_guard (s_resolve sc) (q_empty QI (s_queue sc)) = true /\ popp sc = sc
    /\ due sc = true /\ pend sc = sc /\ qok sc.
  Proof.
    intros Hq. destruct (popp_spec s Hq) as (Hi & Hl). cbv zeta.
    assert (Hlc : later (s_iter (pend (popp s))) (pend (popp s))) by (simpl; rewrite Hi; exact Hl).
    split; [|split; [|split; [|split]]].
    - unfold Run_guard. simpl. apply orb_true_r.
    - apply later_popp_id. exact Hlc.
    - reflexivity.
    - reflexivity.
    - apply (later_qok (s_iter s)); [exact Hl | simpl; rewrite Hi; lia].
  Qed.

  (* ---- unfolding, fuel monotonicity ---- *)
  Lemma run_S guard pre f k (s : simT) :
    runG guard pre (S f) k s =
    if guard (s_resolve s) (q_empty QI (s_queue s)) then
      let s1 := popp s in
      if due s1 then
        let s1r := pre s1 in
        match k with
        | Some O => Raised s1r
        | Some (S k') => runG guard pre f (Some k') (adv (aft (sched s1r) s1r))
        | None => runG guard pre f None (adv (aft (sched s1r) s1r))
        end
      else runG guard pre f k (adv s1)
    else Done s.
  Proof. reflexivity. Qed.

  Definition finished (o : outcome QI St) : Prop :=
    match o with OutOfFuel _ => False | _ => True end.

  Lemma run_mono guard pre : forall f k (s : simT),
    finished (runG guard pre f k s) -> runG guard pre (S f) k s = runG guard pre f k s.
  Proof.
    induction f as [|f IH]; intros k s H.
    - simpl in H. contradiction.
    - rewrite (run_S guard pre (S f)). rewrite (run_S guard pre f) in *.
      destruct (guard (s_resolve s) (q_empty QI (s_queue s))); [|reflexivity].
      cbv zeta in *. destruct (due (popp s)).
      + destruct k as [[|k']|]; [reflexivity | apply IH; exact H | apply IH; exact H].
      + apply IH; exact H.
  Qed.

  Lemma run_mono_done guard pre f k (s x : simT) :
    runG guard pre f k s = Done x -> runG guard pre (S f) k s = Done x.
  Proof. intro H. rewrite run_mono; [exact H | rewrite H; exact I]. Qed.

  Lemma adv_aft_qok (s1 : simT) sch : later (s_iter s1) s1 -> qok (adv (aft sch s1)).
  Proof.
    intro Hl. apply (later_qok (s_iter s1)); [exact Hl|].
    simpl. unfold Run_next_iteration. lia.
  Qed.
  Lemma adv_qok (s1 : simT) : later (s_iter s1) s1 -> qok (adv s1).
  Proof.
    intro Hl. apply (later_qok (s_iter s1)); [exact Hl|].
    simpl. unfold Run_next_iteration. lia.
  Qed.

  (* ---- C09_resume ---- *)
  Theorem resume_one : forall fuel k (s sc sref : simT),
    qok s ->
    run fuel (Some k) s = Raised sc ->
    run fuel None s = Done sref ->
    run fuel None sc = Done sref /\ qok sc.
  Proof.
    unfold Resume.run.
    induction fuel as [|f IH]; intros k s sc sref Hq Hc Hr.
    - discriminate Hc.
    - rewrite run_S in Hc, Hr.
      destruct (Run_guard (s_resolve s) (q_empty QI (s_queue s))) eqn:G; [|discriminate Hc].
      cbv zeta in Hc, Hr.
      destruct (reentry s Hq) as (G1 & P1 & D1 & I1 & Q1).
      destruct (popp_spec s Hq) as (Hi & Hl).
      assert (Hl1 : later (s_iter (popp s)) (popp s)) by (rewrite Hi; exact Hl).
      assert (Hl1r : later (s_iter (pend (popp s))) (pend (popp s))) by exact Hl1.
      destruct (due (popp s)) eqn:D.
      + destruct k as [|k'].
        * inversion Hc; subst sc. split; [|exact Q1].
          rewrite run_S. rewrite G1. cbv zeta. rewrite P1, D1, I1. exact Hr.
        * destruct (IH k' _ sc sref (adv_aft_qok _ _ Hl1r) Hc Hr) as [A B].
          split; [apply run_mono_done; exact A | exact B].
      + destruct (IH k _ sc sref (adv_qok _ Hl1) Hc Hr) as [A B].
        split; [apply run_mono_done; exact A | exact B].
  Qed.

  (* an interrupted run either raises or is the uninterrupted run (its call k is never reached) *)
  Lemma crash_or_same guard pre : forall fuel k (s : simT),
    (exists sc, runG guard pre fuel (Some k) s = Raised sc)
    \/ runG guard pre fuel (Some k) s = runG guard pre fuel None s.
  Proof.
    induction fuel as [|f IH]; intros k s.
    - right; reflexivity.
    - rewrite !run_S. destruct (guard (s_resolve s) (q_empty QI (s_queue s))); [|right; reflexivity].
      cbv zeta. destruct (due (popp s)).
      + destruct k as [|k']; [left; eexists; reflexivity | apply IH].
      + apply IH.
  Qed.

  (* any number of interruptions *)
  Theorem resume_chain : forall ks fuel (s sref : simT),
    qok s -> run fuel None s = Done sref ->
    run_chain QI St Sched R sched fuel ks s = Done sref.
  Proof.
    induction ks as [|k ks IH]; intros fuel s sref Hq Hr; simpl.
    - exact Hr.
    - destruct (crash_or_same Run_guard pend fuel k s) as [[sc Hc] | Hs].
      + unfold Resume.run in *. rewrite Hc.
        destruct (resume_one fuel k s sc sref Hq Hc Hr) as [A B].
        apply IH; assumption.
      + unfold Resume.run in *. rewrite Hs, Hr. reflexivity.
  Qed.

  (* ---- dump / load on this state ---- *)
  Variable rest0 : St.
  Variable queue0 : Qt QI.

  Lemma reload_id (s : simT) : reload QI St rest0 queue0 s = s.
  Proof.
    unfold reload.
    assert (H1 : sim_kept "_iteration" = true) by (vm_compute; reflexivity).
    assert (H2 : sim_kept "_resolve" = true) by (vm_compute; reflexivity).
    assert (H3 : sim_kept "_last_schedule_update" = true) by (vm_compute; reflexivity).
    assert (H4 : sim_kept "event_queue" && queue_kept "_queue" = true) by (vm_compute; reflexivity).
    assert (H5 : sim_kept "event_history" = true) by (vm_compute; reflexivity).
    assert (H6 : forallb sim_kept rest_attrs = true) by (vm_compute; reflexivity).
    rewrite H1, H2, H3, H4, H5, H6. destruct s; reflexivity.
  Qed.

  Theorem resume_after_load fuel k (s sc sref : simT) :
    qok s ->
    run fuel (Some k) s = Raised sc ->
    run fuel None s = Done sref ->
    run fuel None (reload QI St rest0 queue0 sc) = Done sref.
  Proof.
    intros Hq Hc Hr. rewrite reload_id. exact (proj1 (resume_one fuel k s sc sref Hq Hc Hr)).
  Qed.
End ResumeProofs.

(* ------------------------------------------------------------------------------------------ *)
(* the list queue satisfies the laws                                                          *)
(* ------------------------------------------------------------------------------------------ *)
Lemma filter_none_rest {A} (f : A -> bool) l : filter f l = [] -> filter (fun x => negb (f x)) l = l.
Proof.
  induction l as [|a l IH]; simpl; auto. destruct (f a); simpl; [discriminate|].
  intro H. rewrite IH; auto.
Qed.

Lemma lq_insert_incl e l : incl (lq_insert e l) (e :: l).
Proof.
  induction l as [|y l IH]; simpl.
  - apply incl_refl.
  - destruct (key_lt e y).
    + apply incl_refl.
    + intros x [Hx | Hx].
      * subst; right; left; reflexivity.
      * apply IH in Hx. destruct Hx as [Hx | Hx]; [left; exact Hx | right; right; exact Hx].
Qed.

Theorem ListQ_laws : queue_laws ListQ (fun _ => True).
Proof.
  constructor; unfold ListQ; cbn [Qt q_empty q_pop q_push q_last q_elems].
  - intros; exact I.
  - intros; exact I.
  - intros t q evs q' _ H. unfold lq_pop in H. inversion H; subst. split.
    + apply Forall_forall. intros x Hx. apply filter_In in Hx. destruct Hx as [_ Hx].
      unfold lq_due in Hx. apply negb_true_iff in Hx. apply Z.leb_gt in Hx. exact Hx.
    + intros x Hx. apply filter_In in Hx. apply Hx.
  - intros t q evs q' _ H. unfold lq_pop in H. inversion H; subst.
    apply Forall_forall. intros x Hx. apply filter_In in Hx. destruct Hx as [Hin Hx].
    unfold lq_due in Hx. apply Z.leb_le in Hx. split; assumption.
  - intros t q _ H. unfold lq_pop.
    assert (E : filter (lq_due t) q = []).
    { induction q as [|a q IH]; simpl; auto. inversion H; subst.
      unfold lq_due at 1. destruct (Z.leb_spec (e_ts a) t); [lia|]. apply IH; assumption. }
    rewrite E. rewrite filter_none_rest; auto.
  - intros t q q' _ H. unfold lq_pop in H. injection H as E1 E2. subst q'.
    apply filter_none_rest. exact E1.
  - intros e q _. apply lq_insert_incl.
  - intros e q _. destruct q as [|y q]; simpl; [reflexivity|]. destruct (key_lt e y); reflexivity.
Qed.

(* the hypothesis queue_ok, in terms of the input history: a simulator built from ANY list of
   events with non-negative timestamps, known event types and sessions that stay at least one
   period satisfies it *)
Lemma fold_insert_incl evs : forall q, incl (fold_left (fun q e => lq_insert e q) evs q) (evs ++ q).
Proof.
  induction evs as [|e evs IH]; intros q; simpl.
  - apply incl_refl.
  - intros x Hx. apply IH in Hx. apply in_app_or in Hx. destruct Hx as [Hx|Hx].
    + right. apply in_or_app. left; exact Hx.
    + apply lq_insert_incl in Hx. destruct Hx as [<-|Hx]; [left; reflexivity|].
      right. apply in_or_app. right; exact Hx.
Qed.

Lemma init_queue_ok evs mr :
  Forall (fun e => 0 <= e_ts e /\ ev_ok e) evs -> queue_ok ListQ dstate (init_sim_list evs mr).
Proof.
  intro H. unfold queue_ok, init_sim_list. simpl.
  rewrite Forall_forall in *. intros x Hx. apply fold_insert_incl in Hx.
  rewrite app_nil_r in Hx. apply H. exact Hx.
Qed.

(* ------------------------------------------------------------------------------------------ *)
(* concrete witnesses (heap queue, discrete rest of state)                                    *)
(* ------------------------------------------------------------------------------------------ *)
Definition plug (ts sess station dep : Z) : event := mk_event "PluginEvent" ts sess station dep.
Definition state_of {QI St} (o : outcome QI St) : sim QI St :=
  match o with Done s => s | Raised s => s | OutOfFuel s => s end.

(* a satisfiable instance of the hypotheses: two sessions, a RecomputeEvent after the last unplug *)
Definition ex_events : list event :=
  [plug 0 0 0 2; plug 1 1 1 3; mk_event "RecomputeEvent" 5 (-1) (-1) (-1)].

Lemma ex_qok : queue_ok ListQ dstate (init_sim_list ex_events (Some 2)).
Proof.
  unfold queue_ok.
  apply Forall_forall. intros x Hx. vm_compute in Hx.
  repeat (destruct Hx as [Hx | Hx]; [subst x; vm_compute; split; [congruence|intro; (reflexivity || discriminate)]|]).
  contradiction.
Qed.

(* with the loop test `while not self.event_queue.empty()` (before commit e3d86c7) a raise in the
   period that drains the queue cannot be resumed: run() returns at once *)
Definition old_witness : dsim HeapQ := init_sim [plug 0 0 0 1] None.
Definition old_ref := Eval vm_compute in drun_old 5 None old_witness.
Definition old_crash := Eval vm_compute in drun_old 5 (Some 1%nat) old_witness.
Definition old_res := Eval vm_compute in drun_old 5 None (state_of old_crash).

Lemma old_witness_qok : queue_ok HeapQ dstate old_witness.
Proof.
  unfold queue_ok. apply Forall_forall. intros x Hx. vm_compute in Hx.
  repeat (destruct Hx as [Hx | Hx]; [subst x; vm_compute; split; [congruence|intro; (reflexivity || discriminate)]|]).
  contradiction.
Qed.

Lemma old_guard_refuted :
  exists (k : nat) (fuel : nat) (sc sref sres : dsim HeapQ),
    queue_ok HeapQ dstate old_witness
    /\ drun_old fuel None old_witness = Done sref
    /\ drun_old fuel (Some k) old_witness = Raised sc
    /\ drun_old fuel None sc = Done sres
    /\ s_iter sref = 2 /\ s_iter sres = 1
    /\ d_log (s_rest sres) <> d_log (s_rest sref).
Proof.
  exists 1%nat, 5%nat, (state_of old_crash), (state_of old_ref), (state_of old_res).
  split; [exact old_witness_qok|].
  split; [vm_compute; reflexivity|].
  split; [vm_compute; reflexivity|].
  split; [vm_compute; reflexivity|].
  split; [reflexivity|]. split; [reflexivity|].
  vm_compute. discriminate.
Qed.

(* the same witness under the current loop test resumes correctly (by computation; the general
   statement is resume_one) *)
Definition new_ref := Eval vm_compute in drun 5 None old_witness.
Definition new_crash := Eval vm_compute in drun 5 (Some 1%nat) old_witness.
Lemma old_witness_new_guard_ok :
  drun 5 (Some 1%nat) old_witness = Raised (state_of new_crash)
  /\ drun 5 None old_witness = Done (state_of new_ref)
  /\ drun 5 None (state_of new_crash) = Done (state_of new_ref)
  /\ s_iter (state_of new_ref) = 2.
Proof. repeat split; vm_compute; reflexivity. Qed.

(* FIXED FINDING (kept as a regression): an event of the base class Event (event_type "") is
   processed without setting _resolve.  If it drains the queue in a period whose recomputation is
   due only because of max_recompute and the scheduler raises there, the loop WITHOUT
   `self._resolve = True` in front of the scheduler call returns at once when run() is called
   again; with that statement the same history resumes to the reference run. *)
Definition untyped_witness : dsim HeapQ :=
  init_sim [plug 0 0 0 2; mk_event "Event" 4 (-1) (-1) (-1)] (Some 1).
Definition ut_ref := Eval vm_compute in drun_nopre 8 None untyped_witness.
Definition ut_crash := Eval vm_compute in drun_nopre 8 (Some 4%nat) untyped_witness.
Definition ut_res := Eval vm_compute in drun_nopre 8 None (state_of ut_crash).

Lemma no_pending_resolve_refuted :
  exists (k fuel : nat) (sc sref sres : dsim HeapQ),
    queue_ok HeapQ dstate untyped_witness
    /\ drun_nopre fuel None untyped_witness = Done sref
    /\ drun_nopre fuel (Some k) untyped_witness = Raised sc
    /\ drun_nopre fuel None sc = Done sres
    /\ s_iter sref = 5 /\ s_iter sres = 4.
Proof.
  exists 4%nat, 8%nat, (state_of ut_crash), (state_of ut_ref), (state_of ut_res).
  split.
  { unfold queue_ok. apply Forall_forall. intros x Hx. vm_compute in Hx.
    repeat (destruct Hx as [Hx | Hx]; [subst x; vm_compute; split; [congruence|intro; (reflexivity || discriminate)]|]).
    contradiction. }
  repeat split; vm_compute; reflexivity.
Qed.

Definition utn_ref := Eval vm_compute in drun 8 None untyped_witness.
Definition utn_crash := Eval vm_compute in drun 8 (Some 4%nat) untyped_witness.
Lemma untyped_witness_resumes :
  drun 8 None untyped_witness = Done (state_of utn_ref)
  /\ drun 8 (Some 4%nat) untyped_witness = Raised (state_of utn_crash)
  /\ drun 8 None (state_of utn_crash) = Done (state_of utn_ref)
  /\ s_iter (state_of utn_ref) = 5.
Proof. repeat split; vm_compute; reflexivity. Qed.

(* ------------------------------------------------------------------------------------------ *)
(* completeness of the serialised state                                                       *)
(* ------------------------------------------------------------------------------------------ *)
Lemma smem_In a l : smem a l = true <-> In a l.
Proof.
  unfold smem. rewrite existsb_exists. split.
  - intros (x & Hin & Hx). apply String.eqb_eq in Hx. subst; assumption.
  - intro H. exists a. split; [assumption|apply String.eqb_refl].
Qed.

Lemma kept_spec du re a : kept du re a = true ->
  (exists src, sassoc a du = Some src /\ In a src) /\ (exists keys, sassoc a re = Some keys /\ In a keys).
Proof.
  unfold kept. destruct (sassoc a du) as [src|]; [|discriminate].
  destruct (sassoc a re) as [keys|]; [|discriminate].
  intro H. apply andb_true_iff in H. destruct H as [H1 H2].
  split; eexists; (split; [reflexivity|apply smem_In; assumption]).
Qed.

Lemma all_complete_true : all_classes_complete = true.
Proof. vm_compute. reflexivity. Qed.

Theorem state_complete : forall cls st du re a,
  In (cls, (st, du, re)) serial_classes -> In a st ->
  (exists src, sassoc a du = Some src /\ In a src) /\ (exists keys, sassoc a re = Some keys /\ In a keys).
Proof.
  intros cls st du re a Hc Ha.
  pose proof all_complete_true as H. unfold all_classes_complete in H.
  rewrite forallb_forall in H. specialize (H _ Hc). simpl in H.
  rewrite forallb_forall in H. apply kept_spec. apply H. exact Ha.
Qed.

Theorem run_reads_in_state : forall a, In a run_reads -> In a state_Simulator.
Proof.
  assert (H : run_reads_covered = true) by (vm_compute; reflexivity).
  unfold run_reads_covered in H. rewrite forallb_forall in H.
  intros a Ha. apply smem_In. apply H. exact Ha.
Qed.

Theorem classes_present : forall c, In c expected_classes -> exists d, sassoc c serial_classes = Some d.
Proof.
  intros c Hc. simpl in Hc.
  repeat (destruct Hc as [<-|Hc]; [eexists; vm_compute; reflexivity|]). contradiction.
Qed.
