(* Proofs/Tariff.v — lemmas about Model/Tariff.v (C17). *)
From Coq Require Import ZArith QArith Qminmax Qround Lqa Lia List Bool String Sorting.Permutation Sorting.Sorted.
From ACN Require Import Base.Num Base.Lex Base.Sort Base.Calendar Base.TariffRaw
                        Gen.Tariffs Gen.TariffK_Z Gen.TariffK_Q Model.Tariff.
Import ListNotations.
Open Scope Q_scope.

(* ------------------------------------------------------------------ booleans on Q -> Prop *)
Ltac qprop :=
  repeat match goal with
  | H : (_ || _)%bool = true |- _ => apply orb_true_iff in H
  | H : (_ && _)%bool = true |- _ => apply andb_true_iff in H; destruct H
  | H : Qltb _ _ = true |- _ => apply Qltb_spec in H
  | H : Qleb _ _ = true |- _ => apply Qleb_spec in H
  | H : Qeqb _ _ = true |- _ => apply Qeqb_spec in H
  | H : _ \/ _ |- _ => destruct H
  end.

Lemma pair_leb_spec a b :
  pair_leb a b = true <-> fst a < fst b \/ (fst a == fst b /\ snd a <= snd b).
Proof.
  unfold pair_leb. rewrite orb_true_iff, andb_true_iff, Qltb_spec, Qeqb_spec, Qleb_spec. tauto.
Qed.

Lemma pair_leb_total a b : pair_leb a b = true \/ pair_leb b a = true.
Proof.
  rewrite !pair_leb_spec.
  destruct (Q_dec (fst a) (fst b)) as [[H|H]|H]; auto.
  destruct (Qlt_le_dec (snd b) (snd a)) as [H2|H2].
  - right. right. split; [now symmetry|]. now apply Qlt_le_weak.
  - left. right. split; assumption.
Qed.

Lemma pair_leb_trans a b c : pair_leb a b = true -> pair_leb b c = true -> pair_leb a c = true.
Proof.
  rewrite !pair_leb_spec. intros [H1|[H1 H1']] [H2|[H2 H2']].
  - left. lra.
  - left. lra.
  - left. lra.
  - right. split; lra.
Qed.

Lemma pair_geb_total a b : pair_geb a b = true \/ pair_geb b a = true.
Proof. unfold pair_geb. apply pair_leb_total. Qed.
Lemma pair_geb_trans a b c : pair_geb a b = true -> pair_geb b c = true -> pair_geb a c = true.
Proof. unfold pair_geb. intros. eapply pair_leb_trans; eauto. Qed.

(* ------------------------------------------------------------------ breakpoint lookup *)
Lemma bp_test_spec r th x : Tariff_bp_test r th x = true <-> fst r <= th.
Proof. unfold Tariff_bp_test. apply Qleb_spec. Qed.

Lemma lookup_some l th p : lookup l th = Some p -> latest_breakpoint_rate l th p.
Proof.
  unfold lookup. destruct (find _ _) as [[b p0]|] eqn:E; simpl; [|discriminate].
  intros [= <-].
  pose proof (isort_sorted _ pair_geb pair_geb_total pair_geb_trans l) as Hs.
  destruct (find_sorted_first _ _ _ _ Hs E) as (Hin & Hp & Hmin).
  apply isort_in in Hin. apply bp_test_spec in Hp. simpl in Hp.
  exists b. split; [assumption|]. split; [assumption|].
  intros b' p' Hin' Hb'.
  assert (Hin2 : In (b', p') (isort pair_geb l)) by now apply isort_in.
  assert (Hp2 : Tariff_bp_test (b', p') th 0 = true) by now apply bp_test_spec.
  destruct (Hmin _ Hin2 Hp2) as [Heq|Hle].
  - injection Heq as <- <-. right. split; [reflexivity|apply Qle_refl].
  - unfold le, pair_geb in Hle. apply pair_leb_spec in Hle. simpl in Hle. exact Hle.
Qed.

Lemma lookup_none l th : lookup l th = None <-> forall b p, In (b, p) l -> ~ b <= th.
Proof.
  unfold lookup. destruct (find _ _) as [x|] eqn:E; simpl.
  - split; [discriminate|]. intros H. exfalso.
    apply find_some in E. destruct E as [Hin Hp]. apply isort_in in Hin. apply bp_test_spec in Hp.
    destruct x as [b p]. exact (H b p Hin Hp).
  - split; [|reflexivity]. intros _ b p Hin Hle.
    rewrite find_none_iff in E. assert (Hin2 : In (b, p) (isort pair_geb l)) by now apply isort_in.
    specialize (E _ Hin2). assert (Tariff_bp_test (b, p) th 0 = true) by now apply bp_test_spec. congruence.
Qed.

Lemma lookup_total l th b0 p0 : In (b0, p0) l -> b0 <= th -> exists p, lookup l th = Some p.
Proof.
  intros Hin Hle. destruct (lookup l th) as [p|] eqn:E; [eauto|].
  exfalso. rewrite lookup_none in E. exact (E _ _ Hin Hle).
Qed.

(* distinct breakpoints: the rate found is that of THE latest breakpoint at or before th *)
Lemma latest_unique l th p b1 p1 :
  latest_breakpoint_rate l th p -> In (b1, p1) l -> b1 <= th ->
  (forall b' p', In (b', p') l -> b' <= th -> b' <= b1) ->
  (forall b' p' b'' p'', In (b', p') l -> In (b'', p'') l -> b' == b'' -> p' == p'') -> p == p1.
Proof.
  intros (b & Hin & Hle & Hmax) Hin1 Hle1 Hlatest Hfun.
  destruct (Hmax _ _ Hin1 Hle1) as [Hlt|[Heq _]].
  - specialize (Hlatest _ _ Hin Hle). lra.
  - eapply Hfun; eauto. now symmetry.
Qed.

(* ------------------------------------------------------------------ the constructor *)
Lemma build_schedule_fields r s : build_schedule r = Ok s ->
  s_id s = rs_id r /\ s_start s = rs_start r /\ s_end s = rs_end r /\ s_demand s = rs_demand r /\
  mask_of (rs_mask r) = Ok (s_mask s) /\
  (exists tt, zip_tt (rs_times r) (rs_tariffs r) = Ok tt /\ s_tariffs s = isort pair_leb tt) /\
  (exists p rest, s_tariffs s = (fst p, snd p) :: rest /\ fst p == 0).
Proof.
  unfold build_schedule.
  destruct (mask_of (rs_mask r)) as [mask|e]; simpl; [|discriminate].
  destruct (zip_tt (rs_times r) (rs_tariffs r)) as [tt|e]; simpl; [|discriminate].
  destruct (isort pair_leb tt) as [|first rest] eqn:E; [discriminate|].
  destruct (Qeqb (fst first) 0) eqn:E0; simpl; [|discriminate].
  intros [= <-]. simpl. repeat split; auto.
  - exists tt. split; auto.
  - exists first, rest. split; [now destruct first|]. now apply Qeqb_spec.
Qed.

Lemma build_schedule_zero r s : build_schedule r = Ok s ->
  exists b p, In (b, p) (s_tariffs s) /\ b == 0.
Proof.
  intro H. destruct (build_schedule_fields _ _ H) as (_ & _ & _ & _ & _ & _ & (p & rest & Ht & H0)).
  exists (fst p), (snd p). rewrite Ht. split; [now left|assumption].
Qed.

Lemma build_all_in l L s : build_all l = Ok L -> In s L ->
  exists r, In r l /\ build_schedule r = Ok s.
Proof.
  revert L. induction l as [|r l IH]; simpl; intros L.
  - intros [= <-] [].
  - destruct (build_schedule r) as [s0|e] eqn:E; simpl; [|discriminate].
    destruct (build_all l) as [L0|e]; simpl; [|discriminate].
    intros [= <-] [<-|Hin].
    + exists r. auto.
    + destruct (IH _ eq_refl Hin) as (r' & Hr' & Hb). exists r'. auto.
Qed.

(* what a piece keeps from the schedule it was split from *)
Definition same_payload (a b : sched) : Prop :=
  s_id a = s_id b /\ s_mask a = s_mask b /\ s_tariffs a = s_tariffs b /\ s_demand a = s_demand b.

Lemma split_wrap_in l s : In s (split_wrap l) -> exists s0, In s0 l /\ same_payload s s0.
Proof.
  unfold split_wrap. rewrite in_app_iff, in_map_iff, in_flat_map.
  intros [(s0 & <- & Hin)|(s0 & Hin & Hs)]; exists s0; (split; [assumption|]).
  - destruct (wraps s0); unfold same_payload; simpl; auto.
  - destruct (wraps s0); [|destruct Hs]. destruct Hs as [<-|[]]. unfold same_payload; simpl; auto.
Qed.

Lemma finalize_in l s : In s (finalize l) <-> In s (split_wrap l).
Proof. unfold finalize. apply isort_in. Qed.

Lemma build_zero raw TS s : build raw = Ok TS -> In s TS ->
  exists b p, In (b, p) (s_tariffs s) /\ b == 0.
Proof.
  unfold build. destruct (build_all raw) as [L|e] eqn:E; simpl; [|discriminate].
  intros [= <-] Hin. apply finalize_in in Hin.
  destruct (split_wrap_in _ _ Hin) as (s0 & Hin0 & (_ & _ & Ht & _)).
  destruct (build_all_in _ _ _ E Hin0) as (r & _ & Hb).
  rewrite Ht. eapply build_schedule_zero; eauto.
Qed.

(* ------------------------------------------------------------------ time of day is non-negative *)
Lemma target_hour_eq t :
  target_hour t == inject_Z (t_hour t) + inject_Z (t_minute t) / 60 + inject_Z (t_second t) / 3600.
Proof. unfold target_hour, Tariff_target_hour. reflexivity. Qed.

Lemma target_hour_nonneg t : 0 <= target_hour t.
Proof.
  rewrite target_hour_eq. unfold t_hour, t_minute, t_second.
  destruct (tod_ranges (secs t)) as ((H1 & _) & (H2 & _) & (H3 & _)).
  assert (0 <= inject_Z (hour_of (secs t))) by (change 0 with (inject_Z 0); now rewrite <- Zle_Qle).
  assert (0 <= inject_Z (minute_of (secs t))) by (change 0 with (inject_Z 0); now rewrite <- Zle_Qle).
  assert (0 <= inject_Z (second_of (secs t))) by (change 0 with (inject_Z 0); now rewrite <- Zle_Qle).
  unfold Qdiv. change (/ 60) with (1#60). change (/ 3600) with (1#3600). lra.
Qed.

Lemma target_hour_lt_24 t : target_hour t < 24.
Proof.
  rewrite target_hour_eq. unfold t_hour, t_minute, t_second.
  destruct (tod_ranges (secs t)) as ((_ & H1) & (_ & H2) & (_ & H3)).
  assert (inject_Z (hour_of (secs t)) <= 23) by (change 23 with (inject_Z 23); now rewrite <- Zle_Qle).
  assert (inject_Z (minute_of (secs t)) <= 59) by (change 59 with (inject_Z 59); now rewrite <- Zle_Qle).
  assert (inject_Z (second_of (secs t)) <= 59) by (change 59 with (inject_Z 59); now rewrite <- Zle_Qle).
  unfold Qdiv. change (/ 60) with (1#60). change (/ 3600) with (1#3600). lra.
Qed.

(* ------------------------------------------------------------------ the finite totality check *)
Lemma all_files_total_true : all_files_total = true.
Proof. vm_compute. reflexivity. Qed.

Lemma in_months m : (1 <= m <= 12)%Z -> In m months.
Proof. intro H. unfold months. simpl. lia. Qed.

Lemma in_weekdays wd : (0 <= wd <= 6)%Z -> In wd weekdays.
Proof. intro H. unfold weekdays. simpl. lia. Qed.

Lemma in_days_upto n d : (1 <= d <= n)%Z -> In d (days_upto n).
Proof.
  intro H. unfold days_upto. apply in_map_iff. exists (Z.to_nat d). split; [lia|].
  apply in_seq. lia.
Qed.

Lemma in_calendar_cells m d wd :
  (1 <= m <= 12)%Z -> (1 <= d <= max_days_in_month m)%Z -> (0 <= wd <= 6)%Z ->
  In (m, d, wd) calendar_cells.
Proof.
  intros Hm Hd Hw. unfold calendar_cells.
  apply in_flat_map. exists m. split; [now apply in_months|].
  apply in_flat_map. exists d. split; [now apply in_days_upto|].
  apply in_map_iff. exists wd. split; [reflexivity|now apply in_weekdays].
Qed.

Lemma exactly_one_singleton TS m d wd :
  exactly_one TS m d wd = true -> exists s, valid_schedules TS m d wd = [s].
Proof.
  unfold exactly_one. intro H. apply Nat.eqb_eq in H.
  destruct (valid_schedules TS m d wd) as [|s [|s' r]]; simpl in H; try discriminate. eauto.
Qed.

Lemma file_total_exactly_one raw : file_total raw = true ->
  exists TS, build raw = Ok TS /\
  forall m d wd, (1 <= m <= 12)%Z -> (1 <= d <= max_days_in_month m)%Z -> (0 <= wd <= 6)%Z ->
    exists s, valid_schedules TS m d wd = [s].
Proof.
  intro H. unfold file_total in H.
  destruct (build raw) as [TS|e]; [|discriminate]. exists TS. split; [reflexivity|].
  intros m d wd Hm Hd Hw. rewrite forallb_forall in H.
  specialize (H _ (in_calendar_cells m d wd Hm Hd Hw)). simpl in H.
  now apply exactly_one_singleton.
Qed.

Lemma bundled_file_total name raw : In (name, raw) bundled -> file_total raw = true.
Proof.
  intro Hin. pose proof all_files_total_true as H. unfold all_files_total in H.
  rewrite forallb_forall in H. exact (H _ Hin).
Qed.

Lemma bundled_exactly_one name raw : In (name, raw) bundled ->
  exists TS, build raw = Ok TS /\
  forall m d wd, (1 <= m <= 12)%Z -> (1 <= d <= max_days_in_month m)%Z -> (0 <= wd <= 6)%Z ->
    exists s, valid_schedules TS m d wd = [s].
Proof. intro Hin. apply file_total_exactly_one. eapply bundled_file_total; eauto. Qed.

(* ------------------------------------------------------------------ every instant *)
Lemma instant_cell t :
  (1 <= t_month t <= 12)%Z /\ (1 <= t_day t <= max_days_in_month (t_month t))%Z /\ (0 <= t_weekday t <= 6)%Z.
Proof.
  unfold t_month, t_day, t_weekday.
  destruct (civil_ranges (ord_of (secs t))) as (Hm & Hd & Hd').
  pose proof (weekday_range (ord_of (secs t))). lia.
Qed.

Lemma valid_in TS m d wd s : valid_schedules TS m d wd = [s] -> In s TS /\ sched_valid s m d wd = true.
Proof.
  intro H. assert (Hin : In s (valid_schedules TS m d wd)) by (rewrite H; now left).
  unfold valid_schedules in Hin. now apply filter_In in Hin.
Qed.

Lemma file_total_all_instants raw : file_total raw = true ->
  exists TS, build raw = Ok TS /\
  forall t : Z, exists s p,
    valid_schedules TS (t_month t) (t_day t) (t_weekday t) = [s] /\
    get_tariff TS t = Ok p /\
    latest_breakpoint_rate (s_tariffs s) (target_hour t) p /\
    get_demand_charge TS t = Ok (s_demand s).
Proof.
  intro Hft. destruct (file_total_exactly_one _ Hft) as (TS & Hb & Hone).
  exists TS. split; [assumption|]. intro t.
  destruct (instant_cell t) as (Hm & Hd & Hw).
  destruct (Hone _ _ _ Hm Hd Hw) as (s & Hs). exists s.
  destruct (valid_in _ _ _ _ _ Hs) as (HinS & _).
  destruct (build_zero _ _ _ Hb HinS) as (b0 & p0 & Hin0 & Hb0).
  assert (Hle : b0 <= target_hour t) by (pose proof (target_hour_nonneg t); lra).
  destruct (lookup_total _ _ _ _ Hin0 Hle) as (p & Hp).
  exists p. split; [assumption|].
  assert (Hsch : schedule_at TS t = Ok s) by (unfold schedule_at, pick_schedule; now rewrite Hs).
  split; [|split].
  - unfold get_tariff. rewrite Hsch. simpl. now rewrite Hp.
  - now apply lookup_some.
  - unfold get_demand_charge. now rewrite Hsch.
Qed.

Lemma bundled_all_instants name raw : In (name, raw) bundled ->
  exists TS, build raw = Ok TS /\
  forall t : Z, exists s p,
    valid_schedules TS (t_month t) (t_day t) (t_weekday t) = [s] /\
    get_tariff TS t = Ok p /\
    latest_breakpoint_rate (s_tariffs s) (target_hour t) p /\
    get_demand_charge TS t = Ok (s_demand s).
Proof. intro Hin. apply file_total_all_instants. eapply bundled_file_total; eauto. Qed.

(* completeness of the finite check: a cell that fails is the date of a real instant at which the lookup raises *)
Lemma all_cells_realised_true : all_cells_realised = true.
Proof. vm_compute. reflexivity. Qed.

Lemma forallb_false_exists {A} (f : A -> bool) l : forallb f l = false -> exists x, In x l /\ f x = false.
Proof.
  induction l as [|a l IH]; simpl; [discriminate|].
  destruct (f a) eqn:E; simpl.
  - intro H. destruct (IH H) as (x & Hx & Hf). exists x. auto.
  - intros _. exists a. auto.
Qed.

Lemma midnight_fields y m d : valid_date y m d = true ->
  let t := (ordinal y m d * 86400 * 1000000)%Z in
  t_month t = m /\ t_day t = d /\ t_weekday t = weekday (ordinal y m d).
Proof.
  intros Hv t. unfold t_month, t_day, t_weekday, secs, us_per_s, t.
  rewrite Z.div_mul by lia. unfold ord_of. rewrite Z.div_mul by lia.
  unfold month_of, day_of. rewrite (civil_ordinal _ _ _ Hv). auto.
Qed.

Lemma file_total_complete raw TS : build raw = Ok TS -> file_total raw = false ->
  exists t e, get_tariff TS t = Err e /\ get_demand_charge TS t = Err e.
Proof.
  intros Hb Hft. unfold file_total in Hft. rewrite Hb in Hft.
  destruct (forallb_false_exists _ _ Hft) as ([[m d] wd] & Hin & Hf).
  pose proof all_cells_realised_true as Hr. unfold all_cells_realised in Hr.
  rewrite forallb_forall in Hr. specialize (Hr _ Hin). unfold cell_year in Hr.
  destruct (find _ witness_years) as [y|] eqn:Ey; [|discriminate].
  apply find_some in Ey. destruct Ey as [_ Hy]. apply andb_true_iff in Hy. destruct Hy as [Hv Hw].
  apply Z.eqb_eq in Hw.
  destruct (midnight_fields y m d Hv) as (Em & Ed & Ewd). rewrite Hw in Ewd.
  set (t := (ordinal y m d * 86400 * 1000000)%Z) in *.
  exists t. unfold get_tariff, get_demand_charge, schedule_at, pick_schedule. rewrite Em, Ed, Ewd.
  unfold exactly_one in Hf.
  destruct (valid_schedules TS m d wd) as [|s [|s' r]]; simpl in Hf; try discriminate; eexists; split; reflexivity.
Qed.

(* ------------------------------------------------------------------ wrap-around seasons *)
Lemma sched_valid_eq s m d wd :
  sched_valid s m d wd =
  nth_bool (s_mask s) wd && (lex_leb (s_start s) [m; d] && lex_leb [m; d] (s_end s)).
Proof. reflexivity. Qed.

Lemma wraps_eq s : wraps s = lex_ltb (s_end s) (s_start s).
Proof. reflexivity. Qed.

Lemma lex_first_day m d : (1 <= m)%Z -> (1 <= d)%Z -> lex_leb [1; 1]%Z [m; d] = true.
Proof.
  intros. rewrite lex_leb_pair.
  destruct (1 <? m)%Z eqn:E; auto. apply Z.ltb_ge in E. assert (m = 1%Z) by lia. subst.
  simpl. apply Z.leb_le. assumption.
Qed.

Lemma lex_last_day m d : (m <= 12)%Z -> (d <= 31)%Z -> lex_leb [m; d] [12; 31]%Z = true.
Proof.
  intros. rewrite lex_leb_pair.
  destruct (m <? 12)%Z eqn:E; auto. apply Z.ltb_ge in E. assert (m = 12%Z) by lia. subst.
  simpl. apply Z.leb_le. assumption.
Qed.

Lemma pieces_filter s m d wd : (1 <= m <= 12)%Z -> (1 <= d <= 31)%Z ->
  map payload (filter (fun x => sched_valid x m d wd) (pieces s)) =
  if applies s m d wd then [payload s] else [].
Proof.
  intros Hm Hd. unfold pieces, applies, season_contains. rewrite wraps_eq.
  destruct (lex_ltb (s_end s) (s_start s)) eqn:W.
  - simpl filter. rewrite !sched_valid_eq. simpl s_mask. simpl s_start. simpl s_end.
    rewrite lex_first_day, lex_last_day by lia.
    rewrite andb_true_r. rewrite !andb_true_l.
    destruct (nth_bool (s_mask s) wd); [|reflexivity]. rewrite !andb_true_l.
    destruct (lex_leb (s_start s) [m; d]) eqn:A, (lex_leb [m; d] (s_end s)) eqn:B; try reflexivity.
    exfalso. pose proof (lex_leb_trans _ _ _ A B) as C.
    rewrite lex_ltb_negb_leb in W. rewrite C in W. discriminate.
  - simpl filter. rewrite sched_valid_eq.
    destruct (nth_bool (s_mask s) wd && (lex_leb (s_start s) [m; d] && lex_leb [m; d] (s_end s))); reflexivity.
Qed.

Lemma split_wrap_perm l : Permutation (split_wrap l) (flat_map pieces l).
Proof.
  unfold split_wrap. induction l as [|s l IH]; simpl; [constructor|].
  unfold pieces at 1. destruct (wraps s); simpl.
  - constructor. eapply perm_trans; [apply Permutation_sym, Permutation_middle|]. now constructor.
  - now constructor.
Qed.

Lemma pieces_filter_all l m d wd : (1 <= m <= 12)%Z -> (1 <= d <= 31)%Z ->
  map payload (filter (fun x => sched_valid x m d wd) (flat_map pieces l)) =
  map payload (filter (fun s => applies s m d wd) l).
Proof.
  intros Hm Hd. induction l as [|s l IH]; simpl; [reflexivity|].
  rewrite filter_app, map_app, IH, pieces_filter by assumption.
  destruct (applies s m d wd); reflexivity.
Qed.

Lemma wraparound l m d wd : (1 <= m <= 12)%Z -> (1 <= d <= 31)%Z ->
  Permutation (map payload (valid_schedules (finalize l) m d wd))
              (map payload (filter (fun s => applies s m d wd) l)).
Proof.
  intros Hm Hd. rewrite <- pieces_filter_all by assumption.
  apply Permutation_map. unfold valid_schedules, finalize.
  eapply perm_trans.
  - apply Permutation_filter. apply Permutation_sym. apply isort_perm.
  - apply Permutation_filter. apply split_wrap_perm.
Qed.

(* consequence: exactly one piece is valid  <->  exactly one schedule of the file applies *)
Lemma wraparound_count l m d wd : (1 <= m <= 12)%Z -> (1 <= d <= 31)%Z ->
  List.length (valid_schedules (finalize l) m d wd) = List.length (filter (fun s => applies s m d wd) l).
Proof.
  intros Hm Hd. pose proof (Permutation_length (wraparound l m d wd Hm Hd)) as H.
  now rewrite !map_length in H.
Qed.

(* ------------------------------------------------------------------ price vectors *)
Lemma step_time_eq k start n period :
  Tariff_step_time k start n period = (start + k * (60000000 * period))%Z.
Proof. reflexivity. Qed.

Lemma loop_eq TS start len period n : forall k,
  get_tariffs_loop TS start len period k n =
  res_seq (map (fun j => get_tariff TS (start + j * (60000000 * period))%Z)
               (map (fun i => (k + Z.of_nat i)%Z) (seq 0 n))).
Proof.
  induction n as [|n IH]; intro k; [reflexivity|].
  cbn [get_tariffs_loop]. rewrite step_time_eq, IH.
  cbn [seq map res_seq]. rewrite Z.add_0_r.
  replace (map (fun i => (k + Z.of_nat i)%Z) (seq 1 n))
    with (map (fun i => (k + 1 + Z.of_nat i)%Z) (seq 0 n)); [reflexivity|].
  rewrite <- seq_shift, map_map. apply map_ext. intro i. lia.
Qed.

Lemma get_tariffs_eq TS start n period :
  get_tariffs TS start n period =
  res_seq (map (fun k => get_tariff TS (start + k * (60000000 * period))%Z) (Zrange n)).
Proof.
  unfold get_tariffs, Zrange. rewrite loop_eq. repeat f_equal.
Qed.

Lemma res_seq_ok {A} (l : list (res A)) v (d : A) e0 : res_seq l = Ok v ->
  List.length v = List.length l /\ forall i, (i < List.length l)%nat -> nth i l (Err e0) = Ok (nth i v d).
Proof.
  revert v. induction l as [|r l IH]; simpl; intros v.
  - intros [= <-]. split; [reflexivity|]. intros i Hi. inversion Hi.
  - destruct r as [a|e]; simpl; [|discriminate].
    destruct (res_seq l) as [v0|e]; simpl; [|discriminate].
    intros [= <-]. destruct (IH _ eq_refl) as [Hl Hn]. split; [simpl; now rewrite Hl|].
    intros [|i] Hi; simpl; [reflexivity|]. apply Hn. lia.
Qed.

Lemma res_seq_err {A} (l : list (res A)) e e0 : res_seq l = Err e ->
  exists i, (i < List.length l)%nat /\ nth i l (Err e0) = Err e /\
            forall j, (j < i)%nat -> exists a, nth j l (Err e0) = Ok a.
Proof.
  induction l as [|r l IH]; simpl; [discriminate|].
  destruct r as [a|e1]; simpl.
  - destruct (res_seq l) as [v0|e2]; simpl; [discriminate|].
    intros [= <-]. destruct (IH eq_refl) as (i & Hi & Hn & Hj).
    exists (S i). split; [lia|]. split; [assumption|].
    intros [|j] Hlt; simpl; [eauto|]. apply Hj. lia.
  - intros [= <-]. exists 0%nat. split; [lia|]. split; [reflexivity|]. intros j Hj. inversion Hj.
Qed.

Lemma res_seq_all_ok {A} (l : list (res A)) :
  (forall r, In r l -> exists a, r = Ok a) -> exists v, res_seq l = Ok v.
Proof.
  induction l as [|r l IH]; simpl; intro H; [eauto|].
  destruct (H r (or_introl eq_refl)) as (a & ->). simpl.
  destruct IH as (v & ->); [intros; apply H; now right|]. simpl. eauto.
Qed.

Lemma Zrange_length n : List.length (Zrange n) = Z.to_nat n.
Proof. unfold Zrange. now rewrite map_length, seq_length. Qed.

Lemma Zrange_nth n i d : (i < Z.to_nat n)%nat -> nth i (Zrange n) d = Z.of_nat i.
Proof.
  intro H. unfold Zrange.
  rewrite nth_indep with (d' := Z.of_nat 0) by (rewrite map_length, seq_length; assumption).
  rewrite map_nth. rewrite seq_nth by assumption. reflexivity.
Qed.

Lemma nth_map_Zrange {A} (f : Z -> A) n j d : (j < Z.to_nat n)%nat ->
  nth j (map f (Zrange n)) d = f (Z.of_nat j).
Proof.
  intro H. rewrite nth_indep with (d' := f 0%Z) by (rewrite map_length, Zrange_length; lia).
  rewrite map_nth. now rewrite Zrange_nth by lia.
Qed.

Lemma get_tariffs_ok TS start n period v :
  get_tariffs TS start n period = Ok v ->
  List.length v = Z.to_nat n /\
  forall k, (0 <= k < n)%Z ->
    get_tariff TS (start + k * (60000000 * period))%Z = Ok (nth (Z.to_nat k) v 0).
Proof.
  rewrite get_tariffs_eq. intro H.
  destruct (res_seq_ok _ _ 0 "" H) as [Hl Hn]. rewrite map_length, Zrange_length in Hl, Hn.
  split; [assumption|]. intros k Hk.
  specialize (Hn (Z.to_nat k) ltac:(lia)). rewrite <- Hn.
  rewrite nth_map_Zrange by lia. now rewrite Z2Nat.id by lia.
Qed.

Lemma get_tariffs_err TS start n period e :
  get_tariffs TS start n period = Err e ->
  exists k, (0 <= k < n)%Z /\ get_tariff TS (start + k * (60000000 * period))%Z = Err e /\
            forall j, (0 <= j < k)%Z -> exists p, get_tariff TS (start + j * (60000000 * period))%Z = Ok p.
Proof.
  rewrite get_tariffs_eq. intro H.
  destruct (res_seq_err _ _ "" H) as (i & Hi & Hn & Hj). rewrite map_length, Zrange_length in Hi.
  exists (Z.of_nat i). split; [lia|]. split.
  - rewrite nth_map_Zrange in Hn by lia. assumption.
  - intros j Hjk. destruct (Hj (Z.to_nat j) ltac:(lia)) as (a & Ha).
    rewrite nth_map_Zrange in Ha by lia. rewrite Z2Nat.id in Ha by lia. eauto.
Qed.

Lemma get_tariffs_total TS start n period :
  (forall k, (0 <= k < n)%Z -> exists p, get_tariff TS (start + k * (60000000 * period))%Z = Ok p) ->
  exists v, get_tariffs TS start n period = Ok v.
Proof.
  intro H. rewrite get_tariffs_eq. apply res_seq_all_ok.
  intros r Hin. apply in_map_iff in Hin. destruct Hin as (k & <- & Hk).
  unfold Zrange in Hk. apply in_map_iff in Hk. destruct Hk as (i & <- & Hi). apply in_seq in Hi.
  apply H. lia.
Qed.

(* ------------------------------------------------------------------ interface alignment *)
Lemma iface_prices_eq sim TS n st : sim_tariff sim = Some TS ->
  iface_get_prices sim n st =
  get_tariffs TS (sim_time sim (match st with None => sim_iteration sim | Some s => s end)) n (sim_period sim).
Proof.
  intro H. unfold iface_get_prices, sim_time, Iface_price_start. rewrite H. f_equal. ring.
Qed.

Lemma iface_demand_eq sim TS st : sim_tariff sim = Some TS ->
  iface_get_demand_charge sim st =
  get_demand_charge TS (sim_time sim (match st with None => sim_iteration sim | Some s => s end)).
Proof.
  intro H. unfold iface_get_demand_charge, sim_time, Iface_demand_start. rewrite H. f_equal. ring.
Qed.

Lemma iface_aligned sim TS n st v : sim_tariff sim = Some TS ->
  iface_get_prices sim n st = Ok v ->
  List.length v = Z.to_nat n /\
  forall k, (0 <= k < n)%Z ->
    get_tariff TS (sim_time sim ((match st with None => sim_iteration sim | Some s => s end) + k))
    = Ok (nth (Z.to_nat k) v 0).
Proof.
  intros HT H. rewrite (iface_prices_eq _ _ _ _ HT) in H.
  destruct (get_tariffs_ok _ _ _ _ _ H) as [Hl Hn]. split; [assumption|].
  intros k Hk. rewrite <- (Hn k Hk). f_equal. unfold sim_time. ring.
Qed.

(* ------------------------------------------------------------------ costs *)
Lemma Qdot_terms prices agg dt : Qdot prices agg * dt == Qsum (cost_terms prices agg dt).
Proof.
  revert agg. induction prices as [|p ps IH]; intros [|a r]; simpl; try ring.
  rewrite <- IH. ring.
Qed.

Lemma energy_cost_formula TS start period agg prices :
  get_tariffs TS start (Z.of_nat (List.length agg)) period = Ok prices ->
  exists c, energy_cost_agg TS start period agg = Ok c /\
            c == Qsum (cost_terms prices agg (inject_Z period / 60)).
Proof.
  intro H. unfold energy_cost_agg. rewrite H. simpl.
  eexists. split; [reflexivity|]. unfold Analysis_energy_cost. apply Qdot_terms.
Qed.

Lemma Qmax_list_ub a r : forall x, In x (a :: r) -> x <= Qmax_list a r.
Proof.
  unfold Qmax_list. revert a. induction r as [|y r IH]; intros a x; simpl.
  - intros [<-|[]]. apply Qle_refl.
  - intros [<-|[<-|Hin]].
    + eapply Qle_trans; [apply Q.le_max_l|]. apply IH. now left.
    + eapply Qle_trans; [apply Q.le_max_r|]. apply IH. now left.
    + apply IH. now right.
Qed.

Lemma Qmax_list_in a r : exists y, In y (a :: r) /\ Qmax_list a r == y.
Proof.
  unfold Qmax_list. revert a. induction r as [|y r IH]; intros a; simpl.
  - exists a. split; [now left|reflexivity].
  - destruct (IH (Qmax a y)) as (w & [<-|Hin] & Hw).
    + destruct (Q.max_dec a y) as [E|E]; [exists a|exists y]; (split; [auto|]); now rewrite Hw.
    + exists w. auto.
Qed.

Lemma demand_charge_formula TS start a r dc :
  get_demand_charge TS start = Ok dc ->
  demand_charge_agg TS start (a :: r) = Ok (dc * Qmax_list a r).
Proof. intro H. unfold demand_charge_agg. rewrite H. reflexivity. Qed.

Lemma aggregate_power_nth V cols k : (k < List.length cols)%nat ->
  nth k (aggregate_power V cols) 0 == Qdot V (nth k cols []) / 1000.
Proof.
  intro H. unfold aggregate_power.
  set (f := fun col => Qdot V col / 1000).
  rewrite nth_indep with (d' := f []) by (now rewrite map_length).
  rewrite map_nth. reflexivity.
Qed.

(* ------------------------------------------------------------------ bundled tariffs never fail *)
Lemma bundled_vectors_total name raw TS : In (name, raw) bundled -> build raw = Ok TS ->
  (forall start n period, exists v, get_tariffs TS start n period = Ok v) /\
  (forall sim n st, sim_tariff sim = Some TS -> exists v, iface_get_prices sim n st = Ok v) /\
  (forall sim st, sim_tariff sim = Some TS -> exists dc, iface_get_demand_charge sim st = Ok dc).
Proof.
  intros Hin Hb. destruct (bundled_all_instants _ _ Hin) as (TS' & Hb' & Hall).
  rewrite Hb in Hb'. injection Hb' as <-.
  assert (H1 : forall start n period, exists v, get_tariffs TS start n period = Ok v).
  { intros. apply get_tariffs_total. intros k _.
    destruct (Hall (start + k * (60000000 * period))%Z) as (s & p & _ & Hp & _). eauto. }
  split; [exact H1|]. split.
  - intros sim n st HT. rewrite (iface_prices_eq _ _ _ _ HT). apply H1.
  - intros sim st HT. rewrite (iface_demand_eq _ _ _ HT).
    destruct (Hall (sim_time sim match st with None => sim_iteration sim | Some s => s end))
      as (s & p & _ & _ & _ & Hd). eauto.
Qed.

Lemma lookup_total0 l th b0 p0 : In (b0, p0) l -> b0 == 0 -> 0 <= th -> exists p, lookup l th = Some p.
Proof. intros Hin H0 Hth. apply (lookup_total l th b0 p0 Hin). rewrite H0. exact Hth. Qed.

Lemma breakpoint_all (l : list (Q * Q)) (th : Q) :
  (forall p, lookup l th = Some p ->
     exists b, In (b, p) l /\ b <= th /\
               forall b' p', In (b', p') l -> b' <= th -> b' < b \/ (b' == b /\ p' <= p)) /\
  (lookup l th = None <-> forall b p, In (b, p) l -> ~ b <= th) /\
  (forall b0 p0, In (b0, p0) l -> b0 == 0 -> 0 <= th -> exists p, lookup l th = Some p).
Proof.
  split; [exact (lookup_some l th)|]. split; [exact (lookup_none l th)|]. exact (lookup_total0 l th).
Qed.

(* ------------------------------------------------------------------ season and weekday class as written in the file *)
Lemma file_total_season_class raw : file_total raw = true ->
  exists L TS, build_all raw = Ok L /\ build raw = Ok TS /\
  forall t : Z, exists s0 p,
    filter (fun s => applies s (t_month t) (t_day t) (t_weekday t)) L = [s0] /\
    get_tariff TS t = Ok p /\
    latest_breakpoint_rate (s_tariffs s0) (target_hour t) p /\
    get_demand_charge TS t = Ok (s_demand s0).
Proof.
  intro Hft. destruct (file_total_all_instants _ Hft) as (TS & Hb & Hall).
  unfold build in Hb. destruct (build_all raw) as [L|e] eqn:EL; simpl in Hb; [|discriminate].
  injection Hb as <-. exists L, (finalize L). split; [reflexivity|]. split; [unfold build; now rewrite EL|].
  intro t. destruct (Hall t) as (s & p & Hs & Hp & Hl & Hd).
  destruct (instant_cell t) as (Hm & Hday & _).
  assert (Hd31 : (1 <= t_day t <= 31)%Z) by (pose proof (max_days_in_month_le_31 (t_month t)); lia).
  pose proof (wraparound L _ _ (t_weekday t) Hm Hd31) as Hperm. rewrite Hs in Hperm. simpl in Hperm.
  apply Permutation_length_1_inv in Hperm.
  destruct (filter (fun s1 => applies s1 (t_month t) (t_day t) (t_weekday t)) L) as [|s0 [|s1 r]] eqn:EF;
    simpl in Hperm; try discriminate.
  injection Hperm as Hid Hmask Htar Hdem.
  exists s0, p. split; [reflexivity|]. split; [assumption|]. rewrite Htar, Hdem. auto.
Qed.

Lemma bundled_season_class name raw : In (name, raw) bundled ->
  exists L TS, build_all raw = Ok L /\ build raw = Ok TS /\
  forall t : Z, exists s0 p,
    filter (fun s => applies s (t_month t) (t_day t) (t_weekday t)) L = [s0] /\
    get_tariff TS t = Ok p /\
    latest_breakpoint_rate (s_tariffs s0) (target_hour t) p /\
    get_demand_charge TS t = Ok (s_demand s0).
Proof. intro Hin. apply file_total_season_class. eapply bundled_file_total; eauto. Qed.

(* ------------------------------------------------------------------ fractional simulation periods *)
Lemma step_time_q_eq k start n period :
  Tariff_step_time_q (inject_Z k) (inject_Z start) n period
  == inject_Z start + inject_Z k * (60000000 * period).
Proof. unfold Tariff_step_time_q. reflexivity. Qed.

Lemma instant_of_q_int (x : Q) (z : Z) : x == inject_Z z -> instant_of_q x = z.
Proof. intro H. unfold instant_of_q. rewrite H. apply Qfloor_Z. Qed.

Lemma step_time_q_int k start n p :
  instant_of_q (Tariff_step_time_q (inject_Z k) (inject_Z start) n (inject_Z p)) = (start + k * (60000000 * p))%Z.
Proof.
  apply instant_of_q_int. rewrite step_time_q_eq.
  rewrite !inject_Z_plus, !inject_Z_mult. reflexivity.
Qed.

Lemma loop_q_eq TS start len period n : forall k,
  get_tariffs_loop_q TS start len period k n =
  res_seq (map (fun j => get_tariff TS (instant_of_q (Tariff_step_time_q (inject_Z j) (inject_Z start) (inject_Z len) period)))
               (map (fun i => (k + Z.of_nat i)%Z) (seq 0 n))).
Proof.
  induction n as [|n IH]; intro k; [reflexivity|].
  cbn [get_tariffs_loop_q]. rewrite IH.
  cbn [seq map res_seq]. rewrite Z.add_0_r.
  replace (map (fun i => (k + Z.of_nat i)%Z) (seq 1 n))
    with (map (fun i => (k + 1 + Z.of_nat i)%Z) (seq 0 n)); [reflexivity|].
  rewrite <- seq_shift, map_map. apply map_ext. intro i. lia.
Qed.

Lemma get_tariffs_q_eq TS start n period :
  get_tariffs_q TS start n period =
  res_seq (map (fun k => get_tariff TS (instant_of_q (Tariff_step_time_q (inject_Z k) (inject_Z start) (inject_Z n) period)))
               (Zrange n)).
Proof. unfold get_tariffs_q, Zrange. rewrite loop_q_eq. repeat f_equal. Qed.

(* on whole-minute periods the rational versions are the integer ones *)
Lemma get_tariffs_q_int TS start n p : get_tariffs_q TS start n (inject_Z p) = get_tariffs TS start n p.
Proof.
  rewrite get_tariffs_q_eq, get_tariffs_eq. f_equal. apply map_ext. intro k. now rewrite step_time_q_int.
Qed.

Lemma iface_prices_q_int sim n st :
  iface_get_prices_q (sim_tariff sim) (sim_start sim) (inject_Z (sim_period sim)) (sim_iteration sim) n st
  = iface_get_prices sim n st.
Proof.
  unfold iface_get_prices_q, iface_get_prices. destruct (sim_tariff sim) as [TS|]; [|reflexivity].
  rewrite get_tariffs_q_int. f_equal.
  apply instant_of_q_int. unfold Iface_price_start_q, Iface_price_start.
  rewrite !inject_Z_plus, !inject_Z_mult. reflexivity.
Qed.

Lemma iface_demand_q_int sim st :
  iface_get_demand_charge_q (sim_tariff sim) (sim_start sim) (inject_Z (sim_period sim)) (sim_iteration sim) st
  = iface_get_demand_charge sim st.
Proof.
  unfold iface_get_demand_charge_q, iface_get_demand_charge. destruct (sim_tariff sim) as [TS|]; [|reflexivity].
  f_equal. apply instant_of_q_int. unfold Iface_demand_start_q, Iface_demand_start.
  rewrite !inject_Z_plus, !inject_Z_mult. reflexivity.
Qed.

Lemma energy_cost_q_int TS start p agg : energy_cost_agg_q TS start (inject_Z p) agg = energy_cost_agg TS start p agg.
Proof. unfold energy_cost_agg_q, energy_cost_agg. now rewrite get_tariffs_q_int. Qed.

(* price vector and cost formula for any period whose microsecond count is whole (us = period * 6e7) *)
Lemma get_tariffs_q_whole TS start n period us : 60000000 * period == inject_Z us ->
  get_tariffs_q TS start n period = res_seq (map (fun k => get_tariff TS (start + k * us)%Z) (Zrange n)).
Proof.
  intro H. rewrite get_tariffs_q_eq. f_equal. apply map_ext. intro k. f_equal.
  apply instant_of_q_int. rewrite step_time_q_eq, H. rewrite !inject_Z_plus, !inject_Z_mult. reflexivity.
Qed.

Lemma energy_cost_q_formula TS start period agg prices :
  get_tariffs_q TS start (Z.of_nat (List.length agg)) period = Ok prices ->
  exists c, energy_cost_agg_q TS start period agg = Ok c /\ c == Qsum (cost_terms prices agg (period / 60)).
Proof.
  intro H. unfold energy_cost_agg_q. rewrite H. simpl.
  eexists. split; [reflexivity|]. unfold Analysis_energy_cost. apply Qdot_terms.
Qed.

(* ------------------------------------------------------------------ which tariff prices a simulation *)
Lemma pricing_precedence signal explicit start period V cols :
  (forall TS, explicit = Some TS ->
     energy_cost_sim signal explicit start period V cols = energy_cost_q TS start period V cols /\
     demand_charge_sim signal explicit start V cols = demand_charge TS start V cols) /\
  (forall TS, explicit = None -> signal = Some TS ->
     energy_cost_sim signal explicit start period V cols = energy_cost_q TS start period V cols /\
     demand_charge_sim signal explicit start V cols = demand_charge TS start V cols) /\
  (explicit = None -> signal = None ->
     energy_cost_sim signal explicit start period V cols = Err "ValueError:nopricing" /\
     demand_charge_sim signal explicit start V cols = Err "ValueError:nopricing").
Proof.
  unfold energy_cost_sim, demand_charge_sim, pricing_tariff, energy_cost_q, demand_charge.
  split; [|split].
  - intros TS ->. split; reflexivity.
  - intros TS -> ->. split; reflexivity.
  - intros -> ->. split; reflexivity.
Qed.
