(* Proofs/SimPerm.v — order-independence theorems for the id-keyed simulator model
   (Model/SimPerm.v).  No axioms. *)
From Coq Require Import ZArith QArith Qminmax Qabs List Bool String Arith Lia Permutation Lqa.
From ACN Require Import Base.Num Base.ListX Gen.Evse_Q Gen.EvseZ_Z Gen.Battery_Q Model.EVSE Model.SimPerm.
Import ListNotations.
Open Scope Q_scope.
Open Scope list_scope.

(* ------------------------------------------------------------------------------------------ *)
(* generic facts about permutations                                                           *)
(* ------------------------------------------------------------------------------------------ *)
Lemma Permutation_filter {A} (f : A -> bool) l l' :
  Permutation l l' -> Permutation (filter f l) (filter f l').
Proof.
  induction 1; simpl; auto.
  - destruct (f x); auto.
  - destruct (f x), (f y); auto. apply perm_swap.
  - eapply Permutation_trans; eauto.
Qed.

Lemma Permutation_flat_map' {A B} (f : A -> list B) l l' :
  Permutation l l' -> Permutation (flat_map f l) (flat_map f l').
Proof.
  induction 1; simpl; auto.
  - now apply Permutation_app_head.
  - rewrite !app_assoc. apply Permutation_app_tail. apply Permutation_app_comm.
  - eapply Permutation_trans; eauto.
Qed.

Lemma forallb_perm {A} (f : A -> bool) l l' : Permutation l l' -> forallb f l = forallb f l'.
Proof.
  induction 1; simpl; auto.
  - now rewrite IHPermutation.
  - destruct (f x), (f y); reflexivity.
  - congruence.
Qed.

Lemma existsb_perm {A} (f : A -> bool) l l' : Permutation l l' -> existsb f l = existsb f l'.
Proof.
  induction 1; simpl; auto.
  - now rewrite IHPermutation.
  - destruct (f x), (f y); reflexivity.
  - congruence.
Qed.

(* folding option-valued, pairwise commuting steps over a permuted list *)
Definition commutes {A B} (f : A -> B -> option A) : Prop :=
  forall a x y,
    match f a x with Some a1 => f a1 y | None => None end
    = match f a y with Some a1 => f a1 x | None => None end.

Lemma fold_opt_perm {A B} (f : A -> B -> option A) :
  commutes f -> forall l l', Permutation l l' -> forall a, fold_opt f l a = fold_opt f l' a.
Proof.
  intros C l l' P. induction P; intro a; simpl; auto.
  - destruct (f a x); auto.
  - pose proof (C a y x) as K.
    destruct (f a y) as [a1|] eqn:E1; destruct (f a x) as [a2|] eqn:E2; simpl in *.
    + destruct (f a1 x) as [b1|] eqn:E3; destruct (f a2 y) as [b2|] eqn:E4; try congruence.
    + destruct (f a1 x) eqn:E3; congruence.
    + destruct (f a2 y) eqn:E4; congruence.
    + reflexivity.
  - now rewrite IHP1.
Qed.

(* ------------------------------------------------------------------------------------------ *)
(* association lists keyed by station id                                                      *)
(* ------------------------------------------------------------------------------------------ *)
Lemma zassoc_perm {A} (l l' : list (Z * A)) s :
  NoDup (map fst l) -> Permutation l l' -> zassoc s l = zassoc s l'.
Proof.
  intros Hnd P. induction P; simpl; auto.
  - destruct x as [k v]. simpl in *. inversion Hnd; subst. destruct (Z.eqb s k); auto.
  - destruct x as [k1 v1], y as [k2 v2]. simpl in *.
    destruct (Z.eqb s k2) eqn:E2; destruct (Z.eqb s k1) eqn:E1; auto.
    apply Z.eqb_eq in E1, E2. subst. inversion Hnd; subst. exfalso. apply H1. now left.
  - rewrite IHP1; auto. apply IHP2. eapply Permutation_NoDup; [|exact Hnd]. now apply Permutation_map.
Qed.

Lemma slot_upd_keys s f l : map fst (slot_upd s f l) = map fst l.
Proof.
  unfold slot_upd. rewrite map_map. apply map_ext. intros [k v]. simpl. now destruct (Z.eqb k s).
Qed.

Lemma slot_upd_perm s f l l' : Permutation l l' -> Permutation (slot_upd s f l) (slot_upd s f l').
Proof. apply Permutation_map. Qed.

Lemma slot_upd_comm s1 f1 s2 f2 l :
  s1 <> s2 -> slot_upd s1 f1 (slot_upd s2 f2 l) = slot_upd s2 f2 (slot_upd s1 f1 l).
Proof.
  intro N. unfold slot_upd. rewrite !map_map. apply map_ext. intros [k v]. simpl.
  destruct (Z.eqb k s2) eqn:E2; destruct (Z.eqb k s1) eqn:E1; simpl; rewrite ?E1, ?E2; auto.
  apply Z.eqb_eq in E1, E2. congruence.
Qed.

Lemma slot_upd_same s f g l :
  slot_upd s f (slot_upd s g l) = slot_upd s (fun x => f (g x)) l.
Proof.
  unfold slot_upd. rewrite map_map. apply map_ext. intros [k v]. simpl.
  destruct (Z.eqb k s) eqn:E; simpl; now rewrite E.
Qed.

Lemma zassoc_slot_upd s f l k :
  zassoc k (slot_upd s f l) = if Z.eqb k s then option_map f (zassoc k l) else zassoc k l.
Proof.
  induction l as [|[k0 v] l IH]; simpl.
  - now destruct (Z.eqb k s).
  - destruct (Z.eqb k0 s) eqn:E0; simpl.
    + destruct (Z.eqb k k0) eqn:E1.
      * apply Z.eqb_eq in E0, E1. subst. now rewrite Z.eqb_refl.
      * exact IH.
    + destruct (Z.eqb k k0) eqn:E1.
      * apply Z.eqb_eq in E1. subst. now rewrite E0.
      * exact IH.
Qed.

(* ------------------------------------------------------------------------------------------ *)
(* events commute                                                                             *)
(* ------------------------------------------------------------------------------------------ *)
Lemma unplug_slot_comm a b sl : unplug_slot a (unplug_slot b sl) = unplug_slot b (unplug_slot a sl).
Proof.
  unfold unplug_slot. destruct (sl_ev sl) as [e|] eqn:E; simpl; [|now rewrite E].
  destruct (Z.eqb (se_id (ev_se e)) b) eqn:Eb; destruct (Z.eqb (se_id (ev_se e)) a) eqn:Ea;
    simpl; rewrite ?E; simpl; rewrite ?Ea, ?Eb; auto.
  apply Z.eqb_eq in Ea, Eb. congruence.
Qed.

Lemma unplug_commutes : commutes unplug.
Proof.
  intros l x y. unfold unplug.
  destruct (zassoc (se_station x) l) as [sx|] eqn:Ex; destruct (zassoc (se_station y) l) as [sy|] eqn:Ey.
  - rewrite !zassoc_slot_upd, Ex, Ey.
    destruct (Z.eqb (se_station y) (se_station x)) eqn:E1; destruct (Z.eqb (se_station x) (se_station y)) eqn:E2; simpl.
    + apply Z.eqb_eq in E1. rewrite E1, !slot_upd_same. f_equal. unfold slot_upd. apply map_ext.
      intros [k v]. simpl. destruct (Z.eqb k (se_station x)); auto. now rewrite unplug_slot_comm.
    + apply Z.eqb_eq in E1. apply Z.eqb_neq in E2. congruence.
    + apply Z.eqb_eq in E2. apply Z.eqb_neq in E1. congruence.
    + f_equal. apply slot_upd_comm. apply Z.eqb_neq in E1. congruence.
  - rewrite zassoc_slot_upd, Ey. now destruct (Z.eqb (se_station y) (se_station x)).
  - rewrite zassoc_slot_upd, Ex. now destruct (Z.eqb (se_station x) (se_station y)).
  - reflexivity.
Qed.

Lemma plugin_commutes : commutes plugin.
Proof.
  intros l x y. unfold plugin.
  destruct (zassoc (se_station x) l) as [sx|] eqn:Ex; destruct (zassoc (se_station y) l) as [sy|] eqn:Ey.
  - destruct (Z.eq_dec (se_station x) (se_station y)) as [E|N].
    + (* same station: whoever comes second finds it occupied *)
      rewrite <- E in *. rewrite Ex in Ey. inversion Ey; subst sy.
      unfold BaseEVSE_plugin, occ_id. destruct (sl_ev sx) as [e|] eqn:Ee; simpl; [reflexivity|].
      rewrite !zassoc_slot_upd, Ex, Z.eqb_refl. simpl. reflexivity.
    + destruct (BaseEVSE_plugin (occ_id sx) (se_id x)) eqn:Px; destruct (BaseEVSE_plugin (occ_id sy) (se_id y)) eqn:Py.
      * rewrite !zassoc_slot_upd, Ex, Ey.
        replace (Z.eqb (se_station y) (se_station x)) with false by (symmetry; apply Z.eqb_neq; congruence).
        replace (Z.eqb (se_station x) (se_station y)) with false by (symmetry; now apply Z.eqb_neq).
        rewrite Px, Py. f_equal. apply slot_upd_comm. congruence.
      * rewrite zassoc_slot_upd, Ey.
        replace (Z.eqb (se_station y) (se_station x)) with false by (symmetry; apply Z.eqb_neq; congruence).
        now rewrite Py.
      * rewrite zassoc_slot_upd, Ex.
        replace (Z.eqb (se_station x) (se_station y)) with false by (symmetry; now apply Z.eqb_neq).
        now rewrite Px.
      * reflexivity.
  - destruct (BaseEVSE_plugin (occ_id sx) (se_id x)); auto.
    rewrite zassoc_slot_upd, Ey. now destruct (Z.eqb (se_station y) (se_station x)).
  - destruct (BaseEVSE_plugin (occ_id sy) (se_id y)); auto.
    rewrite zassoc_slot_upd, Ex. now destruct (Z.eqb (se_station x) (se_station y)).
  - reflexivity.
Qed.

(* any order of the due events within a precedence class gives the same network *)
Lemma tie_order t ses l du ar :
  Permutation du (departing t ses) -> Permutation ar (arriving t ses) ->
  match fold_opt unplug du l with Some l1 => fold_opt plugin ar l1 | None => None end
  = process_events t ses l.
Proof.
  intros Pd Pa. unfold process_events.
  rewrite (fold_opt_perm unplug unplug_commutes _ _ Pd).
  destruct (fold_opt unplug (departing t ses) l); auto.
  apply (fold_opt_perm plugin plugin_commutes _ _ Pa).
Qed.

(* ------------------------------------------------------------------------------------------ *)
(* session order                                                                              *)
(* ------------------------------------------------------------------------------------------ *)
Lemma process_events_perm t ses ses' l :
  Permutation ses ses' -> process_events t ses' l = process_events t ses l.
Proof.
  intro P. symmetry. rewrite <- (tie_order t ses' l (departing t ses) (arriving t ses)); auto;
    unfold departing, arriving; now apply Permutation_filter.
Qed.

Lemma horizon_perm ses ses' : Permutation ses ses' -> horizon ses = horizon ses'.
Proof.
  intro P. unfold horizon.
  assert (M : fold_right (fun x m => Nat.max (se_dep x) m) O ses
              = fold_right (fun x m => Nat.max (se_dep x) m) O ses').
  { induction P; simpl; auto; lia. }
  destruct ses, ses'; auto;
    try (apply Permutation_nil in P; discriminate);
    try (symmetry in P; apply Permutation_nil in P; discriminate).
  all: now rewrite M.
Qed.

Definition with_sessions (cf : config) (ses : list session) : config :=
  {| cf_sessions := ses; cf_max_recompute := cf_max_recompute cf; cf_period := cf_period cf;
     cf_constraints := cf_constraints cf; cf_abs_tol := cf_abs_tol cf; cf_rel_tol := cf_rel_tol cf |}.
Definition with_constraints (cf : config) (cs : list constraint) : config :=
  {| cf_sessions := cf_sessions cf; cf_max_recompute := cf_max_recompute cf; cf_period := cf_period cf;
     cf_constraints := cs; cf_abs_tol := cf_abs_tol cf; cf_rel_tol := cf_rel_tol cf |}.

Lemma nil_perm_filter {A} (f : A -> bool) l l' :
  Permutation l l' -> (match filter f l with [] => true | _ => false end)
                      = (match filter f l' with [] => true | _ => false end).
Proof.
  intro P. apply (Permutation_filter f) in P.
  destruct (filter f l), (filter f l'); auto.
  - apply Permutation_nil in P. discriminate.
  - symmetry in P. apply Permutation_nil in P. discriminate.
Qed.

Lemma sim_step_session_perm sched cf ses' t st :
  Permutation (cf_sessions cf) ses' ->
  sim_step sched (with_sessions cf ses') t st = sim_step sched cf t st.
Proof.
  intro P. unfold sim_step. simpl.
  rewrite (process_events_perm t _ _ (ss_slots st) P).
  assert (E : (match departing t ses', arriving t ses' with [], [] => true | _, _ => false end)
              = (match departing t (cf_sessions cf), arriving t (cf_sessions cf) with [], [] => true | _, _ => false end)).
  { pose proof (nil_perm_filter (fun x => Nat.eqb (se_dep x) t) _ _ P) as D.
    pose proof (nil_perm_filter (fun x => Nat.eqb (se_arr x) t) _ _ P) as A.
    unfold departing, arriving.
    destruct (filter (fun x => Nat.eqb (se_dep x) t) ses'), (filter (fun x => Nat.eqb (se_dep x) t) (cf_sessions cf));
      try discriminate; auto. }
  rewrite E. reflexivity.
Qed.

Lemma sim_loop_session_perm sched cf ses' : Permutation (cf_sessions cf) ses' ->
  forall fuel t st, sim_loop sched (with_sessions cf ses') t fuel st = sim_loop sched cf t fuel st.
Proof.
  intro P. induction fuel as [|f IH]; intros t st; simpl; auto.
  rewrite (sim_step_session_perm sched cf ses' t st P).
  destruct (sim_step sched cf t st); auto.
Qed.

Lemma thm_session_perm sched sts cf ses' :
  Permutation (cf_sessions cf) ses' ->
  simulate sched sts (with_sessions cf ses') = simulate sched sts cf.
Proof.
  intro P. unfold simulate. simpl. rewrite <- (horizon_perm _ _ P).
  now apply sim_loop_session_perm.
Qed.

(* ------------------------------------------------------------------------------------------ *)
(* constraint order                                                                           *)
(* ------------------------------------------------------------------------------------------ *)
Lemma forallb_ext_in {A} (f g : A -> bool) l :
  (forall x, In x l -> f x = g x) -> forallb f l = forallb g l.
Proof.
  induction l as [|a l IH]; simpl; intro H; auto.
  rewrite H by now left. rewrite IH; auto.
Qed.

Lemma feasible_constraint_perm a r cs cs' sch l :
  Permutation cs cs' -> feasible a r cs' sch l = feasible a r cs sch l.
Proof.
  intro P. unfold feasible. destruct sch as [|[k r0] sch]; auto.
  apply forallb_ext_in. intros j _. symmetry. now apply forallb_perm.
Qed.

Lemma sim_step_constraint_perm sched cf cs' t st :
  Permutation (cf_constraints cf) cs' ->
  sim_step sched (with_constraints cf cs') t st = sim_step sched cf t st.
Proof.
  intro P. unfold sim_step. simpl.
  destruct (process_events t (cf_sessions cf) (ss_slots st)) as [l1|]; auto.
  destruct (_ || _); auto.
  destruct (apply_schedule t (sched t (active l1)) l1); auto.
  destruct (sched t (active l1)); auto.
  now rewrite (feasible_constraint_perm _ _ _ _ _ l1 P).
Qed.

Lemma thm_constraint_perm sched sts cf cs' :
  Permutation (cf_constraints cf) cs' ->
  simulate sched sts (with_constraints cf cs') = simulate sched sts cf.
Proof.
  intro P. unfold simulate. simpl.
  generalize (horizon (cf_sessions cf)) O
             {| ss_slots := init_slots sts; ss_last := None; ss_warn := [] |}.
  induction n as [|f IH]; intros t st; simpl; auto.
  rewrite (sim_step_constraint_perm sched cf cs' t st P).
  destruct (sim_step sched cf t st); auto.
Qed.


(* ------------------------------------------------------------------------------------------ *)
(* station registration order                                                                 *)
(* ------------------------------------------------------------------------------------------ *)
(* two option results: both fail, or both succeed with the same slots in permuted order *)
Definition orel (a b : option slots) : Prop :=
  match a, b with
  | Some x, Some y => Permutation x y
  | None, None => True
  | _, _ => False
  end.

Lemma plugin_keys l x l1 : plugin l x = Some l1 -> map fst l1 = map fst l.
Proof.
  unfold plugin. destruct (zassoc _ _); [|discriminate]. destruct (BaseEVSE_plugin _ _); [|discriminate].
  intro E. inversion E. apply slot_upd_keys.
Qed.
Lemma unplug_keys l x l1 : unplug l x = Some l1 -> map fst l1 = map fst l.
Proof.
  unfold unplug. destruct (zassoc _ _); [|discriminate]. intro E. inversion E. apply slot_upd_keys.
Qed.

Lemma plugin_perm l l' x :
  NoDup (map fst l) -> Permutation l l' -> orel (plugin l x) (plugin l' x).
Proof.
  intros N P. unfold plugin. rewrite <- (zassoc_perm l l' _ N P).
  destruct (zassoc (se_station x) l) as [sl|]; simpl; auto.
  destruct (BaseEVSE_plugin (occ_id sl) (se_id x)); simpl; auto. now apply slot_upd_perm.
Qed.
Lemma unplug_perm l l' x :
  NoDup (map fst l) -> Permutation l l' -> orel (unplug l x) (unplug l' x).
Proof.
  intros N P. unfold unplug. rewrite <- (zassoc_perm l l' _ N P).
  destruct (zassoc (se_station x) l) as [sl|]; simpl; auto. now apply slot_upd_perm.
Qed.

Lemma fold_opt_orel (f : slots -> session -> option slots) :
  (forall l l' x, NoDup (map fst l) -> Permutation l l' -> orel (f l x) (f l' x)) ->
  (forall l x l1, f l x = Some l1 -> map fst l1 = map fst l) ->
  forall xs l l', NoDup (map fst l) -> Permutation l l' -> orel (fold_opt f xs l) (fold_opt f xs l').
Proof.
  intros Hf Hk. induction xs as [|x xs IH]; intros l l' N P; simpl; auto.
  pose proof (Hf l l' x N P) as R. unfold orel in R.
  destruct (f l x) as [l1|] eqn:E1; destruct (f l' x) as [l1'|] eqn:E1'; try contradiction; simpl; auto.
  apply IH; auto. rewrite (Hk _ _ _ E1). exact N.
Qed.

Lemma fold_opt_keys (f : slots -> session -> option slots) :
  (forall l x l1, f l x = Some l1 -> map fst l1 = map fst l) ->
  forall xs l l1, fold_opt f xs l = Some l1 -> map fst l1 = map fst l.
Proof.
  intros Hk. induction xs as [|x xs IH]; intros l l1; simpl.
  - intro E. now inversion E.
  - destruct (f l x) as [l2|] eqn:E; [|discriminate]. intro R. rewrite (IH _ _ R). eauto.
Qed.

Lemma process_events_keys t ses l l1 : process_events t ses l = Some l1 -> map fst l1 = map fst l.
Proof.
  unfold process_events. destruct (fold_opt unplug _ l) as [l2|] eqn:E; [|discriminate].
  intro R. rewrite (fold_opt_keys plugin plugin_keys _ _ _ R). apply (fold_opt_keys unplug unplug_keys _ _ _ E).
Qed.

Lemma process_events_orel t ses l l' :
  NoDup (map fst l) -> Permutation l l' -> orel (process_events t ses l) (process_events t ses l').
Proof.
  intros N P. unfold process_events.
  pose proof (fold_opt_orel unplug unplug_perm unplug_keys (departing t ses) l l' N P) as R.
  unfold orel in R.
  destruct (fold_opt unplug (departing t ses) l) as [l1|] eqn:E1;
    destruct (fold_opt unplug (departing t ses) l') as [l1'|] eqn:E1'; try contradiction; simpl; auto.
  apply (fold_opt_orel plugin plugin_perm plugin_keys); auto.
  rewrite (fold_opt_keys unplug unplug_keys _ _ _ E1). exact N.
Qed.

Lemma active_perm l l' : Permutation l l' -> Permutation (active l) (active l').
Proof. apply Permutation_flat_map'. Qed.

Lemma active_stations l : incl (map si_station (active l)) (map fst l).
Proof.
  intros s Hs. apply in_map_iff in Hs. destruct Hs as [a [E Ha]]. unfold active in Ha.
  apply in_flat_map in Ha. destruct Ha as [[k sl] [Hin Ha]]. simpl in Ha.
  destruct (sl_ev sl); [|contradiction]. destruct (EV_fully_charged _ _); [contradiction|].
  destruct Ha as [Ha|[]]. subst. simpl. change k with (fst (k, sl)). now apply in_map.
Qed.

Lemma active_nodup l : NoDup (map fst l) -> NoDup (map si_station (active l)).
Proof.
  induction l as [|[k sl] l IH]; simpl; intro N; [constructor|].
  inversion N; subst. unfold active. simpl. fold (active l).
  destruct (sl_ev sl) as [e|]; simpl; auto.
  destruct (EV_fully_charged _ _); simpl; auto.
  constructor; auto. intro K. apply H1. now apply active_stations.
Qed.

(* what "the same dictionary" means for two schedules *)
Definition same_dict (a b : list (Z * list Q)) : Prop :=
  Permutation a b /\ forall s, zassoc s a = zassoc s b.

(* a scheduler whose answer, as a dictionary, does not depend on the order in which the active
   sessions are presented *)
Definition equivariant (sched : scheduler) : Prop :=
  forall t v v', Permutation v v' -> NoDup (map si_station v) -> same_dict (sched t v) (sched t v').

Lemma uncontrolled_equivariant : equivariant sched_uncontrolled.
Proof.
  intros t v v' P N. unfold sched_uncontrolled. split.
  - now apply Permutation_map.
  - intro s. apply zassoc_perm.
    + rewrite map_map. simpl. exact N.
    + now apply Permutation_map.
Qed.

Lemma script_equivariant sc : equivariant (sched_script sc).
Proof. intros t v v' P N. unfold sched_script. split; auto. Qed.

Lemma zmemb_perm x l l' : Permutation l l' -> zmemb x l = zmemb x l'.
Proof. apply existsb_perm. Qed.

Lemma uniform_len (sch sch' : list (Z * list Q)) n :
  Permutation sch sch' ->
  forallb (fun p => Nat.eqb (List.length (snd p)) n) sch = true ->
  forall k r, In (k, r) sch' -> List.length r = n.
Proof.
  intros P H k r Hin. rewrite forallb_forall in H.
  apply Nat.eqb_eq. apply (H (k, r)). eapply Permutation_in; [symmetry; exact P|exact Hin].
Qed.

Lemma apply_schedule_keys t sch l l1 : apply_schedule t sch l = Some l1 -> map fst l1 = map fst l.
Proof.
  unfold apply_schedule. destruct sch as [|[k r0] sch]; [intro E; now inversion E|].
  destruct (_ && _); [|discriminate]. intro E. inversion E. rewrite map_map. reflexivity.
Qed.

Definition apply_body (t len : nat) (sch : list (Z * list Q)) (l : slots) : option slots :=
  if forallb (fun p => zmemb (fst p) (map fst l)) sch
     && forallb (fun p => Nat.eqb (List.length (snd p)) len) sch
  then Some (map (fun p =>
               (fst p, with_pilots (snd p)
                  (write_block t (match zassoc (fst p) sch with Some r => r | None => zeros len end)
                               (sl_pilots (snd p))))) l)
  else None.

Lemma apply_schedule_cons t k r0 sch l :
  apply_schedule t ((k, r0) :: sch) l = apply_body t (List.length r0) ((k, r0) :: sch) l.
Proof. reflexivity. Qed.

Lemma apply_body_perm t len S S' l l' :
  Permutation l l' -> Permutation S S' -> (forall s, zassoc s S = zassoc s S') ->
  orel (apply_body t len S l) (apply_body t len S' l').
Proof.
  intros P Ps Hz. unfold apply_body.
  assert (Pk : Permutation (map fst l) (map fst l')) by now apply Permutation_map.
  assert (K : forallb (fun p => zmemb (fst p) (map fst l)) S = forallb (fun p => zmemb (fst p) (map fst l')) S').
  { rewrite (forallb_perm _ _ _ Ps). apply forallb_ext_in. intros p _. now apply zmemb_perm. }
  rewrite <- K, <- (forallb_perm _ _ _ Ps).
  destruct (_ && _); cbn [orel]; auto.
  eapply Permutation_trans; [apply Permutation_map; exact P|].
  erewrite map_ext; [apply Permutation_refl|]. intros [s sl]. cbn [fst snd]. now rewrite Hz.
Qed.

Lemma apply_body_len_false t len S l :
  forallb (fun p => Nat.eqb (List.length (snd p)) len) S = false -> apply_body t len S l = None.
Proof. intro H. unfold apply_body. rewrite H. now rewrite andb_false_r. Qed.

Lemma apply_schedule_perm t sch sch' l l' :
  NoDup (map fst l) -> Permutation l l' -> same_dict sch sch' ->
  orel (apply_schedule t sch l) (apply_schedule t sch' l').
Proof.
  intros N P [Ps Hz].
  destruct sch as [|[k r0] sch]; destruct sch' as [|[k' r0'] sch'].
  - exact P.
  - apply Permutation_nil in Ps. discriminate.
  - symmetry in Ps. apply Permutation_nil in Ps. discriminate.
  - rewrite !apply_schedule_cons.
    remember ((k, r0) :: sch) as S. remember ((k', r0') :: sch') as S'.
    destruct (forallb (fun p => Nat.eqb (List.length (snd p)) (List.length r0)) S) eqn:L1.
    + assert (E0 : List.length r0' = List.length r0).
      { apply (uniform_len S S' _ Ps L1 k' r0'). subst S'. now left. }
      rewrite E0. now apply apply_body_perm.
    + rewrite (apply_body_len_false _ _ _ _ L1).
      destruct (forallb (fun p => Nat.eqb (List.length (snd p)) (List.length r0')) S') eqn:L2.
      * assert (E0 : List.length r0 = List.length r0').
        { apply (uniform_len S' S _ (Permutation_sym Ps) L2 k r0). subst S. now left. }
        rewrite <- E0, <- (forallb_perm _ _ _ Ps), L1 in L2. discriminate.
      * rewrite (apply_body_len_false _ _ _ _ L2). exact I.
Qed.

(* sums over the stations *)
Lemma Qsum_perm l l' : Permutation l l' -> Qsum l == Qsum l'.
Proof.
  induction 1; simpl; try reflexivity.
  - now rewrite IHPermutation.
  - ring.
  - now rewrite IHPermutation1.
Qed.

Lemma Qleb_compat a a' b b' : a == a' -> b == b' -> Qleb a b = Qleb a' b'.
Proof.
  intros Ea Eb. unfold Qleb.
  destruct (Qle_bool a b) eqn:E1; destruct (Qle_bool a' b') eqn:E2; auto.
  - apply Qle_bool_iff in E1. rewrite Ea, Eb in E1. apply Qle_bool_iff in E1. congruence.
  - apply Qle_bool_iff in E2. rewrite <- Ea, <- Eb in E2. apply Qle_bool_iff in E2. congruence.
Qed.

Lemma within_perm a r c x x' l l' :
  Permutation l l' -> (forall s, x s = x' s) -> within a r c x l = within a r c x' l'.
Proof.
  intros P Hx. unfold within. f_equal.
  assert (Re : agg_re c x l == agg_re c x' l').
  { unfold agg_re. rewrite (Qsum_perm _ _ (Permutation_map _ P)).
    erewrite map_ext; [reflexivity|]. intros [s sl]. simpl. now rewrite Hx. }
  assert (Im : agg_im c x l == agg_im c x' l').
  { unfold agg_im. rewrite (Qsum_perm _ _ (Permutation_map _ P)).
    erewrite map_ext; [reflexivity|]. intros [s sl]. simpl. now rewrite Hx. }
  apply Qleb_compat; [|reflexivity]. now rewrite Re, Im.
Qed.

Lemma feasible_perm a r cs sch sch' l l' t l1 :
  Permutation l l' -> same_dict sch sch' -> apply_schedule t sch l = Some l1 ->
  feasible a r cs sch l = feasible a r cs sch' l'.
Proof.
  intros P [Ps Hz] Happ. unfold feasible.
  destruct sch as [|[k r0] sch]; destruct sch' as [|[k' r0'] sch']; auto.
  - apply Permutation_nil in Ps. discriminate.
  - symmetry in Ps. apply Permutation_nil in Ps. discriminate.
  - assert (E0 : List.length r0' = List.length r0).
    { unfold apply_schedule in Happ.
      destruct (forallb (fun p => zmemb (fst p) (map fst l)) ((k, r0) :: sch)); [|discriminate].
      destruct (forallb (fun p => Nat.eqb (List.length (snd p)) (List.length r0)) ((k, r0) :: sch)) eqn:L1; [|discriminate].
      apply (uniform_len _ _ _ Ps L1 k' r0'). now left. }
    rewrite E0. apply forallb_ext_in. intros j _. apply forallb_ext_in. intros c _.
    apply within_perm; auto. intro s. now rewrite Hz.
Qed.

(* update_pilots *)
Lemma map_opt_perm {A B} (f : A -> option B) l l' :
  Permutation l l' ->
  match map_opt f l, map_opt f l' with
  | Some x, Some y => Permutation x y
  | None, None => True
  | _, _ => False
  end.
Proof.
  induction 1; simpl; auto.
  - destruct (f x); destruct (map_opt f l), (map_opt f l'); simpl; auto; contradiction.
  - destruct (f x), (f y), (map_opt f l); simpl; auto. apply perm_swap.
  - destruct (map_opt f l), (map_opt f l'), (map_opt f l''); simpl in *; auto; try contradiction.
    eapply Permutation_trans; eauto.
Qed.

Lemma update_pilots_keys t p l l1 : update_pilots t p l = Some l1 -> map fst l1 = map fst l.
Proof.
  unfold update_pilots. revert l1. induction l as [|[k sl] l IH]; simpl; intros l1.
  - intro E. now inversion E.
  - destruct (charge_slot t p sl); [|discriminate].
    destruct (map_opt _ l) as [r|]; [|discriminate]. intro E. inversion E. simpl. f_equal. now apply IH.
Qed.

Lemma update_pilots_perm t p l l' :
  Permutation l l' -> orel (update_pilots t p l) (update_pilots t p l').
Proof. intro P. unfold update_pilots, orel. now apply map_opt_perm. Qed.

(* states related by a permutation of the station list *)
Definition srel (a b : simstate) : Prop :=
  Permutation (ss_slots a) (ss_slots b) /\ NoDup (map fst (ss_slots a))
  /\ ss_last a = ss_last b /\ ss_warn a = ss_warn b.
Definition osrel (a b : option simstate) : Prop :=
  match a, b with
  | Some x, Some y => srel x y
  | None, None => True
  | _, _ => False
  end.

(* the same, for two schedulers (e.g. closures over the original / permuted infrastructure) *)
Definition equivariant2 (sched sched' : scheduler) : Prop :=
  forall t v v', Permutation v v' -> NoDup (map si_station v) -> same_dict (sched t v) (sched' t v').

Lemma sim_step_perm2 sched sched' cf t st st' :
  equivariant2 sched sched' -> srel st st' -> osrel (sim_step sched cf t st) (sim_step sched' cf t st').
Proof.
  intros Heq [P [N [EL EW]]]. unfold sim_step.
  pose proof (process_events_orel t (cf_sessions cf) _ _ N P) as R1. unfold orel in R1.
  destruct (process_events t (cf_sessions cf) (ss_slots st)) as [l1|] eqn:E1;
    destruct (process_events t (cf_sessions cf) (ss_slots st')) as [l1'|] eqn:E1'; try contradiction; simpl; auto.
  assert (N1 : NoDup (map fst l1)) by (rewrite (process_events_keys _ _ _ _ E1); exact N).
  rewrite <- EL, <- EW.
  set (had := negb (match departing t (cf_sessions cf), arriving t (cf_sessions cf) with [], [] => true | _, _ => false end)).
  set (last1 := if had then Some t else ss_last st).
  destruct (had || match cf_max_recompute cf with
                   | Some m => match last1 with Some l0 => Nat.leb m (t - l0) | None => true end
                   | None => false end) eqn:Due.
  - pose proof (Heq t _ _ (active_perm _ _ R1) (active_nodup _ N1)) as SD.
    pose proof (apply_schedule_perm t _ _ _ _ N1 R1 SD) as R2. unfold orel in R2.
    destruct (apply_schedule t (sched t (active l1)) l1) as [l2|] eqn:E2;
      destruct (apply_schedule t (sched' t (active l1')) l1') as [l2'|] eqn:E2'; try contradiction; simpl; auto.
    assert (N2 : NoDup (map fst l2)) by (rewrite (apply_schedule_keys _ _ _ _ E2); exact N1).
    pose proof (update_pilots_perm t (cf_period cf) _ _ R2) as R3. unfold orel in R3.
    assert (W : (match sched t (active l1) with
                 | [] => ss_warn st
                 | _ => ss_warn st ++ [(t, negb (feasible (cf_abs_tol cf) (cf_rel_tol cf) (cf_constraints cf) (sched t (active l1)) l1))]
                 end)
                = (match sched' t (active l1') with
                   | [] => ss_warn st
                   | _ => ss_warn st ++ [(t, negb (feasible (cf_abs_tol cf) (cf_rel_tol cf) (cf_constraints cf) (sched' t (active l1')) l1'))]
                   end)).
    { rewrite (feasible_perm _ _ _ _ _ _ _ _ _ R1 SD E2). destruct SD as [Ps _].
      destruct (sched t (active l1)), (sched' t (active l1')); auto.
      - apply Permutation_nil in Ps. discriminate.
      - symmetry in Ps. apply Permutation_nil in Ps. discriminate. }
    rewrite <- W.
    destruct (update_pilots t (cf_period cf) l2) as [l3|] eqn:E3;
      destruct (update_pilots t (cf_period cf) l2') as [l3'|] eqn:E3'; try contradiction; simpl; auto.
    repeat split; auto. simpl. rewrite (update_pilots_keys _ _ _ _ E3). exact N2.
  - pose proof (update_pilots_perm t (cf_period cf) _ _ R1) as R3. unfold orel in R3.
    destruct (update_pilots t (cf_period cf) l1) as [l3|] eqn:E3;
      destruct (update_pilots t (cf_period cf) l1') as [l3'|] eqn:E3'; try contradiction; simpl; auto.
    repeat split; auto. simpl. rewrite (update_pilots_keys _ _ _ _ E3). exact N1.
Qed.

Lemma sim_step_perm sched cf t st st' :
  equivariant sched -> srel st st' -> osrel (sim_step sched cf t st) (sim_step sched cf t st').
Proof. apply sim_step_perm2. Qed.

Lemma sim_loop_perm2 sched sched' cf : equivariant2 sched sched' ->
  forall fuel t st st', srel st st' -> osrel (sim_loop sched cf t fuel st) (sim_loop sched' cf t fuel st').
Proof.
  intro Heq. induction fuel as [|f IH]; intros t st st' R; simpl; auto.
  pose proof (sim_step_perm2 sched sched' cf t st st' Heq R) as R1. unfold osrel in R1.
  destruct (sim_step sched cf t st) as [s1|]; destruct (sim_step sched' cf t st') as [s1'|];
    try contradiction; simpl; auto.
Qed.

Lemma sim_loop_perm sched cf : equivariant sched ->
  forall fuel t st st', srel st st' -> osrel (sim_loop sched cf t fuel st) (sim_loop sched cf t fuel st').
Proof.
  intro Heq. induction fuel as [|f IH]; intros t st st' R; simpl; auto.
  pose proof (sim_step_perm sched cf t st st' Heq R) as R1. unfold osrel in R1.
  destruct (sim_step sched cf t st) as [s1|]; destruct (sim_step sched cf t st') as [s1'|];
    try contradiction; simpl; auto.
Qed.

Lemma init_slots_keys sts : map fst (init_slots sts) = map fst sts.
Proof. unfold init_slots. rewrite map_map. reflexivity. Qed.

Lemma thm_station_perm sched sts sts' cf st :
  equivariant sched -> NoDup (map fst sts) -> Permutation sts sts' ->
  simulate sched sts cf = Some st ->
  exists st', simulate sched sts' cf = Some st'
    /\ (forall s, zassoc s (ss_slots st') = zassoc s (ss_slots st))
    /\ Permutation (ss_slots st) (ss_slots st')
    /\ ss_warn st' = ss_warn st /\ ss_last st' = ss_last st.
Proof.
  intros Heq N P Hrun. unfold simulate in *.
  assert (R0 : srel {| ss_slots := init_slots sts; ss_last := None; ss_warn := [] |}
                    {| ss_slots := init_slots sts'; ss_last := None; ss_warn := [] |}).
  { repeat split; simpl; auto.
    - unfold init_slots. now apply Permutation_map.
    - now rewrite init_slots_keys. }
  pose proof (sim_loop_perm sched cf Heq (horizon (cf_sessions cf)) O _ _ R0) as R. unfold osrel in R.
  rewrite Hrun in R.
  destruct (sim_loop sched cf 0 (horizon (cf_sessions cf))
                     {| ss_slots := init_slots sts'; ss_last := None; ss_warn := [] |}) as [st'|]; [|contradiction].
  destruct R as [Pp [Nn [EL EW]]].
  exists st'. repeat split; auto. intro s. symmetry. now apply zassoc_perm.
Qed.

Lemma thm_station_perm2 sched sched' sts sts' cf st :
  equivariant2 sched sched' -> NoDup (map fst sts) -> Permutation sts sts' ->
  simulate sched sts cf = Some st ->
  exists st', simulate sched' sts' cf = Some st'
    /\ (forall s, zassoc s (ss_slots st') = zassoc s (ss_slots st))
    /\ Permutation (ss_slots st) (ss_slots st')
    /\ ss_warn st' = ss_warn st /\ ss_last st' = ss_last st.
Proof.
  intros Heq N P Hrun. unfold simulate in *.
  assert (R0 : srel {| ss_slots := init_slots sts; ss_last := None; ss_warn := [] |}
                    {| ss_slots := init_slots sts'; ss_last := None; ss_warn := [] |}).
  { repeat split; simpl; auto.
    - unfold init_slots. now apply Permutation_map.
    - now rewrite init_slots_keys. }
  pose proof (sim_loop_perm2 sched sched' cf Heq (horizon (cf_sessions cf)) O _ _ R0) as R. unfold osrel in R.
  rewrite Hrun in R.
  destruct (sim_loop sched' cf 0 (horizon (cf_sessions cf))
                     {| ss_slots := init_slots sts'; ss_last := None; ss_warn := [] |}) as [st'|]; [|contradiction].
  destruct R as [Pp [Nn [EL EW]]].
  exists st'. repeat split; auto. intro s. symmetry. now apply zassoc_perm.
Qed.

(* ------------------------------------------------------------------------------------------ *)
(* sorting with distinct keys does not depend on the input order                              *)
(* ------------------------------------------------------------------------------------------ *)
Lemma insert_by_comm key a b l :
  key a <> key b -> insert_by key a (insert_by key b l) = insert_by key b (insert_by key a l).
Proof.
  intro N. induction l as [|x l IH]; simpl.
  - destruct (Z.leb (key a) (key b)) eqn:E1; destruct (Z.leb (key b) (key a)) eqn:E2; auto.
    + apply Z.leb_le in E1, E2. lia.
    + apply Z.leb_gt in E1, E2. lia.
  - destruct (Z.leb (key b) (key x)) eqn:Eb; destruct (Z.leb (key a) (key x)) eqn:Ea; simpl;
      rewrite ?Ea, ?Eb; simpl.
    + destruct (Z.leb (key a) (key b)) eqn:E1; destruct (Z.leb (key b) (key a)) eqn:E2; simpl; rewrite ?Ea, ?Eb; auto.
      * apply Z.leb_le in E1, E2. lia.
      * apply Z.leb_gt in E1, E2. lia.
    + replace (Z.leb (key a) (key b)) with false; auto.
      symmetry. apply Z.leb_gt. apply Z.leb_le in Eb. apply Z.leb_gt in Ea. lia.
    + replace (Z.leb (key b) (key a)) with false; auto.
      symmetry. apply Z.leb_gt. apply Z.leb_le in Ea. apply Z.leb_gt in Eb. lia.
    + now rewrite IH.
Qed.

Lemma sort_by_perm key l l' :
  NoDup (map key l) -> Permutation l l' -> sort_by key l = sort_by key l'.
Proof.
  intros N P. induction P; simpl; auto.
  - inversion N; subst. now rewrite IHP.
  - apply insert_by_comm. simpl in N. inversion N; subst. intro E. apply H1. left. now symmetry.
  - rewrite IHP1; auto. apply IHP2. eapply Permutation_NoDup; [|exact N]. now apply Permutation_map.
Qed.

Lemma sorted_equivariant key alloc t v v' :
  NoDup (map key v) -> Permutation v v' -> sched_sorted key alloc t v = sched_sorted key alloc t v'.
Proof. intros N P. unfold sched_sorted. now rewrite (sort_by_perm key v v' N P). Qed.
