(* Proofs/SortedPerm.v — equivariance of the greedy sorting algorithm (Model/Sorted.v :: sorting_algorithm),
   used by C10_sorted_equivariant.

   Three incidental orders are permuted at once:
   * the session list (any Permutation; the priority keys are pairwise distinct);
   * the station order: `p : list nat` is a permutation of 0..N-1, position k of the new infrastructure holds the
     old station p[k]; every per-station vector of InfrastructureInfo and every column of the constraint matrix is
     permuted accordingly (perm_vec), and a session at old station i sits at new station `pos p i`;
   * the constraint rows (any Permutation of the (row, limit) pairs).
   Result: the new run returns exactly the old schedule with its entries permuted (perm_vec p out), i.e. the same
   map station -> pilot; an error is the same error. *)
From Coq Require Import ZArith QArith Qminmax Qabs List Bool String Lia Lqa Permutation Sorting.Sorted Setoid Morphisms.
From ACN Require Import Base.Num Base.ListX Gen.Sorted_Q Gen.SortedZ_Z Model.EVSE Model.Preproc Model.Sorted Proofs.Sorted Proofs.Preproc.
Import ListNotations.
Open Scope list_scope.
Open Scope Q_scope.

(* ============================================================================================
   1. permuting a vector
   ============================================================================================ *)
Definition perm_vec {A} (d : A) (p : list nat) (v : list A) : list A := map (fun j => nth j v d) p.

Fixpoint pos (p : list nat) (i : nat) : nat :=
  match p with
  | [] => O
  | j :: r => if Nat.eqb j i then O else S (pos r i)
  end.

Definition is_perm (p : list nat) (n : nat) : Prop := Permutation p (seq 0 n).

Lemma is_perm_length p n : is_perm p n -> List.length p = n.
Proof. intro H. rewrite (Permutation_length H). apply seq_length. Qed.
Lemma is_perm_NoDup p n : is_perm p n -> NoDup p.
Proof. intro H. eapply Permutation_NoDup; [symmetry; exact H|apply seq_NoDup]. Qed.
Lemma is_perm_In p n i : is_perm p n -> (In i p <-> (i < n)%nat).
Proof.
  intro H. split; intro I.
  - apply (Permutation_in _ H) in I. apply in_seq in I. lia.
  - apply (Permutation_in _ (Permutation_sym H)). apply in_seq. lia.
Qed.

Lemma perm_vec_length {A} (d : A) p v : List.length (perm_vec d p v) = List.length p.
Proof. apply map_length. Qed.

Lemma pos_lt p i : In i p -> (pos p i < List.length p)%nat.
Proof.
  induction p as [|j r IH]; simpl; intro I; [destruct I|].
  destruct (Nat.eqb j i) eqn:E; [lia|]. apply Nat.eqb_neq in E. destruct I as [I|I]; [congruence|].
  specialize (IH I). lia.
Qed.

Lemma nth_pos p i d : In i p -> nth (pos p i) p d = i.
Proof.
  induction p as [|j r IH]; simpl; intro I; [destruct I|].
  destruct (Nat.eqb j i) eqn:E; [now apply Nat.eqb_eq in E|].
  apply Nat.eqb_neq in E. destruct I as [I|I]; [congruence|auto].
Qed.

(* the entry of old station i is found at its new position *)
Lemma nth_perm_vec_pos {A} (d : A) p v i : In i p -> nth (pos p i) (perm_vec d p v) d = nth i v d.
Proof.
  intro I. unfold perm_vec.
  rewrite (nth_indep _ d (nth O v d)) by (rewrite map_length; now apply pos_lt).
  change (nth O v d) with ((fun j => nth j v d) O). rewrite map_nth. now rewrite nth_pos.
Qed.

Lemma perm_vec_upd {A} (d : A) p v i r :
  NoDup p -> In i p -> (i < List.length v)%nat ->
  perm_vec d p (upd i r v) = upd (pos p i) r (perm_vec d p v).
Proof.
  intros ND I L. induction p as [|j q IH]; [destruct I|].
  inversion ND as [|? ? Hn ND']; subst. cbn [perm_vec map pos].
  destruct (Nat.eqb j i) eqn:E.
  - apply Nat.eqb_eq in E. subst j. cbn [upd]. rewrite nth_upd_same by exact L. f_equal.
    apply map_ext_in. intros a Ia. apply nth_upd_other. intro X. subst. contradiction.
  - apply Nat.eqb_neq in E. destruct I as [I|I]; [congruence|].
    cbn [upd]. rewrite nth_upd_other by (intro X; apply E; now symmetry). f_equal. now apply IH.
Qed.

Lemma perm_vec_repeat {A} (d : A) p n : perm_vec d p (repeat d n) = repeat d (List.length p).
Proof. unfold perm_vec. induction p as [|j q IH]; simpl; auto. now rewrite nth_repeat, IH. Qed.

Lemma perm_vec_map2 {A B C} (f : A -> B -> C) da db dc p a b n :
  is_perm p n -> List.length a = n -> List.length b = n ->
  perm_vec dc p (map2 f a b) = map2 f (perm_vec da p a) (perm_vec db p b).
Proof.
  intros P La Lb.
  assert (G : forall j, (j < n)%nat -> nth j (map2 f a b) dc = f (nth j a da) (nth j b db)).
  { subst n. clear P. revert b Lb. induction a as [|x a IH]; intros [|y b] Lb j Hj; simpl in *; try lia.
    destruct j; auto. apply IH; lia. }
  assert (Q : forall q, (forall j, In j q -> (j < n)%nat) ->
              perm_vec dc q (map2 f a b) = map2 f (perm_vec da q a) (perm_vec db q b)).
  { induction q as [|j q IH]; intro H; cbn [perm_vec map map2]; auto.
    rewrite G by (apply H; now left). f_equal. apply IH. intros x Ix. apply H. now right. }
  apply Q. intros j Ij. now apply (is_perm_In p n j P).
Qed.

(* ---- sums are permutation-invariant ---- *)
Lemma Qsum_perm_eq l1 l2 : Permutation l1 l2 -> Qsum l1 == Qsum l2.
Proof. induction 1; simpl; try ring; [now rewrite IHPermutation|now rewrite IHPermutation1]. Qed.

Lemma dot_as_sum c x : dot c x == Qsum (map (fun j => nth j c 0 * nth j x 0) (seq 0 (List.length x))).
Proof.
  revert c. induction x as [|y x IH]; intro c; [destruct c; reflexivity|].
  destruct c as [|a c].
  - cbn [dot List.length seq map]. assert (E : forall l, Qsum (map (fun j => nth j [] 0 * nth j (y :: x) 0) l) == 0).
    { induction l as [|j l IHl]; simpl; [reflexivity|]. rewrite IHl. destruct j; ring. }
    rewrite (E (seq 0 (S (List.length x)))). reflexivity.
  - cbn [dot List.length seq map Qsum nth]. rewrite IH, <- seq_shift, map_map. reflexivity.
Qed.

Lemma dot_perm_vec p n c x :
  is_perm p n -> List.length x = n -> dot (perm_vec 0 p c) (perm_vec 0 p x) == dot c x.
Proof.
  intros P L. rewrite !dot_as_sum, perm_vec_length, (is_perm_length _ _ P), L.
  assert (E : map (fun k => nth k (perm_vec 0 p c) 0 * nth k (perm_vec 0 p x) 0) (seq 0 n)
              = map (fun j => nth j c 0 * nth j x 0) p).
  { rewrite <- (is_perm_length _ _ P). unfold perm_vec. clear. induction p as [|j q IH]; [reflexivity|].
    cbn [List.length seq map nth]. f_equal. rewrite <- seq_shift, map_map. exact IH. }
  rewrite E. apply Qsum_perm_eq. apply Permutation_map. exact P.
Qed.

(* ============================================================================================
   2. the permuted infrastructure and the feasibility check on it
   ============================================================================================ *)
Definition infra_shape (inf : infra) : Prop :=
  let n := n_stations inf in
  List.length (i_cos inf) = n /\ List.length (i_sin inf) = n
  /\ (forall row, In row (i_A inf) -> List.length row = n)
  /\ List.length (i_A inf) = List.length (i_L inf).

Record infra_perm (p : list nat) (inf inf' : infra) : Prop := {
  ip_cos : i_cos inf' = perm_vec 0 p (i_cos inf);
  ip_sin : i_sin inf' = perm_vec 0 p (i_sin inf);
  ip_volt : i_volt inf' = perm_vec 0 p (i_volt inf);
  ip_maxp : i_maxp inf' = perm_vec 0 p (i_maxp inf);
  ip_minp : i_minp inf' = perm_vec 0 p (i_minp inf);
  ip_allow : i_allow inf' = perm_vec [] p (i_allow inf);
  ip_cont : i_cont inf' = perm_vec true p (i_cont inf);
  (* the constraints: the same (row, limit) pairs in any order, every row with its columns permuted *)
  ip_rows : Permutation (combine (i_A inf') (i_L inf'))
                        (map (fun rl => (perm_vec 0 p (fst rl), snd rl)) (combine (i_A inf) (i_L inf)))
}.

Lemma map2_combine {A B C} (f : A -> B -> C) a b : map2 f a b = map (fun ab => f (fst ab) (snd ab)) (combine a b).
Proof. revert b; induction a as [|x a IH]; intros [|y b]; simpl; auto. now rewrite IH. Qed.

Lemma forallb_perm_eq {A} (f : A -> bool) l1 l2 : Permutation l1 l2 -> forallb f l1 = forallb f l2.
Proof.
  induction 1; simpl; auto; [now rewrite IHPermutation| |congruence].
  destruct (f x), (f y); reflexivity.
Qed.

Lemma forallb_map' {A B} (f : B -> bool) (g : A -> B) l : forallb f (map g l) = forallb (fun a => f (g a)) l.
Proof. induction l; simpl; congruence. Qed.
Lemma forallb_ext_in' {A} (f g : A -> bool) l : (forall a, In a l -> f a = g a) -> forallb f l = forallb g l.
Proof.
  induction l as [|a l IH]; simpl; intro H; auto. rewrite (H a (or_introl eq_refl)), IH; auto.
Qed.

Lemma feasQ_perm p inf inf' x :
  is_perm p (n_stations inf) -> infra_shape inf -> infra_perm p inf inf' ->
  List.length x = n_stations inf ->
  feasQ inf' (perm_vec 0 p x) = feasQ inf x.
Proof.
  intros P [Lc [Ls [Lr _]]] IP Lx. unfold feasQ, feas_rows, prep_rows.
  rewrite !map2_combine.
  set (mk := fun (cs sn : list Q) (ab : list Q * Q) =>
               {| cr_re := map2 (fun v c => Qred (v * c)) (fst ab) cs;
                  cr_im := map2 (fun v s => Qred (v * s)) (fst ab) sn; cr_lim := snd ab |}).
  change (forallb (row_ok (perm_vec 0 p x)) (map (mk (i_cos inf') (i_sin inf')) (combine (i_A inf') (i_L inf')))
          = forallb (row_ok x) (map (mk (i_cos inf) (i_sin inf)) (combine (i_A inf) (i_L inf)))).
  rewrite (forallb_perm_eq _ _ _ (Permutation_map (mk (i_cos inf') (i_sin inf')) (ip_rows _ _ _ IP))).
  rewrite map_map, !forallb_map'.
  apply forallb_ext_in'. intros [row l] I. cbn [fst snd].
  assert (Lrow : List.length row = n_stations inf).
  { apply Lr. apply in_combine_l in I. exact I. }
  unfold mk, row_ok, norm_within, Qleb. cbn [cr_re cr_im cr_lim fst snd].
  rewrite (ip_cos _ _ _ IP), (ip_sin _ _ _ IP).
  rewrite <- !(perm_vec_map2 _ 0 0 0 p _ _ (n_stations inf) P Lrow) by assumption.
  f_equal. apply Qleb_comp; [|reflexivity].
  rewrite !(dot_perm_vec p (n_stations inf)) by assumption. reflexivity.
Qed.

(* ============================================================================================
   3. sessions on the permuted infrastructure; the sort
   ============================================================================================ *)
Definition relabel (p : list nat) (s : session) : session :=
  {| s_station := pos p (s_station s); s_id := s_id s; s_req := s_req s; s_del := s_del s; s_arr := s_arr s;
     s_dep := s_dep s; s_edep := s_edep s; s_cur := s_cur s; s_min := s_min s; s_max := s_max s |}.

(* stable sort of a list whose keys are pairwise distinct: determined by the set of elements *)
Lemma sorted_perm_unique {A} (R : A -> A -> Prop) l1 : forall l2,
  StronglySorted R l1 -> StronglySorted R l2 -> Permutation l1 l2 ->
  (forall a b, In a l1 -> In b l1 -> R a b -> R b a -> a = b) ->
  l1 = l2.
Proof.
  induction l1 as [|a l1 IH]; intros l2 S1 S2 P Anti.
  - apply Permutation_nil in P. now subst.
  - destruct l2 as [|b l2]; [apply Permutation_sym, Permutation_nil in P; discriminate|].
    inversion S1 as [|? ? S1' F1]; subst. inversion S2 as [|? ? S2' F2]; subst.
    rewrite Forall_forall in F1, F2.
    assert (E : a = b).
    { assert (Ia : In a (b :: l2)) by (apply (Permutation_in _ P); now left).
      assert (Ib : In b (a :: l1)) by (apply (Permutation_in _ (Permutation_sym P)); now left).
      destruct Ia as [->|Ia]; auto. destruct Ib as [->|Ib]; auto.
      apply Anti; [now left|now right|now apply F1|now apply F2]. }
    subst b. f_equal. apply IH; auto.
    + now apply Permutation_cons_inv in P.
    + intros x y Ix Iy. apply Anti; now right.
Qed.

Lemma sort_by_perm_invariant {A} (key : A -> Q) rev l l' :
  Permutation l l' ->
  (forall a b, In a l -> In b l -> key a == key b -> a = b) ->
  sort_by key rev l = sort_by key rev l'.
Proof.
  intros P D. apply (sorted_perm_unique (key_le key rev)).
  - apply sort_by_sorted.
  - apply sort_by_sorted.
  - rewrite !sort_by_perm. exact P.
  - intros a b Ia Ib Rab Rba.
    apply (Permutation_in _ (sort_by_perm key rev l)) in Ia.
    apply (Permutation_in _ (sort_by_perm key rev l)) in Ib.
    apply D; auto. unfold key_le in *. destruct rev; lra.
Qed.

Lemma sort_by_map {A B} (f : A -> B) (key : A -> Q) (key' : B -> Q) rev l :
  (forall a, In a l -> key' (f a) = key a) -> sort_by key' rev (map f l) = map f (sort_by key rev l).
Proof.
  unfold sort_by, stable_sort.
  set (le := fun x y : A => if rev then Qleb (key y) (key x) else Qleb (key x) (key y)).
  set (le' := fun x y : B => if rev then Qleb (key' y) (key' x) else Qleb (key' x) (key' y)).
  assert (I : forall x m, key' (f x) = key x -> (forall y, In y m -> key' (f y) = key y) ->
              insert_stable le' (f x) (map f m) = map f (insert_stable le x m)).
  { intros x m Kx Km. induction m as [|y m IH]; [reflexivity|]. cbn [map insert_stable].
    assert (E : le' (f x) (f y) = le x y).
    { unfold le, le'. rewrite Kx, (Km y (or_introl eq_refl)). reflexivity. }
    rewrite E. destruct (le x y); [reflexivity|]. cbn [map]. rewrite IH; auto. intros z Iz. apply Km. now right. }
  induction l as [|x l IH]; intro K; [reflexivity|]. cbn [map fold_right].
  rewrite IH by (intros a Ia; apply K; now right).
  apply I; [apply K; now left|].
  intros y Iy. apply K. right. apply (Permutation_in _ (stable_sort_perm le l)). exact Iy.
Qed.

(* ============================================================================================
   3b. the total number of round-robin levels does not depend on the station order
   ============================================================================================ *)
Lemma skipn_nth_cons {A} (u : list A) k d : (k < List.length u)%nat -> skipn k u = nth k u d :: skipn (S k) u.
Proof.
  revert k; induction u as [|a u IH]; intros k L; simpl in L; [lia|].
  destruct k; [reflexivity|]. cbn [skipn nth]. apply IH. lia.
Qed.

Lemma sum_lengths_perm_vec {A} (p : list nat) n (t : list (list A)) :
  is_perm p n -> List.length t = n ->
  fold_right (fun l m => (List.length l + m)%nat) O (perm_vec [] p t)
  = fold_right (fun l m => (List.length l + m)%nat) O t.
Proof.
  intros P L.
  assert (S1 : forall q, fold_right (fun l m => (List.length l + m)%nat) O (perm_vec [] q t)
                         = fold_right (fun j m => (List.length (nth j t []) + m)%nat) O q).
  { induction q as [|j q IH]; simpl; auto. }
  assert (S2 : forall q q', Permutation q q' ->
               fold_right (fun j m => (List.length (nth j t []) + m)%nat) O q
               = fold_right (fun j m => (List.length (nth j t []) + m)%nat) O q').
  { induction 1; simpl; lia. }
  rewrite S1, (S2 _ _ P). subst n. clear.
  assert (G : forall (u : list (list A)) k,
            fold_right (fun j m => (List.length (nth j u []) + m)%nat) O (seq k (List.length u - k) )
            = fold_right (fun l m => (List.length l + m)%nat) O (skipn k u)).
  { intros u k. remember (List.length u - k)%nat as d. revert k Heqd.
    induction d as [|d IH]; intros k Hd.
    - simpl. rewrite skipn_all2 by lia. reflexivity.
    - cbn [seq fold_right]. rewrite (IH (S k)) by lia.
      assert (Lk : (k < List.length u)%nat) by lia.
      rewrite (skipn_nth_cons u k [] Lk). reflexivity. }
  specialize (G t O). rewrite Nat.sub_0_r in G. exact G.
Qed.

(* ============================================================================================
   3c. run_preprocessing and the presentation order of the sessions (one infrastructure)
   ============================================================================================ *)
Lemma filter_perm {A} (g : A -> bool) l l' : Permutation l l' -> Permutation (filter g l) (filter g l').
Proof.
  induction 1; simpl; auto.
  - destruct (g x); auto.
  - destruct (g x), (g y); auto. apply perm_swap.
  - eapply perm_trans; eauto.
Qed.

Lemma apply_bound_ident st s : ident (apply_bound st s) = ident s /\ True.
Proof. split; auto. unfold apply_bound. destruct (zassoc (s_id s) st); reflexivity. Qed.

Section PreprocPerm.
  Variable feasible : list Q -> bool.
  Variable inf : infra.
  Variable period : Q.

  (* the estimator only reads and writes the entry of the session it is asked about *)
  Definition ramp_val (rp : ramp) (cur : option Q) (s : session) : Q :=
    let mp := nthQ (i_maxp inf) (s_station s) in
    let c := match cur with Some u => u | None => mp end in
    match zassoc (s_id s) (r_prev_pilot rp) with
    | None => c
    | Some pp => ramp_update rp mp pp (match zassoc (s_id s) (r_prev_rate rp) with Some x => x | None => 0 end) c
    end.

  Lemma ramp_one_zassoc rp st s k :
    zassoc k (ramp_one inf rp st s)
    = if Z.eqb k (s_id s) then Some (ramp_val rp (zassoc (s_id s) st) s) else zassoc k st.
  Proof.
    unfold ramp_one, ramp_val.
    set (mp := nthQ (i_maxp inf) (s_station s)).
    destruct (zassoc (s_id s) st) as [u|] eqn:E0.
    - destruct (zassoc (s_id s) (r_prev_pilot rp)) as [pp|].
      + rewrite zassoc_set_spec, E0. reflexivity.
      + destruct (Z.eqb k (s_id s)) eqn:Ek; auto. apply Z.eqb_eq in Ek. now subst k.
    - assert (E1 : zassoc (s_id s) (zassoc_set (s_id s) mp st) = Some mp) by (rewrite zassoc_set_spec, Z.eqb_refl; reflexivity).
      destruct (zassoc (s_id s) (r_prev_pilot rp)) as [pp|].
      + rewrite zassoc_set_spec, E1. destruct (Z.eqb k (s_id s)) eqn:Ek; auto.
        rewrite zassoc_set_spec, Ek. reflexivity.
      + rewrite zassoc_set_spec. reflexivity.
  Qed.

  Definition store_eq (a b : list (Z * Q)) : Prop := forall k, zassoc k a = zassoc k b.

  Lemma ramp_fold_cong rp l : forall a b, store_eq a b ->
    store_eq (fold_left (ramp_one inf rp) l a) (fold_left (ramp_one inf rp) l b).
  Proof.
    induction l as [|s l IH]; intros a b E; [exact E|]. cbn [fold_left]. apply IH.
    intro k. rewrite !ramp_one_zassoc, (E (s_id s)), (E k). reflexivity.
  Qed.

  Lemma rampdown_perm rp l1 l2 : Permutation l1 l2 -> NoDup (map s_id l1) ->
    forall st, store_eq (fold_left (ramp_one inf rp) l1 st) (fold_left (ramp_one inf rp) l2 st).
  Proof.
    induction 1 as [|x l l' Pm IH|x y l|l l' l'' P1 IH1 P2 IH2]; intros ND st.
    - intro k. reflexivity.
    - cbn [fold_left]. apply IH. now inversion ND.
    - cbn [fold_left]. apply ramp_fold_cong. intro k. rewrite !ramp_one_zassoc.
      assert (Ne : s_id y <> s_id x).
      { inversion ND as [|? ? Hn _]; subst. intro E. apply Hn. left. now symmetry. }
      destruct (Z.eqb k (s_id x)) eqn:Ex, (Z.eqb k (s_id y)) eqn:Ey; auto.
      + apply Z.eqb_eq in Ex. apply Z.eqb_eq in Ey. congruence.
      + rewrite (proj2 (Z.eqb_neq (s_id x) (s_id y))) by congruence. reflexivity.
      + rewrite (proj2 (Z.eqb_neq (s_id y) (s_id x))) by congruence. reflexivity.
    - intro k. rewrite (IH1 ND st k). apply IH2.
      eapply Permutation_NoDup; [apply Permutation_map; exact P1|exact ND].
  Qed.

  Lemma ids_filter_map g l : map s_id (enforce_pilot_limit inf (filter g l)) = map s_id (filter g l).
  Proof. unfold enforce_pilot_limit. rewrite map_map. reflexivity. Qed.

  Lemma pre_store_perm est ss1 ss2 : Permutation ss1 ss2 -> NoDup (map s_id ss1) ->
    store_eq (pre_store inf period est ss1) (pre_store inf period est ss2).
  Proof.
    intros Pm ND. unfold pre_store. destruct est as [rp|]; [|intro k; reflexivity].
    unfold rampdown. apply rampdown_perm.
    - unfold enforce_pilot_limit. apply Permutation_map. unfold remove_finished_sessions. now apply filter_perm.
    - unfold remove_finished_sessions. rewrite ids_filter_map. now apply NoDup_map_filter.
  Qed.

  Lemma apply_bound_ext a b s : zassoc (s_id s) a = zassoc (s_id s) b -> apply_bound a s = apply_bound b s.
  Proof. intro E. unfold apply_bound. now rewrite E. Qed.

  Lemma pre_stage3_perm est ss1 ss2 s : Permutation ss1 ss2 -> NoDup (map s_id ss1) ->
    pre_stage3 inf period est ss1 s = pre_stage3 inf period est ss2 s.
  Proof.
    intros Pm ND. unfold pre_stage3. destruct est; auto. apply apply_bound_ext.
    apply (pre_store_perm _ _ _ Pm ND).
  Qed.

  (* the preprocessed list does not depend on the presentation order (up to order when no minimum rates are
     applied, exactly when they are: apply_minimum_charging_rate sorts by remaining time) *)
  Theorem run_preprocessing_perm est unint ss1 ss2 :
    Permutation ss1 ss2 -> NoDup (map s_id ss1) ->
    (unint = true -> forall a b, In a ss1 -> In b ss1 -> remaining_time a = remaining_time b -> a = b) ->
    Permutation (fst (run_preprocessing feasible inf period est unint ss1))
                (fst (run_preprocessing feasible inf period est unint ss2))
    /\ store_eq (snd (run_preprocessing feasible inf period est unint ss1))
                (snd (run_preprocessing feasible inf period est unint ss2)).
  Proof.
    intros Pm ND Drt. split; [|rewrite !run_preprocessing_store; now apply pre_store_perm].
    rewrite !run_preprocessing_fst. cbv zeta.
    set (r1 := remove_finished_sessions inf period ss1). set (r2 := remove_finished_sessions inf period ss2).
    assert (Pr : Permutation r1 r2) by (unfold r1, r2, remove_finished_sessions; now apply filter_perm).
    assert (P3 : Permutation (map (pre_stage3 inf period est ss1) r1) (map (pre_stage3 inf period est ss2) r2)).
    { rewrite (map_ext _ _ (fun s => pre_stage3_perm est ss1 ss2 s Pm ND)). now apply Permutation_map. }
    destruct unint; [|exact P3].
    unfold apply_minimum_charging_rate.
    rewrite (sort_by_perm_invariant _ false _ _ P3); [apply Permutation_refl|].
    intros a b Ia Ib E. apply in_map_iff in Ia. apply in_map_iff in Ib.
    destruct Ia as [a0 [<- Ia0]]. destruct Ib as [b0 [<- Ib0]].
    assert (Ra : forall x, remaining_time (pre_stage3 inf period est ss1 x) = remaining_time x).
    { intro x. pose proof (pre_stage3_ident inf period est ss1 x) as I. unfold ident in I.
      injection I as _ _ _ _ H5 H6 _ H8. unfold remaining_time. now rewrite H5, H6, H8. }
    rewrite !Ra in E. apply Qeq_eq_bool in E. 
    assert (E' : remaining_time a0 = remaining_time b0).
    { apply Qeq_bool_iff in E. unfold Qeq in E. cbn in E. lia. }
    unfold r1, remove_finished_sessions in Ia0, Ib0. apply filter_In in Ia0. apply filter_In in Ib0.
    now rewrite (Drt eq_refl a0 b0 (proj1 Ia0) (proj1 Ib0) E').
  Qed.
End PreprocPerm.

(* ============================================================================================
   4. the algorithm on the permuted data
   ============================================================================================ *)
Section Equivariance.
  Variable feasible feasible' : list Q -> bool.
  Variable inf inf' : infra.
  Variable p : list nat.
  Variable period : Q.
  Variable now : Z.
  Notation N := (n_stations inf).

  Hypothesis P : is_perm p N.
  Hypothesis IP : infra_perm p inf inf'.
  (* the two feasibility checks agree on corresponding vectors *)
  Hypothesis Feq : forall x, List.length x = N -> feasible' (perm_vec 0 p x) = feasible x.

  Lemma n_stations' : n_stations inf' = N.
  Proof. unfold n_stations. rewrite (ip_maxp _ _ _ IP), perm_vec_length. now apply is_perm_length. Qed.

  Definition st_ok (s : session) : Prop := (s_station s < N)%nat.

  Lemma in_p s : st_ok s -> In (s_station s) p.
  Proof. intro H. now apply (is_perm_In p N). Qed.

  Lemma lookup_cont s : st_ok s -> nth (s_station (relabel p s)) (i_cont inf') true = nth (s_station s) (i_cont inf) true.
  Proof. intro H. rewrite (ip_cont _ _ _ IP). apply nth_perm_vec_pos. now apply in_p. Qed.
  Lemma lookup_allow s : st_ok s -> nth (s_station (relabel p s)) (i_allow inf') [] = nth (s_station s) (i_allow inf) [].
  Proof. intro H. rewrite (ip_allow _ _ _ IP). apply nth_perm_vec_pos. now apply in_p. Qed.
  Lemma lookup_maxp s : st_ok s -> nthQ (i_maxp inf') (s_station (relabel p s)) = nthQ (i_maxp inf) (s_station s).
  Proof. intro H. unfold nthQ. rewrite (ip_maxp _ _ _ IP). apply nth_perm_vec_pos. now apply in_p. Qed.
  Lemma lookup_volt s : st_ok s -> nthQ (i_volt inf') (s_station (relabel p s)) = nthQ (i_volt inf) (s_station s).
  Proof. intro H. unfold nthQ. rewrite (ip_volt _ _ _ IP). apply nth_perm_vec_pos. now apply in_p. Qed.

  Lemma rap_relabel s : st_ok s -> rap inf' period (relabel p s) = rap inf period s.
  Proof. intro H. unfold rap, rap_iface. rewrite lookup_volt by exact H. reflexivity. Qed.

  Lemma sort_key_relabel k s : st_ok s -> sort_key inf' period now k (relabel p s) = sort_key inf period now k s.
  Proof.
    intro H. unfold sort_key, max_pilot_signal. fold (rap inf' period (relabel p s)). fold (rap inf period s).
    rewrite rap_relabel, lookup_maxp by exact H. reflexivity.
  Qed.

  Lemma g_ub_relabel s : st_ok s -> g_ub inf' period (relabel p s) = g_ub inf period s.
  Proof. intro H. unfold g_ub. fold (rap inf' period (relabel p s)). now rewrite rap_relabel. Qed.

  Lemma g_allowable_relabel s : st_ok s -> g_allowable inf' period (relabel p s) = g_allowable inf period s.
  Proof. intro H. unfold g_allowable. rewrite lookup_allow, g_ub_relabel by exact H. reflexivity. Qed.

  (* feasibility of "the vector with station i set to r" corresponds *)
  Lemma feas_upd s r x : st_ok s -> List.length x = N ->
    feasible' (upd (s_station (relabel p s)) r (perm_vec 0 p x)) = feasible (upd (s_station s) r x).
  Proof.
    intros H L. cbn [relabel s_station].
    rewrite <- perm_vec_upd; [|now apply (is_perm_NoDup p N)|now apply in_p|rewrite L; exact H].
    apply Feq. now rewrite upd_length.
  Qed.

  Lemma bisect_relabel s x eps : st_ok s -> List.length x = N -> forall fuel lo hi,
    bisect feasible' fuel (s_station (relabel p s)) (perm_vec 0 p x) eps lo hi
    = bisect feasible fuel (s_station s) x eps lo hi.
  Proof.
    intros H L. induction fuel as [|f IH]; intros lo hi; [reflexivity|]. cbn [bisect].
    rewrite feas_upd by assumption. rewrite !IH. reflexivity.
  Qed.

  Lemma walk_down_relabel s x l : st_ok s -> List.length x = N ->
    walk_down feasible' (s_station (relabel p s)) (perm_vec 0 p x) l = walk_down feasible (s_station s) x l.
  Proof.
    intros H L. induction l as [|a l IH]; [reflexivity|]. cbn [walk_down].
    rewrite feas_upd by assumption. now rewrite IH.
  Qed.

  Lemma greedy_rate_relabel s x : st_ok s -> List.length x = N ->
    greedy_rate feasible' inf' period (relabel p s) (perm_vec 0 p x) = greedy_rate feasible inf period s x.
  Proof.
    intros H L. unfold greedy_rate.
    rewrite lookup_cont, g_ub_relabel, g_allowable_relabel by exact H.
    change (g_lb (relabel p s)) with (g_lb s).
    destruct (nth (s_station s) (i_cont inf) true).
    - unfold max_feasible_rate. rewrite (Feq x L), feas_upd, bisect_relabel by assumption. reflexivity.
    - destruct (g_allowable inf period s); [reflexivity|].
      unfold discrete_max_feasible_rate. rewrite (Feq x L), walk_down_relabel by assumption. reflexivity.
  Qed.

  Lemma greedy_loop_relabel : forall q x,
    (forall s, In s q -> st_ok s) -> List.length x = N ->
    greedy_loop feasible' inf' period (map (relabel p) q) (perm_vec 0 p x)
    = res_map (perm_vec 0 p) (greedy_loop feasible inf period q x).
  Proof.
    induction q as [|s q IH]; intros x Hq L; [reflexivity|]. cbn [map greedy_loop].
    assert (Hs : st_ok s) by (apply Hq; now left).
    rewrite greedy_rate_relabel by assumption.
    destruct (greedy_rate feasible inf period s x) as [r|e]; [|reflexivity].
    cbn [relabel s_station].
    rewrite <- perm_vec_upd; [|now apply (is_perm_NoDup p N)|now apply in_p|rewrite L; exact Hs].
    apply IH; [intros s' I; apply Hq; now right|now rewrite upd_length].
  Qed.

  Lemma init_sched_relabel q :
    (forall s, In s q -> st_ok s) ->
    init_sched inf' g_init_lb (map (relabel p) q) = perm_vec 0 p (init_sched inf g_init_lb q).
  Proof.
    intro Hq. unfold init_sched. rewrite n_stations'.
    rewrite <- (is_perm_length p N P) at 1. rewrite <- (perm_vec_repeat 0 p N).
    assert (G : forall x, List.length x = N ->
              fold_left (fun sch s => upd (s_station s) (g_init_lb s) sch) (map (relabel p) q) (perm_vec 0 p x)
              = perm_vec 0 p (fold_left (fun sch s => upd (s_station s) (g_init_lb s) sch) q x)).
    { induction q as [|s q IH]; intros x L; [reflexivity|]. cbn [map fold_left].
      assert (Hs : st_ok s) by (apply Hq; now left).
      change (g_init_lb (relabel p s)) with (g_init_lb s). cbn [relabel s_station].
      rewrite <- perm_vec_upd; [|now apply (is_perm_NoDup p N)|now apply in_p|rewrite L; exact Hs].
      apply IH; [intros s' I; apply Hq; now right|now rewrite upd_length]. }
    apply G. apply repeat_length.
  Qed.

  (* the whole greedy algorithm: any presentation order of the sessions, permuted stations *)
  Theorem sorting_algorithm_equivariant k ss ss' :
    (forall s, In s ss -> st_ok s) ->
    Permutation ss' (map (relabel p) ss) ->
    (forall a b, In a ss -> In b ss ->
       sort_key inf period now k a == sort_key inf period now k b -> a = b) ->      (* distinct priority keys *)
    sorting_algorithm feasible' inf' period now k ss'
    = res_map (perm_vec 0 p) (sorting_algorithm feasible inf period now k ss).
  Proof.
    intros Hss Pss D. unfold sorting_algorithm.
    assert (D' : forall a b, In a ss' -> In b ss' ->
                 sort_key inf' period now k a == sort_key inf' period now k b -> a = b).
    { intros a b Ia Ib E.
      apply (Permutation_in _ Pss) in Ia. apply (Permutation_in _ Pss) in Ib.
      apply in_map_iff in Ia. apply in_map_iff in Ib.
      destruct Ia as [a0 [<- Ia0]]. destruct Ib as [b0 [<- Ib0]].
      rewrite !sort_key_relabel in E by (now apply Hss). now rewrite (D a0 b0 Ia0 Ib0 E). }
    assert (Esort : sort_sessions inf' period now k ss' = map (relabel p) (sort_sessions inf period now k ss)).
    { unfold sort_sessions.
      rewrite (sort_by_perm_invariant _ _ ss' (map (relabel p) ss) Pss D').
      apply sort_by_map. intros a Ia. apply sort_key_relabel. now apply Hss. }
    rewrite Esort.
    set (q := sort_sessions inf period now k ss).
    assert (Hq : forall s, In s q -> st_ok s).
    { intros s I. apply Hss. eapply Permutation_in; [apply sort_by_perm|exact I]. }
    rewrite init_sched_relabel by exact Hq.
    assert (L0 : List.length (init_sched inf g_init_lb q) = N).
    { unfold init_sched. now rewrite fold_upd_length, repeat_length. }
    rewrite (Feq _ L0).
    destruct (feasible (init_sched inf g_init_lb q)); cbn [negb]; [|reflexivity].
    now apply greedy_loop_relabel.
  Qed.
  (* ---------------------------------------------------------------------------------------
     round robin
     --------------------------------------------------------------------------------------- *)
  Lemma rr_levels_relabel inc s base : st_ok s ->
    rr_levels_of inf' period inc base (relabel p s) = rr_levels_of inf period inc base s.
  Proof.
    intro H. unfold rr_levels_of, rr_ub, rr_lb.
    fold (rap inf' period (relabel p s)). fold (rap inf period s).
    rewrite lookup_cont, rap_relabel by exact H.
    change (nthQ (i_maxp inf') (s_station (relabel p s))) with (nthQ (i_maxp inf') (s_station (relabel p s))).
    rewrite lookup_maxp by exact H. reflexivity.
  Qed.

  Lemma rr_init_step_relabel inc levels sched s :
    st_ok s -> List.length levels = N -> List.length sched = N ->
    rr_init_step inf' period inc (perm_vec [] p levels, perm_vec 0 p sched) (relabel p s)
    = (perm_vec [] p (fst (rr_init_step inf period inc (levels, sched) s)),
       perm_vec 0 p (snd (rr_init_step inf period inc (levels, sched) s))).
  Proof.
    intros H Ll Ls. unfold rr_init_step. cbn [fst snd].
    assert (Ip := in_p s H). assert (ND := is_perm_NoDup p N P).
    change (s_station (relabel p s)) with (pos p (s_station s)).
    rewrite (nth_perm_vec_pos [] p levels _ Ip).
    change (pos p (s_station s)) with (s_station (relabel p s)) at 1.
    rewrite rr_levels_relabel by exact H.
    cbn [relabel s_station].
    rewrite <- !perm_vec_upd; auto; [rewrite Ls|rewrite Ll]; exact H.
  Qed.

  Lemma rr_init_lengths inc q : forall levels sched,
    List.length (fst (fold_left (rr_init_step inf period inc) q (levels, sched))) = List.length levels
    /\ List.length (snd (fold_left (rr_init_step inf period inc) q (levels, sched))) = List.length sched.
  Proof.
    induction q as [|s q IH]; intros levels sched; [auto|]. cbn [fold_left].
    unfold rr_init_step at 2. destruct (IH (upd (s_station s) (rr_levels_of inf period inc (nth (s_station s) levels []) s) levels)
        (upd (s_station s) match rr_levels_of inf period inc (nth (s_station s) levels []) s with [] => 0 | a :: _ => a end sched)) as [A B].
    now rewrite !upd_length in *.
  Qed.

  Lemma rr_init_relabel inc q : forall levels sched,
    (forall s, In s q -> st_ok s) -> List.length levels = N -> List.length sched = N ->
    fold_left (rr_init_step inf' period inc) (map (relabel p) q) (perm_vec [] p levels, perm_vec 0 p sched)
    = (perm_vec [] p (fst (fold_left (rr_init_step inf period inc) q (levels, sched))),
       perm_vec 0 p (snd (fold_left (rr_init_step inf period inc) q (levels, sched)))).
  Proof.
    induction q as [|s q IH]; intros levels sched Hq Ll Ls; [reflexivity|]. cbn [map fold_left].
    rewrite rr_init_step_relabel; auto; [|apply Hq; now left].
    destruct (rr_init_step inf period inc (levels, sched) s) as [l1 s1] eqn:E. cbn [fst snd].
    assert (L1 : List.length l1 = N /\ List.length s1 = N).
    { unfold rr_init_step in E. injection E as <- <-. now rewrite !upd_length. }
    apply IH; [intros x Ix; apply Hq; now right|tauto|tauto].
  Qed.

  Lemma rr_loop_relabel : forall fuel q sched ridx levels log log',
    (forall s, In s q -> st_ok s) ->
    List.length sched = N -> List.length ridx = N -> List.length levels = N ->
    option_map fst (rr_loop feasible' fuel (map (relabel p) q) (perm_vec 0 p sched) (perm_vec O p ridx)
                            (perm_vec [] p levels) log')
    = option_map (fun r => perm_vec 0 p (fst r)) (rr_loop feasible fuel q sched ridx levels log).
  Proof.
    induction fuel as [|f IH]; intros q sched ridx levels log log' Hq Ls Lr Ll; [reflexivity|].
    destruct q as [|s q]; [reflexivity|]. cbn [map rr_loop].
    assert (Hs : st_ok s) by (apply Hq; now left).
    assert (Ip := in_p s Hs). assert (ND := is_perm_NoDup p N P).
    change (s_station (relabel p s)) with (pos p (s_station s)).
    rewrite (nth_perm_vec_pos [] p levels _ Ip), (nth_perm_vec_pos O p ridx _ Ip).
    set (i := s_station s). set (lv := nth i levels []). set (k := nth i ridx O).
    assert (Hq' : forall x, In x q -> st_ok x) by (intros x Ix; apply Hq; now right).
    destruct (RR_can_raise (Z.of_nat k) 0%Z 0%Z (Z.of_nat (List.length lv))).
    - rewrite <- (perm_vec_upd 0 p sched i) by (auto; rewrite Ls; exact Hs).
      rewrite Feq by now rewrite upd_length.
      destruct (feasible (upd i (nth (S k) lv 0) sched)).
      + rewrite <- (perm_vec_upd O p ridx i) by (auto; rewrite Lr; exact Hs).
        replace (map (relabel p) q ++ [relabel p s]) with (map (relabel p) (q ++ [s])) by (rewrite map_app; reflexivity).
        apply IH; rewrite ?upd_length; auto.
        intros x Ix. apply in_app_or in Ix. destruct Ix as [Ix|[<-|[]]]; auto.
      + rewrite <- (perm_vec_upd 0 p (upd i (nth (S k) lv 0) sched) i) by (auto; rewrite upd_length, Ls; exact Hs).
        apply IH; rewrite ?upd_length; auto.
    - apply IH; auto.
  Qed.

  Theorem round_robin_equivariant inc k ss ss' :
    List.length (i_allow inf) = N ->
    (forall s, In s ss -> st_ok s) ->
    Permutation ss' (map (relabel p) ss) ->
    (forall a b, In a ss -> In b ss ->
       sort_key inf period now k a == sort_key inf period now k b -> a = b) ->
    round_robin feasible' inf' period now inc k ss'
    = res_map (perm_vec 0 p) (round_robin feasible inf period now inc k ss).
  Proof.
    intros IL Hss Pss D. unfold round_robin, round_robin_full.
    assert (D' : forall a b, In a ss' -> In b ss' ->
                 sort_key inf' period now k a == sort_key inf' period now k b -> a = b).
    { intros a b Ia Ib E.
      apply (Permutation_in _ Pss) in Ia. apply (Permutation_in _ Pss) in Ib.
      apply in_map_iff in Ia. apply in_map_iff in Ib.
      destruct Ia as [a0 [<- Ia0]]. destruct Ib as [b0 [<- Ib0]].
      rewrite !sort_key_relabel in E by (now apply Hss). now rewrite (D a0 b0 Ia0 Ib0 E). }
    assert (Esort : sort_sessions inf' period now k ss' = map (relabel p) (sort_sessions inf period now k ss)).
    { unfold sort_sessions.
      rewrite (sort_by_perm_invariant _ _ ss' (map (relabel p) ss) Pss D').
      apply sort_by_map. intros a Ia. apply sort_key_relabel. now apply Hss. }
    rewrite Esort.
    set (q := sort_sessions inf period now k ss).
    assert (Hq : forall s, In s q -> st_ok s).
    { intros s I. apply Hss. eapply Permutation_in; [apply sort_by_perm|exact I]. }
    unfold rr_init. rewrite n_stations', (ip_allow _ _ _ IP).
    rewrite <- (is_perm_length p N P) at 1. rewrite <- (perm_vec_repeat 0 p N).
    rewrite rr_init_relabel; auto; [|apply repeat_length].
    destruct (rr_init_lengths inc q (i_allow inf) (repeat 0 N)) as [Ll Lsch].
    rewrite IL in Ll. rewrite repeat_length in Lsch.
    destruct (fold_left (rr_init_step inf period inc) q (i_allow inf, repeat 0 N)) as [levels s0] eqn:RI.
    cbn [fst snd] in *.
    rewrite (Feq s0 Lsch).
    destruct (feasible s0); cbn [negb]; [|reflexivity].
    assert (Ef : rr_fuel (map (relabel p) q) (perm_vec [] p levels) = rr_fuel q levels).
    { unfold rr_fuel. rewrite map_length, (sum_lengths_perm_vec p N levels P Ll). reflexivity. }
    rewrite Ef.
    assert (R0 : repeat O N = perm_vec O p (repeat O N)).
    { rewrite perm_vec_repeat, (is_perm_length p N P). reflexivity. }
    rewrite R0 at 1.
    pose proof (rr_loop_relabel (rr_fuel q levels) q s0 (repeat O N) levels [] [] Hq Lsch (repeat_length _ _) Ll) as H.
    destruct (rr_loop feasible' _ _ _ _ _ _) as [[o' l']|];
      destruct (rr_loop feasible _ _ _ _ _ _) as [[o l]|]; cbn in H; try discriminate; [|reflexivity].
    injection H as ->. reflexivity.
  Qed.
  (* ---------------------------------------------------------------------------------------
     run_preprocessing on the permuted infrastructure (same presentation order)
     --------------------------------------------------------------------------------------- *)
  Lemma lookup_minp s : st_ok s -> nthQ (i_minp inf') (s_station (relabel p s)) = nthQ (i_minp inf) (s_station s).
  Proof. intro H. unfold nthQ. rewrite (ip_minp _ _ _ IP). apply nth_perm_vec_pos. now apply in_p. Qed.

  Lemma filter_map_relabel (g' g : session -> bool) l :
    (forall s, In s l -> g' (relabel p s) = g s) -> filter g' (map (relabel p) l) = map (relabel p) (filter g l).
  Proof.
    induction l as [|s l IH]; intro H; [reflexivity|]. cbn [map filter].
    rewrite (H s (or_introl eq_refl)), IH by (intros x Ix; apply H; now right).
    destruct (g s); reflexivity.
  Qed.

  Lemma remove_finished_relabel l : (forall s, In s l -> st_ok s) ->
    remove_finished_sessions inf' period (map (relabel p) l) = map (relabel p) (remove_finished_sessions inf period l).
  Proof.
    intro H. unfold remove_finished_sessions. apply filter_map_relabel. intros s Is.
    rewrite lookup_minp, lookup_volt by (now apply H). reflexivity.
  Qed.

  Lemma enforce_relabel l : (forall s, In s l -> st_ok s) ->
    enforce_pilot_limit inf' (map (relabel p) l) = map (relabel p) (enforce_pilot_limit inf l).
  Proof.
    intro H. unfold enforce_pilot_limit. rewrite !map_map. apply map_ext_in. intros s Is.
    rewrite lookup_maxp by (now apply H). reflexivity.
  Qed.

  Lemma rampdown_relabel rp l : (forall s, In s l -> st_ok s) ->
    rampdown inf' rp (map (relabel p) l) = rampdown inf rp l.
  Proof.
    unfold rampdown. generalize (r_store rp). induction l as [|s l IH]; intros st H; [reflexivity|].
    cbn [map fold_left].
    assert (E : ramp_one inf' rp st (relabel p s) = ramp_one inf rp st s).
    { unfold ramp_one. rewrite lookup_maxp by (apply H; now left). reflexivity. }
    rewrite E. apply IH. intros x Ix. apply H. now right.
  Qed.

  Lemma apply_bound_relabel st s : apply_bound st (relabel p s) = relabel p (apply_bound st s).
  Proof. unfold apply_bound. cbn [relabel s_id]. destruct (zassoc (s_id s) st); reflexivity. Qed.

  Lemma min_rate_loop_relabel : forall q rates,
    (forall s, In s q -> st_ok s) -> List.length rates = N ->
    min_rate_loop feasible' inf' period (map (relabel p) q) (perm_vec 0 p rates)
    = (map (relabel p) (fst (min_rate_loop feasible inf period q rates)),
       perm_vec 0 p (snd (min_rate_loop feasible inf period q rates))).
  Proof.
    induction q as [|s q IH]; intros rates Hq L; [reflexivity|]. cbn [map min_rate_loop].
    assert (Hs : st_ok s) by (apply Hq; now left).
    assert (Ip := in_p s Hs). assert (ND := is_perm_NoDup p N P).
    rewrite lookup_minp by exact Hs.
    assert (Er : rap_utils inf' period (relabel p s) = rap_utils inf period s).
    { unfold rap_utils. rewrite lookup_volt by exact Hs. reflexivity. }
    rewrite Er. set (r := nthQ (i_minp inf) (s_station s)).
    cbn [relabel s_station].
    rewrite <- (perm_vec_upd 0 p rates (s_station s) r) by (auto; rewrite L; exact Hs).
    rewrite Feq by now rewrite upd_length.
    assert (Hq' : forall x, In x q -> st_ok x) by (intros x Ix; apply Hq; now right).
    destruct (Pre_min_ok r 0 0 period 0 (feasible (upd (s_station s) r rates)) (rap_utils inf period s)).
    - rewrite IH by (auto; now rewrite upd_length).
      destruct (min_rate_loop feasible inf period q (upd (s_station s) r rates)) as [o f]. reflexivity.
    - rewrite <- (perm_vec_upd 0 p (upd (s_station s) r rates) (s_station s) 0) by (auto; rewrite upd_length, L; exact Hs).
      rewrite IH by (auto; now rewrite !upd_length).
      destruct (min_rate_loop feasible inf period q (upd (s_station s) 0 (upd (s_station s) r rates))) as [o f]. reflexivity.
  Qed.

  Lemma apply_minimum_relabel l : (forall s, In s l -> st_ok s) ->
    apply_minimum_charging_rate feasible' inf' period (map (relabel p) l)
    = map (relabel p) (apply_minimum_charging_rate feasible inf period l).
  Proof.
    intro H. unfold apply_minimum_charging_rate.
    rewrite (sort_by_map (relabel p) (fun s => inject_Z (remaining_time s)) (fun s => inject_Z (remaining_time s)) false l)
      by reflexivity.
    rewrite n_stations'. rewrite <- (is_perm_length p N P) at 1. rewrite <- (perm_vec_repeat 0 p N).
    rewrite min_rate_loop_relabel; [reflexivity| |apply repeat_length].
    intros s I. apply H. eapply Permutation_in; [apply sort_by_perm|exact I].
  Qed.

  Theorem run_preprocessing_relabel est unint ss : (forall s, In s ss -> st_ok s) ->
    run_preprocessing feasible' inf' period est unint (map (relabel p) ss)
    = (map (relabel p) (fst (run_preprocessing feasible inf period est unint ss)),
       snd (run_preprocessing feasible inf period est unint ss)).
  Proof.
    intro H. unfold run_preprocessing.
    rewrite remove_finished_relabel by exact H.
    set (r1 := remove_finished_sessions inf period ss).
    assert (H1 : forall s, In s r1 -> st_ok s).
    { intros s I. unfold r1, remove_finished_sessions in I. apply filter_In in I. now apply H. }
    rewrite enforce_relabel by exact H1.
    set (r2 := enforce_pilot_limit inf r1).
    assert (H2 : forall s, In s r2 -> st_ok s).
    { intros s I. unfold r2, enforce_pilot_limit in I. apply in_map_iff in I. destruct I as [x [<- Ix]].
      unfold st_ok. cbn [s_station set_max]. now apply H1. }
    destruct est as [rp|].
    - rewrite rampdown_relabel by exact H2.
      unfold apply_upper_bound_estimate. rewrite map_map.
      rewrite (map_ext _ _ (apply_bound_relabel (rampdown inf rp r2))), <- map_map.
      set (r3 := map (apply_bound (rampdown inf rp r2)) r2).
      assert (H3 : forall s, In s r3 -> st_ok s).
      { intros s I. unfold r3 in I. apply in_map_iff in I. destruct I as [x [<- Ix]].
        unfold st_ok. rewrite (ident_station _ _ (proj1 (apply_bound_ident _ x))). now apply H2. }
      destruct unint; cbn [fst snd]; [rewrite apply_minimum_relabel by exact H3|]; reflexivity.
    - destruct unint; cbn [fst snd]; [rewrite apply_minimum_relabel by exact H2|]; reflexivity.
  Qed.
  (* ---------------------------------------------------------------------------------------
     the whole schedule(): preprocessing + algorithm + format_array_schedule
     --------------------------------------------------------------------------------------- *)
  Lemma rr_loop_length : forall fuel q sched ridx levels log o l,
    rr_loop feasible fuel q sched ridx levels log = Some (o, l) -> List.length o = List.length sched.
  Proof.
    induction fuel as [|f IH]; intros q sched ridx levels log o l H; [discriminate|]. cbn [rr_loop] in H.
    destruct q as [|s q]; [now injection H as <- _|].
    destruct (RR_can_raise _ _ _ _).
    - destruct (feasible _); apply IH in H; now rewrite ?upd_length in H.
    - now apply IH in H.
  Qed.

  Lemma round_robin_length inc k ss out :
    round_robin feasible inf period now inc k ss = Ok out -> List.length out = N.
  Proof.
    unfold round_robin, round_robin_full, rr_init. intro H.
    destruct (rr_init_lengths inc (sort_sessions inf period now k ss) (i_allow inf) (repeat 0 N)) as [_ L].
    destruct (fold_left _ _ _) as [levels s0]. cbn [snd] in L. rewrite repeat_length in L.
    destruct (negb (feasible s0)); [discriminate|].
    destruct (rr_loop _ _ _ _ _ _ _) as [[o l]|] eqn:R; [|discriminate].
    cbn in H. injection H as <-. apply rr_loop_length in R. congruence.
  Qed.

  Lemma sorting_algorithm_length k ss out :
    sorting_algorithm feasible inf period now k ss = Ok out -> List.length out = N.
  Proof.
    unfold sorting_algorithm. intro H. destruct (negb _); [discriminate|].
    apply greedy_loop_length in H. rewrite H. unfold init_sched. now rewrite fold_upd_length, repeat_length.
  Qed.

  Lemma sort_key_ident k a b : ident a = ident b -> sort_key inf period now k a = sort_key inf period now k b.
  Proof.
    intro E. pose proof (ident_rap inf period a b E) as R. unfold ident in E.
    injection E as E1 _ _ _ E5 _ E7 _.
    unfold sort_key, max_pilot_signal. fold (rap inf period a). fold (rap inf period b).
    now rewrite R, E1, E5, E7.
  Qed.

  Theorem schedule_equivariant cfg ss ss' :
    c_period cfg = period -> c_now cfg = now ->
    List.length (i_allow inf) = N ->
    (forall s, In s ss -> st_ok s) ->
    Permutation ss' (map (relabel p) ss) ->
    NoDup (map s_id ss) ->
    (forall a b, In a ss -> In b ss ->
       sort_key inf period now (c_sort cfg) a == sort_key inf period now (c_sort cfg) b -> s_id a = s_id b) ->
    (c_unint cfg = true -> forall a b, In a ss -> In b ss -> remaining_time a = remaining_time b -> a = b) ->
    so_result (schedule_with feasible' inf' cfg ss')
    = res_map (perm_vec 0 p) (so_result (schedule_with feasible inf cfg ss)).
  Proof.
    intros Ep En IL Hss Pss NDid Dk Drt. unfold schedule_with. rewrite Ep, En.
    set (est := c_est cfg). set (un := c_unint cfg).
    (* preprocessing: relabel, then re-order *)
    pose proof (run_preprocessing_relabel est un ss Hss) as Rl.
    assert (ND' : NoDup (map s_id (map (relabel p) ss))) by (rewrite map_map; exact NDid).
    assert (Drt' : un = true -> forall a b, In a (map (relabel p) ss) -> In b (map (relabel p) ss) ->
                   remaining_time a = remaining_time b -> a = b).
    { intros U a b Ia Ib E. apply in_map_iff in Ia. apply in_map_iff in Ib.
      destruct Ia as [a0 [<- Ia0]]. destruct Ib as [b0 [<- Ib0]].
      now rewrite (Drt U a0 b0 Ia0 Ib0 E). }
    destruct (run_preprocessing_perm feasible' inf' period est un (map (relabel p) ss) ss'
                (Permutation_sym Pss) ND' Drt') as [Pp _].
    rewrite Rl in Pp. cbn [fst] in Pp.
    destruct (run_preprocessing feasible inf period est un ss) as [pre store] eqn:RP.
    destruct (run_preprocessing feasible' inf' period est un ss') as [pre' store'] eqn:RP'.
    cbn [fst snd so_result] in *.
    assert (Epre : pre = fst (run_preprocessing feasible inf period est un ss)) by now rewrite RP.
    assert (SOp : forall s, In s pre -> st_ok s).
    { rewrite Epre. apply (preproc_stations_ok feasible inf period est un ss). exact Hss. }
    assert (Pid : Permutation (map ident pre) (map ident (remove_finished_sessions inf period ss))).
    { rewrite Epre. apply preproc_idents. }
    assert (Orig : forall a, In a pre -> exists a0, In a0 ss /\ ident a = ident a0).
    { intros a Ia. apply (in_map ident) in Ia. apply (Permutation_in _ Pid) in Ia. apply in_map_iff in Ia.
      destruct Ia as [a0 [E I0]]. apply filter_In in I0. exists a0. split; [tauto|now symmetry]. }
    assert (NDp : NoDup (map s_id pre)).
    { assert (M : forall l, map s_id l = map (fun x : nat * Z * (Q * Q) * (Z * Z * Z * Z) => snd (fst (fst x))) (map ident l))
        by (intro l; rewrite map_map; reflexivity).
      rewrite M. eapply Permutation_NoDup; [apply Permutation_map, Permutation_sym, Pid|].
      rewrite <- M. unfold remove_finished_sessions. now apply NoDup_map_filter. }
    assert (Dp : forall a b, In a pre -> In b pre ->
                 sort_key inf period now (c_sort cfg) a == sort_key inf period now (c_sort cfg) b -> a = b).
    { intros a b Ia Ib E. destruct (Orig a Ia) as [a0 [Ia0 Ea]]. destruct (Orig b Ib) as [b0 [Ib0 Eb]].
      rewrite (sort_key_ident _ _ _ Ea), (sort_key_ident _ _ _ Eb) in E.
      apply (NoDup_map_inj s_id pre); auto.
      rewrite (ident_id _ _ Ea), (ident_id _ _ Eb). now apply Dk. }
    destruct (c_rr cfg).
    - rewrite (round_robin_equivariant (c_inc cfg) (c_sort cfg) pre pre' IL SOp (Permutation_sym Pp) Dp).
      destruct (round_robin feasible inf period now (c_inc cfg) (c_sort cfg) pre) as [v|e] eqn:R; [|reflexivity].
      cbn [res_map res_bind]. unfold format_array_schedule.
      rewrite n_stations', perm_vec_length, (is_perm_length p N P), (round_robin_length _ _ _ _ R), !Nat.eqb_refl. reflexivity.
    - rewrite (sorting_algorithm_equivariant (c_sort cfg) pre pre' SOp (Permutation_sym Pp) Dp).
      destruct (sorting_algorithm feasible inf period now (c_sort cfg) pre) as [v|e] eqn:R; [|reflexivity].
      cbn [res_map res_bind]. unfold format_array_schedule.
      rewrite n_stations', perm_vec_length, (is_perm_length p N P), (sorting_algorithm_length _ _ _ R), !Nat.eqb_refl. reflexivity.
  Qed.
End Equivariance.

(* ============================================================================================
   5. instance: the phasor check of Model/Preproc.v on both sides
   ============================================================================================ *)
Theorem greedy_equivariant inf inf' p period now k ss ss' :
  is_perm p (n_stations inf) -> infra_shape inf -> infra_perm p inf inf' ->
  (forall s, In s ss -> (s_station s < n_stations inf)%nat) ->
  Permutation ss' (map (relabel p) ss) ->
  (forall a b, In a ss -> In b ss -> sort_key inf period now k a == sort_key inf period now k b -> a = b) ->
  sorting_algorithm (feasQ inf') inf' period now k ss'
  = res_map (perm_vec 0 p) (sorting_algorithm (feasQ inf) inf period now k ss).
Proof.
  intros P Sh IP Hss Pss D.
  apply (sorting_algorithm_equivariant (feasQ inf) (feasQ inf') inf inf' p period now P IP); auto.
  intros x L. now apply feasQ_perm.
Qed.

(* read as a map station -> pilot: old station i is new station `pos p i` and gets the same pilot *)
Corollary greedy_equivariant_map inf inf' p period now k ss ss' out :
  is_perm p (n_stations inf) -> infra_shape inf -> infra_perm p inf inf' ->
  (forall s, In s ss -> (s_station s < n_stations inf)%nat) ->
  Permutation ss' (map (relabel p) ss) ->
  (forall a b, In a ss -> In b ss -> sort_key inf period now k a == sort_key inf period now k b -> a = b) ->
  sorting_algorithm (feasQ inf) inf period now k ss = Ok out ->
  exists out', sorting_algorithm (feasQ inf') inf' period now k ss' = Ok out'
    /\ List.length out' = List.length out
    /\ forall i, (i < n_stations inf)%nat -> nth (pos p i) out' 0 = nth i out 0.
Proof.
  intros P Sh IP Hss Pss D H.
  rewrite (greedy_equivariant inf inf' p period now k ss ss' P Sh IP Hss Pss D), H. cbn [res_map].
  exists (perm_vec 0 p out). split; [reflexivity|]. split.
  - rewrite perm_vec_length, (is_perm_length _ _ P).
    unfold sorting_algorithm in H. destruct (negb _); [discriminate|].
    apply greedy_loop_length in H. rewrite H. unfold init_sched. now rewrite fold_upd_length, repeat_length.
  - intros i Li. apply nth_perm_vec_pos. now apply (is_perm_In p _ i P).
Qed.

(* an error on one side is the same error on the other *)
Corollary greedy_equivariant_err inf inf' p period now k ss ss' e :
  is_perm p (n_stations inf) -> infra_shape inf -> infra_perm p inf inf' ->
  (forall s, In s ss -> (s_station s < n_stations inf)%nat) ->
  Permutation ss' (map (relabel p) ss) ->
  (forall a b, In a ss -> In b ss -> sort_key inf period now k a == sort_key inf period now k b -> a = b) ->
  sorting_algorithm (feasQ inf) inf period now k ss = Err e ->
  sorting_algorithm (feasQ inf') inf' period now k ss' = Err e.
Proof.
  intros P Sh IP Hss Pss D H.
  now rewrite (greedy_equivariant inf inf' p period now k ss ss' P Sh IP Hss Pss D), H.
Qed.

(* ---- non-vacuity: the three-phase example, stations rotated (2,0,1), constraint rows swapped, sessions reversed ---- *)
Definition sp_inf : infra :=
  {| i_A := [[1; 1; 1]; [1; -1; 0]]; i_L := [20; 10];
     i_cos := [1; -1 # 2; -1 # 2]; i_sin := [0; 866 # 1000; -866 # 1000];
     i_volt := [208; 240; 208]; i_maxp := [32; 32; 32]; i_minp := [0; 8; 0];
     i_allow := [[0; 8; 16; 24; 32]; [0; 8; 16; 24; 32]; [0; 32]]; i_cont := [false; false; true] |}.
Definition sp_p : list nat := [2; 0; 1]%nat.
Definition sp_inf' : infra :=
  {| i_A := [[0; 1; -1]; [1; 1; 1]]; i_L := [10; 20];
     i_cos := [-1 # 2; 1; -1 # 2]; i_sin := [-866 # 1000; 0; 866 # 1000];
     i_volt := [208; 208; 240]; i_maxp := [32; 32; 32]; i_minp := [0; 0; 8];
     i_allow := [[0; 32]; [0; 8; 16; 24; 32]; [0; 8; 16; 24; 32]]; i_cont := [true; false; false] |}.
Definition sp_session (st : nat) (id arr : Z) : session :=
  {| s_station := st; s_id := id; s_req := 30; s_del := 0; s_arr := arr; s_dep := 40%Z; s_edep := 40%Z;
     s_cur := 5%Z; s_min := [0]; s_max := [32] |}.
Definition sp_ss : list session := [sp_session 2 17 3; sp_session 0 11 1; sp_session 1 42 2].

Lemma sp_example :
  is_perm sp_p (n_stations sp_inf) /\ infra_shape sp_inf /\ infra_perm sp_p sp_inf sp_inf'
  /\ (forall s, In s sp_ss -> (s_station s < n_stations sp_inf)%nat)
  /\ (forall a b, In a sp_ss -> In b sp_ss ->
        sort_key sp_inf 5 5%Z FCFS a == sort_key sp_inf 5 5%Z FCFS b -> a = b)
  /\ exists out,
       sorting_algorithm (feasQ sp_inf) sp_inf 5 5%Z FCFS sp_ss = Ok out
       /\ sorting_algorithm (feasQ sp_inf') sp_inf' 5 5%Z FCFS (rev (map (relabel sp_p) sp_ss)) = Ok (perm_vec 0 sp_p out)
       /\ nth 0 out 0 = 8 /\ nth 1 out 0 = 0 /\ 22 < nth 2 out 0 /\ nth 2 out 0 < 23.
Proof.
  split; [|split; [|split; [|split; [|split]]]].
  - unfold is_perm, sp_p. cbn. apply Permutation_sym.
    apply (perm_trans (l' := [0; 2; 1]%nat)); [repeat constructor|]. apply perm_swap.
  - repeat split; try reflexivity. intros row [<-|[<-|[]]]; reflexivity.
  - constructor; try reflexivity. cbn. apply perm_swap.
  - intros s [<-|[<-|[<-|[]]]]; cbn; lia.
  - intros a b [<-|[<-|[<-|[]]]] [<-|[<-|[<-|[]]]] E; try reflexivity; vm_compute in E; discriminate.
  - eexists. split; [vm_compute; reflexivity|]. split; [vm_compute; reflexivity|].
    cbn [nth]. repeat split; reflexivity.
Qed.


(* ============================================================================================
   7. instances for the phasor check, and why the remaining-time hypothesis is needed
   ============================================================================================ *)
Theorem schedule_equivariant_feasQ inf inf' p cfg ss ss' :
  is_perm p (n_stations inf) -> infra_shape inf -> infra_perm p inf inf' ->
  List.length (i_allow inf) = n_stations inf ->
  (forall s, In s ss -> (s_station s < n_stations inf)%nat) ->
  Permutation ss' (map (relabel p) ss) ->
  NoDup (map s_id ss) ->
  (forall a b, In a ss -> In b ss ->
     sort_key inf (c_period cfg) (c_now cfg) (c_sort cfg) a == sort_key inf (c_period cfg) (c_now cfg) (c_sort cfg) b ->
     s_id a = s_id b) ->
  (c_unint cfg = true -> forall a b, In a ss -> In b ss -> remaining_time a = remaining_time b -> a = b) ->
  so_result (schedule_with (feasQ inf') inf' cfg ss')
  = res_map (perm_vec 0 p) (so_result (schedule_with (feasQ inf) inf cfg ss)).
Proof.
  intros P Sh IP IL Hss Pss ND Dk Drt.
  apply (schedule_equivariant (feasQ inf) (feasQ inf') inf inf' p (c_period cfg) (c_now cfg) P IP); auto.
  intros x L. now apply feasQ_perm.
Qed.

Theorem round_robin_equivariant_feasQ inf inf' p period now inc k ss ss' :
  is_perm p (n_stations inf) -> infra_shape inf -> infra_perm p inf inf' ->
  List.length (i_allow inf) = n_stations inf ->
  (forall s, In s ss -> (s_station s < n_stations inf)%nat) ->
  Permutation ss' (map (relabel p) ss) ->
  (forall a b, In a ss -> In b ss -> sort_key inf period now k a == sort_key inf period now k b -> a = b) ->
  round_robin (feasQ inf') inf' period now inc k ss'
  = res_map (perm_vec 0 p) (round_robin (feasQ inf) inf period now inc k ss).
Proof.
  intros P Sh IP IL Hss Pss D.
  apply (round_robin_equivariant (feasQ inf) (feasQ inf') inf inf' p period now P IP); auto.
  intros x L. now apply feasQ_perm.
Qed.

(* Two sessions with EQUAL remaining time under uninterrupted charging: apply_minimum_charging_rate serves them in
   presentation order, the 10 A limit admits only one 8 A minimum pilot, so the session listed first keeps its
   minimum and the other is dropped.  Priority keys (arrival) are distinct, nothing else changes. *)
Definition tie_inf : infra :=
  {| i_A := [[1; 1]]; i_L := [10]; i_cos := [1; 1]; i_sin := [0; 0]; i_volt := [208; 208];
     i_maxp := [16; 16]; i_minp := [8; 8]; i_allow := [[0; 8; 16]; [0; 8; 16]]; i_cont := [false; false] |}.
Definition tie_session (st : nat) (id arr : Z) : session :=
  {| s_station := st; s_id := id; s_req := 30; s_del := 0; s_arr := arr; s_dep := 20%Z; s_edep := 20%Z;
     s_cur := 5%Z; s_min := [0]; s_max := [16] |}.
Definition tie_cfg : config :=
  {| c_rr := false; c_sort := FCFS; c_est := None; c_unint := true; c_inc := 1 # 2; c_period := 5; c_now := 5%Z |}.

Lemma remaining_time_tie_witness :
  let a := tie_session 0 1 0 in let b := tie_session 1 2 1 in
  Permutation [a; b] [b; a] /\ NoDup (map s_id [a; b])
  /\ ~ sort_key tie_inf 5 5%Z FCFS a == sort_key tie_inf 5 5%Z FCFS b
  /\ remaining_time a = remaining_time b
  /\ so_result (schedule tie_inf tie_cfg [a; b]) = Ok [8; 0]
  /\ so_result (schedule tie_inf tie_cfg [b; a]) = Ok [0; 8].
Proof.
  cbv zeta. split; [apply perm_swap|]. split; [repeat constructor; simpl; intuition discriminate|].
  split; [vm_compute; discriminate|]. split; [reflexivity|]. split; vm_compute; reflexivity.
Qed.
