(* Proofs/SortedPerm.v — equivariance of the greedy sorting algorithm (Model/Sorted.v :: sorting_algorithm),
   used by C10_sorted_equivariant.

   Three incidental orders are permuted at once:
   * the session list (any Permutation; the priority keys are pairwise distinct);
   * the station order: `p : list nat` is a permutation of 0..N-1, position k of the new infrastructure holds the
     old station p[k]; every per-station vector of InfrastructureInfo and every column of the constraint matrix is
     permuted accordingly (perm_vec), and a session at old station i sits at new station `pos p i`;
   * the constraint rows (any Permutation of the (row, limit) pairs).
   Result: the new run returns exactly the old schedule with its entries permuted (perm_vec p out), i.e. the same
   map station -> pilot; an error is the same error. *)
From Coq Require Import ZArith QArith Qminmax Qabs List Bool String Lia Lqa Permutation Sorting.Sorted Setoid Morphisms.
From ACN Require Import Base.Num Base.ListX Gen.Sorted_Q Gen.SortedZ_Z Model.Preproc Model.Sorted Proofs.Sorted.
Import ListNotations.
Open Scope list_scope.
Open Scope Q_scope.

(* ============================================================================================
   1. permuting a vector
   ============================================================================================ *)
Definition perm_vec {A} (d : A) (p : list nat) (v : list A) : list A := map (fun j => nth j v d) p.

Fixpoint pos (p : list nat) (i : nat) : nat :=
  match p with
  | [] => O
  | j :: r => if Nat.eqb j i then O else S (pos r i)
  end.

Definition is_perm (p : list nat) (n : nat) : Prop := Permutation p (seq 0 n).

Lemma is_perm_length p n : is_perm p n -> List.length p = n.
Proof. intro H. rewrite (Permutation_length H). apply seq_length. Qed.
Lemma is_perm_NoDup p n : is_perm p n -> NoDup p.
Proof. intro H. eapply Permutation_NoDup; [symmetry; exact H|apply seq_NoDup]. Qed.
Lemma is_perm_In p n i : is_perm p n -> (In i p <-> (i < n)%nat).
Proof.
  intro H. split; intro I.
  - apply (Permutation_in _ H) in I. apply in_seq in I. lia.
  - apply (Permutation_in _ (Permutation_sym H)). apply in_seq. lia.
Qed.

Lemma perm_vec_length {A} (d : A) p v : List.length (perm_vec d p v) = List.length p.
Proof. apply map_length. Qed.

Lemma pos_lt p i : In i p -> (pos p i < List.length p)%nat.
Proof.
  induction p as [|j r IH]; simpl; intro I; [destruct I|].
  destruct (Nat.eqb j i) eqn:E; [lia|]. apply Nat.eqb_neq in E. destruct I as [I|I]; [congruence|].
  specialize (IH I). lia.
Qed.

Lemma nth_pos p i d : In i p -> nth (pos p i) p d = i.
Proof.
  induction p as [|j r IH]; simpl; intro I; [destruct I|].
  destruct (Nat.eqb j i) eqn:E; [now apply Nat.eqb_eq in E|].
  apply Nat.eqb_neq in E. destruct I as [I|I]; [congruence|auto].
Qed.

(* the entry of old station i is found at its new position *)
Lemma nth_perm_vec_pos {A} (d : A) p v i : In i p -> nth (pos p i) (perm_vec d p v) d = nth i v d.
Proof.
  intro I. unfold perm_vec.
  rewrite (nth_indep _ d (nth O v d)) by (rewrite map_length; now apply pos_lt).
  change (nth O v d) with ((fun j => nth j v d) O). rewrite map_nth. now rewrite nth_pos.
Qed.

Lemma perm_vec_upd {A} (d : A) p v i r :
  NoDup p -> In i p -> (i < List.length v)%nat ->
  perm_vec d p (upd i r v) = upd (pos p i) r (perm_vec d p v).
Proof.
  intros ND I L. induction p as [|j q IH]; [destruct I|].
  inversion ND as [|? ? Hn ND']; subst. cbn [perm_vec map pos].
  destruct (Nat.eqb j i) eqn:E.
  - apply Nat.eqb_eq in E. subst j. cbn [upd]. rewrite nth_upd_same by exact L. f_equal.
    apply map_ext_in. intros a Ia. apply nth_upd_other. intro X. subst. contradiction.
  - apply Nat.eqb_neq in E. destruct I as [I|I]; [congruence|].
    cbn [upd]. rewrite nth_upd_other by (intro X; apply E; now symmetry). f_equal. now apply IH.
Qed.

Lemma perm_vec_repeat {A} (d : A) p n : perm_vec d p (repeat d n) = repeat d (List.length p).
Proof. unfold perm_vec. induction p as [|j q IH]; simpl; auto. now rewrite nth_repeat, IH. Qed.

Lemma perm_vec_map2 {A B C} (f : A -> B -> C) da db dc p a b n :
  is_perm p n -> List.length a = n -> List.length b = n ->
  perm_vec dc p (map2 f a b) = map2 f (perm_vec da p a) (perm_vec db p b).
Proof.
  intros P La Lb.
  assert (G : forall j, (j < n)%nat -> nth j (map2 f a b) dc = f (nth j a da) (nth j b db)).
  { subst n. clear P. revert b Lb. induction a as [|x a IH]; intros [|y b] Lb j Hj; simpl in *; try lia.
    destruct j; auto. apply IH; lia. }
  assert (Q : forall q, (forall j, In j q -> (j < n)%nat) ->
              perm_vec dc q (map2 f a b) = map2 f (perm_vec da q a) (perm_vec db q b)).
  { induction q as [|j q IH]; intro H; cbn [perm_vec map map2]; auto.
    rewrite G by (apply H; now left). f_equal. apply IH. intros x Ix. apply H. now right. }
  apply Q. intros j Ij. now apply (is_perm_In p n j P).
Qed.

(* ---- sums are permutation-invariant ---- *)
Lemma Qsum_perm_eq l1 l2 : Permutation l1 l2 -> Qsum l1 == Qsum l2.
Proof. induction 1; simpl; try ring; [now rewrite IHPermutation|now rewrite IHPermutation1]. Qed.

Lemma dot_as_sum c x : dot c x == Qsum (map (fun j => nth j c 0 * nth j x 0) (seq 0 (List.length x))).
Proof.
  revert c. induction x as [|y x IH]; intro c; [destruct c; reflexivity|].
  destruct c as [|a c].
  - cbn [dot List.length seq map]. assert (E : forall l, Qsum (map (fun j => nth j [] 0 * nth j (y :: x) 0) l) == 0).
    { induction l as [|j l IHl]; simpl; [reflexivity|]. rewrite IHl. destruct j; ring. }
    rewrite (E (seq 0 (S (List.length x)))). reflexivity.
  - cbn [dot List.length seq map Qsum nth]. rewrite IH, <- seq_shift, map_map. reflexivity.
Qed.

Lemma dot_perm_vec p n c x :
  is_perm p n -> List.length x = n -> dot (perm_vec 0 p c) (perm_vec 0 p x) == dot c x.
Proof.
  intros P L. rewrite !dot_as_sum, perm_vec_length, (is_perm_length _ _ P), L.
  assert (E : map (fun k => nth k (perm_vec 0 p c) 0 * nth k (perm_vec 0 p x) 0) (seq 0 n)
              = map (fun j => nth j c 0 * nth j x 0) p).
  { rewrite <- (is_perm_length _ _ P). unfold perm_vec. clear. induction p as [|j q IH]; [reflexivity|].
    cbn [List.length seq map nth]. f_equal. rewrite <- seq_shift, map_map. exact IH. }
  rewrite E. apply Qsum_perm_eq. apply Permutation_map. exact P.
Qed.

(* ============================================================================================
   2. the permuted infrastructure and the feasibility check on it
   ============================================================================================ *)
Definition infra_shape (inf : infra) : Prop :=
  let n := n_stations inf in
  List.length (i_cos inf) = n /\ List.length (i_sin inf) = n
  /\ (forall row, In row (i_A inf) -> List.length row = n)
  /\ List.length (i_A inf) = List.length (i_L inf).

Record infra_perm (p : list nat) (inf inf' : infra) : Prop := {
  ip_cos : i_cos inf' = perm_vec 0 p (i_cos inf);
  ip_sin : i_sin inf' = perm_vec 0 p (i_sin inf);
  ip_volt : i_volt inf' = perm_vec 0 p (i_volt inf);
  ip_maxp : i_maxp inf' = perm_vec 0 p (i_maxp inf);
  ip_minp : i_minp inf' = perm_vec 0 p (i_minp inf);
  ip_allow : i_allow inf' = perm_vec [] p (i_allow inf);
  ip_cont : i_cont inf' = perm_vec true p (i_cont inf);
  (* the constraints: the same (row, limit) pairs in any order, every row with its columns permuted *)
  ip_rows : Permutation (combine (i_A inf') (i_L inf'))
                        (map (fun rl => (perm_vec 0 p (fst rl), snd rl)) (combine (i_A inf) (i_L inf)))
}.

Lemma map2_combine {A B C} (f : A -> B -> C) a b : map2 f a b = map (fun ab => f (fst ab) (snd ab)) (combine a b).
Proof. revert b; induction a as [|x a IH]; intros [|y b]; simpl; auto. now rewrite IH. Qed.

Lemma forallb_perm_eq {A} (f : A -> bool) l1 l2 : Permutation l1 l2 -> forallb f l1 = forallb f l2.
Proof.
  induction 1; simpl; auto; [now rewrite IHPermutation| |congruence].
  destruct (f x), (f y); reflexivity.
Qed.

Lemma forallb_map' {A B} (f : B -> bool) (g : A -> B) l : forallb f (map g l) = forallb (fun a => f (g a)) l.
Proof. induction l; simpl; congruence. Qed.
Lemma forallb_ext_in' {A} (f g : A -> bool) l : (forall a, In a l -> f a = g a) -> forallb f l = forallb g l.
Proof.
  induction l as [|a l IH]; simpl; intro H; auto. rewrite (H a (or_introl eq_refl)), IH; auto.
Qed.

Lemma feasQ_perm p inf inf' x :
  is_perm p (n_stations inf) -> infra_shape inf -> infra_perm p inf inf' ->
  List.length x = n_stations inf ->
  feasQ inf' (perm_vec 0 p x) = feasQ inf x.
Proof.
  intros P [Lc [Ls [Lr _]]] IP Lx. unfold feasQ, feas_rows, prep_rows.
  rewrite !map2_combine.
  set (mk := fun (cs sn : list Q) (ab : list Q * Q) =>
               {| cr_re := map2 (fun v c => Qred (v * c)) (fst ab) cs;
                  cr_im := map2 (fun v s => Qred (v * s)) (fst ab) sn; cr_lim := snd ab |}).
  change (forallb (row_ok (perm_vec 0 p x)) (map (mk (i_cos inf') (i_sin inf')) (combine (i_A inf') (i_L inf')))
          = forallb (row_ok x) (map (mk (i_cos inf) (i_sin inf)) (combine (i_A inf) (i_L inf)))).
  rewrite (forallb_perm_eq _ _ _ (Permutation_map (mk (i_cos inf') (i_sin inf')) (ip_rows _ _ _ IP))).
  rewrite map_map, !forallb_map'.
  apply forallb_ext_in'. intros [row l] I. cbn [fst snd].
  assert (Lrow : List.length row = n_stations inf).
  { apply Lr. apply in_combine_l in I. exact I. }
  unfold mk, row_ok, norm_within, Qleb. cbn [cr_re cr_im cr_lim fst snd].
  rewrite (ip_cos _ _ _ IP), (ip_sin _ _ _ IP).
  rewrite <- !(perm_vec_map2 _ 0 0 0 p _ _ (n_stations inf) P Lrow) by assumption.
  f_equal. apply Qleb_comp; [|reflexivity].
  rewrite !(dot_perm_vec p (n_stations inf)) by assumption. reflexivity.
Qed.

(* ============================================================================================
   3. sessions on the permuted infrastructure; the sort
   ============================================================================================ *)
Definition relabel (p : list nat) (s : session) : session :=
  {| s_station := pos p (s_station s); s_id := s_id s; s_req := s_req s; s_del := s_del s; s_arr := s_arr s;
     s_dep := s_dep s; s_edep := s_edep s; s_cur := s_cur s; s_min := s_min s; s_max := s_max s |}.

(* stable sort of a list whose keys are pairwise distinct: determined by the set of elements *)
Lemma sorted_perm_unique {A} (R : A -> A -> Prop) l1 : forall l2,
  StronglySorted R l1 -> StronglySorted R l2 -> Permutation l1 l2 ->
  (forall a b, In a l1 -> In b l1 -> R a b -> R b a -> a = b) ->
  l1 = l2.
Proof.
  induction l1 as [|a l1 IH]; intros l2 S1 S2 P Anti.
  - apply Permutation_nil in P. now subst.
  - destruct l2 as [|b l2]; [apply Permutation_sym, Permutation_nil in P; discriminate|].
    inversion S1 as [|? ? S1' F1]; subst. inversion S2 as [|? ? S2' F2]; subst.
    rewrite Forall_forall in F1, F2.
    assert (E : a = b).
    { assert (Ia : In a (b :: l2)) by (apply (Permutation_in _ P); now left).
      assert (Ib : In b (a :: l1)) by (apply (Permutation_in _ (Permutation_sym P)); now left).
      destruct Ia as [->|Ia]; auto. destruct Ib as [->|Ib]; auto.
      apply Anti; [now left|now right|now apply F1|now apply F2]. }
    subst b. f_equal. apply IH; auto.
    + now apply Permutation_cons_inv in P.
    + intros x y Ix Iy. apply Anti; now right.
Qed.

Lemma sort_by_perm_invariant {A} (key : A -> Q) rev l l' :
  Permutation l l' ->
  (forall a b, In a l -> In b l -> key a == key b -> a = b) ->
  sort_by key rev l = sort_by key rev l'.
Proof.
  intros P D. apply (sorted_perm_unique (key_le key rev)).
  - apply sort_by_sorted.
  - apply sort_by_sorted.
  - rewrite !sort_by_perm. exact P.
  - intros a b Ia Ib Rab Rba.
    apply (Permutation_in _ (sort_by_perm key rev l)) in Ia.
    apply (Permutation_in _ (sort_by_perm key rev l)) in Ib.
    apply D; auto. unfold key_le in *. destruct rev; lra.
Qed.

Lemma sort_by_map {A B} (f : A -> B) (key : A -> Q) (key' : B -> Q) rev l :
  (forall a, In a l -> key' (f a) = key a) -> sort_by key' rev (map f l) = map f (sort_by key rev l).
Proof.
  unfold sort_by, stable_sort.
  set (le := fun x y : A => if rev then Qleb (key y) (key x) else Qleb (key x) (key y)).
  set (le' := fun x y : B => if rev then Qleb (key' y) (key' x) else Qleb (key' x) (key' y)).
  assert (I : forall x m, key' (f x) = key x -> (forall y, In y m -> key' (f y) = key y) ->
              insert_stable le' (f x) (map f m) = map f (insert_stable le x m)).
  { intros x m Kx Km. induction m as [|y m IH]; [reflexivity|]. cbn [map insert_stable].
    assert (E : le' (f x) (f y) = le x y).
    { unfold le, le'. rewrite Kx, (Km y (or_introl eq_refl)). reflexivity. }
    rewrite E. destruct (le x y); [reflexivity|]. cbn [map]. rewrite IH; auto. intros z Iz. apply Km. now right. }
  induction l as [|x l IH]; intro K; [reflexivity|]. cbn [map fold_right].
  rewrite IH by (intros a Ia; apply K; now right).
  apply I; [apply K; now left|].
  intros y Iy. apply K. right. apply (Permutation_in _ (stable_sort_perm le l)). exact Iy.
Qed.

(* ============================================================================================
   4. the algorithm on the permuted data
   ============================================================================================ *)
Section Equivariance.
  Variable feasible feasible' : list Q -> bool.
  Variable inf inf' : infra.
  Variable p : list nat.
  Variable period : Q.
  Variable now : Z.
  Notation N := (n_stations inf).

  Hypothesis P : is_perm p N.
  Hypothesis IP : infra_perm p inf inf'.
  (* the two feasibility checks agree on corresponding vectors *)
  Hypothesis Feq : forall x, List.length x = N -> feasible' (perm_vec 0 p x) = feasible x.

  Lemma n_stations' : n_stations inf' = N.
  Proof. unfold n_stations. rewrite (ip_maxp _ _ _ IP), perm_vec_length. now apply is_perm_length. Qed.

  Definition st_ok (s : session) : Prop := (s_station s < N)%nat.

  Lemma in_p s : st_ok s -> In (s_station s) p.
  Proof. intro H. now apply (is_perm_In p N). Qed.

  Lemma lookup_cont s : st_ok s -> nth (s_station (relabel p s)) (i_cont inf') true = nth (s_station s) (i_cont inf) true.
  Proof. intro H. rewrite (ip_cont _ _ _ IP). apply nth_perm_vec_pos. now apply in_p. Qed.
  Lemma lookup_allow s : st_ok s -> nth (s_station (relabel p s)) (i_allow inf') [] = nth (s_station s) (i_allow inf) [].
  Proof. intro H. rewrite (ip_allow _ _ _ IP). apply nth_perm_vec_pos. now apply in_p. Qed.
  Lemma lookup_maxp s : st_ok s -> nthQ (i_maxp inf') (s_station (relabel p s)) = nthQ (i_maxp inf) (s_station s).
  Proof. intro H. unfold nthQ. rewrite (ip_maxp _ _ _ IP). apply nth_perm_vec_pos. now apply in_p. Qed.
  Lemma lookup_volt s : st_ok s -> nthQ (i_volt inf') (s_station (relabel p s)) = nthQ (i_volt inf) (s_station s).
  Proof. intro H. unfold nthQ. rewrite (ip_volt _ _ _ IP). apply nth_perm_vec_pos. now apply in_p. Qed.

  Lemma rap_relabel s : st_ok s -> rap inf' period (relabel p s) = rap inf period s.
  Proof. intro H. unfold rap, rap_iface. rewrite lookup_volt by exact H. reflexivity. Qed.

  Lemma sort_key_relabel k s : st_ok s -> sort_key inf' period now k (relabel p s) = sort_key inf period now k s.
  Proof.
    intro H. unfold sort_key, max_pilot_signal. fold (rap inf' period (relabel p s)). fold (rap inf period s).
    rewrite rap_relabel, lookup_maxp by exact H. reflexivity.
  Qed.

  Lemma g_ub_relabel s : st_ok s -> g_ub inf' period (relabel p s) = g_ub inf period s.
  Proof. intro H. unfold g_ub. fold (rap inf' period (relabel p s)). now rewrite rap_relabel. Qed.

  Lemma g_allowable_relabel s : st_ok s -> g_allowable inf' period (relabel p s) = g_allowable inf period s.
  Proof. intro H. unfold g_allowable. rewrite lookup_allow, g_ub_relabel by exact H. reflexivity. Qed.

  (* feasibility of "the vector with station i set to r" corresponds *)
  Lemma feas_upd s r x : st_ok s -> List.length x = N ->
    feasible' (upd (s_station (relabel p s)) r (perm_vec 0 p x)) = feasible (upd (s_station s) r x).
  Proof.
    intros H L. cbn [relabel s_station].
    rewrite <- perm_vec_upd; [|now apply (is_perm_NoDup p N)|now apply in_p|rewrite L; exact H].
    apply Feq. now rewrite upd_length.
  Qed.

  Lemma bisect_relabel s x eps : st_ok s -> List.length x = N -> forall fuel lo hi,
    bisect feasible' fuel (s_station (relabel p s)) (perm_vec 0 p x) eps lo hi
    = bisect feasible fuel (s_station s) x eps lo hi.
  Proof.
    intros H L. induction fuel as [|f IH]; intros lo hi; [reflexivity|]. cbn [bisect].
    rewrite feas_upd by assumption. rewrite !IH. reflexivity.
  Qed.

  Lemma walk_down_relabel s x l : st_ok s -> List.length x = N ->
    walk_down feasible' (s_station (relabel p s)) (perm_vec 0 p x) l = walk_down feasible (s_station s) x l.
  Proof.
    intros H L. induction l as [|a l IH]; [reflexivity|]. cbn [walk_down].
    rewrite feas_upd by assumption. now rewrite IH.
  Qed.

  Lemma greedy_rate_relabel s x : st_ok s -> List.length x = N ->
    greedy_rate feasible' inf' period (relabel p s) (perm_vec 0 p x) = greedy_rate feasible inf period s x.
  Proof.
    intros H L. unfold greedy_rate.
    rewrite lookup_cont, g_ub_relabel, g_allowable_relabel by exact H.
    change (g_lb (relabel p s)) with (g_lb s).
    destruct (nth (s_station s) (i_cont inf) true).
    - unfold max_feasible_rate. rewrite (Feq x L), feas_upd, bisect_relabel by assumption. reflexivity.
    - destruct (g_allowable inf period s); [reflexivity|].
      unfold discrete_max_feasible_rate. rewrite (Feq x L), walk_down_relabel by assumption. reflexivity.
  Qed.

  Lemma greedy_loop_relabel : forall q x,
    (forall s, In s q -> st_ok s) -> List.length x = N ->
    greedy_loop feasible' inf' period (map (relabel p) q) (perm_vec 0 p x)
    = res_map (perm_vec 0 p) (greedy_loop feasible inf period q x).
  Proof.
    induction q as [|s q IH]; intros x Hq L; [reflexivity|]. cbn [map greedy_loop].
    assert (Hs : st_ok s) by (apply Hq; now left).
    rewrite greedy_rate_relabel by assumption.
    destruct (greedy_rate feasible inf period s x) as [r|e]; [|reflexivity].
    cbn [relabel s_station].
    rewrite <- perm_vec_upd; [|now apply (is_perm_NoDup p N)|now apply in_p|rewrite L; exact Hs].
    apply IH; [intros s' I; apply Hq; now right|now rewrite upd_length].
  Qed.

  Lemma init_sched_relabel q :
    (forall s, In s q -> st_ok s) ->
    init_sched inf' g_init_lb (map (relabel p) q) = perm_vec 0 p (init_sched inf g_init_lb q).
  Proof.
    intro Hq. unfold init_sched. rewrite n_stations'.
    rewrite <- (is_perm_length p N P) at 1. rewrite <- (perm_vec_repeat 0 p N).
    assert (G : forall x, List.length x = N ->
              fold_left (fun sch s => upd (s_station s) (g_init_lb s) sch) (map (relabel p) q) (perm_vec 0 p x)
              = perm_vec 0 p (fold_left (fun sch s => upd (s_station s) (g_init_lb s) sch) q x)).
    { induction q as [|s q IH]; intros x L; [reflexivity|]. cbn [map fold_left].
      assert (Hs : st_ok s) by (apply Hq; now left).
      change (g_init_lb (relabel p s)) with (g_init_lb s). cbn [relabel s_station].
      rewrite <- perm_vec_upd; [|now apply (is_perm_NoDup p N)|now apply in_p|rewrite L; exact Hs].
      apply IH; [intros s' I; apply Hq; now right|now rewrite upd_length]. }
    apply G. apply repeat_length.
  Qed.

  (* the whole greedy algorithm: any presentation order of the sessions, permuted stations *)
  Theorem sorting_algorithm_equivariant k ss ss' :
    (forall s, In s ss -> st_ok s) ->
    Permutation ss' (map (relabel p) ss) ->
    (forall a b, In a ss -> In b ss ->
       sort_key inf period now k a == sort_key inf period now k b -> a = b) ->      (* distinct priority keys *)
    sorting_algorithm feasible' inf' period now k ss'
    = res_map (perm_vec 0 p) (sorting_algorithm feasible inf period now k ss).
  Proof.
    intros Hss Pss D. unfold sorting_algorithm.
    assert (D' : forall a b, In a ss' -> In b ss' ->
                 sort_key inf' period now k a == sort_key inf' period now k b -> a = b).
    { intros a b Ia Ib E.
      apply (Permutation_in _ Pss) in Ia. apply (Permutation_in _ Pss) in Ib.
      apply in_map_iff in Ia. apply in_map_iff in Ib.
      destruct Ia as [a0 [<- Ia0]]. destruct Ib as [b0 [<- Ib0]].
      rewrite !sort_key_relabel in E by (now apply Hss). now rewrite (D a0 b0 Ia0 Ib0 E). }
    assert (Esort : sort_sessions inf' period now k ss' = map (relabel p) (sort_sessions inf period now k ss)).
    { unfold sort_sessions.
      rewrite (sort_by_perm_invariant _ _ ss' (map (relabel p) ss) Pss D').
      apply sort_by_map. intros a Ia. apply sort_key_relabel. now apply Hss. }
    rewrite Esort.
    set (q := sort_sessions inf period now k ss).
    assert (Hq : forall s, In s q -> st_ok s).
    { intros s I. apply Hss. eapply Permutation_in; [apply sort_by_perm|exact I]. }
    rewrite init_sched_relabel by exact Hq.
    assert (L0 : List.length (init_sched inf g_init_lb q) = N).
    { unfold init_sched. now rewrite fold_upd_length, repeat_length. }
    rewrite (Feq _ L0).
    destruct (feasible (init_sched inf g_init_lb q)); cbn [negb]; [|reflexivity].
    now apply greedy_loop_relabel.
  Qed.
End Equivariance.

(* ============================================================================================
   5. instance: the phasor check of Model/Preproc.v on both sides
   ============================================================================================ *)
Theorem greedy_equivariant inf inf' p period now k ss ss' :
  is_perm p (n_stations inf) -> infra_shape inf -> infra_perm p inf inf' ->
  (forall s, In s ss -> (s_station s < n_stations inf)%nat) ->
  Permutation ss' (map (relabel p) ss) ->
  (forall a b, In a ss -> In b ss -> sort_key inf period now k a == sort_key inf period now k b -> a = b) ->
  sorting_algorithm (feasQ inf') inf' period now k ss'
  = res_map (perm_vec 0 p) (sorting_algorithm (feasQ inf) inf period now k ss).
Proof.
  intros P Sh IP Hss Pss D.
  apply (sorting_algorithm_equivariant (feasQ inf) (feasQ inf') inf inf' p period now P IP); auto.
  intros x L. now apply feasQ_perm.
Qed.

(* read as a map station -> pilot: old station i is new station `pos p i` and gets the same pilot *)
Corollary greedy_equivariant_map inf inf' p period now k ss ss' out :
  is_perm p (n_stations inf) -> infra_shape inf -> infra_perm p inf inf' ->
  (forall s, In s ss -> (s_station s < n_stations inf)%nat) ->
  Permutation ss' (map (relabel p) ss) ->
  (forall a b, In a ss -> In b ss -> sort_key inf period now k a == sort_key inf period now k b -> a = b) ->
  sorting_algorithm (feasQ inf) inf period now k ss = Ok out ->
  exists out', sorting_algorithm (feasQ inf') inf' period now k ss' = Ok out'
    /\ List.length out' = List.length out
    /\ forall i, (i < n_stations inf)%nat -> nth (pos p i) out' 0 = nth i out 0.
Proof.
  intros P Sh IP Hss Pss D H.
  rewrite (greedy_equivariant inf inf' p period now k ss ss' P Sh IP Hss Pss D), H. cbn [res_map].
  exists (perm_vec 0 p out). split; [reflexivity|]. split.
  - rewrite perm_vec_length, (is_perm_length _ _ P).
    unfold sorting_algorithm in H. destruct (negb _); [discriminate|].
    apply greedy_loop_length in H. rewrite H. unfold init_sched. now rewrite fold_upd_length, repeat_length.
  - intros i Li. apply nth_perm_vec_pos. now apply (is_perm_In p _ i P).
Qed.

(* an error on one side is the same error on the other *)
Corollary greedy_equivariant_err inf inf' p period now k ss ss' e :
  is_perm p (n_stations inf) -> infra_shape inf -> infra_perm p inf inf' ->
  (forall s, In s ss -> (s_station s < n_stations inf)%nat) ->
  Permutation ss' (map (relabel p) ss) ->
  (forall a b, In a ss -> In b ss -> sort_key inf period now k a == sort_key inf period now k b -> a = b) ->
  sorting_algorithm (feasQ inf) inf period now k ss = Err e ->
  sorting_algorithm (feasQ inf') inf' period now k ss' = Err e.
Proof.
  intros P Sh IP Hss Pss D H.
  now rewrite (greedy_equivariant inf inf' p period now k ss ss' P Sh IP Hss Pss D), H.
Qed.

(* ---- non-vacuity: the three-phase example, stations rotated (2,0,1), constraint rows swapped, sessions reversed ---- *)
Definition sp_inf : infra :=
  {| i_A := [[1; 1; 1]; [1; -1; 0]]; i_L := [20; 10];
     i_cos := [1; -1 # 2; -1 # 2]; i_sin := [0; 866 # 1000; -866 # 1000];
     i_volt := [208; 240; 208]; i_maxp := [32; 32; 32]; i_minp := [0; 8; 0];
     i_allow := [[0; 8; 16; 24; 32]; [0; 8; 16; 24; 32]; [0; 32]]; i_cont := [false; false; true] |}.
Definition sp_p : list nat := [2; 0; 1]%nat.
Definition sp_inf' : infra :=
  {| i_A := [[0; 1; -1]; [1; 1; 1]]; i_L := [10; 20];
     i_cos := [-1 # 2; 1; -1 # 2]; i_sin := [-866 # 1000; 0; 866 # 1000];
     i_volt := [208; 208; 240]; i_maxp := [32; 32; 32]; i_minp := [0; 0; 8];
     i_allow := [[0; 32]; [0; 8; 16; 24; 32]; [0; 8; 16; 24; 32]]; i_cont := [true; false; false] |}.
Definition sp_session (st : nat) (id arr : Z) : session :=
  {| s_station := st; s_id := id; s_req := 30; s_del := 0; s_arr := arr; s_dep := 40%Z; s_edep := 40%Z;
     s_cur := 5%Z; s_min := [0]; s_max := [32] |}.
Definition sp_ss : list session := [sp_session 2 17 3; sp_session 0 11 1; sp_session 1 42 2].

Lemma sp_example :
  is_perm sp_p (n_stations sp_inf) /\ infra_shape sp_inf /\ infra_perm sp_p sp_inf sp_inf'
  /\ (forall s, In s sp_ss -> (s_station s < n_stations sp_inf)%nat)
  /\ (forall a b, In a sp_ss -> In b sp_ss ->
        sort_key sp_inf 5 5%Z FCFS a == sort_key sp_inf 5 5%Z FCFS b -> a = b)
  /\ exists out,
       sorting_algorithm (feasQ sp_inf) sp_inf 5 5%Z FCFS sp_ss = Ok out
       /\ sorting_algorithm (feasQ sp_inf') sp_inf' 5 5%Z FCFS (rev (map (relabel sp_p) sp_ss)) = Ok (perm_vec 0 sp_p out)
       /\ nth 0 out 0 = 8 /\ nth 1 out 0 = 0 /\ 22 < nth 2 out 0 /\ nth 2 out 0 < 23.
Proof.
  split; [|split; [|split; [|split; [|split]]]].
  - unfold is_perm, sp_p. cbn. apply Permutation_sym.
    apply (perm_trans (l' := [0; 2; 1]%nat)); [repeat constructor|]. apply perm_swap.
  - repeat split; try reflexivity. intros row [<-|[<-|[]]]; reflexivity.
  - constructor; try reflexivity. cbn. apply perm_swap.
  - intros s [<-|[<-|[<-|[]]]]; cbn; lia.
  - intros a b [<-|[<-|[<-|[]]]] [<-|[<-|[<-|[]]]] E; try reflexivity; vm_compute in E; discriminate.
  - eexists. split; [vm_compute; reflexivity|]. split; [vm_compute; reflexivity|].
    cbn [nth]. repeat split; reflexivity.
Qed.
