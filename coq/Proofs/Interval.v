(* Proofs/Interval.v — C08_feasible_interval: for fixed other stations, the set of rates of one station that pass
   the phasor check is an interval, because  x |-> |a + b x|^2  is a convex quadratic.  Proved over Q for the
   executable check feasQ (squared-norm comparison), no axioms. *)
From Coq Require Import ZArith QArith Qminmax List Bool Lia Lqa Setoid.
From ACN Require Import Base.Num Base.ListX Gen.Sorted_Q Model.Preproc Model.Sorted Proofs.Sorted.
Import ListNotations.
Open Scope Q_scope.

(* the dot product is affine in one coordinate of the vector *)
Lemma dot_upd_affine : forall c v i, exists p q, forall x, dot c (upd i x v) == p + q * x.
Proof.
  induction c as [|a c IH]; intros v i.
  - exists 0, 0. intro x. destruct (upd i x v); simpl; ring.
  - destruct v as [|y v].
    + exists 0, 0. intro x. destruct i; simpl; ring.
    + destruct i as [|i].
      * exists (dot c v), a. intro x. simpl. ring.
      * destruct (IH v i) as [p [q H]]. exists (a * y + p), q. intro x. simpl. rewrite H. ring.
Qed.

Lemma Qsq_nonneg (a : Q) : 0 <= a * a.
Proof.
  destruct (Qlt_le_dec a 0) as [N|P].
  - setoid_replace (a * a) with ((- a) * (- a)) by ring. apply Qmult_le_0_compat; lra.
  - apply Qmult_le_0_compat; lra.
Qed.

(* a convex quadratic that is <= K at both ends of a segment is <= K inside *)
Lemma quad_convex p q u w K x1 x x2 :
  x1 <= x -> x <= x2 ->
  (p + q * x1) * (p + q * x1) + (u + w * x1) * (u + w * x1) <= K ->
  (p + q * x2) * (p + q * x2) + (u + w * x2) * (u + w * x2) <= K ->
  (p + q * x) * (p + q * x) + (u + w * x) * (u + w * x) <= K.
Proof.
  intros H1 H2 F1 F2.
  set (f := fun t => (p + q * t) * (p + q * t) + (u + w * t) * (u + w * t)) in *.
  change (f x1 <= K) in F1. change (f x2 <= K) in F2. change (f x <= K).
  destruct (Qeq_dec x1 x2) as [E|NE].
  - assert (Ex : x == x1) by lra. unfold f in *. rewrite Ex. exact F1.
  - assert (D : 0 < x2 - x1) by lra.
    assert (Id : (x2 - x1) * f x ==
                 (x2 - x) * f x1 + (x - x1) * f x2 - (q * q + w * w) * ((x - x1) * (x2 - x)) * (x2 - x1))
      by (unfold f; ring).
    assert (A1 : (x2 - x) * f x1 <= (x2 - x) * K).
    { rewrite !(Qmult_comm (x2 - x)). apply Qmult_le_compat_r; lra. }
    assert (A2 : (x - x1) * f x2 <= (x - x1) * K).
    { rewrite !(Qmult_comm (x - x1)). apply Qmult_le_compat_r; lra. }
    assert (A3 : 0 <= (q * q + w * w) * ((x - x1) * (x2 - x)) * (x2 - x1)).
    { apply Qmult_le_0_compat; [apply Qmult_le_0_compat|lra].
      - assert (0 <= q * q) by apply Qsq_nonneg. assert (0 <= w * w) by apply Qsq_nonneg. lra.
      - apply Qmult_le_0_compat; lra. }
    assert (B : (x2 - x1) * f x <= (x2 - x1) * K).
    { rewrite Id. setoid_replace ((x2 - x1) * K) with ((x2 - x) * K + (x - x1) * K) by ring. lra. }
    apply (Qmult_le_l _ _ (x2 - x1)); auto.
Qed.

Lemma row_ok_interval r i sched x1 x x2 :
  x1 <= x -> x <= x2 ->
  row_ok (upd i x1 sched) r = true -> row_ok (upd i x2 sched) r = true -> row_ok (upd i x sched) r = true.
Proof.
  intros H1 H2. unfold row_ok, norm_within. rewrite !andb_true_iff, !Qleb_spec.
  intros [R0 F1] [_ F2]. split; auto.
  destruct (dot_upd_affine (cr_re r) sched i) as [p [q Hre]].
  destruct (dot_upd_affine (cr_im r) sched i) as [u [w Him]].
  rewrite Hre, Him in *. eapply quad_convex; eauto.
Qed.

Theorem feasQ_interval inf i sched : interval_closed (feasQ inf) i sched.
Proof.
  unfold interval_closed, feasQ, feas_rows. intros x1 x x2 H1 H2 F1 F2.
  rewrite forallb_forall in *. intros r Ir. eapply row_ok_interval; eauto.
Qed.
