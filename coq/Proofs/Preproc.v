(* Proofs/Preproc.v — what SortedSchedulingAlgo.run_preprocessing guarantees, and the composition
   preprocessing + algorithm (schedule_with) used by the C07 pipeline theorems. *)
From Coq Require Import ZArith QArith Qminmax Qabs Qround List Bool String Lia Lqa Permutation Sorting.Sorted.
From ACN Require Import Base.Num Base.ListX Gen.Sorted_Q Gen.SortedZ_Z Gen.Evse_Q Gen.Battery_Q
     Model.EVSE Model.Preproc Model.Sorted Proofs.Sorted.
Import ListNotations.
Open Scope list_scope.
Open Scope Q_scope.

(* ============================================================================================
   0. anchors of preprocessing.py / upper_bound_estimator.py (closed by reflexivity on Gen/Sorted_Q.v)
   ============================================================================================ *)
Lemma anchor_threshold mn v period : Pre_threshold mn v 0 0 period = mn * v / ((60 # 1) / period) / (1000 # 1).
Proof. reflexivity. Qed.
Lemma anchor_keep rd thr period : Pre_keep rd thr 0 0 period = Qltb thr rd.                Proof. reflexivity. Qed.
Lemma anchor_pilot_limit mp x : Pre_pilot_limit mp x 0 0 = Qmin x mp.                      Proof. reflexivity. Qed.
Lemma anchor_mask mx mn : Pre_reconcile_mask mx mn 0 0 = Qltb mx mn.                       Proof. reflexivity. Qed.
Lemma anchor_choose_min : Pre_reconcile_choose_min 0 0 = true.                             Proof. reflexivity. Qed.
Lemma anchor_est_min x b : Pre_est_min x 0 0 b = Qmin x b.                                 Proof. reflexivity. Qed.
Lemma anchor_min_ok r period feas rp : Pre_min_ok r 0 0 period 0 feas rp = Qleb r rp && feas.  Proof. reflexivity. Qed.
Lemma anchor_min_new r m period : Pre_min_new r m 0 0 period 0 = Qmax r m.                 Proof. reflexivity. Qed.
Lemma anchor_ramp_clip mp ub : Ramp_clip mp ub 0 = Qmin (Qmax ub 0) mp.                    Proof. reflexivity. Qed.
Lemma anchor_ramp_down_test d pp pr : Ramp_down_test d pp pr 0 = Qltb d (pp - pr).         Proof. reflexivity. Qed.
Lemma anchor_ramp_down_val u pr : Ramp_down_val u pr 0 = pr + u.                           Proof. reflexivity. Qed.
Lemma anchor_ramp_up_test u pr ub : Ramp_up_test u pr ub 0 = Qltb (ub - pr) u.             Proof. reflexivity. Qed.
Lemma anchor_ramp_up_inc u : Ramp_up_inc u 0 = u.                                          Proof. reflexivity. Qed.
(* both copies of the amp-period conversion are the same expression *)
Lemma rap_utils_iface inf period s : rap_utils inf period s = rap_iface inf period s.
Proof. reflexivity. Qed.
Lemma anchor_remaining_demand s : remaining_demand s = s_req s - s_del s.                  Proof. reflexivity. Qed.

(* ============================================================================================
   1. list-head facts
   ============================================================================================ *)
Definition session_wf (s : session) : Prop := s_min s <> [] /\ s_max s <> [].

(* everything of a session except its rate bounds *)
Definition ident (s : session) := (s_station s, s_id s, (s_req s, s_del s), (s_arr s, s_dep s, s_edep s, s_cur s)).

Lemma ident_station s s' : ident s = ident s' -> s_station s = s_station s'.
Proof. unfold ident. intro H. now injection H. Qed.
Lemma ident_id s s' : ident s = ident s' -> s_id s = s_id s'.
Proof. unfold ident. intro H. now injection H. Qed.
Lemma ident_rap inf period s s' : ident s = ident s' -> rap inf period s = rap inf period s'.
Proof.
  unfold ident. intro H. injection H as H1 H2 H3 H4 H5 H6 H7 H8.
  unfold rap, rap_iface, remaining_demand. now rewrite H1, H3, H4.
Qed.

Lemma hd0_map f (l : list Q) : l <> [] -> hd0 (map f l) = f (hd0 l).
Proof. destruct l; [congruence|reflexivity]. Qed.
Lemma map_nonempty {A B} (f : A -> B) l : l <> [] -> map f l <> [].
Proof. destruct l; simpl; congruence. Qed.
Lemma hd0_mask_assign test a b :
  a <> [] -> b <> [] -> hd0 (mask_assign test a b) = if test (hd0 a) (hd0 b) then hd0 b else hd0 a.
Proof. destruct a, b; try congruence. reflexivity. Qed.
Lemma mask_assign_nonempty test a b : a <> [] -> mask_assign test a b <> [].
Proof. destruct a, b; simpl; congruence. Qed.
Lemma hd0_set_hd v l : l <> [] -> hd0 (set_hd v l) = v.
Proof. destruct l; [congruence|reflexivity]. Qed.
Lemma set_hd_nonempty v l : l <> [] -> set_hd v l <> [].
Proof. destruct l; simpl; congruence. Qed.

Lemma Qltb_false a b : Qltb a b = false <-> b <= a.
Proof.
  unfold Qltb. rewrite negb_false_iff. apply Qle_bool_iff.
Qed.

(* ---- the per-session transformations ---- *)
Definition enforce_one (inf : infra) (s : session) : session :=
  set_max s (map (fun x => Pre_pilot_limit (nthQ (i_maxp inf) (s_station s)) x 0 0) (s_max s)).

Lemma reconcile_unfold s :
  reconcile_max_and_min s
  = set_max s (mask_assign (fun mx mn => Qltb mx mn) (s_max s) (s_min s)).
Proof. reflexivity. Qed.

Lemma reconcile_facts s : session_wf s ->
  let s' := reconcile_max_and_min s in
  ident s' = ident s /\ s_min s' = s_min s /\ session_wf s'
  /\ hd0 (s_max s') = (if Qltb (hd0 (s_max s)) (hd0 (s_min s)) then hd0 (s_min s) else hd0 (s_max s))
  /\ hd0 (s_min s') <= hd0 (s_max s').
Proof.
  intros [W1 W2]. rewrite reconcile_unfold. cbv zeta.
  split; [reflexivity|]. split; [reflexivity|]. split.
  - split; [exact W1|]. cbn [s_max set_max]. now apply mask_assign_nonempty.
  - cbn [s_max s_min set_max]. rewrite hd0_mask_assign by auto. split; [reflexivity|].
    destruct (Qltb (hd0 (s_max s)) (hd0 (s_min s))) eqn:E.
    + apply Qle_refl.
    + now apply Qltb_false.
Qed.

Lemma enforce_facts inf s : session_wf s ->
  let s' := enforce_one inf s in
  ident s' = ident s /\ s_min s' = s_min s /\ session_wf s'
  /\ hd0 (s_max s') = Qmin (hd0 (s_max s)) (nthQ (i_maxp inf) (s_station s)).
Proof.
  intros [W1 W2]. unfold enforce_one. cbv zeta.
  split; [reflexivity|]. split; [reflexivity|]. split.
  - split; [exact W1|]. cbn [s_max set_max]. now apply map_nonempty.
  - cbn [s_max set_max]. now rewrite hd0_map.
Qed.

Lemma apply_bound_facts store s : session_wf s ->
  let s' := apply_bound store s in
  ident s' = ident s /\ s_min s' = s_min s /\ session_wf s'
  /\ hd0 (s_min s') <= hd0 (s_max s')
  /\ hd0 (s_max s') =
     (let m := match zassoc (s_id s) store with Some b => Qmin (hd0 (s_max s)) b | None => hd0 (s_max s) end in
      if Qltb m (hd0 (s_min s)) then hd0 (s_min s) else m).
Proof.
  intros [W1 W2]. unfold apply_bound. cbv zeta.
  destruct (zassoc (s_id s) store) as [b|].
  - set (x := set_max s (map (fun x => Pre_est_min x 0 0 b) (s_max s))).
    assert (Wx : session_wf x).
    { split; [exact W1|]. cbn [x s_max set_max]. now apply map_nonempty. }
    destruct (reconcile_facts x Wx) as [A [B [C [D E]]]].
    split; [exact A|]. split; [exact B|]. split; [exact C|]. split; [exact E|].
    rewrite D. cbn [x s_max s_min set_max]. now rewrite hd0_map.
  - destruct (reconcile_facts s (conj W1 W2)) as [A [B [C [D E]]]]. auto.
Qed.

Section MinRate.
  Variable feasible : list Q -> bool.
  Variable inf : infra.
  Variable period : Q.

  Lemma keep_facts s r : session_wf s ->
    let s' := min_rate_keep period s r in
    ident s' = ident s /\ session_wf s'
    /\ hd0 (s_min s') = Qmax r (hd0 (s_min s))
    /\ hd0 (s_min s') <= hd0 (s_max s')
    /\ hd0 (s_max s') = (if Qltb (hd0 (s_max s)) (Qmax r (hd0 (s_min s))) then Qmax r (hd0 (s_min s)) else hd0 (s_max s)).
  Proof.
    intros [W1 W2]. unfold min_rate_keep. cbv zeta.
    set (x := set_min s (set_hd (Pre_min_new r (hd0 (s_min s)) 0 0 period 0) (s_min s))).
    assert (Wx : session_wf x).
    { split; [|exact W2]. cbn [x s_min set_min]. now apply set_hd_nonempty. }
    destruct (reconcile_facts x Wx) as [A [B [C [D E]]]].
    assert (Hm : hd0 (s_min x) = Qmax r (hd0 (s_min s))).
    { cbn [x s_min set_min]. now rewrite hd0_set_hd. }
    split; [exact A|]. split; [exact C|]. split; [now rewrite B|]. split; [exact E|].
    rewrite D, Hm. reflexivity.
  Qed.

  Lemma drop_facts s : session_wf s ->
    let s' := min_rate_drop s in
    ident s' = ident s /\ session_wf s' /\ hd0 (s_min s') = 0 /\ hd0 (s_max s') = 0.
  Proof.
    intros [W1 W2]. unfold min_rate_drop. cbv zeta.
    split; [reflexivity|]. split.
    - split; cbn [s_min s_max set_min set_max]; now apply set_hd_nonempty.
    - cbn [s_min s_max set_min set_max]. now rewrite !hd0_set_hd.
  Qed.

  (* every output of the minimum-rate loop is the kept or the dropped version of a queued session *)
  Lemma min_rate_loop_member : forall q rates s',
    In s' (fst (min_rate_loop feasible inf period q rates)) ->
    exists x, In x q /\
      (s' = min_rate_drop x
       \/ (s' = min_rate_keep period x (nthQ (i_minp inf) (s_station x))
           /\ nthQ (i_minp inf) (s_station x) <= rap_utils inf period x)).
  Proof.
    induction q as [|s q IH]; intros rates s' I; cbn [min_rate_loop] in I; [destruct I|].
    rewrite anchor_min_ok in I.
    destruct (Qleb (nthQ (i_minp inf) (s_station s)) (rap_utils inf period s)
              && feasible (upd (s_station s) (nthQ (i_minp inf) (s_station s)) rates)) eqn:T.
    - destruct (min_rate_loop feasible inf period q _) as [o f] eqn:R. cbn [fst] in I.
      destruct I as [<-|I].
      + exists s. split; [now left|]. right. split; auto.
        apply andb_true_iff in T. destruct T as [T _]. now apply Qleb_spec.
      + specialize (IH (upd (s_station s) (nthQ (i_minp inf) (s_station s)) rates) s').
        rewrite R in IH. destruct (IH I) as [x [Ix H]]. exists x. split; auto. now right.
    - destruct (min_rate_loop feasible inf period q _) as [o f] eqn:R. cbn [fst] in I.
      destruct I as [<-|I].
      + exists s. split; [now left|]. now left.
      + match type of R with min_rate_loop _ _ _ _ ?r = _ => specialize (IH r s') end.
        rewrite R in IH. destruct (IH I) as [x [Ix H]]. exists x. split; auto. now right.
  Qed.

  Lemma min_rate_loop_idents : forall q rates,
    map ident (fst (min_rate_loop feasible inf period q rates)) = map ident q.
  Proof.
    induction q as [|s q IH]; intros rates; cbn [min_rate_loop]; [reflexivity|].
    destruct (Pre_min_ok _ _ _ _ _ _ _).
    - specialize (IH (upd (s_station s) (nthQ (i_minp inf) (s_station s)) rates)).
      destruct (min_rate_loop feasible inf period q _) as [o f]. cbn [fst map] in *. now rewrite IH.
    - match goal with |- context [min_rate_loop _ _ _ q ?r] => specialize (IH r) end.
      destruct (min_rate_loop feasible inf period q _) as [o f]. cbn [fst map] in *. now rewrite IH.
  Qed.
End MinRate.

(* ============================================================================================
   2. run_preprocessing
   ============================================================================================ *)
Section Pipeline.
  Variable feasible : list Q -> bool.
  Variable inf : infra.
  Variable period : Q.

  Definition infra_wf : Prop :=
    infra_lengths inf
    /\ forall i, (i < n_stations inf)%nat ->
         (nthQ (i_minp inf) i = 0 \/ 0 < nthQ (i_minp inf) i)
         /\ nthQ (i_minp inf) i <= nthQ (i_maxp inf) i
         /\ (nth i (i_cont inf) true = false -> In (nthQ (i_minp inf) i) (nth i (i_allow inf) [])).

  Definition pre_store (est : option ramp) (ss : list session) : list (Z * Q) :=
    match est with
    | Some rp => rampdown inf rp (enforce_pilot_limit inf (remove_finished_sessions inf period ss))
    | None => []
    end.

  Lemma run_preprocessing_store est unint ss :
    snd (run_preprocessing feasible inf period est unint ss) = pre_store est ss.
  Proof. unfold run_preprocessing, pre_store. destruct est; reflexivity. Qed.

  Definition pre_stage3 (est : option ramp) (ss : list session) (s : session) : session :=
    match est with
    | Some _ => apply_bound (pre_store est ss) (enforce_one inf s)
    | None => enforce_one inf s
    end.

  Lemma run_preprocessing_fst est unint ss :
    fst (run_preprocessing feasible inf period est unint ss)
    = let s3 := map (pre_stage3 est ss) (remove_finished_sessions inf period ss) in
      if unint then apply_minimum_charging_rate feasible inf period s3 else s3.
  Proof.
    unfold run_preprocessing, pre_stage3, pre_store, apply_upper_bound_estimate, enforce_pilot_limit.
    destruct est; cbn [fst]; rewrite ?map_map; reflexivity.
  Qed.

  Lemma pre_member est unint ss s' :
    In s' (fst (run_preprocessing feasible inf period est unint ss)) ->
    exists s, In s ss
      /\ Qltb (Pre_threshold (nthQ (i_minp inf) (s_station s)) (nthQ (i_volt inf) (s_station s)) 0 0 period)
              (remaining_demand s) = true
      /\ let x := pre_stage3 est ss s in
         (unint = false /\ s' = x)
         \/ (unint = true /\ (s' = min_rate_drop x
                              \/ (s' = min_rate_keep period x (nthQ (i_minp inf) (s_station x))
                                  /\ nthQ (i_minp inf) (s_station x) <= rap_utils inf period x))).
  Proof.
    rewrite run_preprocessing_fst. cbv zeta. intro I.
    assert (G : forall x, In x (map (pre_stage3 est ss) (remove_finished_sessions inf period ss)) ->
                exists s, In s ss
                  /\ Qltb (Pre_threshold (nthQ (i_minp inf) (s_station s)) (nthQ (i_volt inf) (s_station s)) 0 0 period)
                          (remaining_demand s) = true
                  /\ x = pre_stage3 est ss s).
    { intros x Ix. apply in_map_iff in Ix. destruct Ix as [s [<- Is]].
      unfold remove_finished_sessions in Is. apply filter_In in Is. destruct Is as [Is K].
      rewrite anchor_keep in K. exists s. auto. }
    destruct unint.
    - unfold apply_minimum_charging_rate in I. apply min_rate_loop_member in I.
      destruct I as [x [Ix H]].
      apply (Permutation_in _ (sort_by_perm _ _ _)) in Ix.
      destruct (G x Ix) as [s [Is [K ->]]]. exists s. split; [exact Is|]. split; [exact K|]. right. auto.
    - destruct (G s' I) as [s [Is [K ->]]]. exists s. split; [exact Is|]. split; [exact K|]. left. auto.
  Qed.

  Lemma pre_stage3_facts est ss s :
    session_wf s ->
    let x := pre_stage3 est ss s in
    ident x = ident s /\ s_min x = s_min s /\ session_wf x
    /\ (hd0 (s_min s) <= nthQ (i_maxp inf) (s_station s) -> hd0 (s_max x) <= nthQ (i_maxp inf) (s_station s))
    /\ (forall b, est <> None -> zassoc (s_id s) (pre_store est ss) = Some b ->
          hd0 (s_max x) <= Qmax b (hd0 (s_min s)))
    /\ (0 <= hd0 (s_max s) -> 0 <= nthQ (i_maxp inf) (s_station s) ->
        (forall k v, zassoc k (pre_store est ss) = Some v -> 0 <= v) ->
        hd0 (s_min s) <= 0 -> 0 <= hd0 (s_max x)).
  Proof.
    intro W. destruct (enforce_facts inf s W) as [A [B [C D]]]. cbv zeta in *.
    unfold pre_stage3. destruct est as [rp|].
    - destruct (apply_bound_facts (pre_store (Some rp) ss) (enforce_one inf s) C) as [A' [B' [C' [E' D']]]].
      cbv zeta in *. rewrite (ident_id _ _ A) in D'. rewrite B, D in D'.
      split; [congruence|]. split; [congruence|]. split; [exact C'|]. split; [|split].
      + intro Hm. rewrite D'. clear D'.
        destruct (zassoc (s_id s) (pre_store (Some rp) ss)) as [b|].
        * destruct (Qltb _ _); auto.
          eapply Qle_trans; [apply Q.le_min_l|]. apply Q.le_min_r.
        * destruct (Qltb _ _); auto. apply Q.le_min_r.
      + intros b _ Hb. rewrite D'. clear D'. rewrite Hb.
        destruct (Qltb _ _); [apply Q.le_max_r|].
        eapply Qle_trans; [apply Q.le_min_r|apply Q.le_max_l].
      + intros H0 Hmp Hst Hmn. rewrite D'. clear D'.
        destruct (zassoc (s_id s) (pre_store (Some rp) ss)) as [b|] eqn:Z.
        * assert (Hm : 0 <= Qmin (Qmin (hd0 (s_max s)) (nthQ (i_maxp inf) (s_station s))) b).
          { apply Q.min_glb; [apply Q.min_glb; auto|]. eapply Hst; eauto. }
          destruct (Qltb _ _) eqn:T; [|exact Hm]. apply Qltb_spec in T. exfalso. lra.
        * assert (Hm : 0 <= Qmin (hd0 (s_max s)) (nthQ (i_maxp inf) (s_station s))) by (apply Q.min_glb; auto).
          destruct (Qltb _ _) eqn:T; [|exact Hm]. apply Qltb_spec in T. exfalso. lra.
    - split; [exact A|]. split; [exact B|]. split; [exact C|]. split; [|split].
      + intros _. rewrite D. apply Q.le_min_r.
      + intros b Hn. congruence.
      + intros H0 Hmp _ _. rewrite D. apply Q.min_glb; auto.
  Qed.

  Lemma fallback_safe_zero s : hd0 (s_min s) <= 0 -> fallback_safe inf period s.
  Proof. intro H. right. left. now apply g_lb_zero. Qed.

  Theorem preproc_bounds est unint ss s' :
    infra_wf -> stations_ok inf ss ->
    (forall s, In s ss -> session_wf s /\ hd0 (s_min s) <= 0) ->
    In s' (fst (run_preprocessing feasible inf period est unint ss)) ->
    let i := s_station s' in
    let lb := g_lb s' in
    0 <= lb
    /\ (lb = 0 \/ (unint = true /\ lb = nthQ (i_minp inf) i /\ lb <= rap inf period s' /\ lb <= hd0 (s_max s')
                  /\ (nth i (i_cont inf) true = false -> In lb (nth i (i_allow inf) []))))
    /\ fallback_safe inf period s'
    /\ hd0 (s_max s') <= nthQ (i_maxp inf) i
    /\ (forall rp b, est = Some rp ->
          zassoc (s_id s') (snd (run_preprocessing feasible inf period est unint ss)) = Some b ->
          hd0 (s_max s') <= Qmax b lb)
    /\ exists s, In s ss /\ ident s' = ident s.
  Proof.
    intros [IL WF] SO Hss I. cbv zeta. rewrite run_preprocessing_store.
    apply pre_member in I. destruct I as [s [Is [K H]]]. cbv zeta in H.
    destruct (Hss s Is) as [W Hmin].
    specialize (SO s Is). destruct (WF _ SO) as [Wmin [Wmm Wal]].
    assert (Hmp0 : 0 <= nthQ (i_maxp inf) (s_station s)).
    { eapply Qle_trans; [|exact Wmm]. destruct Wmin as [->|L]; lra. }
    destruct (pre_stage3_facts est ss s W) as [A [B [C [D [E _]]]]]. cbv zeta in *.
    set (x := pre_stage3 est ss s) in *.
    assert (Sx : s_station x = s_station s) by now apply ident_station.
    assert (Dx : hd0 (s_max x) <= nthQ (i_maxp inf) (s_station s)) by (apply D; lra).
    assert (Ex : forall rp b, est = Some rp -> zassoc (s_id s) (pre_store est ss) = Some b ->
                 hd0 (s_max x) <= Qmax b (hd0 (s_min s))).
    { intros rp b He Hb. apply E; auto. congruence. }
    destruct H as [[Hu ->]|[Hu [->|[-> Hr]]]].
    - (* no uninterrupted charging: lower bound 0 *)
      assert (L0 : g_lb x = 0) by (apply g_lb_zero; rewrite B; exact Hmin).
      rewrite L0, Sx. split; [apply Qle_refl|]. split; [now left|]. split.
      { apply fallback_safe_zero. now rewrite B. }
      split; [exact Dx|]. split.
      + intros rp b He Hb. rewrite (ident_id _ _ A) in Hb.
        eapply Qle_trans; [eapply Ex; eauto|]. apply Q.max_le_compat_l. exact Hmin.
      + exists s. split; [exact Is|exact A].
    - (* dropped: min = max = 0 *)
      destruct (drop_facts x C) as [A' [C' [M0 X0]]]. cbv zeta in *.
      assert (L0 : g_lb (min_rate_drop x) = 0) by (apply g_lb_zero; rewrite M0; apply Qle_refl).
      rewrite L0, (ident_station _ _ A'), Sx. split; [apply Qle_refl|]. split; [now left|]. split.
      { apply fallback_safe_zero. rewrite M0. apply Qle_refl. }
      split; [now rewrite X0|]. split.
      + intros rp b _ _. rewrite X0. apply Q.le_max_r.
      + exists s. split; [exact Is|congruence].
    - (* kept at the minimum pilot *)
      rewrite Sx in *. set (r := nthQ (i_minp inf) (s_station s)) in *.
      destruct (keep_facts period x r C) as [A' [C' [M' [LE' X']]]]. cbv zeta in *.
      set (k := min_rate_keep period x r) in *.
      assert (Hr0 : Qmax r (hd0 (s_min x)) = r).
      { rewrite B. apply Qmax_left. intro L. destruct Wmin as [E0|L0]; [fold r in E0; rewrite E0 in L|]; lra. }
      rewrite Hr0 in M', X'.
      assert (Sk : s_station k = s_station s) by (rewrite (ident_station _ _ A'); exact Sx).
      assert (Rk : rap inf period k = rap_utils inf period x).
      { rewrite rap_utils_iface. apply ident_rap. exact A'. }
      assert (Xk : hd0 (s_max k) <= nthQ (i_maxp inf) (s_station s)).
      { rewrite X'. destruct (Qltb (hd0 (s_max x)) r); auto. }
      assert (Ek : forall rp b, est = Some rp -> zassoc (s_id s) (pre_store est ss) = Some b ->
                   hd0 (s_max k) <= Qmax b (Qmax 0 r)).
      { intros rp b He Hb. rewrite X'. destruct (Qltb (hd0 (s_max x)) r).
        - eapply Qle_trans; [apply (Q.le_max_r 0 r)|apply Q.le_max_r].
        - eapply Qle_trans; [eapply Ex; eauto|]. apply Q.max_le_compat_l.
          eapply Qle_trans; [exact Hmin|]. apply Q.le_max_l. }
      unfold Sorted.g_lb. rewrite anchor_lb, M', Sk.
      destruct Wmin as [E0|L0].
      + (* minimum pilot 0 *)
        fold r in E0. rewrite E0 in *. rewrite (Qmax_left 0 0) by lra.
        split; [apply Qle_refl|]. split; [now left|]. split.
        { right. left. unfold Sorted.g_lb. rewrite anchor_lb, M'. apply Qmax_left. lra. }
        split; [exact Xk|]. split.
        * intros rp b He Hb. rewrite (ident_id _ _ A'), (ident_id _ _ A) in Hb.
          specialize (Ek rp b He Hb). rewrite (Qmax_left 0 0) in Ek by lra. exact Ek.
        * exists s. split; [exact Is|congruence].
      + fold r in L0. rewrite (Qmax_right 0 r) by exact L0.
        split; [lra|]. split.
        { right. split; auto. split; auto. split; [rewrite Rk; exact Hr|]. split; [rewrite <- M'; exact LE'|].
          exact Wal. }
        split.
        { assert (Lk : g_lb k = r).
          { unfold Sorted.g_lb. rewrite anchor_lb, M'. now apply Qmax_right. }
          destruct (nth (s_station k) (i_cont inf) true) eqn:Cc; [now left|]. right. right.
          rewrite Lk. unfold Sorted.g_allowable. apply filter_In. rewrite Sk in *.
          split; [now apply Wal|]. rewrite Lk.
          rewrite anchor_level_ok. apply andb_true_iff. split; apply Qleb_spec; [apply Qle_refl|].
          unfold Sorted.g_ub. rewrite anchor_ub. fold (rap inf period k).
          apply Q.min_glb; [rewrite <- M'; exact LE'|rewrite Rk; exact Hr]. }
        split; [exact Xk|]. split.
        * intros rp b He Hb. rewrite (ident_id _ _ A'), (ident_id _ _ A) in Hb.
          specialize (Ek rp b He Hb). rewrite (Qmax_right 0 r) in Ek by exact L0. exact Ek.
        * exists s. split; [exact Is|congruence].
  Qed.
End Pipeline.

(* ============================================================================================
   3. preprocessing keeps one session per station; non-negativity; the lower-bound vector
   ============================================================================================ *)
Lemma NoDup_map_filter {A B} (f : A -> B) p l : NoDup (map f l) -> NoDup (map f (filter p l)).
Proof.
  induction l as [|a l IH]; simpl; intro H; [constructor|].
  inversion H as [|? ? Hn ND]; subst. destruct (p a); simpl; auto.
  constructor; auto. intro I. apply Hn. apply in_map_iff in I. destruct I as [x [E Ix]].
  apply filter_In in Ix. apply in_map_iff. exists x. tauto.
Qed.

Lemma NoDup_map_inj {A B} (f : A -> B) l a b :
  NoDup (map f l) -> In a l -> In b l -> f a = f b -> a = b.
Proof.
  induction l as [|x l IH]; simpl; intros ND Ia Ib E; [destruct Ia|].
  inversion ND as [|? ? Hn ND']; subst.
  destruct Ia as [->|Ia], Ib as [->|Ib]; auto.
  - exfalso. apply Hn. rewrite E. now apply in_map.
  - exfalso. apply Hn. rewrite <- E. now apply in_map.
Qed.

Definition station_of_ident (x : nat * Z * (Q * Q) * (Z * Z * Z * Z)) : nat := fst (fst (fst x)).
Lemma map_station_ident l : map s_station l = map station_of_ident (map ident l).
Proof. rewrite map_map. reflexivity. Qed.

Section Pipeline2.
  Variable feasible : list Q -> bool.
  Variable inf : infra.
  Variable period : Q.

  Lemma pre_stage3_ident est ss s : ident (pre_stage3 inf period est ss s) = ident s.
  Proof. unfold pre_stage3. destruct est; [unfold apply_bound; destruct (zassoc _ _)|]; reflexivity. Qed.

  Lemma preproc_idents est unint ss :
    Permutation (map ident (fst (run_preprocessing feasible inf period est unint ss)))
                (map ident (remove_finished_sessions inf period ss)).
  Proof.
    rewrite run_preprocessing_fst. cbv zeta.
    assert (M : map ident (map (pre_stage3 inf period est ss) (remove_finished_sessions inf period ss))
                = map ident (remove_finished_sessions inf period ss)).
    { rewrite map_map. apply map_ext. intro s. apply pre_stage3_ident. }
    destruct unint.
    - unfold apply_minimum_charging_rate. rewrite min_rate_loop_idents, <- M.
      apply Permutation_map. apply sort_by_perm.
    - now rewrite M.
  Qed.

  Theorem preproc_stations est unint ss :
    NoDup (map s_station ss) ->
    NoDup (map s_station (fst (run_preprocessing feasible inf period est unint ss)))
    /\ incl (map s_station (fst (run_preprocessing feasible inf period est unint ss))) (map s_station ss).
  Proof.
    intro ND.
    assert (P : Permutation (map s_station (fst (run_preprocessing feasible inf period est unint ss)))
                            (map s_station (remove_finished_sessions inf period ss))).
    { rewrite !map_station_ident. apply Permutation_map. apply preproc_idents. }
    split.
    - eapply Permutation_NoDup; [symmetry; exact P|]. now apply NoDup_map_filter.
    - intros i I. apply (Permutation_in _ P) in I. apply in_map_iff in I. destruct I as [s [<- Is]].
      apply filter_In in Is. apply in_map. tauto.
  Qed.

  Lemma preproc_stations_ok est unint ss :
    stations_ok inf ss -> stations_ok inf (fst (run_preprocessing feasible inf period est unint ss)).
  Proof.
    intros SO s' I.
    assert (P := preproc_idents est unint ss).
    apply (in_map ident) in I. apply (Permutation_in _ P) in I. apply in_map_iff in I.
    destruct I as [s [E Is]]. apply filter_In in Is. rewrite <- (ident_station _ _ E). apply SO. tauto.
  Qed.

  (* ---- non-negativity ---- *)
  Definition period_ok : Prop :=
    0 < period /\ forall i, (i < n_stations inf)%nat -> 0 < nthQ (i_volt inf) i.
  Definition est_ok (e : option ramp) : Prop :=
    match e with Some rp => forall k v, zassoc k (r_store rp) = Some v -> 0 <= v | None => True end.

  Lemma zassoc_set_spec k v l k' :
    zassoc k' (zassoc_set k v l) = if Z.eqb k' k then Some v else zassoc k' l.
  Proof.
    induction l as [|[a b] l IH]; simpl.
    - destruct (Z.eqb k' k); reflexivity.
    - destruct (Z.eqb k a) eqn:E; simpl.
      + apply Z.eqb_eq in E. subst a. destruct (Z.eqb k' k); reflexivity.
      + rewrite IH. destruct (Z.eqb k' a) eqn:E2; auto.
        apply Z.eqb_eq in E2. subst a. destruct (Z.eqb k' k) eqn:E3; auto.
        apply Z.eqb_eq in E3. subst. rewrite Z.eqb_refl in E. discriminate.
  Qed.

  Lemma rampdown_nonneg rp l :
    (forall k v, zassoc k (r_store rp) = Some v -> 0 <= v) ->
    (forall s, In s l -> 0 <= nthQ (i_maxp inf) (s_station s)) ->
    forall k v, zassoc k (rampdown inf rp l) = Some v -> 0 <= v.
  Proof.
    unfold rampdown. generalize (r_store rp). induction l as [|s l IH]; intros st Hst Hmp; cbn [fold_left]; auto.
    apply IH; [|intros x Ix; apply Hmp; now right].
    assert (M := Hmp s (or_introl eq_refl)).
    intros k v. unfold ramp_one.
    set (mp := nthQ (i_maxp inf) (s_station s)) in *.
    set (st1 := match zassoc (s_id s) st with Some _ => st | None => zassoc_set (s_id s) mp st end).
    assert (H1 : forall k v, zassoc k st1 = Some v -> 0 <= v).
    { intros k0 v0. unfold st1. destruct (zassoc (s_id s) st); [apply Hst|].
      rewrite zassoc_set_spec. destruct (Z.eqb k0 (s_id s)); [intro E; injection E as <-; exact M|apply Hst]. }
    destruct (zassoc (s_id s) (r_prev_pilot rp)); [|apply H1].
    rewrite zassoc_set_spec. destruct (Z.eqb k (s_id s)); [|apply H1].
    intro E. injection E as <-. unfold ramp_update. rewrite anchor_ramp_clip.
    apply Q.min_glb; [apply Q.le_max_r|exact M].
  Qed.

  (* the clip keeps an updated bound inside [0, max pilot] *)
  Lemma ramp_update_range rp mp pp pr ub : 0 <= mp ->
    0 <= ramp_update rp mp pp pr ub /\ ramp_update rp mp pp pr ub <= mp.
  Proof.
    intro H. unfold ramp_update. rewrite anchor_ramp_clip. split; [|apply Q.le_min_r].
    apply Q.min_glb; [apply Q.le_max_r|exact H].
  Qed.

  (* every session handed to the estimator has a bound afterwards, keyed by its SESSION id *)
  Lemma ramp_one_keeps rp st s k : zassoc k st <> None -> zassoc k (ramp_one inf rp st s) <> None.
  Proof.
    intro H. unfold ramp_one.
    set (mp := nthQ (i_maxp inf) (s_station s)).
    set (st1 := match zassoc (s_id s) st with Some _ => st | None => zassoc_set (s_id s) mp st end).
    assert (H1 : zassoc k st1 <> None).
    { unfold st1. destruct (zassoc (s_id s) st); auto. rewrite zassoc_set_spec. destruct (Z.eqb k (s_id s)); [discriminate|auto]. }
    destruct (zassoc (s_id s) (r_prev_pilot rp)); auto.
    rewrite zassoc_set_spec. destruct (Z.eqb k (s_id s)); [discriminate|auto].
  Qed.

  Lemma ramp_one_sets rp st s : zassoc (s_id s) (ramp_one inf rp st s) <> None.
  Proof.
    unfold ramp_one.
    set (mp := nthQ (i_maxp inf) (s_station s)).
    set (st1 := match zassoc (s_id s) st with Some _ => st | None => zassoc_set (s_id s) mp st end).
    assert (H1 : zassoc (s_id s) st1 <> None).
    { unfold st1. destruct (zassoc (s_id s) st) eqn:E; [congruence|]. rewrite zassoc_set_spec, Z.eqb_refl. discriminate. }
    destruct (zassoc (s_id s) (r_prev_pilot rp)); auto.
    rewrite zassoc_set_spec, Z.eqb_refl. discriminate.
  Qed.

  Theorem rampdown_has_bound rp l s : In s l -> exists b, zassoc (s_id s) (rampdown inf rp l) = Some b.
  Proof.
    unfold rampdown. generalize (r_store rp).
    assert (K : forall l st k, zassoc k st <> None -> zassoc k (fold_left (ramp_one inf rp) l st) <> None).
    { clear. induction l as [|x l IH]; intros st k H; cbn [fold_left]; auto. apply IH. now apply ramp_one_keeps. }
    induction l as [|x l IH]; intros st I; [destruct I|]. cbn [fold_left].
    destruct I as [->|I]; [|now apply IH].
    destruct (zassoc (s_id s) (fold_left (ramp_one inf rp) l (ramp_one inf rp st s))) as [b|] eqn:E; [eauto|].
    exfalso. revert E. apply K. apply ramp_one_sets.
  Qed.

  Lemma threshold_nonneg mn v : 0 <= mn -> 0 < v -> 0 < period -> 0 <= Pre_threshold mn v 0 0 period.
  Proof.
    intros Hm Hv Hp. rewrite anchor_threshold.
    assert (E : mn * v / ((60 # 1) / period) / (1000 # 1) == mn * v * period / (60000 # 1)) by (field; lra).
    rewrite E. apply Qle_shift_div_l; [lra|]. rewrite Qmult_0_l.
    apply Qmult_le_0_compat; [apply Qmult_le_0_compat|]; lra.
  Qed.

  Lemma rap_nonneg s : 0 <= remaining_demand s -> 0 < nthQ (i_volt inf) (s_station s) -> 0 < period ->
    0 <= rap inf period s.
  Proof.
    intros Hr Hv Hp. unfold rap, rap_iface. rewrite anchor_rap.
    set (v := nthQ (i_volt inf) (s_station s)) in *. set (rd := remaining_demand s) in *.
    assert (E : rd * (1000 # 1) / v * (60 # 1) / period == rd * (60000 # 1) / (v * period)) by (field; lra).
    rewrite E. apply Qle_shift_div_l.
    - apply Qmult_lt_0_compat; lra.
    - rewrite Qmult_0_l. apply Qmult_le_0_compat; lra.
  Qed.

  Lemma infra_wf_nonneg i : infra_wf inf -> (i < n_stations inf)%nat ->
    0 <= nthQ (i_minp inf) i /\ 0 <= nthQ (i_maxp inf) i.
  Proof.
    intros [_ WF] L. destruct (WF i L) as [[E|P] [M _]].
    - rewrite E in *. split; lra.
    - split; lra.
  Qed.

  Theorem preproc_nonneg est unint ss s' :
    infra_wf inf -> stations_ok inf ss -> period_ok -> est_ok est ->
    (forall s, In s ss -> session_wf s /\ hd0 (s_min s) <= 0 /\ 0 <= hd0 (s_max s)) ->
    In s' (fst (run_preprocessing feasible inf period est unint ss)) ->
    0 <= hd0 (s_max s') /\ 0 <= rap inf period s'.
  Proof.
    intros WF SO [Pp Pv] EO Hss I.
    apply pre_member in I. destruct I as [s [Is [K H]]]. cbv zeta in H.
    destruct (Hss s Is) as [W [Hmin Hmax]]. pose proof (SO s Is) as Ls.
    destruct (infra_wf_nonneg _ WF Ls) as [Mn0 Mp0].
    assert (Hst : forall k v, zassoc k (pre_store inf period est ss) = Some v -> 0 <= v).
    { unfold pre_store. destruct est as [rp|]; [|intros k v E; discriminate].
      apply rampdown_nonneg; [exact EO|].
      intros x Ix. unfold enforce_pilot_limit in Ix. apply in_map_iff in Ix. destruct Ix as [y [<- Iy]].
      apply filter_In in Iy. cbn [s_station set_max].
      apply (infra_wf_nonneg _ WF). apply SO. tauto. }
    destruct (pre_stage3_facts inf period est ss s W) as [A [B [C [_ [_ N]]]]]. cbv zeta in *.
    specialize (N Hmax Mp0 Hst Hmin).
    set (x := pre_stage3 inf period est ss s) in *.
    assert (Rs : 0 <= rap inf period s).
    { apply rap_nonneg; auto. apply Qltb_spec in K.
      pose proof (threshold_nonneg _ _ Mn0 (Pv _ Ls) Pp). lra. }
    destruct H as [[_ ->]|[_ [->|[-> _]]]].
    - split; [exact N|]. now rewrite (ident_rap inf period _ _ A).
    - destruct (drop_facts x C) as [A' [_ [_ X0]]]. cbv zeta in *. split; [rewrite X0; lra|].
      rewrite (ident_rap inf period _ s) by congruence. exact Rs.
    - destruct (keep_facts period x (nthQ (i_minp inf) (s_station x)) C) as [A' [_ [M' [LE' X']]]]. cbv zeta in *.
      split.
      + rewrite X'.
        destruct (Qltb (hd0 (s_max x)) (Qmax (nthQ (i_minp inf) (s_station x)) (hd0 (s_min x)))); [|exact N].
        eapply Qle_trans; [|apply Q.le_max_l]. rewrite (ident_station _ _ A). exact Mn0.
      + rewrite (ident_rap inf period _ s) by congruence. exact Rs.
  Qed.

  (* ---- the vector of lower bounds is feasible ---- *)
  Lemma min_rate_loop_rates : forall q rates outs fin,
    infra_wf inf ->
    NoDup (map s_station q) ->
    (forall s, In s q -> (s_station s < n_stations inf)%nat /\ session_wf s /\ hd0 (s_min s) <= 0
                         /\ nth (s_station s) rates 0 = 0) ->
    List.length rates = n_stations inf ->
    feasible rates = true ->
    min_rate_loop feasible inf period q rates = (outs, fin) ->
    feasible fin = true /\ List.length fin = n_stations inf
    /\ map s_station outs = map s_station q
    /\ (forall s', In s' outs -> nth (s_station s') fin 0 = g_init_lb s')
    /\ (forall j, ~ In j (map s_station q) -> nth j fin 0 = nth j rates 0).
  Proof.
    induction q as [|s q IH]; intros rates outs fin WF ND Hq Len Fr H; cbn [min_rate_loop] in H.
    - injection H as <- <-. repeat split; auto. intros s' [].
    - inversion ND as [|? ? Hn ND']; subst.
      destruct (Hq s (or_introl eq_refl)) as [Ls [W [Hmin Z0]]].
      set (i := s_station s) in *. set (r := nthQ (i_minp inf) i) in *.
      assert (Hq' : forall rates', (forall j, j <> i -> nth j rates' 0 = nth j rates 0) ->
                    forall x, In x q -> (s_station x < n_stations inf)%nat /\ session_wf x /\ hd0 (s_min x) <= 0
                                        /\ nth (s_station x) rates' 0 = 0).
      { intros rates' Hr x Ix. destruct (Hq x (or_intror Ix)) as [a [b [c d]]].
        split; [exact a|]. split; [exact b|]. split; [exact c|].
        rewrite Hr; [exact d|]. intro E. apply Hn. rewrite <- E. now apply in_map. }
      rewrite anchor_min_ok in H.
      destruct (Qleb r (rap_utils inf period s) && feasible (upd i r rates)) eqn:T.
      + apply andb_true_iff in T. destruct T as [_ F1].
        destruct (min_rate_loop feasible inf period q (upd i r rates)) as [o f] eqn:R.
        injection H as <- <-.
        assert (Hu : forall j, j <> i -> nth j (upd i r rates) 0 = nth j rates 0).
        { intros j Hj. apply nth_upd_other. intro X. apply Hj. now symmetry. }
        assert (Lu : List.length (upd i r rates) = n_stations inf) by now rewrite upd_length.
        destruct (IH (upd i r rates) o f WF ND' (Hq' _ Hu) Lu F1 R) as [A [B [C [D E]]]].
        split; [exact A|]. split; [exact B|]. split; [cbn [map]; now rewrite C|]. split.
        * intros s' [<-|I]; [|now apply D].
          destruct (keep_facts period s r W) as [A' [_ [M' _]]]. cbv zeta in *.
          rewrite (ident_station _ _ A'). fold i. rewrite (E i Hn), nth_upd_same by lia.
          unfold g_init_lb. rewrite anchor_init_lb, M'.
          destruct WF as [_ WF]. destruct (WF i Ls) as [[E0|P0] _].
          -- fold r in E0. rewrite E0. rewrite (Qmax_left 0 (hd0 (s_min s))) by lra. now rewrite (Qmax_left 0 0) by lra.
          -- fold r in P0. rewrite (Qmax_left r (hd0 (s_min s))) by lra. now rewrite (Qmax_right 0 r).
        * intros j Hj. rewrite E; [apply nth_upd_other|]; intro X; apply Hj; [now left|now right].
      + destruct (min_rate_loop feasible inf period q (upd i 0 (upd i r rates))) as [o f] eqn:R.
        injection H as <- <-.
        assert (E0 : upd i 0 (upd i r rates) = rates).
        { rewrite upd_upd. now apply (upd_same_value _ _ 0). }
        rewrite E0 in R.
        destruct (IH rates o f WF ND' (Hq' rates (fun j _ => eq_refl)) Len Fr R) as [A [B [C [D E]]]].
        split; [exact A|]. split; [exact B|]. split; [cbn [map]; now rewrite C|]. split.
        * intros s' [<-|I]; [|now apply D].
          destruct (drop_facts s W) as [A' [_ [M0 _]]]. cbv zeta in *.
          rewrite (ident_station _ _ A'). fold i. rewrite (E i Hn), Z0.
          unfold g_init_lb. rewrite anchor_init_lb, M0. now rewrite (Qmax_left 0 0) by lra.
        * intros j Hj. apply E. intro X. apply Hj. now right.
  Qed.

  Lemma init_sched_zero lbf q :
    (forall s, In s q -> lbf s = 0) ->
    init_sched inf lbf q = repeat 0 (n_stations inf).
  Proof.
    unfold init_sched. generalize (n_stations inf). intros n H.
    induction q as [|s q IH]; cbn [fold_left]; auto.
    rewrite (H s (or_introl eq_refl)). rewrite (upd_same_value _ _ 0) by apply nth_repeat.
    apply IH. intros x Ix. apply H. now right.
  Qed.

  Theorem preproc_lower_bounds_feasible now est unint k ss :
    infra_wf inf -> NoDup (map s_station ss) -> stations_ok inf ss ->
    (forall s, In s ss -> session_wf s /\ hd0 (s_min s) <= 0) ->
    feasible (repeat 0 (n_stations inf)) = true ->
    let pre := fst (run_preprocessing feasible inf period est unint ss) in
    feasible (init_sched inf g_init_lb (sort_sessions inf period now k pre)) = true.
  Proof.
    intros WF ND SO Hss F0 pre.
    destruct unint.
    - (* uninterrupted charging: the loop's final `rates` vector is the vector of lower bounds *)
      unfold pre. rewrite run_preprocessing_fst. cbv zeta.
      set (s3 := map (pre_stage3 inf period est ss) (remove_finished_sessions inf period ss)).
      unfold apply_minimum_charging_rate.
      set (q := sort_by (fun s => inject_Z (remaining_time s)) false s3).
      destruct (min_rate_loop feasible inf period q (repeat 0 (n_stations inf))) as [outs fin] eqn:R.
      cbn [fst].
      assert (Pq : Permutation q s3) by apply sort_by_perm.
      assert (M3 : map ident s3 = map ident (remove_finished_sessions inf period ss)).
      { unfold s3. rewrite map_map. apply map_ext. intro s. apply pre_stage3_ident. }
      assert (ND3 : NoDup (map s_station s3)).
      { rewrite map_station_ident, M3, <- map_station_ident. now apply NoDup_map_filter. }
      assert (NDq : NoDup (map s_station q)).
      { eapply Permutation_NoDup; [|exact ND3]. apply Permutation_map. now symmetry. }
      assert (Hq : forall s, In s q -> (s_station s < n_stations inf)%nat /\ session_wf s /\ hd0 (s_min s) <= 0
                                       /\ nth (s_station s) (repeat 0 (n_stations inf)) 0 = 0).
      { intros x Ix. apply (Permutation_in _ Pq) in Ix. unfold s3 in Ix. apply in_map_iff in Ix.
        destruct Ix as [s [<- Is]]. apply filter_In in Is. destruct Is as [Is _].
        destruct (Hss s Is) as [W Hm].
        destruct (pre_stage3_facts inf period est ss s W) as [A [B [C _]]]. cbv zeta in *.
        rewrite (ident_station _ _ A), B. repeat split; auto; try apply C. apply nth_repeat. }
      destruct (min_rate_loop_rates q _ outs fin WF NDq Hq (repeat_length _ _) F0 R) as [A [B [C [D E]]]].
      set (qq := sort_sessions inf period now k outs).
      assert (Pqq : Permutation qq outs) by apply sort_by_perm.
      assert (NDo : NoDup (map s_station outs)) by now rewrite C.
      assert (NDqq : NoDup (map s_station qq)).
      { eapply Permutation_NoDup; [|exact NDo]. apply Permutation_map. now symmetry. }
      assert (Eq : init_sched inf g_init_lb qq = fin).
      { apply (nth_ext _ _ 0 0).
        - unfold init_sched. now rewrite fold_upd_length, repeat_length, B.
        - intros j Hj. unfold init_sched in *. rewrite fold_upd_length, repeat_length in Hj.
          destruct (in_dec Nat.eq_dec j (map s_station qq)) as [I|NI].
          + apply in_map_iff in I. destruct I as [s' [<- Is']].
            rewrite init_sched_at; auto; [|now rewrite repeat_length].
            symmetry. apply D. eapply Permutation_in; eauto.
          + rewrite init_sched_other by auto. rewrite nth_repeat. symmetry.
            rewrite E; [apply nth_repeat|]. rewrite <- C. intro I. apply NI.
            eapply Permutation_in; [apply Permutation_map; symmetry; exact Pqq|exact I]. }
      fold qq. now rewrite Eq.
    - (* no minimum rates: every lower bound is 0 *)
      rewrite init_sched_zero; auto.
      intros s' I. apply (Permutation_in _ (sort_by_perm _ _ _)) in I.
      rewrite g_init_lb_eq. apply g_lb_zero.
      unfold pre in I. apply pre_member in I. destruct I as [s [Is [_ H]]]. cbv zeta in H.
      destruct (Hss s Is) as [W Hm].
      destruct (pre_stage3_facts inf period est ss s W) as [A [B _]]. cbv zeta in *.
      destruct H as [[_ ->]|[X _]]; [now rewrite B|discriminate].
  Qed.
End Pipeline2.

(* ============================================================================================
   4. schedule() = preprocessing + algorithm + format_array_schedule
   ============================================================================================ *)
Lemma fallback_witness_aux :
  let inf := {| i_A := [[1; -1]; [1; 1]]; i_L := [7; 193 # 10]; i_cos := [1; 1]; i_sin := [0; 0];
                i_volt := [208; 208]; i_maxp := [32; 13]; i_minp := [0; 13 # 2];
                i_allow := [[0; 32]; [0; 13 # 2; 13]]; i_cont := [true; false] |} in
  let ss := [ {| s_station := 0; s_id := 10%Z; s_req := 30; s_del := 0; s_arr := 0%Z; s_dep := 20%Z; s_edep := 20%Z;
                 s_cur := 1%Z; s_min := [0]; s_max := [32] |};
              {| s_station := 1; s_id := 11%Z; s_req := 30; s_del := 0; s_arr := 1%Z; s_dep := 20%Z; s_edep := 20%Z;
                 s_cur := 1%Z; s_min := [6]; s_max := [13] |} ] in
  exists out,
    NoDup (map s_station ss) /\ stations_ok inf ss
    /\ sorting_algorithm (feasQ inf) inf 5 1%Z FCFS ss = Ok out
    /\ feasQ inf out = false.
Proof.
  cbv zeta. eexists. split; [|split; [|split]].
  - cbn [map s_station]. repeat constructor; simpl; intuition discriminate.
  - intros s [<-|[<-|[]]]; cbn; lia.
  - vm_compute. reflexivity.
  - vm_compute. reflexivity.
Qed.

Section Schedule.
  Variable feasible : list Q -> bool.
  Variable inf : infra.
  Variable cfg : config.
  Notation period := (c_period cfg).

  Lemma schedule_result ss out :
    so_result (schedule_with feasible inf cfg ss) = Ok out ->
    List.length out = n_stations inf
    /\ (if c_rr cfg
        then round_robin feasible inf period (c_now cfg) (c_inc cfg) (c_sort cfg)
                         (fst (run_preprocessing feasible inf period (c_est cfg) (c_unint cfg) ss))
        else sorting_algorithm feasible inf period (c_now cfg) (c_sort cfg)
                         (fst (run_preprocessing feasible inf period (c_est cfg) (c_unint cfg) ss))) = Ok out.
  Proof.
    unfold schedule_with.
    destruct (run_preprocessing feasible inf period (c_est cfg) (c_unint cfg) ss) as [pre store] eqn:RP.
    cbn [so_result fst].
    set (r := if c_rr cfg then _ else _). destruct r as [v|e]; cbn [res_bind]; [|discriminate].
    unfold format_array_schedule. destruct (Nat.eqb (n_stations inf) (List.length v)) eqn:E; [|discriminate].
    intro H. injection H as <-. apply Nat.eqb_eq in E. auto.
  Qed.

  Lemma schedule_store ss :
    so_store (schedule_with feasible inf cfg ss) = snd (run_preprocessing feasible inf period (c_est cfg) (c_unint cfg) ss).
  Proof.
    unfold schedule_with. destruct (run_preprocessing _ _ _ _ _ _) as [pre store]. reflexivity.
  Qed.

  Theorem pipeline_inactive_zero ss out j :
    infra_wf inf -> NoDup (map s_station ss) -> stations_ok inf ss ->
    so_result (schedule_with feasible inf cfg ss) = Ok out ->
    ~ In j (map s_station ss) -> nth j out 0 = 0.
  Proof.
    intros WF ND SO H Hj. apply schedule_result in H. destruct H as [_ H].
    destruct (preproc_stations feasible inf period (c_est cfg) (c_unint cfg) ss ND) as [NDp Inc].
    assert (Hp : ~ In j (map s_station (fst (run_preprocessing feasible inf period (c_est cfg) (c_unint cfg) ss)))).
    { intro I. apply Hj. now apply Inc. }
    destruct (c_rr cfg).
    - eapply rr_inactive_zero; eauto. now apply preproc_stations_ok. apply WF.
    - eapply greedy_inactive_zero; eauto.
  Qed.

  Theorem pipeline_bounds ss out :
    infra_wf inf -> NoDup (map s_station ss) -> stations_ok inf ss ->
    (forall s, In s ss -> session_wf s /\ hd0 (s_min s) <= 0 /\ 0 <= hd0 (s_max s)) ->
    period_ok inf period -> est_ok (c_est cfg) ->
    so_result (schedule_with feasible inf cfg ss) = Ok out ->
    feasible out = true
    /\ List.length out = n_stations inf
    /\ (forall j, ~ In j (map s_station ss) -> nth j out 0 = 0)
    /\ forall s, In s ss ->
         let i := s_station s in let p := nth i out 0 in
         0 <= p /\ p <= Qmax 0 (rap inf period s) /\ p <= nthQ (i_maxp inf) i
         /\ (nth i (i_cont inf) true = false -> p = 0 \/ In p (nth i (i_allow inf) []))
         /\ (forall b, c_est cfg <> None ->
               zassoc (s_id s) (so_store (schedule_with feasible inf cfg ss)) = Some b ->
               p <= Qmax b (if c_unint cfg then nthQ (i_minp inf) i else 0)).
  Proof.
    intros WF ND SO Hss PO EO H.
    pose proof (pipeline_inactive_zero ss out) as Inact.
    destruct (schedule_result ss out H) as [Len R].
    set (pre := fst (run_preprocessing feasible inf period (c_est cfg) (c_unint cfg) ss)) in *.
    destruct (preproc_stations feasible inf period (c_est cfg) (c_unint cfg) ss ND) as [NDp Inc]. fold pre in NDp, Inc.
    assert (SOp : stations_ok inf pre) by now apply preproc_stations_ok.
    assert (Hss' : forall s, In s ss -> session_wf s /\ hd0 (s_min s) <= 0).
    { intros s Is. destruct (Hss s Is) as [a [b _]]. auto. }
    assert (PB := fun s' => preproc_bounds feasible inf period (c_est cfg) (c_unint cfg) ss s' WF SO Hss').
    assert (PN := fun s' => preproc_nonneg feasible inf period (c_est cfg) (c_unint cfg) ss s' WF SO PO EO Hss).
    fold pre in PB, PN.
    split.
    { destruct (c_rr cfg).
      - eapply rr_feasible; eauto. apply WF.
      - eapply greedy_feasible; eauto. intros s' I. apply (PB s' I). }
    split; [exact Len|]. split; [intros j Hj; now apply Inact|].
    intros s Is. cbv zeta.
    pose proof (SO s Is) as Ls. destruct (infra_wf_nonneg inf _ WF Ls) as [Mn0 Mp0].
    assert (Fl0 : 0 <= (if c_unint cfg then nthQ (i_minp inf) (s_station s) else 0)).
    { destruct (c_unint cfg); [exact Mn0|apply Qle_refl]. }
    destruct (in_dec Nat.eq_dec (s_station s) (map s_station pre)) as [Ip|Np].
    - (* the session survived preprocessing as s' *)
      apply in_map_iff in Ip. destruct Ip as [s' [St Is']].
      destruct (PB s' Is') as [L0 [Lc [_ [Mx [Es [s0 [Is0 Id]]]]]]]. cbv zeta in *.
      assert (s0 = s).
      { apply (NoDup_map_inj s_station ss); auto. rewrite <- (ident_station _ _ Id). exact St. }
      subst s0. rewrite St in *.
      destruct (PN s' Is') as [Mx0 Rp0].
      assert (Rs : rap inf period s' = rap inf period s) by now apply ident_rap.
      assert (Lfloor : g_lb s' <= (if c_unint cfg then nthQ (i_minp inf) (s_station s) else 0)).
      { destruct Lc as [->|[-> [-> _]]]; [exact Fl0|apply Qle_refl]. }
      assert (Lrap : g_lb s' <= Qmax 0 (rap inf period s)).
      { destruct Lc as [->|[_ [_ [Lr _]]]]; [apply Q.le_max_l|]. rewrite <- Rs.
        eapply Qle_trans; [exact Lr|apply Q.le_max_r]. }
      assert (Lmax : g_lb s' <= nthQ (i_maxp inf) (s_station s)).
      { destruct Lc as [->|[_ [_ [_ [Lm _]]]]]; [exact Mp0|]. eapply Qle_trans; [exact Lm|exact Mx]. }
      assert (Eb : forall b, c_est cfg <> None ->
                   zassoc (s_id s) (so_store (schedule_with feasible inf cfg ss)) = Some b ->
                   hd0 (s_max s') <= Qmax b (if c_unint cfg then nthQ (i_minp inf) (s_station s) else 0)).
      { intros b Hn Hb. destruct (c_est cfg) as [rp|] eqn:Ce; [|congruence].
        rewrite schedule_store, Ce in Hb. rewrite <- (ident_id _ _ Id) in Hb.
        eapply Qle_trans; [eapply Es; eauto|]. apply Q.max_le_compat_l. exact Lfloor. }
      destruct (c_rr cfg).
      + (* round robin *)
        pose proof (rr_bounds feasible inf period (c_now cfg) (c_inc cfg) (c_sort cfg) pre out s' NDp SOp (proj1 WF) R Is') as B.
        cbv zeta in B. rewrite St in B.
        destruct B as [->|[B1 [B2 B3]]].
        * split; [apply Qle_refl|]. split; [apply Q.le_max_l|]. split; [exact Mp0|]. split; [now left|].
          intros b Hn Hb. eapply Qle_trans; [exact Fl0|apply Q.le_max_r].
        * unfold Sorted.rr_lb in B1. rewrite anchor_rr_lb in B1.
          unfold Sorted.rr_ub in B2. rewrite anchor_rr_ub in B2. fold (rap inf period s') in B2. rewrite St, Rs in B2.
          assert (U1 : nth (s_station s) out 0 <= rap inf period s).
          { eapply Qle_trans; [exact B2|apply Q.le_min_r]. }
          assert (U2 : nth (s_station s) out 0 <= nthQ (i_maxp inf) (s_station s)).
          { eapply Qle_trans; [exact B2|]. eapply Qle_trans; [apply Q.le_min_l|apply Q.le_min_r]. }
          assert (U3 : nth (s_station s) out 0 <= hd0 (s_max s')).
          { eapply Qle_trans; [exact B2|]. eapply Qle_trans; [apply Q.le_min_l|apply Q.le_min_l]. }
          split; [eapply Qle_trans; [apply (Q.le_max_l 0 (hd0 (s_min s')))|exact B1]|].
          split; [eapply Qle_trans; [exact U1|apply Q.le_max_r]|]. split; [exact U2|].
          split; [intro C; right; now apply B3|].
          intros b Hn Hb. eapply Qle_trans; [exact U3|]. now apply Eb.
      + (* greedy *)
        pose proof (greedy_bounds feasible inf period (c_now cfg) (c_sort cfg) pre out s' NDp SOp R Is') as B.
        cbv zeta in B. rewrite St in B. destruct B as [B Bl].
        assert (Ub : g_ub inf period s' <= rap inf period s /\ g_ub inf period s' <= hd0 (s_max s') /\ 0 <= g_ub inf period s').
        { unfold Sorted.g_ub. rewrite anchor_ub. fold (rap inf period s'). rewrite Rs.
          split; [apply Q.le_min_r|]. split; [apply Q.le_min_l|]. apply Q.min_glb; [exact Mx0|]. now rewrite <- Rs. }
        destruct Ub as [Ub1 [Ub2 Ub3]].
        assert (G : forall p, p = 0 \/ p = g_lb s' \/ p <= g_ub inf period s' ->
                    p <= Qmax 0 (rap inf period s) /\ p <= nthQ (i_maxp inf) (s_station s)
                    /\ (forall b, c_est cfg <> None ->
                          zassoc (s_id s) (so_store (schedule_with feasible inf cfg ss)) = Some b ->
                          p <= Qmax b (if c_unint cfg then nthQ (i_minp inf) (s_station s) else 0))).
        { intros p [->|[->|Hp]].
          - split; [apply Q.le_max_l|]. split; [exact Mp0|]. intros b _ _.
            eapply Qle_trans; [exact Fl0|apply Q.le_max_r].
          - split; [exact Lrap|]. split; [exact Lmax|]. intros b _ _.
            eapply Qle_trans; [exact Lfloor|apply Q.le_max_r].
          - split; [eapply Qle_trans; [exact Hp|]; eapply Qle_trans; [exact Ub1|apply Q.le_max_r]|].
            split; [eapply Qle_trans; [exact Hp|]; eapply Qle_trans; [exact Ub2|exact Mx]|].
            intros b Hn Hb. eapply Qle_trans; [exact Hp|]. eapply Qle_trans; [exact Ub2|]. now apply Eb. }
        set (p := nth (s_station s) out 0) in *.
        assert (P0 : 0 <= p).
        { destruct B as [->|[->|[->|[B1 _]]]]; [apply Qle_refl|exact L0|exact Ub3|]. eapply Qle_trans; [exact L0|exact B1]. }
        assert (Pc : p = 0 \/ p = g_lb s' \/ p <= g_ub inf period s').
        { destruct B as [->|[->|[->|[_ B2]]]]; auto. right. right. apply Qle_refl. }
        destruct (G p Pc) as [G1 [G2 G3]].
        split; [exact P0|]. split; [exact G1|]. split; [exact G2|]. split; [exact Bl|exact G3].
    - (* finished session: removed before the algorithm, its station gets 0 *)
      assert (Z : nth (s_station s) out 0 = 0).
      { destruct (c_rr cfg).
        - eapply rr_inactive_zero; eauto. apply WF.
        - eapply greedy_inactive_zero; eauto. }
      rewrite Z. split; [apply Qle_refl|]. split; [apply Q.le_max_l|]. split; [exact Mp0|]. split; [now left|].
      intros b _ _. eapply Qle_trans; [exact Fl0|apply Q.le_max_r].
  Qed.

  (* ---- EVSE acceptance ---- *)
  Definition station_is (i : nat) (k : evse_kind) : Prop :=
    nth i (i_cont inf) true = is_continuous k
    /\ nth i (i_allow inf) [] = allowable_pilot_signals k
    /\ nthQ (i_maxp inf) i = max_rate k
    /\ nthQ (i_minp inf) i = min_rate k.

  Definition evse_kind_supported (k : evse_kind) : Prop :=
    match k with Continuous mn _ => mn = 0 | Finite _ => True | Deadband _ _ => False end.

  Lemma Qeqb_trans x y z : Qeqb x y = true -> Qeqb y z = true -> Qeqb x z = true.
  Proof. rewrite !Qeqb_spec. intros -> ->. reflexivity. Qed.

  Lemma finite_accepts_zero l : FiniteRatesEVSE_valid_rate (finite_init l) 0 = true.
  Proof.
    unfold FiniteRatesEVSE_valid_rate. apply existsb_exists. exists true. split; auto.
    assert (M : mem Qeqb 0 (finite_init l) = true).
    { unfold finite_init. rewrite (mem_sort_dedup Q Qleb Qeqb Qeqb_trans). simpl. reflexivity. }
    unfold mem in M. apply existsb_exists in M. destruct M as [r [Ir Er]].
    apply in_map_iff. exists r. split; auto. apply Qeqb_spec in Er.
    unfold Qisclose. apply Qleb_spec. rewrite <- Er. vm_compute. discriminate.
  Qed.

  Lemma finite_accepts_member rates p : In p rates -> FiniteRatesEVSE_valid_rate rates p = true.
  Proof.
    intro I. unfold FiniteRatesEVSE_valid_rate. apply existsb_exists. exists true. split; auto.
    apply in_map_iff. exists p. split; auto. unfold Qisclose. apply Qleb_spec.
    setoid_replace (p - p) with 0 by ring. rewrite Qmult_0_l. vm_compute. discriminate.
  Qed.

  Lemma continuous_accepts mx p : 0 <= p -> p <= mx -> EVSE_valid_rate mx 0 p = true.
  Proof.
    intros H0 H1. unfold EVSE_valid_rate. apply andb_true_iff. split; apply Qleb_spec; lra.
  Qed.

  Theorem pipeline_evse_accepts ss out s :
    infra_wf inf -> NoDup (map s_station ss) -> stations_ok inf ss ->
    (forall s, In s ss -> session_wf s /\ hd0 (s_min s) <= 0 /\ 0 <= hd0 (s_max s)) ->
    period_ok inf period -> est_ok (c_est cfg) ->
    so_result (schedule_with feasible inf cfg ss) = Ok out -> In s ss ->
    let i := s_station s in let p := nth i out 0 in
    (forall mx, station_is i (Continuous 0 mx) -> valid_rate (Continuous 0 mx) p = true)
    /\ (forall l, station_is i (Finite l) -> valid_rate (Finite l) p = true).
  Proof.
    intros WF ND SO Hss PO EO H Is. cbv zeta.
    destruct (pipeline_bounds ss out WF ND SO Hss PO EO H) as [_ [_ [_ B]]].
    destruct (B s Is) as [P0 [_ [Pm [Pl _]]]]. cbv zeta in *. split.
    - intros mx [_ [_ [M _]]]. cbn [valid_rate]. cbn [max_rate] in M. rewrite M in Pm. now apply continuous_accepts.
    - intros l [C [A _]]. cbn [valid_rate]. cbn [is_continuous] in C. cbn [allowable_pilot_signals] in A.
      destruct (Pl C) as [->|I]; [apply finite_accepts_zero|]. rewrite A in I. now apply finite_accepts_member.
  Qed.

  (* ---- composition statement for a simulation period ---- *)
  Theorem sim_safe (net_feasible : list Q -> bool) ss out :
    (forall x, net_feasible x = feasible x) ->
    infra_wf inf -> NoDup (map s_station ss) -> stations_ok inf ss ->
    (forall s, In s ss -> session_wf s /\ hd0 (s_min s) <= 0 /\ 0 <= hd0 (s_max s)) ->
    period_ok inf period -> est_ok (c_est cfg) ->
    so_result (schedule_with feasible inf cfg ss) = Ok out ->
    net_feasible out = true
    /\ (forall i k, (i < n_stations inf)%nat -> station_is i k -> evse_kind_supported k ->
          valid_rate k (nth i out 0) = true)
    /\ (forall s rate, In s ss -> s_del s <= s_req s -> 0 <= rate -> rate <= nth (s_station s) out 0 ->
          EV_charge__energy_delivered
            (EV_charge (s_del s) (nth (s_station s) out 0) (nthQ (i_volt inf) (s_station s)) period rate)
          <= s_req s).
  Proof.
    intros Hnet WF ND SO Hss PO EO H.
    destruct (pipeline_bounds ss out WF ND SO Hss PO EO H) as [F [Len [Inact B]]].
    split; [now rewrite Hnet|]. split.
    - intros i k Li St Sup.
      destruct (in_dec Nat.eq_dec i (map s_station ss)) as [I|NI].
      + apply in_map_iff in I. destruct I as [s [<- Is]].
        destruct (pipeline_evse_accepts ss out s WF ND SO Hss PO EO H Is) as [Ec Ef]. cbv zeta in *.
        destruct k as [mn mx|de mx|l]; cbn [evse_kind_supported] in Sup; [subst mn; now apply Ec|destruct Sup|now apply Ef].
      + rewrite (Inact i NI). destruct (infra_wf_nonneg inf i WF Li) as [_ Mp0].
        destruct k as [mn mx|de mx|l]; cbn [evse_kind_supported] in Sup; [subst mn|destruct Sup|].
        * cbn [valid_rate]. destruct St as [_ [_ [M _]]]. cbn [max_rate] in M. rewrite M in Mp0.
          apply continuous_accepts; [apply Qle_refl|exact Mp0].
        * cbn [valid_rate]. apply finite_accepts_zero.
    - intros s rate Is Hd R0 Rp. destruct (B s Is) as [P0 [Pr _]]. cbv zeta in *.
      destruct PO as [Pp Pv]. pose proof (Pv _ (SO s Is)) as Vp.
      set (v := nthQ (i_volt inf) (s_station s)) in *. set (p := nth (s_station s) out 0) in *.
      cbn [EV_charge EV_charge__energy_delivered].
      set (c := v / (1000 # 1) * (period / (60 # 1))).
      assert (Ec : rate * v / (1000 # 1) * (period / (60 # 1)) == rate * c) by (unfold c; field).
      rewrite Ec.
      assert (C0 : 0 <= c).
      { unfold c. apply Qmult_le_0_compat; apply Qle_shift_div_l; lra. }
      destruct (Qlt_le_dec (rap inf period s) 0) as [Neg|Pos].
      + (* nothing left to deliver: the pilot is 0 *)
        rewrite (Qmax_left 0 (rap inf period s)) in Pr by lra.
        assert (rate == 0) by lra. rewrite H0. lra.
      + assert (Rr : rate <= rap inf period s).
        { eapply Qle_trans; [exact Rp|]. eapply Qle_trans; [exact Pr|]. apply Q.max_lub; lra. }
        assert (Er : rap inf period s * c == s_req s - s_del s).
        { unfold rap, rap_iface. rewrite anchor_rap, anchor_remaining_demand. fold v. unfold c. field. lra. }
        assert (M : rate * c <= rap inf period s * c) by (apply Qmult_le_compat_r; auto).
        rewrite Er in M. lra.
  Qed.
End Schedule.

(* ============================================================================================
   5. a concrete instance meeting every hypothesis of the pipeline theorems (non-vacuity):
      three stations on three phases, a same-sign aggregate constraint that binds (20 A), a mixed-sign
      line constraint, one finite-rate EVSE with minimum pilot 8 A, uninterrupted charging
   ============================================================================================ *)
Definition ex_inf : infra :=
  {| i_A := [[1; 1; 1]; [1; -1; 0]]; i_L := [20; 40];
     i_cos := [1; -1 # 2; -1 # 2]; i_sin := [0; 866 # 1000; -866 # 1000];
     i_volt := [208; 240; 208]; i_maxp := [32; 32; 32]; i_minp := [0; 8; 0];
     i_allow := [[0; 32]; [0; 8; 16; 24; 32]; [0; 32]]; i_cont := [true; false; true] |}.
Definition ex_session (st : nat) (id arr : Z) (req del : Q) : session :=
  {| s_station := st; s_id := id; s_req := req; s_del := del; s_arr := arr; s_dep := 40%Z; s_edep := 40%Z;
     s_cur := 5%Z; s_min := [0; 0]; s_max := [1000000000000; 1000000000000] |}.
Definition ex_ss : list session := [ex_session 2 17 3 20 2; ex_session 0 11 1 30 0; ex_session 1 42 2 25 5].
Definition ex_cfg : config :=
  {| c_rr := false; c_sort := FCFS; c_est := None; c_unint := true; c_inc := 1 # 2; c_period := 5; c_now := 5%Z |}.

Definition c07_example_statement : Prop :=
  infra_wf ex_inf /\ NoDup (map s_station ex_ss) /\ stations_ok ex_inf ex_ss
  /\ (forall s, In s ex_ss -> session_wf s /\ hd0 (s_min s) <= 0 /\ 0 <= hd0 (s_max s))
  /\ period_ok ex_inf (c_period ex_cfg) /\ est_ok (c_est ex_cfg)
  /\ exists out, so_result (schedule ex_inf ex_cfg ex_ss) = Ok out
       /\ 0 < nth 0 out 0 /\ nth 0 out 0 < 32      (* the 20 A constraint binds for the first-served session *)
       /\ nth 1 out 0 = 8                          (* the finite-rate station keeps its minimum pilot *)
       /\ feasQ ex_inf out = true.

Lemma c07_example_holds : c07_example_statement.
Proof.
  unfold c07_example_statement. split; [|split; [|split; [|split; [|split; [|split]]]]].
  - split; [reflexivity|]. intros i L. change (n_stations ex_inf) with 3%nat in L.
    destruct i as [|[|[|i]]]; try lia; cbn.
    + split; [now left|]. split; [discriminate|discriminate].
    + split; [right; reflexivity|]. split; [discriminate|]. intros _. right. now left.
    + split; [now left|]. split; [discriminate|discriminate].
  - cbn. repeat constructor; simpl; intuition discriminate.
  - intros s [<-|[<-|[<-|[]]]]; cbn; lia.
  - intros s [<-|[<-|[<-|[]]]]; cbn; (split; [split; discriminate|split; discriminate]).
  - split; [reflexivity|]. intros i L. change (n_stations ex_inf) with 3%nat in L.
    destruct i as [|[|[|i]]]; try lia; reflexivity.
  - exact I.
  - eexists. split; [vm_compute; reflexivity|]. cbn [nth].
    split; [reflexivity|]. split; [reflexivity|]. split; [reflexivity|]. vm_compute. reflexivity.
Qed.
