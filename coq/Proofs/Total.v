(* Proofs/Total.v — the algorithms return a schedule: no "lower bound is not feasible" / "initial schedule is not
   feasible" error, the fuelled loops of the model never run out of fuel.  Round robin needs the feasibility check
   to respect pointwise == of rate vectors (true of the phasor check, feasQ_veq) because np.arange's first level is
   `start + 0 * step`. *)
From Coq Require Import ZArith QArith Qminmax Qabs Qround List Bool String Lia Lqa Permutation Sorting.Sorted Setoid Morphisms.
From ACN Require Import Base.Num Base.ListX Gen.Sorted_Q Gen.SortedZ_Z Model.EVSE Model.Preproc Model.Sorted
     Proofs.Sorted Proofs.Preproc.
Import ListNotations.
Open Scope list_scope.
Open Scope Q_scope.

Definition veq (x y : list Q) : Prop := Forall2 Qeq x y.

Lemma veq_nth x y : List.length x = List.length y -> (forall j, (j < List.length x)%nat -> nth j x 0 == nth j y 0) -> veq x y.
Proof.
  revert y; induction x as [|a x IH]; intros [|b y] L H; simpl in L; try discriminate; constructor.
  - apply (H O). simpl. lia.
  - apply IH; [lia|]. intros j Hj. apply (H (S j)). simpl. lia.
Qed.

Lemma dot_veq a x y : veq x y -> dot a x == dot a y.
Proof.
  intro H. revert a. induction H as [|p q x y E H IH]; intros [|c a]; simpl; try reflexivity.
  rewrite E, IH. reflexivity.
Qed.

Lemma feasQ_veq inf x y : veq x y -> feasQ inf x = feasQ inf y.
Proof.
  intro H. unfold feasQ, feas_rows. induction (prep_rows inf) as [|r rows IH]; simpl; auto.
  f_equal; auto. unfold row_ok, norm_within. f_equal. unfold Qleb. apply Qleb_comp; [|reflexivity].
  rewrite (dot_veq _ _ _ H), (dot_veq (cr_im r) _ _ H). reflexivity.
Qed.

(* head of a doubly filtered list *)
Lemma hd_filter2_first p1 p2 (x : Q) l : p1 x = true -> p2 x = true -> hd 0 (filter p2 (filter p1 (x :: l))) = x.
Proof. intros H1 H2. simpl. rewrite H1. simpl. now rewrite H2. Qed.

(* in an ascending list that contains (up to ==) lb, the first element >= lb is == lb *)
Lemma hd_filter_sorted lb ub l :
  StronglySorted Qle l -> (exists a, In a l /\ a == lb) -> lb <= ub ->
  hd 0 (filter (fun a => Qleb a ub) (filter (fun a => Qleb lb a) l)) == lb.
Proof.
  induction 1 as [|x l S IH F]; intros [a [I E]] Hu; [destruct I|].
  simpl. destruct (Qleb lb x) eqn:T.
  - apply Qleb_spec in T.
    assert (Ex : x == lb).
    { destruct I as [->|I]; [exact E|]. rewrite Forall_forall in F. specialize (F a I). rewrite E in F. lra. }
    simpl. assert (U : Qleb x ub = true) by (apply Qleb_spec; lra). rewrite U. exact Ex.
  - apply Qleb_false in T. destruct I as [->|I]; [lra|]. apply IH; eauto.
Qed.

Section RRInit.
  Variable feasible : list Q -> bool.
  Hypothesis feasible_veq : forall x y, veq x y -> feasible x = feasible y.
  Variable inf : infra.
  Variable period : Q.
  Variable inc : Q.

  (* finite-rate tables are ascending and contain 0 (FiniteRatesEVSE.__init__ sorts and adds 0) *)
  Definition infra_wf_rr : Prop :=
    forall i, (i < n_stations inf)%nat -> nth i (i_cont inf) true = false ->
      StronglySorted Qle (nth i (i_allow inf) []) /\ exists a, In a (nth i (i_allow inf) []) /\ a == 0.

  Lemma arange_first start stop step :
    0 < step -> start < stop -> exists rest, arange start stop step = (start + inject_Z 0 * step) :: rest.
  Proof.
    intros Hs Hlt. unfold arange.
    assert (P : (0 < Qceiling ((stop - start) / step))%Z).
    { assert (0 < (stop - start) / step) by (apply Qlt_shift_div_l; lra).
      pose proof (Qle_ceiling ((stop - start) / step)) as C.
      assert (0 < inject_Z (Qceiling ((stop - start) / step))) by lra.
      rewrite Zlt_Qlt. exact H0. }
    destruct (Z.to_nat (Qceiling ((stop - start) / step))) as [|n] eqn:E; [lia|].
    cbn [seq map]. eexists. reflexivity.
  Qed.

  (* the first level of a session's list is its lower bound *)
  Lemma first_level s :
    0 < inc -> (s_station s < n_stations inf)%nat -> infra_wf_rr ->
    0 <= hd0 (s_min s) -> hd0 (s_min s) <= hd0 (s_max s) ->
    hd0 (s_min s) <= nthQ (i_maxp inf) (s_station s) -> hd0 (s_min s) <= rap inf period s ->
    (nth (s_station s) (i_cont inf) true = false ->
       exists a, In a (nth (s_station s) (i_allow inf) []) /\ a == hd0 (s_min s)) ->
    hd 0 (levels_for inf period inc s) == g_lb s.
  Proof.
    intros Hinc Ls WR M0 Mx Mp Mr Hal.
    assert (Lb : g_lb s == hd0 (s_min s)).
    { unfold Sorted.g_lb. rewrite anchor_lb. apply Q.max_r. exact M0. }
    assert (Rl : rr_lb s == hd0 (s_min s)).
    { unfold rr_lb. rewrite anchor_rr_lb. apply Q.max_r. exact M0. }
    assert (Ub : hd0 (s_min s) <= rr_ub inf period s).
    { unfold rr_ub. rewrite anchor_rr_ub. apply Q.min_glb; [apply Q.min_glb|]; auto. }
    unfold levels_for, rr_levels_of. rewrite Lb.
    destruct (nth (s_station s) (i_cont inf) true) eqn:C.
    - rewrite anchor_rr_start, anchor_rr_stop, anchor_rr_step.
      destruct (arange_first (hd0 (s_min s)) (hd0 (s_max s) + inc / (2 # 1)) inc Hinc) as [rest E].
      { assert (0 < inc / (2 # 1)) by (apply Qlt_shift_div_l; lra). lra. }
      rewrite E.
      assert (F0 : hd0 (s_min s) + inject_Z 0 * inc == hd0 (s_min s)) by (unfold inject_Z; ring).
      rewrite hd_filter2_first.
      + exact F0.
      + rewrite anchor_rr_keep_lb. apply Qleb_spec. rewrite Rl, F0. apply Qle_refl.
      + rewrite anchor_rr_keep_ub. apply Qleb_spec. rewrite F0. exact Ub.
    - destruct (WR _ Ls C) as [Srt _].
      assert (H := hd_filter_sorted (rr_lb s) (rr_ub inf period s) (nth (s_station s) (i_allow inf) []) Srt).
      rewrite <- Rl.
      assert (E1 : (fun a : Q => RR_keep_lb a (rr_lb s) 0 0) = (fun a => Qleb (rr_lb s) a)) by reflexivity.
      assert (E2 : (fun a : Q => RR_keep_ub a (rr_ub inf period s) 0 0) = (fun a => Qleb a (rr_ub inf period s))) by reflexivity.
      rewrite E1, E2. apply H.
      + destruct (Hal eq_refl) as [a [Ia Ea]]. exists a. split; auto. now rewrite Rl.
      + rewrite Rl. exact Ub.
  Qed.
End RRInit.

Section RRInit2.
  Variable feasible : list Q -> bool.
  Hypothesis feasible_veq : forall x y, veq x y -> feasible x = feasible y.
  Variable inf : infra.
  Variable period : Q.
  Variable inc : Q.

  Lemma preproc_min_facts est unint ss s' :
    infra_wf inf -> infra_wf_rr inf -> stations_ok inf ss -> period_ok inf period -> est_ok est ->
    (forall s, In s ss -> session_wf s /\ hd0 (s_min s) == 0 /\ 0 <= hd0 (s_max s)) ->
    In s' (fst (run_preprocessing feasible inf period est unint ss)) ->
    0 <= hd0 (s_min s') /\ hd0 (s_min s') <= hd0 (s_max s')
    /\ hd0 (s_min s') <= nthQ (i_maxp inf) (s_station s') /\ hd0 (s_min s') <= rap inf period s'
    /\ (nth (s_station s') (i_cont inf) true = false ->
          exists a, In a (nth (s_station s') (i_allow inf) []) /\ a == hd0 (s_min s')).
  Proof.
    intros WF WR SO PO EO Hss I.
    assert (Hss' : forall s, In s ss -> session_wf s /\ hd0 (s_min s) <= 0 /\ 0 <= hd0 (s_max s)).
    { intros s Is. destruct (Hss s Is) as [a [b c]]. repeat split; auto; try apply a. rewrite b. apply Qle_refl. }
    destruct (preproc_nonneg feasible inf period est unint ss s' WF SO PO EO Hss' I) as [Mx0 Rp0].
    pose proof I as I0.
    apply pre_member in I. destruct I as [s [Is [K H]]]. cbv zeta in H.
    destruct (Hss s Is) as [W [Hmin Hmax]]. pose proof (SO s Is) as Ls.
    destruct (infra_wf_nonneg inf _ WF Ls) as [Mn0 Mp0].
    destruct WF as [IL WFi]. destruct (WFi _ Ls) as [Wmin [Wmm Wal]].
    destruct (pre_stage3_facts inf period est ss s W) as [A [B [C _]]]. cbv zeta in *.
    set (x := pre_stage3 inf period est ss s) in *.
    assert (Sx : s_station x = s_station s) by now apply ident_station.
    assert (Zero : forall t, s_station t = s_station s -> hd0 (s_min t) == 0 -> 0 <= hd0 (s_max t) -> 0 <= rap inf period t ->
                   0 <= hd0 (s_min t) /\ hd0 (s_min t) <= hd0 (s_max t)
                   /\ hd0 (s_min t) <= nthQ (i_maxp inf) (s_station t) /\ hd0 (s_min t) <= rap inf period t
                   /\ (nth (s_station t) (i_cont inf) true = false ->
                         exists a, In a (nth (s_station t) (i_allow inf) []) /\ a == hd0 (s_min t))).
    { intros t St Z M R. rewrite St, Z. repeat split; try lra.
      intro Cc. destruct (WR _ Ls Cc) as [_ [a [Ia Ea]]]. exists a. split; [exact Ia|rewrite Z; exact Ea]. }
    destruct H as [[_ E]|[_ [E|[E Hr]]]]; subst s'.
    - apply Zero; auto. now rewrite B.
    - destruct (drop_facts x C) as [A' [_ [M0 X0]]]. cbv zeta in *.
      apply Zero; auto. rewrite M0. reflexivity.
    - rewrite Sx in *. set (r := nthQ (i_minp inf) (s_station s)) in *.
      destruct (keep_facts period x r C) as [A' [_ [M' [LE' X']]]]. cbv zeta in *.
      set (k := min_rate_keep period x r) in *.
      assert (Sk : s_station k = s_station s) by (rewrite (ident_station _ _ A'); exact Sx).
      assert (Mr : hd0 (s_min k) == r).
      { rewrite M'. apply Q.max_l. rewrite B, Hmin. exact Mn0. }
      rewrite Sk, Mr. split; [exact Mn0|]. split; [rewrite <- Mr; exact LE'|]. split; [exact Wmm|]. split.
      + rewrite (ident_rap inf period k x A'), <- rap_utils_iface. exact Hr.
      + intro Cc. exists r. split; [now apply Wal|symmetry; exact Mr].
  Qed.

  Theorem rr_init_feasible now est unint k ss :
    infra_wf inf -> infra_wf_rr inf -> NoDup (map s_station ss) -> stations_ok inf ss ->
    period_ok inf period -> est_ok est -> 0 < inc ->
    (forall s, In s ss -> session_wf s /\ hd0 (s_min s) == 0 /\ 0 <= hd0 (s_max s)) ->
    feasible (repeat 0 (n_stations inf)) = true ->
    let pre := fst (run_preprocessing feasible inf period est unint ss) in
    feasible (snd (rr_init inf period inc (sort_sessions inf period now k pre))) = true.
  Proof.
    intros WF WR ND SO PO EO Hinc Hss F0 pre.
    assert (Hss' : forall s, In s ss -> session_wf s /\ hd0 (s_min s) <= 0).
    { intros s Is. destruct (Hss s Is) as [a [b c]]. split; auto. rewrite b. apply Qle_refl. }
    pose proof (preproc_lower_bounds_feasible feasible inf period now est unint k ss WF ND SO Hss' F0) as G.
    cbv zeta in G. fold pre in G.
    set (q := sort_sessions inf period now k pre) in *.
    destruct (preproc_stations feasible inf period est unint ss ND) as [NDp _]. fold pre in NDp.
    assert (Pq : Permutation q pre) by apply sort_by_perm.
    assert (NDq : NoDup (map s_station q)).
    { eapply Permutation_NoDup; [|exact NDp]. apply Permutation_map. now symmetry. }
    assert (SOq : stations_ok inf q).
    { intros s I. apply (preproc_stations_ok feasible inf period est unint ss SO). eapply Permutation_in; eauto. }
    destruct (rr_init_spec inf period inc q NDq SOq (proj1 WF)) as [L0 [Lv Z0]]. cbv zeta in *.
    rewrite <- G. apply feasible_veq. apply veq_nth.
    - unfold init_sched. now rewrite L0, fold_upd_length, repeat_length.
    - intros j Hj. rewrite L0 in Hj.
      destruct (in_dec Nat.eq_dec j (map s_station q)) as [I|NI].
      + apply in_map_iff in I. destruct I as [s [<- Is]].
        destruct (Lv s Is) as [_ Hs]. rewrite Hs. unfold init_sched.
        rewrite init_sched_at; auto; [|now rewrite repeat_length].
        rewrite g_init_lb_eq.
        assert (Ip : In s pre) by (eapply Permutation_in; eauto).
        destruct (preproc_min_facts est unint ss s WF WR SO PO EO Hss Ip) as [a [b [c [d e]]]].
        apply first_level; auto.
      + rewrite (Z0 j NI). unfold init_sched. rewrite init_sched_other by auto. rewrite nth_repeat. reflexivity.
  Qed.
End RRInit2.

Section RRFuel.
  Variable feasible : list Q -> bool.
  Variable levels : list (list Q).

  Definition rr_rem (ridx : list nat) (s : session) : nat :=
    (List.length (nth (s_station s) levels []) - S (nth (s_station s) ridx O))%nat.
  Definition rr_mu (ridx : list nat) (q : list session) : nat :=
    fold_right (fun s n => (S (rr_rem ridx s) + n)%nat) O q.

  Lemma rr_mu_app ridx q1 q2 : rr_mu ridx (q1 ++ q2) = (rr_mu ridx q1 + rr_mu ridx q2)%nat.
  Proof. induction q1 as [|s q1 IH]; simpl; auto. rewrite IH. lia. Qed.

  Lemma rr_mu_upd_other ridx i v q :
    ~ In i (map s_station q) -> rr_mu (upd i v ridx) q = rr_mu ridx q.
  Proof.
    induction q as [|s q IH]; simpl; auto. intro H.
    rewrite IH by (intro X; apply H; now right).
    unfold rr_rem. rewrite nth_upd_other by (intro X; apply H; left; now symmetry). reflexivity.
  Qed.

  Lemma rr_loop_fuel : forall fuel q sched ridx log,
    NoDup (map s_station q) ->
    (forall s, In s q -> (s_station s < List.length ridx)%nat) ->
    (rr_mu ridx q < fuel)%nat ->
    rr_loop feasible fuel q sched ridx levels log <> None.
  Proof.
    induction fuel as [|f IH]; intros q sched ridx log ND Len Mu; [lia|].
    cbn [rr_loop]. destruct q as [|s q]; [discriminate|].
    inversion ND as [|? ? Hn ND']; subst.
    assert (Ls := Len s (or_introl eq_refl)).
    cbn [rr_mu fold_right] in Mu. fold (rr_mu ridx q) in Mu.
    destruct (RR_can_raise _ _ _ _) eqn:CR.
    - apply can_raise_lt in CR.
      destruct (feasible _).
      + apply IH.
        * rewrite map_app. cbn [map]. eapply Permutation_NoDup; [apply Permutation_cons_append|exact ND].
        * intros x Ix. rewrite upd_length. apply Len. apply in_app_or in Ix. destruct Ix as [Ix|[<-|[]]]; [now right|now left].
        * rewrite rr_mu_app. cbn [rr_mu fold_right]. rewrite rr_mu_upd_other by exact Hn.
          unfold rr_rem in *. rewrite nth_upd_same by exact Ls. lia.
      + apply IH; auto. * intros x Ix. apply Len. now right. * lia.
    - apply IH; auto. + intros x Ix. apply Len. now right. + lia.
  Qed.

  Definition total_levels : nat := fold_right (fun l n => (List.length l + n)%nat) O levels.

  Lemma level_le_total i : (List.length (nth i levels []) <= total_levels)%nat.
  Proof.
    unfold total_levels. revert i. induction levels as [|l ls IH]; intros [|i]; simpl; try lia.
    specialize (IH i). lia.
  Qed.

  Lemma rr_mu_bound ridx q : (rr_mu ridx q <= List.length q * S total_levels)%nat.
  Proof.
    induction q as [|s q IH]; simpl; [lia|].
    unfold rr_rem. pose proof (level_le_total (s_station s)). lia.
  Qed.
End RRFuel.

Section GreedyTotal.
  Variable feasible : list Q -> bool.
  Variable inf : infra.
  Variable period : Q.
  Variable now : Z.

  (* one step never raises when the current vector is feasible *)
  Lemma greedy_rate_ok s sched :
    feasible sched = true -> exists r, greedy_rate feasible inf period s sched = Ok r.
  Proof.
    intro Fs. unfold greedy_rate.
    destruct (nth (s_station s) (i_cont inf) true).
    - unfold max_feasible_rate. rewrite Fs. cbn [negb].
      destruct (feasible (upd (s_station s) (g_ub inf period s) sched)); [eauto|].
      destruct (bisect feasible _ _ _ _ _ _) eqn:B; [eauto|].
      exfalso. revert B. apply bisect_fuel_enough. unfold g_eps. rewrite anchor_eps. reflexivity.
    - destruct (g_allowable inf period s); [eauto|].
      unfold discrete_max_feasible_rate. rewrite Fs. cbn [negb]. eauto.
  Qed.

  Lemma greedy_loop_ok : forall q sched,
    NoDup (map s_station q) ->
    (forall s, In s q -> fallback_safe inf period s) ->
    (forall s, In s q -> nth (s_station s) sched 0 = g_lb s) ->
    feasible sched = true ->
    exists out, greedy_loop feasible inf period q sched = Ok out.
  Proof.
    induction q as [|s q IH]; intros sched ND Safe Hlb Fs; cbn [greedy_loop]; [eauto|].
    destruct (greedy_rate_ok s sched Fs) as [r R]. rewrite R.
    inversion ND as [|? ? Hn ND']; subst.
    apply IH; auto.
    - intros s' I. apply Safe. now right.
    - intros s' I. rewrite nth_upd_other; [apply Hlb; now right|].
      intro E. apply Hn. rewrite E. now apply in_map.
    - eapply greedy_rate_feasible; eauto; [apply Hlb|apply Safe]; now left.
  Qed.

  Theorem sorting_algorithm_ok k ss :
    NoDup (map s_station ss) -> stations_ok inf ss ->
    (forall s, In s ss -> fallback_safe inf period s) ->
    feasible (init_sched inf g_init_lb (sort_sessions inf period now k ss)) = true ->
    exists out, sorting_algorithm feasible inf period now k ss = Ok out /\ List.length out = n_stations inf.
  Proof.
    intros ND SO Safe F0. unfold sorting_algorithm.
    set (q := sort_sessions inf period now k ss) in *. rewrite F0. cbn [negb].
    assert (P : Permutation q ss) by apply sort_by_perm.
    assert (NDq : NoDup (map s_station q)).
    { eapply Permutation_NoDup; [|exact ND]. apply Permutation_map. now symmetry. }
    destruct (greedy_loop_ok q (init_sched inf g_init_lb q)) as [out H]; auto.
    - intros s I. apply Safe. eapply Permutation_in; eauto.
    - intros s I. unfold init_sched. rewrite init_sched_at; auto.
      rewrite repeat_length. apply SO. eapply Permutation_in; eauto.
    - exists out. split; auto. apply greedy_loop_length in H. rewrite H. unfold init_sched.
      now rewrite fold_upd_length, repeat_length.
  Qed.
End GreedyTotal.

Section RRTotal.
  Variable feasible : list Q -> bool.
  Variable inf : infra.
  Variable period : Q.
  Variable now : Z.
  Variable inc : Q.

  Theorem round_robin_ok k ss :
    NoDup (map s_station ss) -> stations_ok inf ss -> infra_lengths inf ->
    feasible (snd (rr_init inf period inc (sort_sessions inf period now k ss))) = true ->
    exists out, round_robin feasible inf period now inc k ss = Ok out /\ List.length out = n_stations inf.
  Proof.
    intros ND SO IL F0. unfold round_robin, round_robin_full.
    set (q := sort_sessions inf period now k ss) in *.
    assert (P : Permutation q ss) by apply sort_by_perm.
    assert (NDq : NoDup (map s_station q)).
    { eapply Permutation_NoDup; [|exact ND]. apply Permutation_map. now symmetry. }
    assert (SOq : stations_ok inf q).
    { intros s I. apply SO. eapply Permutation_in; eauto. }
    pose proof (rr_init_spec inf period inc q NDq SOq IL) as Init. cbv zeta in Init.
    destruct (rr_init inf period inc q) as [levels s0] eqn:RI. cbn [fst snd] in *.
    destruct Init as [L0 [Lv Z0]]. rewrite F0. cbn [negb].
    destruct (rr_loop feasible (rr_fuel q levels) q s0 (repeat O (n_stations inf)) levels []) as [[o l]|] eqn:RL.
    - cbn [res_map fst]. exists o. split; auto.
      apply rr_loop_steps in RL. destruct RL as [lg [_ St]].
      assert (Len : forall s, In s q -> (s_station s < List.length s0)%nat
                                        /\ (s_station s < List.length (repeat O (n_stations inf)))%nat).
      { intros s I. rewrite L0, repeat_length. split; now apply SOq. }
      assert (AL : at_level levels q s0 (repeat O (n_stations inf))).
      { intros s I. cbv zeta. rewrite nth_repeat. destruct (Lv s I) as [A B]. rewrite A, B. split; auto.
        apply hd_nth0. }
      destruct (rr_steps_inv feasible levels q _ _ _ _ _ St NDq (incl_refl q) Len AL F0) as [_ [Lo _]].
      now rewrite Lo.
    - exfalso. revert RL. apply rr_loop_fuel; auto.
      + intros s I. rewrite repeat_length. now apply SOq.
      + unfold rr_fuel. pose proof (rr_mu_bound levels (repeat O (n_stations inf)) q). unfold total_levels in *. lia.
  Qed.
End RRTotal.

(* ---- the whole pipeline returns a schedule ---- *)
Section ScheduleTotal.
  Variable feasible : list Q -> bool.
  Hypothesis feasible_veq : forall x y, veq x y -> feasible x = feasible y.
  Variable inf : infra.
  Variable cfg : config.

  Theorem schedule_defined ss :
    infra_wf inf -> infra_wf_rr inf -> NoDup (map s_station ss) -> stations_ok inf ss ->
    (forall s, In s ss -> session_wf s /\ hd0 (s_min s) == 0 /\ 0 <= hd0 (s_max s)) ->
    period_ok inf (c_period cfg) -> est_ok (c_est cfg) -> 0 < c_inc cfg ->
    feasible (repeat 0 (n_stations inf)) = true ->
    exists out, so_result (schedule_with feasible inf cfg ss) = Ok out.
  Proof.
    intros WF WR ND SO Hss PO EO Hinc F0.
    assert (Hss' : forall s, In s ss -> session_wf s /\ hd0 (s_min s) <= 0).
    { intros s Is. destruct (Hss s Is) as [a [b c]]. split; auto. rewrite b. apply Qle_refl. }
    unfold schedule_with.
    destruct (run_preprocessing feasible inf (c_period cfg) (c_est cfg) (c_unint cfg) ss) as [pre store] eqn:RP.
    assert (Epre : pre = fst (run_preprocessing feasible inf (c_period cfg) (c_est cfg) (c_unint cfg) ss)) by now rewrite RP.
    destruct (preproc_stations feasible inf (c_period cfg) (c_est cfg) (c_unint cfg) ss ND) as [NDp _].
    pose proof (preproc_stations_ok feasible inf (c_period cfg) (c_est cfg) (c_unint cfg) ss SO) as SOp.
    rewrite <- Epre in NDp, SOp. cbn [so_result].
    destruct (c_rr cfg).
    - destruct (round_robin_ok feasible inf (c_period cfg) (c_now cfg) (c_inc cfg) (c_sort cfg) pre NDp SOp (proj1 WF)) as [out [R L]].
      + rewrite Epre. apply rr_init_feasible; auto.
      + exists out. rewrite R. cbn [res_bind]. unfold format_array_schedule. rewrite L, Nat.eqb_refl. reflexivity.
    - destruct (sorting_algorithm_ok feasible inf (c_period cfg) (c_now cfg) (c_sort cfg) pre NDp SOp) as [out [R L]].
      + intros s' I. rewrite Epre in I.
        apply (preproc_bounds feasible inf (c_period cfg) (c_est cfg) (c_unint cfg) ss s' WF SO Hss' I).
      + rewrite Epre. apply preproc_lower_bounds_feasible; auto.
      + exists out. rewrite R. cbn [res_bind]. unfold format_array_schedule. rewrite L, Nat.eqb_refl. reflexivity.
  Qed.
End ScheduleTotal.
