(* Proofs/Registry.v — lemmas for C09 part (b) (Model/Registry.v): dumping an acyclic object
   graph with to_registry and loading it with from_registry yields an isomorphic graph. *)
From Coq Require Import ZArith List Bool Arith String Lia.
From ACN Require Import Base.Num Model.Registry.
Import ListNotations.
Open Scope nat_scope.

(* ---- association lists ---- *)
Lemma amem_true {A} k (l : list (addr * A)) : amem k l = true <-> exists v, alookup k l = Some v.
Proof. unfold amem. destruct (alookup k l); split; intro H; eauto; try discriminate. destruct H; discriminate. Qed.
Lemma amem_false {A} k (l : list (addr * A)) : amem k l = false <-> alookup k l = None.
Proof. unfold amem. destruct (alookup k l); split; intro H; auto; discriminate. Qed.

Lemma alookup_app_some {A} k (l l' : list (addr * A)) v :
  alookup k l = Some v -> alookup k (l ++ l') = Some v.
Proof. induction l as [|[k' v'] l IH]; simpl; [discriminate|]. destruct (Nat.eqb k k'); auto. Qed.
Lemma alookup_app_none {A} k (l l' : list (addr * A)) :
  alookup k l = None -> alookup k (l ++ l') = alookup k l'.
Proof. induction l as [|[k' v'] l IH]; simpl; auto. destruct (Nat.eqb k k'); [discriminate|auto]. Qed.

Lemma fold_none {A B} (g : option A -> B -> option A) (Hg : forall b, g None b = None) l :
  fold_left g l None = None.
Proof. induction l; simpl; auto. rewrite Hg. auto. Qed.

Lemma Forall2_In_l {A B} (P : A -> B -> Prop) l l' x :
  Forall2 P l l' -> In x l -> exists y, In y l' /\ P x y.
Proof.
  induction 1; intros Hin; [contradiction|]. destruct Hin as [->|Hin].
  - eexists; split; [left; reflexivity|assumption].
  - destruct (IHForall2 Hin) as (y0 & ? & ?). exists y0; split; [right|]; assumption.
Qed.

Lemma Forall2_map_eq {A B} (f : A -> B) l l' :
  Forall2 (fun x y => f x = y) l l' -> l' = map f l.
Proof. induction 1; simpl; congruence. Qed.

Lemma Forall2_app_one {A B} (P : A -> B -> Prop) l l' x y :
  Forall2 P l l' -> P x y -> Forall2 P (l ++ [x]) (l' ++ [y]).
Proof. intros H1 H2. apply Forall2_app; [assumption|constructor; [assumption|constructor]]. Qed.

Lemma NoDup_app_one {A} (l : list A) x : NoDup l -> ~ In x l -> NoDup (l ++ [x]).
Proof.
  induction l as [|y l IH]; intros Hn Hx; simpl.
  - constructor; [intros []|constructor].
  - inversion Hn; subst. constructor.
    + intro Hin. apply in_app_or in Hin. destruct Hin as [Hin|[<-|[]]]; [contradiction|]. apply Hx; left; reflexivity.
    + apply IH; [assumption|]. intro Hin. apply Hx; right; exact Hin.
Qed.

Section RegProofs.
  Variable Sc : Type.
  Notation heapT := (heap Sc).
  Notation ctxT := (ctx Sc).
  Notation objT := (obj Sc).

  Variable h : heapT.
  (* acyclic: references go to objects of smaller rank (depth) *)
  Variable rank : addr -> nat.
  Hypothesis Hrank : forall a o b, alookup a h = Some o -> In b (o_refs o) -> rank b < rank a.

  Lemma reach_trans a b c : reachable h a b -> reachable h b c -> reachable h a c.
  Proof. intros H1 H2. induction H2; [assumption|]. eapply reach_step; eauto. Qed.
  Lemma reach_edge a b : edge h a b -> reachable h a b.
  Proof. intro H. eapply reach_step; [apply reach_root|exact H]. Qed.

  (* ---- to_registry ---- *)
  Definition ctx_faithful (c : ctxT) := forall a e, alookup a c = Some e -> alookup a h = Some e.
  Definition ctx_closed (c : ctxT) :=
    forall a e r, alookup a c = Some e -> In r (o_refs e) -> amem r c = true.
  Definition ctx_ext (c c' : ctxT) := forall a e, alookup a c = Some e -> alookup a c' = Some e.

  Lemma ctx_ext_mem c c' k : ctx_ext c c' -> amem k c = true -> amem k c' = true.
  Proof. intros He Hm. apply amem_true in Hm. destruct Hm as [v Hv]. apply amem_true. eauto. Qed.

  Lemma thread_ctx_cons (f : addr -> ctxT -> option ctxT) r rs c :
    thread_ctx f (r :: rs) c = match f r c with Some c' => thread_ctx f rs c' | None => None end.
  Proof.
    unfold thread_ctx. simpl. destruct (f r c); [reflexivity|].
    apply fold_none. reflexivity.
  Qed.

  Definition defined_below (a : addr) := forall b, reachable h a b -> alookup b h <> None.

  Definition to_reg_ok (n : nat) := forall a c,
    rank a < n -> defined_below a -> ctx_faithful c -> ctx_closed c ->
    exists c', to_reg n h a c = Some c' /\ ctx_faithful c' /\ ctx_closed c' /\ ctx_ext c c'
               /\ amem a c' = true
               /\ (forall k, amem k c' = true -> amem k c = true \/ reachable h a k).

  Lemma thread_ctx_spec n (IH : to_reg_ok n) : forall rs c,
    (forall r, In r rs -> rank r < n) ->
    (forall r, In r rs -> defined_below r) ->
    ctx_faithful c -> ctx_closed c ->
    exists c', thread_ctx (to_reg n h) rs c = Some c' /\ ctx_faithful c' /\ ctx_closed c' /\ ctx_ext c c'
               /\ (forall r, In r rs -> amem r c' = true)
               /\ (forall k, amem k c' = true -> amem k c = true \/ exists r, In r rs /\ reachable h r k).
  Proof.
    induction rs as [|r rs IHrs]; intros c Hr Hd Hf Hc.
    - exists c. unfold thread_ctx; simpl.
      split; [reflexivity|]. split; [exact Hf|]. split; [exact Hc|].
      split; [intros a e H; exact H|]. split; [intros r []|]. intros k Hk; left; exact Hk.
    - rewrite thread_ctx_cons.
      destruct (IH r c (Hr r (or_introl eq_refl)) (Hd r (or_introl eq_refl)) Hf Hc)
        as (c1 & E1 & F1 & C1 & X1 & M1 & R1).
      rewrite E1.
      destruct (IHrs c1 (fun r0 H => Hr r0 (or_intror H)) (fun r0 H => Hd r0 (or_intror H)) F1 C1)
        as (c2 & E2 & F2 & C2 & X2 & M2 & R2).
      exists c2. split; [exact E2|]. split; [exact F2|]. split; [exact C2|].
      split; [intros a e H; apply X2, X1, H|].
      split.
      + intros r0 [<-|Hin]; [eapply ctx_ext_mem; eauto | apply M2; exact Hin].
      + intros k Hk. destruct (R2 k Hk) as [Hk1 | (r0 & Hin & Hre)].
        * destruct (R1 k Hk1) as [Hk0 | Hre]; [left; exact Hk0 | right; exists r; split; [left; reflexivity|exact Hre]].
        * right. exists r0. split; [right; exact Hin|exact Hre].
  Qed.

  Lemma to_reg_spec : forall n, to_reg_ok n.
  Proof.
    induction n as [|n IH]; intros a c Hn Hd Hf Hc; [lia|].
    simpl. destruct (amem a c) eqn:Ea.
    - exists c. split; [reflexivity|]. split; [exact Hf|]. split; [exact Hc|].
      split; [intros x e H; exact H|]. split; [exact Ea|]. intros k Hk; left; exact Hk.
    - destruct (alookup a h) as [o|] eqn:Eo; [|exfalso; exact (Hd a (reach_root h a) Eo)].
      assert (Hr : forall r, In r (o_refs o) -> rank r < n).
      { intros r Hin. pose proof (Hrank a o r Eo Hin). lia. }
      assert (Hdr : forall r, In r (o_refs o) -> defined_below r).
      { intros r Hin b Hb. apply Hd. eapply reach_trans; [|exact Hb]. apply reach_edge. exists o; auto. }
      destruct (thread_ctx_spec n IH (o_refs o) c Hr Hdr Hf Hc) as (c1 & E1 & F1 & C1 & X1 & M1 & R1).
      rewrite E1. exists (c1 ++ [(a, o)]). split; [reflexivity|].
      split; [|split; [|split; [|split]]].
      + intros k e Hk. destruct (alookup k c1) as [e1|] eqn:Ek.
        * rewrite (alookup_app_some _ _ _ _ Ek) in Hk. inversion Hk; subst. apply F1; exact Ek.
        * rewrite (alookup_app_none _ _ _ Ek) in Hk. simpl in Hk.
          destruct (Nat.eqb k a) eqn:Eka; [|discriminate]. apply Nat.eqb_eq in Eka. subst k.
          inversion Hk; subst. exact Eo.
      + intros k e r Hk Hin. apply amem_true.
        assert (Hm : amem r c1 = true).
        { destruct (alookup k c1) as [e1|] eqn:Ek.
          - rewrite (alookup_app_some _ _ _ _ Ek) in Hk. inversion Hk; subst. eapply C1; eauto.
          - rewrite (alookup_app_none _ _ _ Ek) in Hk. simpl in Hk.
            destruct (Nat.eqb k a) eqn:Eka; [|discriminate]. inversion Hk; subst. apply M1; exact Hin. }
        apply amem_true in Hm. destruct Hm as [v Hv]. exists v. apply alookup_app_some; exact Hv.
      + intros k e Hk. apply alookup_app_some. apply X1; exact Hk.
      + apply amem_true. destruct (alookup a c1) as [e1|] eqn:Ek.
        * exists e1. apply alookup_app_some; exact Ek.
        * exists o. rewrite (alookup_app_none _ _ _ Ek). simpl. rewrite Nat.eqb_refl. reflexivity.
      + intros k Hk. apply amem_true in Hk. destruct Hk as [v Hv].
        destruct (alookup k c1) as [e1|] eqn:Ek.
        * assert (Hm : amem k c1 = true) by (apply amem_true; eauto).
          destruct (R1 k Hm) as [H0 | (r & Hin & Hre)]; [left; exact H0|].
          right. eapply reach_trans; [|exact Hre]. apply reach_edge. exists o; auto.
        * rewrite (alookup_app_none _ _ _ Ek) in Hv. simpl in Hv.
          destruct (Nat.eqb k a) eqn:Eka; [|discriminate]. apply Nat.eqb_eq in Eka. subst k.
          right. apply reach_root.
  Qed.

  (* ---- each object is dumped exactly once ---- *)
  Lemma amem_In {A} k (l : list (addr * A)) : amem k l = true <-> In k (map fst l).
  Proof.
    unfold amem. induction l as [|[k' v] l IH]; simpl.
    - split; [discriminate|contradiction].
    - destruct (Nat.eqb k k') eqn:E.
      + apply Nat.eqb_eq in E. subst. split; auto.
      + apply Nat.eqb_neq in E. rewrite IH. split; [auto|]. intros [H|H]; [congruence|exact H].
  Qed.

  Definition to_reg_keys_ok (n : nat) := forall a c c',
    to_reg n h a c = Some c' -> NoDup (map fst c) ->
    NoDup (map fst c') /\ (forall k, In k (map fst c') -> In k (map fst c) \/ rank k <= rank a).

  Lemma thread_ctx_keys n (IH : to_reg_keys_ok n) : forall rs c c',
    thread_ctx (to_reg n h) rs c = Some c' -> NoDup (map fst c) ->
    NoDup (map fst c') /\ (forall k, In k (map fst c') -> In k (map fst c) \/ exists r, In r rs /\ rank k <= rank r).
  Proof.
    induction rs as [|r rs IHrs]; intros c c' H Hn.
    - unfold thread_ctx in H; simpl in H. inversion H; subst. split; auto.
    - rewrite thread_ctx_cons in H. destruct (to_reg n h r c) as [c1|] eqn:E1; [|discriminate].
      destruct (IH r c c1 E1 Hn) as [N1 K1]. destruct (IHrs c1 c' H N1) as [N2 K2].
      split; [exact N2|]. intros k Hk. destruct (K2 k Hk) as [H1|(r0 & Hin & Hle)].
      + destruct (K1 k H1) as [H0|Hle]; [left; exact H0|right; exists r; split; [left; reflexivity|exact Hle]].
      + right; exists r0; split; [right; exact Hin|exact Hle].
  Qed.

  Lemma to_reg_keys : forall n, to_reg_keys_ok n.
  Proof.
    induction n as [|n IH]; intros a c c' H Hn; [discriminate H|].
    simpl in H. destruct (amem a c) eqn:Ea.
    - inversion H; subst. split; auto.
    - destruct (alookup a h) as [o|] eqn:Eo; [|discriminate].
      destruct (thread_ctx (to_reg n h) (o_refs o) c) as [c1|] eqn:E1; [|discriminate].
      inversion H; subst c'. destruct (thread_ctx_keys n IH _ _ _ E1 Hn) as [N1 K1].
      rewrite map_app. simpl. split.
      + apply NoDup_app_one; [exact N1|]. intro Hin.
        destruct (K1 a Hin) as [H0|(r & Hr & Hle)].
        * apply amem_In in H0. congruence.
        * pose proof (Hrank a o r Eo Hr). lia.
      + intros k Hk. apply in_app_or in Hk. destruct Hk as [Hk|[<-|[]]]; [|right; lia].
        destruct (K1 k Hk) as [H0|(r & Hr & Hle)]; [left; exact H0|].
        right. pose proof (Hrank a o r Eo Hr). lia.
  Qed.

  (* ---- from_registry ---- *)
  Variable c : ctxT.
  Hypothesis Cfaith : ctx_faithful c.
  Hypothesis Cclosed : ctx_closed c.

  Definition loadedP (st : lstate Sc) (id a : addr) := alookup id (l_loaded st) = Some a.

  Record J (st : lstate Sc) : Prop := {
    J_obj : forall id a, loadedP st id a ->
            exists e rs, alookup id c = Some e
                         /\ alookup a (l_heap st) = Some (mkobj (o_cls e) (o_scal e) rs)
                         /\ Forall2 (loadedP st) (o_refs e) rs;
    J_inj : forall id1 id2 a, loadedP st id1 a -> loadedP st id2 a -> id1 = id2;
    J_bound_l : forall id a, loadedP st id a -> a < l_next st;
    J_bound_h : forall a o, alookup a (l_heap st) = Some o -> a < l_next st;
    J_surj : forall a o, alookup a (l_heap st) = Some o -> exists id, loadedP st id a
  }.

  Definition st_ext (st st' : lstate Sc) := forall id a, loadedP st id a -> loadedP st' id a.

  Definition from_reg_ok (n : nat) := forall id st,
    rank id < n -> amem id c = true -> J st ->
    exists a st', from_reg n c id st = Some (a, st') /\ J st' /\ loadedP st' id a /\ st_ext st st'
                  /\ (forall k, amem k (l_loaded st') = true -> amem k (l_loaded st) = true \/ rank k <= rank id).

  Definition load_step (n : nat) :=
    (fun (acc : option (list addr * lstate Sc)) r =>
       match acc with
       | Some (rs, st') => match from_reg n c r st' with
                           | Some (a, st'') => Some (rs ++ [a], st'')
                           | None => None
                           end
       | None => None
       end).

  Lemma Forall2_loaded_ext st st' l l' :
    st_ext st st' -> Forall2 (loadedP st) l l' -> Forall2 (loadedP st') l l'.
  Proof. intros He H. induction H; constructor; auto. Qed.

  Lemma thread_load_spec n (IH : from_reg_ok n) : forall rs acc accr st,
    (forall r, In r rs -> rank r < n /\ amem r c = true) ->
    J st -> Forall2 (loadedP st) accr acc ->
    exists ads st', fold_left (load_step n) rs (Some (acc, st)) = Some (acc ++ ads, st')
                    /\ J st' /\ st_ext st st' /\ Forall2 (loadedP st') (accr ++ rs) (acc ++ ads)
                    /\ (forall k, amem k (l_loaded st') = true ->
                                  amem k (l_loaded st) = true \/ exists r, In r rs /\ rank k <= rank r).
  Proof.
    induction rs as [|r rs IHrs]; intros acc accr st Hr HJ Hacc.
    - exists [], st. simpl. rewrite !app_nil_r.
      split; [reflexivity|]. split; [exact HJ|]. split; [intros id a H; exact H|].
      split; [exact Hacc|]. intros k Hk; left; exact Hk.
    - simpl.
      destruct (Hr r (or_introl eq_refl)) as [Hrk Hrm].
      destruct (IH r st Hrk Hrm HJ) as (a & st1 & E1 & J1 & L1 & X1 & K1).
      rewrite E1.
      assert (Hacc1 : Forall2 (loadedP st1) (accr ++ [r]) (acc ++ [a])).
      { apply Forall2_app_one; [eapply Forall2_loaded_ext; eauto | exact L1]. }
      destruct (IHrs (acc ++ [a]) (accr ++ [r]) st1 (fun r0 H => Hr r0 (or_intror H)) J1 Hacc1)
        as (ads & st2 & E2 & J2 & X2 & F2 & K2).
      exists (a :: ads), st2.
      split; [rewrite E2; rewrite <- app_assoc; reflexivity|].
      split; [exact J2|]. split; [intros id0 a0 H; apply X2, X1, H|].
      split; [rewrite <- !app_assoc in F2; exact F2|].
      intros k Hk. destruct (K2 k Hk) as [Hk1 | (r0 & Hin & Hle)].
      + destruct (K1 k Hk1) as [Hk0 | Hle]; [left; exact Hk0 | right; exists r; split; [left; reflexivity|exact Hle]].
      + right. exists r0. split; [right; exact Hin|exact Hle].
  Qed.

  Lemma thread_load_unfold n rs st :
    thread_load (from_reg n c) rs st = fold_left (load_step n) rs (Some ([], st)).
  Proof. reflexivity. Qed.

  Lemma from_reg_spec : forall n, from_reg_ok n.
  Proof.
    induction n as [|n IH]; intros id st Hn Hm HJ; [lia|].
    simpl. destruct (alookup id (l_loaded st)) as [a0|] eqn:El.
    - exists a0, st. split; [reflexivity|]. split; [exact HJ|]. split; [exact El|].
      split; [intros x y H; exact H|]. intros k Hk; left; exact Hk.
    - apply amem_true in Hm. destruct Hm as [e Ee]. rewrite Ee.
      assert (Hrefs : forall r, In r (o_refs e) -> rank r < n /\ amem r c = true).
      { intros r Hin. split.
        - pose proof (Hrank id e r (Cfaith _ _ Ee) Hin). lia.
        - eapply Cclosed; eauto. }
      rewrite thread_load_unfold.
      destruct (thread_load_spec n IH (o_refs e) [] [] st Hrefs HJ (Forall2_nil _))
        as (ads & st1 & E1 & J1 & X1 & F1 & K1).
      rewrite E1. simpl in *.
      set (anew := l_next st1).
      set (st2 := {| l_heap := (anew, mkobj (o_cls e) (o_scal e) ads) :: l_heap st1;
                     l_loaded := (id, anew) :: l_loaded st1; l_next := S anew |}).
      (* id itself was not loaded while its references were *)
      assert (Hid1 : alookup id (l_loaded st1) = None).
      { destruct (alookup id (l_loaded st1)) as [x|] eqn:Ex; [|reflexivity]. exfalso.
        assert (Hm1 : amem id (l_loaded st1) = true) by (apply amem_true; eauto).
        destruct (K1 id Hm1) as [H0 | (r & Hin & Hle)].
        - apply amem_true in H0. destruct H0 as [v Hv]. unfold addr in *. congruence.
        - pose proof (Hrank id e r (Cfaith _ _ Ee) Hin). lia. }
      assert (Hext12 : st_ext st1 st2).
      { intros id0 a1 H. unfold loadedP, st2; simpl.
        destruct (Nat.eqb id0 id) eqn:E0; [|exact H].
        apply Nat.eqb_eq in E0. subst id0. unfold loadedP in H. unfold addr in *. congruence. }
      exists anew, st2. split; [reflexivity|].
      split; [|split; [|split]].
      + constructor.
        * (* J_obj *)
          intros id0 a1 H. unfold loadedP, st2 in H; simpl in H.
          destruct (Nat.eqb id0 id) eqn:E0.
          -- apply Nat.eqb_eq in E0. subst id0. inversion H; subst a1.
             exists e, ads. split; [exact Ee|]. split.
             ++ simpl. rewrite Nat.eqb_refl. reflexivity.
             ++ eapply Forall2_loaded_ext; [exact Hext12|exact F1].
          -- destruct (J_obj _ J1 id0 a1 H) as (e0 & rs0 & A & B & C).
             exists e0, rs0. split; [exact A|]. split.
             ++ simpl. pose proof (J_bound_l _ J1 _ _ H) as Hb.
                destruct (Nat.eqb a1 anew) eqn:E1'; [apply Nat.eqb_eq in E1'; unfold anew in E1'; lia|exact B].
             ++ eapply Forall2_loaded_ext; [exact Hext12|exact C].
        * (* J_inj *)
          intros id1 id2 a1 H1 H2. unfold loadedP, st2 in H1, H2; simpl in H1, H2.
          destruct (Nat.eqb id1 id) eqn:E1'; destruct (Nat.eqb id2 id) eqn:E2'.
          -- apply Nat.eqb_eq in E1', E2'. congruence.
          -- inversion H1; subst a1. pose proof (J_bound_l _ J1 _ _ H2). unfold anew in *. lia.
          -- inversion H2; subst a1. pose proof (J_bound_l _ J1 _ _ H1). unfold anew in *. lia.
          -- eapply (J_inj _ J1); eauto.
        * (* J_bound_l *)
          intros id0 a1 H. unfold loadedP, st2 in H; simpl in *.
          destruct (Nat.eqb id0 id); [inversion H; lia|].
          pose proof (J_bound_l _ J1 _ _ H). unfold anew. lia.
        * (* J_bound_h *)
          intros a1 o H. simpl in *.
          destruct (Nat.eqb a1 anew) eqn:E1'; [apply Nat.eqb_eq in E1'; lia|].
          pose proof (J_bound_h _ J1 _ _ H). unfold anew. lia.
        * (* J_surj *)
          intros a1 o H. simpl in H.
          destruct (Nat.eqb a1 anew) eqn:E1'.
          -- apply Nat.eqb_eq in E1'. subst a1. exists id. unfold loadedP, st2; simpl.
             rewrite Nat.eqb_refl. reflexivity.
          -- destruct (J_surj _ J1 _ _ H) as [id0 H0]. exists id0. apply Hext12. exact H0.
      + unfold loadedP, st2; simpl. rewrite Nat.eqb_refl. reflexivity.
      + intros id0 a1 H. apply Hext12, X1, H.
      + intros k Hk. unfold st2 in Hk; simpl in Hk. unfold amem in Hk. simpl in Hk.
        destruct (Nat.eqb k id) eqn:E0.
        * apply Nat.eqb_eq in E0. subst k. right. lia.
        * destruct (K1 k Hk) as [H0 | (r & Hin & Hle)]; [left; exact H0|].
          right. pose proof (Hrank id e r (Cfaith _ _ Ee) Hin). lia.
  Qed.
End RegProofs.

(* ------------------------------------------------------------------------------------------ *)
(* independence of two loads: a load only creates objects at fresh addresses [base, l_next)     *)
(* ------------------------------------------------------------------------------------------ *)
Section Fresh.
  Variable Sc : Type.
  Variable c : ctx Sc.
  Variable base : addr.

  Definition in_range (st : lstate Sc) : Prop :=
    base <= l_next st /\ forall a o, alookup a (l_heap st) = Some o -> base <= a < l_next st.

  Definition fresh_ok (n : nat) := forall id st a st',
    from_reg n c id st = Some (a, st') -> in_range st -> in_range st' /\ l_next st <= l_next st'.

  Lemma thread_load_fresh n (IH : fresh_ok n) : forall rs acc st ads st',
    fold_left (fun (acc : option (list addr * lstate Sc)) r =>
                 match acc with
                 | Some (rs0, st0) => match from_reg n c r st0 with
                                      | Some (a, st1) => Some (rs0 ++ [a], st1)
                                      | None => None
                                      end
                 | None => None
                 end) rs (Some (acc, st)) = Some (ads, st') ->
    in_range st -> in_range st' /\ l_next st <= l_next st'.
  Proof.
    induction rs as [|r rs IHrs]; intros acc st ads st' H Hr; simpl in H.
    - inversion H; subst. split; [exact Hr|lia].
    - destruct (from_reg n c r st) as [[a st1]|] eqn:E.
      + destruct (IH _ _ _ _ E Hr) as [R1 L1].
        destruct (IHrs _ _ _ _ H R1) as [R2 L2]. split; [exact R2|lia].
      + rewrite fold_none in H; [discriminate H|reflexivity].
  Qed.

  Lemma from_reg_fresh : forall n, fresh_ok n.
  Proof.
    induction n as [|n IH]; intros id st a st' H Hr; [discriminate H|].
    simpl in H. destruct (alookup id (l_loaded st)) as [a0|].
    - inversion H; subst. split; [exact Hr|lia].
    - destruct (alookup id c) as [e|]; [|discriminate H].
      unfold thread_load in H.
      destruct (fold_left _ (o_refs e) (Some ([], st))) as [[rs st1]|] eqn:E; [|discriminate H].
      destruct (thread_load_fresh n IH _ _ _ _ _ E Hr) as [[B1 R1] L1].
      inversion H as [[Ha Hst]]. clear H. unfold in_range. cbn [l_next l_heap].
      split; [split; [lia|]|lia].
      intros a1 o Hl. cbn [alookup] in Hl. destruct (Nat.eqb a1 (l_next st1)) eqn:Ea.
      + apply Nat.eqb_eq in Ea. lia.
      + specialize (R1 _ _ Hl). lia.
  Qed.

  Theorem load_range fuel root r st :
    from_registry fuel c root base = Some (r, st) ->
    forall a o, alookup a (l_heap st) = Some o -> base <= a < l_next st.
  Proof.
    intro H. unfold from_registry in H.
    assert (R0 : in_range {| l_heap := []; l_loaded := []; l_next := base |}).
    { split; simpl; [lia|]. intros a o Ha; discriminate Ha. }
    exact (proj2 (proj1 (from_reg_fresh fuel _ _ _ _ H R0))).
  Qed.
End Fresh.

(* two loads of one dump (from_json called twice) share no object *)
Theorem two_loads_disjoint (Sc : Type) (c : ctx Sc) fuel root b1 b2 r1 st1 r2 st2 :
  from_registry fuel c root b1 = Some (r1, st1) ->
  from_registry fuel c root b2 = Some (r2, st2) ->
  l_next st1 <= b2 ->
  forall a o1 o2, alookup a (l_heap st1) = Some o1 -> alookup a (l_heap st2) = Some o2 -> False.
Proof.
  intros H1 H2 Hb a o1 o2 A1 A2.
  pose proof (load_range Sc c b1 fuel root r1 st1 H1 a o1 A1).
  pose proof (load_range Sc c b2 fuel root r2 st2 H2 a o2 A2). lia.
Qed.

(* ------------------------------------------------------------------------------------------ *)
(* the isomorphism theorem                                                                    *)
(* ------------------------------------------------------------------------------------------ *)
Section Iso.
  Variable Sc : Type.
  Variable h : heap Sc.
  Variable root : addr.
  Variable rank : addr -> nat.
  Hypothesis Hrank : forall a o b, alookup a h = Some o -> In b (o_refs o) -> rank b < rank a.
  Hypothesis Hdef : forall a, reachable h root a -> alookup a h <> None.

  Definition load_map (st : lstate Sc) (a : addr) : addr :=
    match alookup a (l_loaded st) with Some x => x | None => 0 end.

  Theorem dump_load_iso : forall fuel base, rank root < fuel ->
    exists c root' st,
      to_registry fuel h root = Some c
      /\ from_registry fuel c root base = Some (root', st)
      /\ iso h root (l_heap st) root' (load_map st).
  Proof.
    intros fuel base Hfuel.
    assert (F0 : ctx_faithful Sc h []) by (intros a e H; discriminate H).
    assert (C0 : ctx_closed Sc []) by (intros a e r H; discriminate H).
    destruct (to_reg_spec Sc h rank Hrank fuel root [] Hfuel Hdef F0 C0) as (c & E & F & C & _ & M & Rr).
    assert (HJ0 : J Sc c {| l_heap := []; l_loaded := []; l_next := base |}).
    { constructor; unfold loadedP; simpl; intros; try discriminate. }
    destruct (from_reg_spec Sc h rank Hrank c F C fuel root _ Hfuel M HJ0) as (root' & st & E2 & HJ & L & _ & _).
    exists c, root', st. split; [exact E|]. split; [exact E2|].
    (* every reachable object has been loaded *)
    assert (Hall : forall a, reachable h root a -> exists a', alookup a (l_loaded st) = Some a').
    { intros a Ha. induction Ha as [|a b Ha IH Hedge].
      - eexists; exact L.
      - destruct IH as [a' Ha'].
        destruct (J_obj _ _ _ HJ a a' Ha') as (e & rs & A & B & Cc).
        destruct Hedge as (o & Ho & Hin). pose proof (F _ _ A) as Hh. rewrite Hh in Ho. inversion Ho; subst o.
        destruct (Forall2_In_l _ _ _ _ Cc Hin) as (y & _ & Hy). exists y. exact Hy. }
    constructor.
    - unfold load_map. unfold loadedP in L. rewrite L. reflexivity.
    - intros a b Ha Hb Hab. destruct (Hall a Ha) as [a' Ha']. destruct (Hall b Hb) as [b' Hb'].
      unfold load_map in Hab. rewrite Ha', Hb' in Hab. subst b'.
      eapply (J_inj _ _ _ HJ); eauto.
    - intros a o Ha Ho. destruct (Hall a Ha) as [a' Ha'].
      destruct (J_obj _ _ _ HJ a a' Ha') as (e & rs & A & B & Cc).
      pose proof (F _ _ A) as Hh. rewrite Hh in Ho. inversion Ho; subst o.
      unfold load_map at 1. rewrite Ha'. rewrite B. f_equal. f_equal.
      apply Forall2_map_eq.
      clear -Cc. induction Cc; constructor; auto.
      unfold load_map. unfold loadedP in H. rewrite H. reflexivity.
    - intros a' o' Ho'. destruct (J_surj _ _ _ HJ a' o' Ho') as [id Hid].
      destruct (J_obj _ _ _ HJ id a' Hid) as (e & rs & A & _ & _).
      exists id. split.
      + assert (Hm : amem id c = true) by (apply amem_true; eauto).
        destruct (Rr id Hm) as [H0|H0]; [discriminate H0|exact H0].
      + unfold load_map. unfold loadedP in Hid. rewrite Hid. reflexivity.
  Qed.

  (* the dump has exactly one entry per reachable object, and nothing else *)
  Theorem dump_once : forall fuel c, rank root < fuel ->
    to_registry fuel h root = Some c ->
    NoDup (map fst c) /\ (forall k, In k (map fst c) <-> reachable h root k)
    /\ (forall k e, alookup k c = Some e -> alookup k h = Some e).
  Proof.
    intros fuel c Hfuel Hc.
    assert (F0 : ctx_faithful Sc h []) by (intros a e H; discriminate H).
    assert (C0 : ctx_closed Sc []) by (intros a e r H; discriminate H).
    destruct (to_reg_spec Sc h rank Hrank fuel root [] Hfuel Hdef F0 C0) as (c1 & E & F & C & _ & M & Rr).
    unfold to_registry in Hc. rewrite E in Hc. inversion Hc; subst c1.
    split; [|split].
    - apply (to_reg_keys Sc h rank Hrank fuel root [] c E). constructor.
    - intro k. split.
      + intro Hk. apply amem_In in Hk. destruct (Rr k Hk) as [H0|H0]; [discriminate H0|exact H0].
      + intro Hk. apply amem_In. induction Hk as [|a b Ha IH (o & Ho & Hin)]; [exact M|].
        apply amem_true in IH. destruct IH as [e He]. pose proof (F _ _ He) as Hh.
        rewrite Hh in Ho. inversion Ho; subst o. eapply C; eauto.
    - exact F.
  Qed.
End Iso.

(* ------------------------------------------------------------------------------------------ *)
(* consequences of an isomorphism: access paths                                               *)
(* ------------------------------------------------------------------------------------------ *)
Section Paths.
  Variable Sc : Type.
  Variables (h h' : heap Sc) (root root' : addr) (f : addr -> addr).
  Hypothesis Hiso : iso h root h' root' f.

  Lemma follow_iso : forall p a b,
    reachable h root a -> follow h a p = Some b ->
    follow h' (f a) p = Some (f b) /\ reachable h root b.
  Proof.
    induction p as [|i p IH]; intros a b Ha Hf; simpl in *.
    - inversion Hf; subst. split; [reflexivity|assumption].
    - destruct (alookup a h) as [o|] eqn:Eo; [|discriminate].
      destruct (nth_error (o_refs o) i) as [b1|] eqn:En; [|discriminate].
      rewrite (iso_obj _ _ _ _ _ _ Hiso a o Ha Eo). simpl.
      rewrite (map_nth_error f _ _ En).
      apply IH; [|exact Hf].
      eapply reach_step; [exact Ha|]. exists o. split; [exact Eo|]. eapply nth_error_In; eauto.
  Qed.

  (* whatever is reached from the root along a path in the dumped graph is reached along the same
     path in the loaded graph, and two paths lead to ONE object after loading iff they did before *)
  Theorem paths_preserved : forall p a,
    follow h root p = Some a -> follow h' root' p = Some (f a).
  Proof.
    intros p a H. rewrite <- (iso_root _ _ _ _ _ _ Hiso).
    apply (follow_iso p root a (reach_root h root) H).
  Qed.

  Theorem sharing_preserved : forall p1 p2 a1 a2,
    follow h root p1 = Some a1 -> follow h root p2 = Some a2 ->
    (a1 = a2 <-> follow h' root' p1 = follow h' root' p2).
  Proof.
    intros p1 p2 a1 a2 H1 H2.
    destruct (follow_iso p1 root a1 (reach_root h root) H1) as [F1 R1].
    destruct (follow_iso p2 root a2 (reach_root h root) H2) as [F2 R2].
    rewrite (iso_root _ _ _ _ _ _ Hiso) in F1, F2. rewrite F1, F2. split.
    - intros ->; reflexivity.
    - intro E. inversion E. eapply (iso_inj _ _ _ _ _ _ Hiso); eauto.
  Qed.

  (* every value that can be read by following references from an object is the same after loading *)
  Hypothesis Hdef : forall a, reachable h root a -> alookup a h <> None.
  Theorem unfold_preserved : forall fuel a,
    reachable h root a -> unfold fuel h' (f a) = unfold fuel h a.
  Proof.
    induction fuel as [|n IH]; intros a Ha; simpl; [reflexivity|].
    destruct (alookup a h) as [o|] eqn:Eo; [|exfalso; exact (Hdef a Ha Eo)].
    rewrite (iso_obj _ _ _ _ _ _ Hiso a o Ha Eo). simpl. f_equal.
    rewrite map_map. apply map_ext_in. intros b Hb. apply IH.
    eapply reach_step; [exact Ha|]. exists o; split; assumption.
  Qed.

  (* the loaded graph contains nothing else: every loaded object is the image of a dumped one *)
  Theorem loaded_all_images : forall a' o', alookup a' h' = Some o' ->
    exists a, reachable h root a /\ f a = a'.
  Proof. exact (iso_surj _ _ _ _ _ _ Hiso). Qed.
End Paths.

(* ------------------------------------------------------------------------------------------ *)
(* a concrete instance: the simulator at an interruption, one EV shared by its EVSE,           *)
(* ev_history and the pending UnplugEvent                                                      *)
(* ------------------------------------------------------------------------------------------ *)
Open Scope string_scope.
Definition ex_heap : heap nat :=
  [ (10, mkobj "Simulator" 1 [11; 12; 15; 17]);      (* network, event_queue, ev_history[s0], event_history[0] *)
    (11, mkobj "ChargingNetwork" 2 [13]);            (* _EVSEs *)
    (12, mkobj "EventQueue" 3 [14]);                 (* _queue *)
    (13, mkobj "EVSE" 4 [15]);                       (* _ev *)
    (14, mkobj "UnplugEvent" 5 [15]);                (* ev *)
    (15, mkobj "EV" 6 [16]);                         (* _battery *)
    (16, mkobj "Battery" 7 []);
    (17, mkobj "PluginEvent" 8 [15]) ].              (* ev *)
Definition ex_rank (a : addr) : nat :=
  match a with 10 => 4 | 11 => 3 | 12 => 3 | 13 => 2 | 14 => 2 | 17 => 2 | 15 => 1 | _ => 0 end.

Lemma ex_heap_ranked : forall a o b, alookup a ex_heap = Some o -> In b (o_refs o) -> ex_rank b < ex_rank a.
Proof.
  intros a o b H Hin.
  do 18 (destruct a as [|a]; [try discriminate H; inversion H; subst o; simpl in Hin;
                              repeat (destruct Hin as [<-|Hin]; [simpl; lia|]); contradiction|]).
  discriminate H.
Qed.

Lemma ex_heap_defined : forall a, reachable ex_heap 10 a -> alookup a ex_heap <> None.
Proof.
  intros a H. induction H as [|a b Ha IH (o & Ho & Hin)]; [discriminate|].
  do 18 (destruct a as [|a]; [try discriminate Ho; inversion Ho; subst o; simpl in Hin;
                              repeat (destruct Hin as [<-|Hin]; [discriminate|]); contradiction|]).
  discriminate Ho.
Qed.

Definition ex_ctx := Eval vm_compute in to_registry 5 ex_heap 10.
Definition ex_loaded := Eval vm_compute in
  match ex_ctx with Some c => from_registry 5 c 10 100 | None => None end.

(* the dump visits the shared EV once (8 entries, EV before everything that refers to it); after
   loading, the three access paths to the EV lead to one object, and the loaded heap has exactly
   eight objects *)
Lemma ex_dump_load :
  exists c root' st,
    to_registry 5 ex_heap 10 = Some c /\ map fst c = [16; 15; 13; 11; 14; 12; 17; 10]
    /\ from_registry 5 c 10 100 = Some (root', st)
    /\ follow (l_heap st) root' [0; 0; 0] = follow (l_heap st) root' [2]       (* network._EVSEs[0]._ev  vs ev_history *)
    /\ follow (l_heap st) root' [1; 0; 0] = follow (l_heap st) root' [2]       (* event_queue._queue[0].ev vs ev_history *)
    /\ follow (l_heap st) root' [3; 0] = follow (l_heap st) root' [2]          (* event_history[0].ev vs ev_history *)
    /\ follow (l_heap st) root' [2] <> None
    /\ List.length (l_heap st) = 8.
Proof.
  destruct ex_ctx as [c|] eqn:Ec; [|discriminate Ec].
  destruct ex_loaded as [[r st]|] eqn:El; [|vm_compute in El; discriminate El].
  exists c, r, st. vm_compute in Ec. inversion Ec; subst c. vm_compute in El. inversion El; subst r st.
  repeat split; try (vm_compute; reflexivity). vm_compute. discriminate.
Qed.
